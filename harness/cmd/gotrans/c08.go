package main

import (
	"fmt"
	"go/ast"
	"go/token"
	"os"
	"path/filepath"
	"sort"
	"strings"

	"pdverif/internal/goast"
)

func init() { gens["C08"] = genC08 }

// the quoted source text must not depend on the names of local variables: see alpha_c08.go
func c08Normalize(f *goast.File) {
	for _, d := range f.AST.Decls {
		if fd, ok := d.(*ast.FuncDecl); ok {
			alphaLocals(f.Fset, fd)
		}
	}
}

// method values `b.<name>` inside the first composite literal of the function, in source order
func c08CompositeMethods(f *goast.File, fd *ast.FuncDecl) ([]string, error) {
	var out []string
	found := false
	ast.Inspect(fd.Body, func(n ast.Node) bool {
		cl, ok := n.(*ast.CompositeLit)
		if !ok || found {
			return !found
		}
		found = true
		for _, e := range cl.Elts {
			se, ok := e.(*ast.SelectorExpr)
			if !ok {
				out = append(out, "?"+f.Src(e))
				continue
			}
			out = append(out, se.Sel.Name)
		}
		return false
	})
	if !found || len(out) == 0 {
		return nil, fmt.Errorf("%s: no list of method values found in %s", f.Path, fd.Name.Name)
	}
	return out, nil
}

// names of the methods called on the receiver whose name starts with prefix, in source order
func c08CallsWithPrefix(fd *ast.FuncDecl, prefix string) []string {
	type pc struct {
		pos  token.Pos
		name string
	}
	var cs []pc
	ast.Inspect(fd.Body, func(n ast.Node) bool {
		c, ok := n.(*ast.CallExpr)
		if !ok {
			return true
		}
		if se, ok := c.Fun.(*ast.SelectorExpr); ok && strings.HasPrefix(se.Sel.Name, prefix) {
			cs = append(cs, pc{se.Sel.Pos(), se.Sel.Name})
		}
		return true
	})
	sort.Slice(cs, func(i, j int) bool { return cs[i].pos < cs[j].pos })
	out := make([]string, len(cs))
	for i, c := range cs {
		out[i] = c.name
	}
	return out
}

// argument text of every call of method `name`, in source order
func c08CallArgs(f *goast.File, fd *ast.FuncDecl, name string) []string {
	type pc struct {
		pos token.Pos
		s   string
	}
	var cs []pc
	ast.Inspect(fd.Body, func(n ast.Node) bool {
		c, ok := n.(*ast.CallExpr)
		if !ok {
			return true
		}
		if se, ok := c.Fun.(*ast.SelectorExpr); ok && se.Sel.Name == name {
			args := make([]string, len(c.Args))
			for i, a := range c.Args {
				args[i] = f.Src(a)
			}
			cs = append(cs, pc{se.Sel.Pos(), strings.Join(args, ", ")})
		}
		return true
	})
	sort.Slice(cs, func(i, j int) bool { return cs[i].pos < cs[j].pos })
	out := make([]string, len(cs))
	for i, c := range cs {
		out[i] = c.s
	}
	return out
}

// the case list of the switch on peer.GetRole() whose body returns false
func c08NoLeaderRoles(f *goast.File, fd *ast.FuncDecl) ([]string, error) {
	var out []string
	found := false
	ast.Inspect(fd.Body, func(n ast.Node) bool {
		sw, ok := n.(*ast.SwitchStmt)
		if !ok || found {
			return !found
		}
		if sw.Tag == nil || !strings.Contains(f.Src(sw.Tag), "GetRole()") {
			return true
		}
		found = true
		for _, c := range sw.Body.List {
			cc := c.(*ast.CaseClause)
			rejects := false
			for _, st := range cc.Body {
				if r, ok := st.(*ast.ReturnStmt); ok && len(r.Results) == 1 && f.Src(r.Results[0]) == "false" {
					rejects = true
				}
			}
			if !rejects {
				continue
			}
			for _, e := range cc.List {
				s := f.Src(e)
				out = append(out, s[strings.LastIndex(s, ".")+1:])
			}
		}
		return false
	})
	if !found {
		return nil, fmt.Errorf("%s: allowLeader has no switch on peer.GetRole()", f.Path)
	}
	return out, nil
}

// types of step.go that implement OpStep (have a CheckSafety method), in source order
func c08StepKinds(f *goast.File) []string {
	var out []string
	for _, d := range f.AST.Decls {
		fd, ok := d.(*ast.FuncDecl)
		if !ok || fd.Recv == nil || fd.Name.Name != "CheckSafety" {
			continue
		}
		t := fd.Recv.List[0].Type
		if s, ok := t.(*ast.StarExpr); ok {
			t = s.X
		}
		if id, ok := t.(*ast.Ident); ok {
			out = append(out, id.Name)
		}
	}
	return out
}

var c08BuilderAPI = set("NewBuilder", "AddPeer", "RemovePeer", "PromoteLearner", "DemoteVoter", "SetLeader", "SetPeers",
	"SetExpectedRoles", "EnableLightWeight", "EnableForceTargetLeader", "Build", "SkipOriginJointStateCheck")

// builder API names used by a Create*Operator helper, in source order
func c08HelperCalls(fd *ast.FuncDecl) []string {
	type pc struct {
		pos  token.Pos
		name string
	}
	var cs []pc
	ast.Inspect(fd.Body, func(n ast.Node) bool {
		switch x := n.(type) {
		case *ast.CallExpr:
			switch fn := x.Fun.(type) {
			case *ast.SelectorExpr:
				if c08BuilderAPI[fn.Sel.Name] {
					cs = append(cs, pc{fn.Sel.Pos(), fn.Sel.Name})
				}
			case *ast.Ident:
				if c08BuilderAPI[fn.Name] {
					cs = append(cs, pc{fn.Pos(), fn.Name})
				}
			}
			for _, a := range x.Args {
				if id, ok := a.(*ast.Ident); ok && id.Name == "SkipOriginJointStateCheck" {
					cs = append(cs, pc{id.Pos(), id.Name})
				}
			}
		}
		return true
	})
	sort.Slice(cs, func(i, j int) bool { return cs[i].pos < cs[j].pos })
	out := make([]string, len(cs))
	for i, c := range cs {
		out[i] = c.name
	}
	return out
}

func genC08(repo string) (string, error) {
	var o out
	f, err := goast.Load(repo, "server/schedule/operator/builder.go")
	if err != nil {
		return "", err
	}
	c08Normalize(f)
	get := func(name string) (*ast.FuncDecl, error) { return f.Func("Builder", name) }

	fd, err := get("peerPlan")
	if err != nil {
		return "", err
	}
	order := c08CallsWithPrefix(fd, "plan")
	if len(order) == 0 {
		return "", fmt.Errorf("%s: peerPlan calls no plan* alternative", f.Path)
	}
	o.strList("plan_order", order, "builder.go peerPlan: the alternatives in the order they are tried")

	fd, err = get("initStepPlanPreferFuncs")
	if err != nil {
		return "", err
	}
	prefs, err := c08CompositeMethods(f, fd)
	if err != nil {
		return "", err
	}
	o.strList("plan_prefs", prefs, "builder.go initStepPlanPreferFuncs: comparison order of comparePlan")

	fd, err = get("setTargetLeaderIfNotExist")
	if err != nil {
		return "", err
	}
	lprefs, err := c08CompositeMethods(f, fd)
	if err != nil {
		return "", err
	}
	o.strList("leader_prefs", lprefs, "builder.go setTargetLeaderIfNotExist: leaderPreferFuncs")

	fd, err = get("allowLeader")
	if err != nil {
		return "", err
	}
	roles, err := c08NoLeaderRoles(f, fd)
	if err != nil {
		return "", err
	}
	o.strList("no_leader_roles", roles, "builder.go allowLeader: roles of the rejecting case")
	opt := goast.SkelOpt{Calls: set("GetStore", "Target", "MatchLabelConstraints"), Conds: true}
	if err := o.skeleton(f, "Builder", "allowLeader", "skel_allowLeader", opt); err != nil {
		return "", err
	}

	// shape of the two build paths: order of the exec* calls
	execs := set("execAddPeer", "execPromoteLearner", "execDemoteFollower", "execRemovePeer", "execTransferLeader",
		"execChangePeerV2", "setTargetLeaderIfNotExist", "peerPlan", "initStepPlanPreferFuncs", "IsEmpty")
	for _, fn := range []string{"buildStepsWithJointConsensus", "buildStepsWithoutJointConsensus"} {
		if err := o.skeleton(f, "Builder", fn, "skel_"+fn, goast.SkelOpt{Calls: execs, Conds: true}); err != nil {
			return "", err
		}
	}
	if err := o.skeleton(f, "Builder", "execChangePeerV2", "skel_execChangePeerV2",
		goast.SkelOpt{Calls: execs, Assigns: set("steps", "toPromote", "toDemote"), Conds: true}); err != nil {
		return "", err
	}
	fd, err = get("buildStepsWithJointConsensus")
	if err != nil {
		return "", err
	}
	o.strList("joint_v2_args", c08CallArgs(f, fd, "execChangePeerV2"), "arguments of the execChangePeerV2 calls of the joint path, source order")
	fd, err = get("planReplace")
	if err != nil {
		return "", err
	}
	// the guards of the four replace alternatives (if conditions of planReplace, source order)
	var guards []string
	ast.Inspect(fd.Body, func(n ast.Node) bool {
		if is, ok := n.(*ast.IfStmt); ok {
			guards = append(guards, f.Src(is.Cond))
		}
		return true
	})
	o.strList("replace_guards", guards, "builder.go planReplace: if-conditions, source order")
	// full shape of the plan alternatives: loops, guards, which candidates reach comparePlan
	planCalls := set("planReplace", "planPromotePeer", "planDemotePeer", "planRemovePeer", "planAddPeer",
		"planReplaceLeaders", "comparePlan", "allowLeader", "allowLeaderAfter", "IsEmpty")
	// allowLeaderAfter: allowLeader evaluated with another store as the current leader (saved, set, restored)
	if err := o.skeleton(f, "Builder", "allowLeaderAfter", "skel_allowLeaderAfter",
		goast.SkelOpt{Calls: set("allowLeader"), Assigns: set("currentLeaderStoreID", "local1"), Conds: true}); err != nil {
		return "", err
	}
	for _, fn := range []string{"peerPlan", "planReplace", "planReplaceLeaders", "planPromotePeer", "planDemotePeer", "planRemovePeer", "planAddPeer"} {
		if err := o.skeleton(f, "Builder", fn, "skel_"+fn, goast.SkelOpt{Calls: planCalls, Conds: true, Branches: true}); err != nil {
			return "", err
		}
	}
	fd, err = get("planReplace")
	if err != nil {
		return "", err
	}
	o.strList("replace_candidates", c08CallArgs(f, fd, "planReplaceLeaders"), "builder.go planReplace: the candidates handed to planReplaceLeaders, source order")
	// local definitions of planReplace (name := expression), source order
	var defs []string
	ast.Inspect(fd.Body, func(n ast.Node) bool {
		if as, ok := n.(*ast.AssignStmt); ok && as.Tok == token.DEFINE && len(as.Lhs) == 1 && len(as.Rhs) == 1 {
			if id, ok := as.Lhs[0].(*ast.Ident); ok {
				if _, isBin := as.Rhs[0].(*ast.BinaryExpr); isBin {
					defs = append(defs, id.Name+" := "+f.Src(as.Rhs[0]))
				}
			}
		}
		return true
	})
	o.strList("replace_defs", defs, "builder.go planReplace: boolean local definitions, source order")
	fd, err = get("prepareBuild")
	if err != nil {
		return "", err
	}
	var pguards []string
	ast.Inspect(fd.Body, func(n ast.Node) bool {
		if is, ok := n.(*ast.IfStmt); ok {
			pguards = append(pguards, f.Src(is.Cond))
		}
		return true
	})
	o.strList("prepare_guards", pguards, "builder.go prepareBuild: if-conditions, source order")

	sf, err := goast.Load(repo, "server/schedule/operator/step.go")
	if err != nil {
		return "", err
	}
	c08Normalize(sf)
	lfd, err := sf.Func("ChangePeerV2Leave", "ConfVerChanged")
	if err != nil {
		return "", err
	}
	largs := c08CallArgs(sf, lfd, "GetStorePeer")
	if len(largs) != 1 {
		return "", fmt.Errorf("%s: ChangePeerV2Leave.ConfVerChanged: expected exactly one GetStorePeer call, found %d", sf.Path, len(largs))
	}
	fmt.Fprintf(&o.sb, "Definition leave_cvc_lookup_arg : string := %s. (* step.go ChangePeerV2Leave.ConfVerChanged: argument of GetStorePeer *)\n", goast.Q(largs[0]))
	kinds := c08StepKinds(sf)
	if len(kinds) == 0 {
		return "", fmt.Errorf("%s: no OpStep implementation found", sf.Path)
	}
	o.strList("step_kinds", kinds, "step.go: types with a CheckSafety method")

	// where peer ids come from: every metapb.Peer literal of non-test code under server/ that sets `Id`
	// (everything else reaches the builder with id 0 and gets b.cluster.AllocID())
	lits, err := c08PeerLiteralsWithID(repo)
	if err != nil {
		return "", err
	}
	o.strList("peer_literals_with_id", lits, "server/**: metapb.Peer{... Id: e ...} literals outside tests and mocks: file: function: e")

	cf, err := goast.Load(repo, "server/schedule/operator/create_operator.go")
	if err != nil {
		return "", err
	}
	helpers := []string{"CreateAddPeerOperator", "CreatePromoteLearnerOperator", "CreateRemovePeerOperator",
		"CreateTransferLeaderOperator", "CreateForceTransferLeaderOperator", "CreateMoveRegionOperator", "CreateMovePeerOperator",
		"CreateReplaceLeaderPeerOperator", "CreateMoveLeaderOperator", "CreateMergeRegionOperator", "CreateScatterRegionOperator",
		"CreateLeaveJointStateOperator"}
	var rows []string
	for _, h := range helpers {
		hd, err := cf.Func("", h)
		if err != nil {
			return "", err
		}
		calls := c08HelperCalls(hd)
		qs := make([]string, len(calls))
		for i, c := range calls {
			qs[i] = goast.Q(c)
		}
		rows = append(rows, "("+goast.Q(h)+", "+goast.CoqList(qs)+")")
	}
	fmt.Fprintf(&o.sb, "Definition helper_calls : list (string * list string) := (* create_operator.go: builder API calls per helper, source order *)\n  %s.\n",
		"["+strings.Join(rows, ";\n   ")+"]")
	// who may build on a region that is in a joint state: every function of non-test code under server/ that names the
	// option SkipOriginJointStateCheck (a new admin / recovery entry point that passes it gets the planner an origin it
	// was not written for), and every helper of create_operator.go that lets its caller pass builder options
	sk, err := goast.LiteralSites(repo, []string{"server"}, "", "SkipOriginJointStateCheck")
	if err != nil {
		return "", err
	}
	o.strList("skip_joint_check_sites", sk, "server/**: functions that name SkipOriginJointStateCheck")
	var optHelpers []string
	for _, d := range cf.AST.Decls {
		fd, ok := d.(*ast.FuncDecl)
		if !ok || fd.Recv != nil || fd.Type.Params == nil {
			continue
		}
		for _, prm := range fd.Type.Params.List {
			if strings.Contains(cf.Src(prm.Type), "BuilderOption") {
				optHelpers = append(optHelpers, fd.Name.Name)
			}
		}
	}
	o.strList("helpers_taking_builder_options", optHelpers, "create_operator.go: functions with a BuilderOption parameter")
	// the gRPC layer above the builder: the region ScatterRegion hands to the scatterer (and so to the builder) is the one
	// PD learnt from heartbeats - leader, pending and down peers included; the request's own copy is used only for a
	// region PD does not know at all
	gf, err := goast.Load(repo, "server/grpc_service.go")
	if err != nil {
		return "", err
	}
	c08Normalize(gf)
	if err := o.skeleton(gf, "Server", "ScatterRegion", "skel_grpc_ScatterRegion",
		goast.SkelOpt{Calls: set("GetRegion", "NewRegionInfo", "Scatter", "ScatterRegions"), Conds: true}); err != nil {
		return "", err
	}
	return o.sb.String(), nil
}

// every composite literal of type metapb.Peer with an `Id` field in non-test, non-mock code under server/
func c08PeerLiteralsWithID(repo string) ([]string, error) {
	var out []string
	root := filepath.Join(repo, "server")
	err := filepath.Walk(root, func(p string, info os.FileInfo, err error) error {
		if err != nil {
			return err
		}
		if info.IsDir() || !strings.HasSuffix(p, ".go") || strings.HasSuffix(p, "_test.go") ||
			strings.Contains(p, "mock") || strings.HasSuffix(p, "test_util.go") || strings.Contains(p, "testutil") ||
			strings.Contains(filepath.Base(p), "verif_export") {
			return nil
		}
		rel, _ := filepath.Rel(repo, p)
		f, err := goast.Load(repo, rel)
		if err != nil {
			return err
		}
		for _, d := range f.AST.Decls {
			fd, ok := d.(*ast.FuncDecl)
			if !ok || fd.Body == nil {
				continue
			}
			alphaLocals(f.Fset, fd)
			ast.Inspect(fd.Body, func(n ast.Node) bool {
				cl, ok := n.(*ast.CompositeLit)
				if !ok {
					return true
				}
				if se, ok := cl.Type.(*ast.SelectorExpr); !ok || se.Sel.Name != "Peer" || f.Src(se.X) != "metapb" {
					return true
				}
				for _, e := range cl.Elts {
					if kv, ok := e.(*ast.KeyValueExpr); ok && f.Src(kv.Key) == "Id" {
						out = append(out, rel+": "+fd.Name.Name+": "+f.Src(kv.Value))
					}
				}
				return true
			})
		}
		return nil
	})
	sort.Strings(out)
	return out, err
}
