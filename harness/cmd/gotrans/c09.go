package main

import (
	"fmt"
	"go/ast"
	"go/token"
	"strconv"
	"sort"
	"strings"

	"pdverif/internal/goast"
)

func init() { gens["C09"] = genC09 }

// a binary comparison printed as a Gallina function Z -> Z -> bool
func c09CmpFun(op token.Token) (string, error) {
	switch op {
	case token.GTR:
		return "fun a b : Z => Z.ltb b a", nil
	case token.GEQ:
		return "fun a b : Z => Z.leb b a", nil
	case token.LSS:
		return "fun a b : Z => Z.ltb a b", nil
	case token.LEQ:
		return "fun a b : Z => Z.leb a b", nil
	case token.NEQ:
		return "fun a b : Z => negb (Z.eqb a b)", nil
	case token.EQL:
		return "fun a b : Z => Z.eqb a b", nil
	}
	return "", fmt.Errorf("unsupported comparison %s", op)
}

// first binary comparison in fd whose source text contains all of `needles`
func c09FindCmp(f *goast.File, fd *ast.FuncDecl, needles ...string) (*ast.BinaryExpr, error) {
	var hit *ast.BinaryExpr
	ast.Inspect(fd.Body, func(n ast.Node) bool {
		be, ok := n.(*ast.BinaryExpr)
		if !ok || hit != nil {
			return hit == nil
		}
		switch be.Op {
		case token.GTR, token.GEQ, token.LSS, token.LEQ, token.NEQ, token.EQL:
		default:
			return true
		}
		src := f.Src(be)
		for _, nd := range needles {
			if !strings.Contains(src, nd) {
				return true
			}
		}
		// the innermost comparison: neither operand is itself a boolean combination
		if _, ok := be.X.(*ast.BinaryExpr); ok {
			if x := be.X.(*ast.BinaryExpr); x.Op == token.LAND || x.Op == token.LOR {
				return true
			}
		}
		hit = be
		return false
	})
	if hit == nil {
		return nil, fmt.Errorf("%s: comparison mentioning %v not found in %s", f.Path, needles, fd.Name.Name)
	}
	return hit, nil
}

func genC09(repo string) (string, error) {
	var o out
	// C09's model is built on model/C08_Steps.v, which reads step.go facts from Gen_C08.v: checks/C09.json lists
	// "gen_ids": ["C09", "C08"], so bin/check regenerates both
	sf, err := goast.Load(repo, "server/schedule/operator/status.go")
	if err != nil {
		return "", err
	}
	// status enumeration (iota order)
	var names []string
	for _, d := range sf.AST.Decls {
		gd, ok := d.(*ast.GenDecl)
		if !ok || gd.Tok != token.CONST {
			continue
		}
		isStatus := false
		for _, s := range gd.Specs {
			vs := s.(*ast.ValueSpec)
			for _, n := range vs.Names {
				if n.Name == "CREATED" {
					isStatus = true
				}
			}
		}
		if !isStatus {
			continue
		}
		for _, s := range gd.Specs {
			vs := s.(*ast.ValueSpec)
			for _, n := range vs.Names {
				if n.Name == "statusCount" || n.Name == "firstEndStatus" {
					continue
				}
				names = append(names, n.Name)
			}
		}
	}
	if len(names) == 0 {
		return "", fmt.Errorf("%s: status enumeration not found", sf.Path)
	}
	idx := map[string]int{}
	for _, n := range names {
		v, err := sf.ConstZ(n)
		if err != nil {
			return "", err
		}
		k, _ := strconv.Atoi(v)
		idx[n] = k
	}
	ordered := make([]string, len(names))
	for n, k := range idx {
		if k < 0 || k >= len(ordered) || ordered[k] != "" {
			return "", fmt.Errorf("%s: status values are not 0..n-1", sf.Path)
		}
		ordered[k] = n
	}
	o.strList("status_names", ordered, "status.go: OpStatus enumeration in iota order")
	if err := o.constZ(sf, "statusCount", "status_count"); err != nil {
		return "", err
	}
	if err := o.constZ(sf, "firstEndStatus", "first_end_status"); err != nil {
		return "", err
	}
	// validTrans
	var lit *ast.CompositeLit
	for _, d := range sf.AST.Decls {
		gd, ok := d.(*ast.GenDecl)
		if !ok || gd.Tok != token.VAR {
			continue
		}
		for _, s := range gd.Specs {
			vs := s.(*ast.ValueSpec)
			for i, n := range vs.Names {
				if n.Name == "validTrans" && i < len(vs.Values) {
					lit, _ = vs.Values[i].(*ast.CompositeLit)
				}
			}
		}
	}
	if lit == nil {
		return "", fmt.Errorf("%s: validTrans literal not found", sf.Path)
	}
	n := len(ordered)
	mat := make([][]bool, n)
	for i := range mat {
		mat[i] = make([]bool, n)
	}
	for _, e := range lit.Elts {
		kv, ok := e.(*ast.KeyValueExpr)
		if !ok {
			return "", fmt.Errorf("%s: validTrans row without key", sf.Path)
		}
		from, ok := idx[sf.Src(kv.Key)]
		if !ok {
			return "", fmt.Errorf("%s: validTrans: unknown status %s", sf.Path, sf.Src(kv.Key))
		}
		row, ok := kv.Value.(*ast.CompositeLit)
		if !ok {
			return "", fmt.Errorf("%s: validTrans row %s is not a literal", sf.Path, sf.Src(kv.Key))
		}
		for _, c := range row.Elts {
			ckv, ok := c.(*ast.KeyValueExpr)
			if !ok {
				return "", fmt.Errorf("%s: validTrans cell without key", sf.Path)
			}
			to, ok := idx[sf.Src(ckv.Key)]
			if !ok {
				return "", fmt.Errorf("%s: validTrans: unknown status %s", sf.Path, sf.Src(ckv.Key))
			}
			switch sf.Src(ckv.Value) {
			case "true":
				mat[from][to] = true
			case "false":
			default:
				return "", fmt.Errorf("%s: validTrans cell %s is not a boolean literal", sf.Path, sf.Src(ckv.Value))
			}
		}
	}
	rows := make([]string, n)
	for i := range mat {
		cs := make([]string, n)
		for j := range mat[i] {
			cs[j] = strconv.FormatBool(mat[i][j])
		}
		rows[i] = goast.CoqList(cs)
	}
	fmt.Fprintf(&o.sb, "Definition valid_trans : list (list bool) := (* status.go validTrans, rows = from, columns = to *)\n  [%s].\n", strings.Join(rows, ";\n   "))

	// status tracker: the guard of toLocked
	tf, err := goast.Load(repo, "server/schedule/operator/status_tracker.go")
	if err != nil {
		return "", err
	}
	c08Normalize(tf)
	for _, fn := range []string{"toLocked", "CheckExpired", "CheckTimeout"} {
		if err := o.skeleton(tf, "OpStatusTracker", fn, "skel_trk_"+fn,
			goast.SkelOpt{Calls: set("toLocked", "setTime", "Since"), Assigns: set("current"), Conds: true}); err != nil {
			return "", err
		}
	}

	of, err := goast.Load(repo, "server/schedule/operator/operator.go")
	if err != nil {
		return "", err
	}
	for _, c := range []string{"OperatorExpireTime", "FastOperatorWaitTime", "SlowOperatorWaitTime"} {
		if err := o.constZ(of, c, c); err != nil {
			return "", err
		}
	}
	c08Normalize(of)
	for _, fn := range []string{"Check", "ConfVerChanged", "CheckSuccess", "CheckTimeout", "CheckExpired"} {
		if err := o.skeleton(of, "Operator", fn, "skel_op_"+fn,
			goast.SkelOpt{Calls: set("IsEnd", "IsFinish", "CheckTimeout", "CheckSuccess", "CheckExpired", "To", "ConfVerChanged", "StoreInt32", "LoadInt32"),
				Assigns: set("current", "total", "local1"), Conds: true}); err != nil { // local1 = ConfVerChanged's cursor copy (`current`)
			return "", err
		}
	}

	cf, err := goast.Load(repo, "server/schedule/operator_controller.go")
	if err != nil {
		return "", err
	}
	c08Normalize(cf)
	fd, err := cf.Func("OperatorController", "checkStaleOperator")
	if err != nil {
		return "", err
	}
	be, err := c09FindCmp(cf, fd, "GetConfVer() -", "ConfVerChanged")
	if err != nil {
		return "", err
	}
	fn, err := c09CmpFun(be.Op)
	if err != nil {
		return "", err
	}
	if !strings.Contains(cf.Src(be.X), "GetConfVer() -") || !strings.Contains(cf.Src(be.Y), "ConfVerChanged") {
		return "", fmt.Errorf("%s: stale test is not of the form `<conf_ver difference> <op> op.ConfVerChanged(region)`: %s", cf.Path, cf.Src(be))
	}
	fmt.Fprintf(&o.sb, "Definition stale_cmp_gt : Z -> Z -> bool := %s. (* checkStaleOperator: %s *)\n", fn, cf.Src(be))
	fmt.Fprintf(&o.sb, "Definition stale_cmp_src : string := %s.\n", goast.Q(cf.Src(be)))

	fd, err = cf.Func("OperatorController", "checkAddOperator")
	if err != nil {
		return "", err
	}
	for _, fld := range []string{"GetVersion", "GetConfVer"} {
		be, err := c09FindCmp(cf, fd, ".GetRegionEpoch()."+fld+"()", ".RegionEpoch()."+fld+"()")
		if err != nil {
			return "", err
		}
		fn, err := c09CmpFun(be.Op)
		if err != nil {
			return "", err
		}
		if !strings.Contains(cf.Src(be.X), "GetRegion(") || !strings.Contains(cf.Src(be.X), ".GetRegionEpoch()") || strings.Contains(cf.Src(be.Y), "GetRegion(") {
			return "", fmt.Errorf("%s: epoch test is not of the form `region... <op> op...`: %s", cf.Path, cf.Src(be))
		}
		fmt.Fprintf(&o.sb, "Definition epoch_mismatch_%s : Z -> Z -> bool := %s. (* checkAddOperator: %s *)\n", fld, fn, cf.Src(be))
	}
	be, err = c09FindCmp(cf, fd, "wopStatus", "GetSchedulerMaxWaitingOperator")
	if err != nil {
		return "", err
	}
	fn, err = c09CmpFun(be.Op)
	if err != nil {
		return "", err
	}
	fmt.Fprintf(&o.sb, "Definition waiting_full : Z -> Z -> bool := %s. (* checkAddOperator: %s *)\n", fn, cf.Src(be))
	fd, err = cf.Func("", "isHigherPriorityOperator")
	if err != nil {
		return "", err
	}
	be, err = c09FindCmp(cf, fd, "new.GetPriorityLevel()", "old.GetPriorityLevel()")
	if err != nil {
		return "", err
	}
	fn, err = c09CmpFun(be.Op)
	if err != nil {
		return "", err
	}
	fmt.Fprintf(&o.sb, "Definition higher_priority : Z -> Z -> bool := %s. (* isHigherPriorityOperator: %s *)\n", fn, cf.Src(be))

	calls := set("GetOperator", "Check", "Status", "checkStaleOperator", "SendScheduleCommand", "pushHistory", "RemoveOperator",
		"PromoteWaitingOperator", "removeOperatorWithoutBury", "removeOperatorLocked", "Cancel", "Replace", "Start", "buryOperator",
		"CheckSafety", "ConfVerChanged", "checkAddOperator", "exceedStoreLimitLocked", "addOperatorLocked", "GetRegion", "CheckExpired",
		"PutOperator", "GetOperator", "Put", "SendMsg", "IsEndStatus")
	for _, fn := range []string{"Dispatch", "checkStaleOperator", "AddOperator", "AddWaitingOperator", "PromoteWaitingOperator",
		"checkAddOperator", "addOperatorLocked", "RemoveOperator", "removeOperatorLocked", "buryOperator", "GetOperatorStatus"} {
		if err := o.skeleton(cf, "OperatorController", fn, "skel_oc_"+fn, goast.SkelOpt{Calls: calls, Assigns: set("operators"), Conds: true}); err != nil {
			return "", err
		}
	}

	// the paths that touch a running operator outside Dispatch: the push loop (incl. its "region disappeared" branch)
	// and GetOpInfluence (CheckTimeout / CheckSuccess on every running operator)
	calls2 := set("pollNeedDispatchRegion", "Dispatch", "GetRegion", "removeOperatorLocked", "Cancel", "buryOperator", "Check",
		"CheckTimeout", "CheckSuccess", "getNextPushOperatorTime", "Pop", "Push", "Before")
	for _, fn := range []string{"pollNeedDispatchRegion", "PushOperators", "GetOpInfluence"} {
		if err := o.skeleton(cf, "OperatorController", fn, "skel_oc_"+fn, goast.SkelOpt{Calls: calls2, Conds: true, Branches: true}); err != nil {
			return "", err
		}
	}

	// who changes the running set: every function of operator_controller.go that assigns oc.operators, assigns one of its
	// entries or deletes one (a new way to empty or fill the set - an admin "cancel all", a recovery path - has to cancel,
	// bury and record like the modelled ones), and the exported methods of the controller (the entry points the driver
	// and the model know)
	var writers, exported []string
	for _, d := range cf.AST.Decls {
		fd, ok := d.(*ast.FuncDecl)
		if !ok || fd.Body == nil {
			continue
		}
		if fd.Recv != nil && len(fd.Recv.List) == 1 && strings.Contains(cf.Src(fd.Recv.List[0].Type), "OperatorController") && ast.IsExported(fd.Name.Name) {
			exported = append(exported, fd.Name.Name)
		}
		writes := false
		isRunningSet := func(e ast.Expr) bool {
			if ix, ok := e.(*ast.IndexExpr); ok {
				e = ix.X
			}
			sel, ok := e.(*ast.SelectorExpr)
			return ok && sel.Sel.Name == "operators"
		}
		ast.Inspect(fd.Body, func(n ast.Node) bool {
			switch x := n.(type) {
			case *ast.AssignStmt:
				for _, l := range x.Lhs {
					if isRunningSet(l) {
						writes = true
					}
				}
			case *ast.CallExpr:
				if id, ok := x.Fun.(*ast.Ident); ok && id.Name == "delete" && len(x.Args) == 2 && isRunningSet(x.Args[0]) {
					writes = true
				}
			}
			return true
		})
		if writes {
			writers = append(writers, fd.Name.Name)
		}
	}
	sort.Strings(exported)
	o.strList("running_set_writers", writers, "operator_controller.go: functions that assign or delete entries of oc.operators, source order")
	o.strList("controller_entry_points", exported, "operator_controller.go: exported methods of *OperatorController")
	// the gRPC layer above the controller: which region heartbeats the stream handler drops before
	// RaftCluster.HandleRegionHeartbeat (cache update + Dispatch) sees them - the if-conditions of Server.RegionHeartbeat
	// whose body ends the iteration with `continue`, source order
	gf, err := goast.Load(repo, "server/grpc_service.go")
	if err != nil {
		return "", err
	}
	hbfd, err := gf.Func("Server", "RegionHeartbeat")
	if err != nil {
		return "", err
	}
	var skips []string
	ast.Inspect(hbfd.Body, func(n ast.Node) bool {
		is, ok := n.(*ast.IfStmt)
		if !ok {
			return true
		}
		for _, st := range is.Body.List {
			if br, ok := st.(*ast.BranchStmt); ok && br.Tok == token.CONTINUE {
				skips = append(skips, gf.Src(is.Cond))
			}
		}
		return true
	})
	o.strList("heartbeat_skip_conditions", skips, "grpc_service.go RegionHeartbeat: conditions under which a heartbeat is skipped")
	hf, err := goast.Load(repo, "server/schedule/hbstream/heartbeat_streams.go")
	if err != nil {
		return "", err
	}
	c08Normalize(hf)
	if err := o.skeleton(hf, "HeartbeatStreams", "SendMsg", "skel_SendMsg",
		goast.SkelOpt{Calls: set("GetLeader"), Assigns: set("Header", "RegionId", "RegionEpoch", "TargetPeer"), Conds: true}); err != nil {
		return "", err
	}
	return o.sb.String(), nil
}
