package main

import (
	"bytes"
	"fmt"
	"go/ast"
	"go/printer"
	"go/token"
	"strings"
)

// alphaLocals makes the source text of a function independent of the NAMES of its local variables (C08 / C09
// obligations quote conditions and assignments as text): every identifier that refers to a variable declared inside
// fd's body is renamed in place to a canonical spelling
//   - a local defined once by `x := e` / `var x = e` and never assigned again: the (already canonical) text of e,
//     in parentheses - i.e. the definition is inlined, so the order of independent definitions does not matter either;
//     the i-th result of a multi-valued definition gets the suffix #i;
//   - a range variable: each#k(e) / each#v(e) for the key / value of `range e`;
//   - anything else (accumulators, variables assigned more than once, closure parameters): local1, local2, ... in
//     order of declaration.
//
// Parameters, results, the receiver, fields, functions and package names keep their names.
func alphaLocals(fset *token.FileSet, fd *ast.FuncDecl) {
	if fd == nil || fd.Body == nil {
		return
	}
	inBody := func(p token.Pos) bool { return p >= fd.Body.Pos() && p <= fd.Body.End() }
	// the locals and their declaring positions, fixed before anything is renamed (Object.Pos looks the name up)
	locals := map[*ast.Object]token.Pos{}
	ast.Inspect(fd.Body, func(n ast.Node) bool {
		if id, ok := n.(*ast.Ident); ok && id.Obj != nil && id.Obj.Kind == ast.Var && id.Name != "_" {
			if _, seen := locals[id.Obj]; !seen {
				if p := id.Obj.Pos(); inBody(p) {
					locals[id.Obj] = p
				}
			}
		}
		return true
	})
	isLocal := func(id *ast.Ident) bool {
		if id == nil || id.Obj == nil {
			return false
		}
		_, ok := locals[id.Obj]
		return ok
	}
	declPos := func(id *ast.Ident) token.Pos { return locals[id.Obj] }
	// how often is each local written after its declaration?
	writes := map[*ast.Object]int{}
	note := func(e ast.Expr) {
		if id, ok := e.(*ast.Ident); ok && isLocal(id) {
			writes[id.Obj]++
		}
	}
	ast.Inspect(fd.Body, func(n ast.Node) bool {
		switch x := n.(type) {
		case *ast.AssignStmt:
			if x.Tok != token.DEFINE {
				for _, l := range x.Lhs {
					note(l)
				}
			} else {
				for _, l := range x.Lhs { // `a, err := ...` re-using an existing a
					if id, ok := l.(*ast.Ident); ok && isLocal(id) && declPos(id) != id.Pos() {
						writes[id.Obj]++
					}
				}
			}
		case *ast.IncDecStmt:
			note(x.X)
		case *ast.RangeStmt:
			if x.Tok == token.ASSIGN {
				note(x.Key)
				note(x.Value)
			}
		case *ast.UnaryExpr:
			if x.Op == token.AND {
				note(x.X)
			}
		}
		return true
	})
	src := func(n ast.Node) string {
		var b bytes.Buffer
		printer.Fprint(&b, fset, n)
		return strings.Join(strings.Fields(b.String()), " ")
	}
	canon := map[*ast.Object]string{}
	activeRange := map[string]int{}
	counter := 0
	numbered := func(o *ast.Object) {
		if _, ok := canon[o]; !ok {
			counter++
			canon[o] = fmt.Sprintf("local%d", counter)
		}
	}
	// rename all uses inside n that already have a canonical spelling
	var renameUses func(n ast.Node)
	renameUses = func(n ast.Node) {
		ast.Inspect(n, func(m ast.Node) bool {
			if id, ok := m.(*ast.Ident); ok && isLocal(id) {
				if c, ok := canon[id.Obj]; ok {
					id.Name = c
				}
			}
			return true
		})
	}
	define := func(lhs []ast.Expr, rhs []ast.Expr) {
		for i, l := range lhs {
			id, ok := l.(*ast.Ident)
			if !ok || !isLocal(id) || declPos(id) != id.Pos() {
				continue
			}
			if _, done := canon[id.Obj]; done {
				continue
			}
			if writes[id.Obj] > 0 || len(rhs) == 0 {
				numbered(id.Obj)
				continue
			}
			switch {
			case len(rhs) == len(lhs):
				canon[id.Obj] = "(" + src(rhs[i]) + ")"
			case len(rhs) == 1:
				canon[id.Obj] = fmt.Sprintf("(%s)#%d", src(rhs[0]), i)
			default:
				numbered(id.Obj)
			}
		}
	}
	var walk func(n ast.Node) bool
	walk = func(n ast.Node) bool {
		switch x := n.(type) {
		case *ast.AssignStmt:
			for _, r := range x.Rhs {
				ast.Inspect(r, walk)
				renameUses(r)
			}
			if x.Tok == token.DEFINE {
				define(x.Lhs, x.Rhs)
			}
			for _, l := range x.Lhs {
				renameUses(l)
			}
			return false
		case *ast.DeclStmt:
			if gd, ok := x.Decl.(*ast.GenDecl); ok && gd.Tok == token.VAR {
				for _, s := range gd.Specs {
					vs := s.(*ast.ValueSpec)
					var rhs []ast.Expr
					for _, v := range vs.Values {
						ast.Inspect(v, walk)
						renameUses(v)
						rhs = append(rhs, v)
					}
					lhs := make([]ast.Expr, len(vs.Names))
					for i, nm := range vs.Names {
						lhs[i] = nm
					}
					define(lhs, rhs)
					for _, nm := range vs.Names {
						renameUses(nm)
					}
				}
			}
			return false
		case *ast.RangeStmt:
			var opened []string
			ast.Inspect(x.X, walk)
			renameUses(x.X)
			if x.Tok == token.DEFINE {
				rx := src(x.X)
				for k, e := range []ast.Expr{x.Key, x.Value} {
					if id, ok := e.(*ast.Ident); ok && isLocal(id) && declPos(id) == id.Pos() {
						if writes[id.Obj] > 0 {
							numbered(id.Obj)
						} else if _, done := canon[id.Obj]; !done {
							name := fmt.Sprintf("each#%s(%s)", []string{"k", "v"}[k], rx)
							if d := activeRange[name]; d > 0 {
								// a loop over the same expression inside such a loop: its variable is another one
								name = fmt.Sprintf("each#%s%d(%s)", []string{"k", "v"}[k], d+1, rx)
							}
							canon[id.Obj] = name
							opened = append(opened, fmt.Sprintf("each#%s(%s)", []string{"k", "v"}[k], rx))
						}
					}
				}
			}
			if x.Key != nil {
				renameUses(x.Key)
			}
			if x.Value != nil {
				renameUses(x.Value)
			}
			for _, n := range opened {
				activeRange[n]++
			}
			ast.Inspect(x.Body, walk)
			for _, n := range opened {
				activeRange[n]--
			}
			return false
		case *ast.Ident:
			if isLocal(x) {
				if _, ok := canon[x.Obj]; !ok {
					numbered(x.Obj) // closure parameters, type-switch bindings, ...
				}
				x.Name = canon[x.Obj]
			}
		}
		return true
	}
	ast.Inspect(fd.Body, walk)
}
