package main

import (
	"fmt"
	"go/ast"
	"sort"
	"strings"

	"pdverif/internal/goast"
)

func init() { gens["C20"] = genC20 }

// callTexts20 lists, in source order, the source text of every call in fd whose selector name is `name`.
func callTexts20(f *goast.File, fd *ast.FuncDecl, name string) []string {
	var out []string
	ast.Inspect(fd.Body, func(n ast.Node) bool {
		c, ok := n.(*ast.CallExpr)
		if !ok {
			return true
		}
		if se, ok := c.Fun.(*ast.SelectorExpr); ok && se.Sel.Name == name {
			out = append(out, f.Src(c))
		}
		return true
	})
	return out
}

// putKeys20 lists the key argument of every clientv3.OpPut in fd, with the statement form it occurs in
// ("ops = append(ops, ...)" means: collected into the op list handed to Then).
func putKeys20(f *goast.File, fd *ast.FuncDecl) []string {
	var out []string
	// the variable handed to .Then(x...)
	opsVar := ""
	ast.Inspect(fd.Body, func(n ast.Node) bool {
		if c, ok := n.(*ast.CallExpr); ok {
			if se, ok := c.Fun.(*ast.SelectorExpr); ok && se.Sel.Name == "Then" && len(c.Args) == 1 && c.Ellipsis.IsValid() {
				opsVar = f.Src(c.Args[0])
			}
		}
		return true
	})
	for _, st := range fd.Body.List {
		ast.Inspect(st, func(n ast.Node) bool {
			c, ok := n.(*ast.CallExpr)
			if !ok {
				return true
			}
			if se, ok := c.Fun.(*ast.SelectorExpr); ok && se.Sel.Name == "OpPut" && len(c.Args) >= 1 {
				form := "other"
				if as, ok := st.(*ast.AssignStmt); ok && len(as.Lhs) == 1 && opsVar != "" && f.Src(as.Lhs[0]) == opsVar {
					if ap, ok := as.Rhs[0].(*ast.CallExpr); ok && f.Src(ap.Fun) == "append" && len(ap.Args) == 2 && f.Src(ap.Args[0]) == opsVar {
						form = "THEN"
					}
				}
				out = append(out, form+":"+f.Src(c.Args[0]))
			}
			return true
		})
	}
	return out
}

// handler table: every method of *Server in grpc_service.go that takes a pdpb request or stream, with
// the ways it validates the caller: "validateRequest", "validateInternalRequest", "compare" (a direct
// comparison of the header's cluster id with s.clusterID), "syncer" (delegates to RegionSyncer.Sync,
// which compares), in source order.
func handlers20(f *goast.File) []string {
	var out []string
	for _, d := range f.AST.Decls {
		fd, ok := d.(*ast.FuncDecl)
		if !ok || fd.Recv == nil || fd.Body == nil || !fd.Name.IsExported() {
			continue
		}
		if r := f.Src(fd.Recv.List[0].Type); r != "*Server" {
			continue
		}
		takesPdpb := false
		for _, p := range fd.Type.Params.List {
			if strings.Contains(f.Src(p.Type), "pdpb.") {
				takesPdpb = true
			}
		}
		if !takesPdpb {
			continue
		}
		var kinds []string
		ast.Inspect(fd.Body, func(n ast.Node) bool {
			switch x := n.(type) {
			case *ast.CallExpr:
				if se, ok := x.Fun.(*ast.SelectorExpr); ok {
					switch se.Sel.Name {
					case "validateRequest", "validateInternalRequest":
						kinds = append(kinds, se.Sel.Name)
					case "Sync":
						if strings.Contains(f.Src(se.X), "GetRegionSyncer()") {
							kinds = append(kinds, "syncer")
						}
					}
				}
			case *ast.BinaryExpr:
				t := f.Src(x)
				if x.Op.String() == "!=" && strings.Contains(t, "GetClusterId()") && strings.Contains(t, ".clusterID") {
					kinds = append(kinds, "compare")
				}
			}
			return true
		})
		qs := make([]string, len(kinds))
		for i, k := range kinds {
			qs[i] = goast.Q(k)
		}
		out = append(out, "("+goast.Q(fd.Name.Name)+", "+goast.CoqList(qs)+")")
	}
	sort.Strings(out)
	return out
}

// preValidation20: for every handler, the names of the calls made on the server (receiver rooted at `s` or `rc`)
// BEFORE the statement that validates the caller, in source order, skipping the forwarding block
// (`if !s.isLocalRequest(...) {...}`). For stream handlers the statements of the receive loop are walked.
// A handler that touches anything before it validates shows up here.
func preValidation20(f *goast.File) []string {
	isValidation := func(n ast.Node) bool {
		found := false
		ast.Inspect(n, func(x ast.Node) bool {
			switch y := x.(type) {
			case *ast.CallExpr:
				if se, ok := y.Fun.(*ast.SelectorExpr); ok {
					switch se.Sel.Name {
					case "validateRequest", "validateInternalRequest":
						found = true
					case "Sync":
						if strings.Contains(f.Src(se.X), "GetRegionSyncer()") {
							found = true
						}
					}
				}
			case *ast.BinaryExpr:
				t := f.Src(y)
				if y.Op.String() == "!=" && strings.Contains(t, "GetClusterId()") && strings.Contains(t, ".clusterID") {
					found = true
				}
			}
			return !found
		})
		return found
	}
	rooted := func(e ast.Expr) bool {
		for {
			switch x := e.(type) {
			case *ast.SelectorExpr:
				e = x.X
			case *ast.CallExpr:
				e = x.Fun
			case *ast.Ident:
				return x.Name == "s" || x.Name == "rc" || x.Name == "server" || x.Name == "stream"
			default:
				return false
			}
		}
	}
	var out []string
	for _, d := range f.AST.Decls {
		fd, ok := d.(*ast.FuncDecl)
		if !ok || fd.Recv == nil || fd.Body == nil || !fd.Name.IsExported() || f.Src(fd.Recv.List[0].Type) != "*Server" {
			continue
		}
		takesPdpb := false
		for _, p := range fd.Type.Params.List {
			if strings.Contains(f.Src(p.Type), "pdpb.") {
				takesPdpb = true
			}
		}
		if !takesPdpb {
			continue
		}
		stmts := fd.Body.List
		for _, st := range stmts { // a stream handler: the receive loop
			if fs, ok := st.(*ast.ForStmt); ok && isValidation(fs) {
				stmts = fs.Body.List
				break
			}
		}
		var calls []string
		validated := false
		for _, st := range stmts {
			if is, ok := st.(*ast.IfStmt); ok && strings.Contains(f.Src(is.Cond), "isLocalRequest") {
				continue
			}
			if isValidation(st) {
				validated = true
				break
			}
			ast.Inspect(st, func(x ast.Node) bool {
				if c, ok := x.(*ast.CallExpr); ok {
					if se, ok := c.Fun.(*ast.SelectorExpr); ok && rooted(se.X) {
						calls = append(calls, goast.Q(se.Sel.Name))
					}
				}
				return true
			})
		}
		if !validated {
			calls = append(calls, goast.Q("<never validates>"))
		}
		out = append(out, "("+goast.Q(fd.Name.Name)+", "+goast.CoqList(calls)+")")
	}
	sort.Strings(out)
	return out
}

func genC20(repo string) (string, error) {
	var o out
	srv, err := goast.Load(repo, "server/server.go")
	if err != nil {
		return "", err
	}
	util, err := goast.Load(repo, "server/util.go")
	if err != nil {
		return "", err
	}
	grpc, err := goast.Load(repo, "server/grpc_service.go")
	if err != nil {
		return "", err
	}
	syn, err := goast.Load(repo, "server/region_syncer/server.go")
	if err != nil {
		return "", err
	}
	opt := goast.SkelOpt{Calls: set("validateRequest", "GetRaftCluster", "bootstrapCluster", "checkBootstrapRequest", "OpPut", "OpGet", "Compare",
		"Commit", "If", "Then", "Else", "SaveRegion", "Flush", "Start", "Put", "Txn", "NewSlowLogTxn", "EtcdKVGet", "initOrGetClusterID",
		"BytesToUint64", "IsClosed", "IsLeader", "IsRunning", "LoadClusterInfo"),
		Assigns: set("clusterID", "running"), Conds: true}
	if err := o.skeletonCanon(grpc, "Server", "Bootstrap", "skel_Bootstrap", opt); err != nil {
		return "", err
	}
	if err := o.skeletonCanon(grpc, "Server", "IsBootstrapped", "skel_IsBootstrapped", opt); err != nil {
		return "", err
	}
	if err := o.skeletonCanon(grpc, "Server", "validateRequest", "skel_validateRequest", opt); err != nil {
		return "", err
	}
	if err := o.skeletonCanon(srv, "Server", "bootstrapCluster", "skel_bootstrapCluster", opt); err != nil {
		return "", err
	}
	if err := o.skeletonCanon(srv, "Server", "initClusterID", "skel_initClusterID", opt); err != nil {
		return "", err
	}
	if err := o.skeletonCanon(srv, "Server", "GetRaftCluster", "skel_GetRaftCluster", opt); err != nil {
		return "", err
	}
	if err := o.skeletonCanon(util, "", "initOrGetClusterID", "skel_initOrGetClusterID", opt); err != nil {
		return "", err
	}
	if err := o.skeletonCanon(util, "", "checkBootstrapRequest", "bootstrap_checks", goast.SkelOpt{Conds: true}); err != nil {
		return "", err
	}
	// the streaming handlers: where the caller is validated relative to the receive loop
	sopt := goast.SkelOpt{Calls: set("Recv", "validateRequest", "HandleTSORequest", "GetRaftCluster", "IsClosed", "syncHistoryRegion", "bindStream", "HandleRegionHeartbeat"), Conds: true}
	if err := o.skeletonCalls(grpc, "Server", "Tso", "skel_Tso", sopt); err != nil {
		return "", err
	}
	if err := o.skeletonCalls(grpc, "Server", "RegionHeartbeat", "skel_RegionHeartbeat", sopt); err != nil {
		return "", err
	}
	if err := o.skeletonCalls(syn, "RegionSyncer", "Sync", "skel_SyncerSync", sopt); err != nil {
		return "", err
	}
	// the other writer of the cluster record <root>/raft: PutClusterConfig -> RaftCluster.PutConfig
	cl, err := goast.Load(repo, "server/cluster/cluster.go")
	if err != nil {
		return "", err
	}
	copt := goast.SkelOpt{Calls: set("putMetaLocked", "SaveMeta", "Clone", "GetId"), Conds: true}
	for _, fn := range []string{"PutConfig", "putMetaLocked"} {
		if err := o.skeletonCanon(cl, "RaftCluster", fn, "skel_"+fn, copt); err != nil {
			return "", err
		}
	}
	bc, err := srv.Func("Server", "bootstrapCluster")
	if err != nil {
		return "", err
	}
	canonList := func(fd *ast.FuncDecl, name string, xs []string, comment string) {
		var t out
		t.strList(name, xs, comment)
		o.sb.WriteString(canonLocals(fd, t.sb.String()))
	}
	canonList(bc, "bootstrap_cmps", srv.Compares(bc), "clientv3.Compare calls of bootstrapCluster")
	canonList(bc, "bootstrap_puts", putKeys20(srv, bc), "clientv3.OpPut keys of bootstrapCluster; ops: = collected into the list handed to Then")
	canonList(bc, "bootstrap_commits", callTexts20(srv, bc, "Commit"), "transaction chains of bootstrapCluster")
	ig, err := util.Func("", "initOrGetClusterID")
	if err != nil {
		return "", err
	}
	canonList(ig, "clusterid_cmps", util.Compares(ig), "clientv3.Compare calls of initOrGetClusterID")
	canonList(ig, "clusterid_commits", callTexts20(util, ig, "Commit"), "transaction chains of initOrGetClusterID")
	// who else writes the bootstrap record or the cluster id key? (every Commit / Put site in server.go, util.go)
	hs := handlers20(grpc)
	if len(hs) < 20 {
		return "", fmt.Errorf("server/grpc_service.go: only %d gRPC handlers found", len(hs))
	}
	fmt.Fprintf(&o.sb, "Definition handlers : list (string * list string) := (* server/grpc_service.go: handler x how it validates the caller *)\n  %s.\n", goast.CoqList(hs))
	fmt.Fprintf(&o.sb, "Definition pre_validation_calls : list (string * list string) := (* server/grpc_service.go: calls on the server before the validating statement *)\n  %s.\n", goast.CoqList(preValidation20(grpc)))
	// RegionSyncer.Sync compares the cluster id itself
	sy, err := syn.Func("RegionSyncer", "Sync")
	if err != nil {
		return "", err
	}
	var conds []string
	ast.Inspect(sy.Body, func(n ast.Node) bool {
		if is, ok := n.(*ast.IfStmt); ok {
			conds = append(conds, syn.Src(is.Cond))
		}
		return true
	})
	canonList(sy, "syncer_sync_conds", conds, "if-conditions of RegionSyncer.Sync, source order")
	// how long the bootstrap transaction (kv.NewSlowLogTxn) waits for etcd: the bound below which a slow commit is still
	// answered by its outcome (the model's Ok outcome covers every latency below it)
	ekv, err := goast.Load(repo, "server/kv/etcd_kv.go")
	if err != nil {
		return "", err
	}
	if err := o.constZ(ekv, "requestTimeout", "kv_request_timeout_ns"); err != nil {
		return "", err
	}
	if err := o.skeletonCanon(ekv, "", "NewSlowLogTxn", "skel_NewSlowLogTxn", goast.SkelOpt{Calls: set("WithTimeout", "Ctx", "Txn"), Conds: true}); err != nil {
		return "", err
	}
	nt, err := ekv.Func("", "NewSlowLogTxn")
	if err != nil {
		return "", err
	}
	canonList(nt, "slowlogtxn_timeouts", callTexts20(ekv, nt, "WithTimeout"), "the context of a NewSlowLogTxn transaction")
	// the start-up identity check: every peer listed in initial-cluster is asked, a peer that does not answer is skipped,
	// the first one that reports another etcd cluster id ends the start-up; nothing ends the walk early
	eu, err := goast.Load(repo, "pkg/etcdutil/etcdutil.go")
	if err != nil {
		return "", err
	}
	if err := o.skeletonCanon(eu, "", "CheckClusterID", "skel_CheckClusterID", goast.SkelOpt{Calls: set("GetClusterFromRemotePeers", "ID", "Errorf"), Conds: true}); err != nil {
		return "", err
	}
	cc, err := eu.Func("", "CheckClusterID")
	if err != nil {
		return "", err
	}
	var flow []string
	ast.Inspect(cc.Body, func(n ast.Node) bool {
		switch x := n.(type) {
		case *ast.IfStmt:
			flow = append(flow, "if "+eu.Src(x.Cond))
		case *ast.BranchStmt:
			flow = append(flow, x.Tok.String())
		case *ast.ReturnStmt:
			flow = append(flow, "return")
		case *ast.RangeStmt:
			flow = append(flow, "range "+eu.Src(x.X))
		}
		return true
	})
	canonList(cc, "check_cluster_id_flow", flow, "conditions, loops and jumps of CheckClusterID, source order")
	sites, err := goast.CallSites(repo, []string{"server"}, "CheckClusterID", nil)
	if err != nil {
		return "", err
	}
	o.strList("check_cluster_id_sites", sites, "callers of etcdutil.CheckClusterID in the server tree")
	se, err := srv.Func("Server", "startEtcd")
	if err != nil {
		return "", err
	}
	canonList(se, "start_etcd_identity_check", callTexts20(srv, se, "CheckClusterID"), "what startEtcd hands to CheckClusterID")
	return o.sb.String(), nil
}
