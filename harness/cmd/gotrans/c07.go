package main

import (
	"fmt"

	"pdverif/internal/goast"
)

func init() { gens["C07"] = genC07 }

// srcDef prints the whole body of a small pure function as normalised source text: the model
// transcribes these functions literally, so any token change must break the `reflexivity` tie.
func (o *out) srcDef(f *goast.File, recv, name, coqName string) error {
	fd, err := f.Func(recv, name)
	if err != nil {
		return err
	}
	fmt.Fprintf(&o.sb, "Definition %s : string := (* %s: (%s).%s, body *)\n  %s.\n", coqName, f.Path, recv, name, goast.Q(f.Src(fd.Body)))
	return nil
}

// c07Skeletons is shared with C06 (which imports the C07 model).
func c07Skeletons(o *out, repo string) error {
	tr, err := goast.Load(repo, "server/core/region_tree.go")
	if err != nil {
		return err
	}
	if err := o.constZ(tr, "defaultBTreeDegree", "defaultBTreeDegree"); err != nil {
		return err
	}
	rg, err := goast.Load(repo, "server/core/region.go")
	if err != nil {
		return err
	}
	// every function of region_tree.go and of RegionsInfo that the model transcribes: whole body as text
	for _, fn := range []string{"length", "getOverlaps", "update", "updateStat", "remove", "search", "searchPrev", "find",
		"scanRange", "scanRanges", "getAdjacentRegions", "RandomRegion", "TotalSize"} {
		if err := o.srcDef(tr, "regionTree", fn, "src_tree_"+fn); err != nil {
			return err
		}
	}
	if err := o.srcDef(tr, "", "newRegionTree", "src_newRegionTree"); err != nil {
		return err
	}
	for _, fn := range []string{"GetRegion", "SetRegion", "updateSubTreeStat", "GetOverlaps", "RemoveRegion", "removeRegionFromSubTree",
		"SearchRegion", "SearchPrevRegion", "ScanRange", "GetAdjacentRegions", "GetAverageRegionSize", "GetStoreRegions",
		"GetStoreLeaderCount", "GetStoreFollowerCount", "GetStoreLearnerCount", "GetStorePendingPeerCount",
		"GetStoreLeaderRegionSize", "GetStoreFollowerRegionSize", "GetStoreLearnerRegionSize",
		"RandLeaderRegion", "RandFollowerRegion", "RandLearnerRegion", "RandPendingRegion", "Len", "TreeLen"} {
		if err := o.srcDef(rg, "RegionsInfo", fn, "src_ri_"+fn); err != nil {
			return err
		}
	}
	// small pure functions: whole body as text
	for _, x := range []struct{ recv, name, coq string }{
		{"regionItem", "Less", "src_item_Less"},
		{"regionItem", "Contains", "src_item_Contains"},
	} {
		if err := o.srcDef(tr, x.recv, x.name, x.coq); err != nil {
			return err
		}
	}
	for _, x := range []struct{ recv, name, coq string }{
		{"", "isInvolved", "src_isInvolved"},
		{"RegionsInfo", "shouldRemoveFromSubTree", "src_shouldRemoveFromSubTree"},
		{"", "SortedPeersEqual", "src_SortedPeersEqual"},
		{"peerSlice", "Less", "src_peerSlice_Less"},
		{"", "classifyVoterAndLearner", "src_classifyVoterAndLearner"},
		{"regionMap", "AddNew", "src_regionMap_AddNew"},
		{"regionMap", "Get", "src_regionMap_Get"},
		{"regionMap", "Delete", "src_regionMap_Delete"},
	} {
		if err := o.srcDef(rg, x.recv, x.name, x.coq); err != nil {
			return err
		}
	}
	return nil
}

func genC07(repo string) (string, error) {
	var o out
	if err := c07Skeletons(&o, repo); err != nil {
		return "", err
	}
	// the btree: the functions that maintain the order statistics (indices) and the rank queries
	bt, err := goast.Load(repo, "pkg/btree/btree.go")
	if err != nil {
		return "", err
	}
	for _, x := range []struct{ recv, name, coq string }{
		{"items", "find", "src_bt_items_find"},
		{"indices", "addAt", "src_bt_indices_addAt"},
		{"indices", "insertAt", "src_bt_indices_insertAt"},
		{"indices", "push", "src_bt_indices_push"},
		{"indices", "split", "src_bt_indices_split"},
		{"indices", "merge", "src_bt_indices_merge"},
		{"indices", "removeAt", "src_bt_indices_removeAt"},
		{"indices", "pop", "src_bt_indices_pop"},
		{"indices", "find", "src_bt_indices_find"},
		{"node", "length", "src_bt_node_length"},
		{"node", "initSize", "src_bt_node_initSize"},
		{"node", "split", "src_bt_node_split"},
		{"node", "maybeSplitChild", "src_bt_node_maybeSplitChild"},
		{"node", "insert", "src_bt_node_insert"},
		{"node", "getAt", "src_bt_node_getAt"},
		{"node", "getWithIndex", "src_bt_node_getWithIndex"},
		{"node", "remove", "src_bt_node_remove"},
		{"node", "growChildAndRemove", "src_bt_node_growChildAndRemove"},
		{"node", "iterate", "src_bt_node_iterate"},
		{"BTree", "ReplaceOrInsert", "src_bt_ReplaceOrInsert"},
		{"BTree", "deleteItem", "src_bt_deleteItem"},
		{"BTree", "maxItems", "src_bt_maxItems"},
		{"BTree", "minItems", "src_bt_minItems"},
		{"BTree", "GetWithIndex", "src_bt_GetWithIndex"},
		{"BTree", "GetAt", "src_bt_GetAt"},
		{"BTree", "AscendGreaterOrEqual", "src_bt_AscendGreaterOrEqual"},
		{"BTree", "DescendLessOrEqual", "src_bt_DescendLessOrEqual"},
		// the rest of what model/C07_BTree.v transcribes (slice helpers, get/min/max, the exported wrappers)
		{"items", "insertAt", "src_bt_items_insertAt"},
		{"items", "removeAt", "src_bt_items_removeAt"},
		{"items", "pop", "src_bt_items_pop"},
		{"items", "truncate", "src_bt_items_truncate"},
		{"children", "insertAt", "src_bt_children_insertAt"},
		{"children", "removeAt", "src_bt_children_removeAt"},
		{"children", "pop", "src_bt_children_pop"},
		{"children", "truncate", "src_bt_children_truncate"},
		{"indices", "truncate", "src_bt_indices_truncate"},
		{"node", "mutableFor", "src_bt_node_mutableFor"},
		{"node", "mutableChild", "src_bt_node_mutableChild"},
		{"node", "get", "src_bt_node_get"},
		{"", "min", "src_bt_min"},
		{"", "max", "src_bt_max"},
		{"BTree", "Delete", "src_bt_Delete"},
		{"BTree", "DeleteMin", "src_bt_DeleteMin"},
		{"BTree", "DeleteMax", "src_bt_DeleteMax"},
		{"BTree", "Get", "src_bt_Get"},
		{"BTree", "Min", "src_bt_Min"},
		{"BTree", "Max", "src_bt_Max"},
		{"BTree", "Len", "src_bt_Len"},
		{"BTree", "getRootLength", "src_bt_getRootLength"},
	} {
		if err := o.srcDef(bt, x.recv, x.name, x.coq); err != nil {
			return "", err
		}
	}
	return o.sb.String(), nil
}
