package main

import (
	"fmt"
	"go/ast"
	"regexp"

	"pdverif/internal/goast"
)

func init() { gens["C07"] = genC07 }

// srcDef prints the whole body of a function as normalised source text: the model transcribes these functions
// literally, so a change of their meaning must break the `reflexivity` tie.  Normalised = comments and layout
// dropped, log lines and metric updates dropped, local names (receiver, parameters, results, locals) replaced by
// canonical ones in order of first appearance: an added log/metrics line or a renamed local is not a change.
func (o *out) srcDef(f *goast.File, recv, name, coqName string) error {
	fd, err := f.Func(recv, name)
	if err != nil {
		return err
	}
	c07NormalizeFunc(fd)
	fmt.Fprintf(&o.sb, "Definition %s : string := (* %s: (%s).%s, body *)\n  %s.\n", coqName, f.Path, recv, name, goast.Q(f.Src(fd.Body)))
	return nil
}

var c07MetricRoot = regexp.MustCompile(`(?i)(counter|gauge|histogram|summary|duration|metric)`)

func c07RootIdent(e ast.Expr) *ast.Ident {
	for {
		switch x := e.(type) {
		case *ast.Ident:
			return x
		case *ast.SelectorExpr:
			e = x.X
		case *ast.CallExpr:
			e = x.Fun
		default:
			return nil
		}
	}
}

// noise: log.Debug/Info/Warn/Error(...) and <package-level metric>.…Inc/Dec/Add/Sub/Set/Observe(...) as statements
func c07IsNoiseStmt(s ast.Stmt, local map[*ast.Object]bool) bool {
	es, ok := s.(*ast.ExprStmt)
	if !ok {
		return false
	}
	call, ok := es.X.(*ast.CallExpr)
	if !ok {
		return false
	}
	sel, ok := call.Fun.(*ast.SelectorExpr)
	if !ok {
		return false
	}
	root := c07RootIdent(sel.X)
	if root == nil || (root.Obj != nil && local[root.Obj]) {
		return false
	}
	if root.Name == "log" {
		switch sel.Sel.Name {
		case "Debug", "Info", "Warn", "Error":
			return true
		}
		return false
	}
	if c07MetricRoot.MatchString(root.Name) {
		switch sel.Sel.Name {
		case "Inc", "Dec", "Add", "Sub", "Set", "Observe":
			return true
		}
	}
	return false
}

// c07NormalizeFunc rewrites fd in place and returns the canonical names of its locals in order of first appearance.
func c07NormalizeFunc(fd *ast.FuncDecl) []string {
	if fd.Body == nil {
		return nil
	}
	// field names used as keys of struct literals are not variables, even when a local of the same name exists
	// (go/parser resolves them syntactically)
	fieldKey := map[*ast.Ident]bool{}
	ast.Inspect(fd, func(n ast.Node) bool {
		if cl, ok := n.(*ast.CompositeLit); ok {
			switch cl.Type.(type) {
			case *ast.MapType, *ast.ArrayType:
			default:
				for _, e := range cl.Elts {
					if kv, ok := e.(*ast.KeyValueExpr); ok {
						if id, ok := kv.Key.(*ast.Ident); ok {
							fieldKey[id] = true
						}
					}
				}
			}
		}
		return true
	})
	// pass 1: the objects declared inside the function (positions are looked up before any renaming)
	local := map[*ast.Object]bool{}
	ast.Inspect(fd, func(n ast.Node) bool {
		if id, ok := n.(*ast.Ident); ok && !fieldKey[id] && id.Obj != nil && id.Name != "_" && (id.Obj.Kind == ast.Var || id.Obj.Kind == ast.Con) {
			if _, seen := local[id.Obj]; !seen {
				p := id.Obj.Pos()
				local[id.Obj] = p >= fd.Pos() && p < fd.End()
			}
		}
		return true
	})
	// pass 2: drop log / metric statements
	filter := func(l []ast.Stmt) []ast.Stmt {
		out := l[:0]
		for _, s := range l {
			if !c07IsNoiseStmt(s, local) {
				out = append(out, s)
			}
		}
		return out
	}
	ast.Inspect(fd.Body, func(n ast.Node) bool {
		switch x := n.(type) {
		case *ast.BlockStmt:
			x.List = filter(x.List)
		case *ast.CaseClause:
			x.Body = filter(x.Body)
		case *ast.CommClause:
			x.Body = filter(x.Body)
		}
		return true
	})
	// pass 3: canonical names
	names := map[*ast.Object]string{}
	var order []string
	ast.Inspect(fd, func(n ast.Node) bool {
		if id, ok := n.(*ast.Ident); ok && !fieldKey[id] && id.Obj != nil && local[id.Obj] {
			nm, seen := names[id.Obj]
			if !seen {
				nm = fmt.Sprintf("v%d", len(names))
				names[id.Obj] = nm
				order = append(order, nm)
			}
			id.Name = nm
		}
		return true
	})
	return order
}

// cacheWriterSites: every place outside tests that writes the region cache - calls of PutRegion, CheckAndPutRegion,
// CheckAndPutLoadedRegion, SetRegion, RemoveRegion and DropCacheRegion under server/ and pkg/.  The drivers exercise exactly these
// entry points; a new admin / recovery / feature path into the cache shows up as a new site.  Shared by C06 and C07.
func cacheWriterSites(o *out, repo string) error {
	for _, fn := range []string{"PutRegion", "CheckAndPutRegion", "CheckAndPutLoadedRegion", "SetRegion", "RemoveRegion", "DropCacheRegion"} {
		sites, err := goast.CallSites(repo, []string{"server", "pkg"}, fn, nil)
		if err != nil {
			return err
		}
		o.strList("cache_writer_sites_"+fn, sites, "every call of X."+fn+"(...) outside tests: a way into the region cache")
	}
	return nil
}

// c07Skeletons is shared with C06 (which imports the C07 model).
func c07Skeletons(o *out, repo string) error {
	if err := cacheWriterSites(o, repo); err != nil {
		return err
	}
	tr, err := goast.Load(repo, "server/core/region_tree.go")
	if err != nil {
		return err
	}
	if err := o.constZ(tr, "defaultBTreeDegree", "defaultBTreeDegree"); err != nil {
		return err
	}
	rg, err := goast.Load(repo, "server/core/region.go")
	if err != nil {
		return err
	}
	// every function of region_tree.go and of RegionsInfo that the model transcribes: whole body as text
	for _, fn := range []string{"length", "getOverlaps", "update", "updateStat", "remove", "search", "searchPrev", "find",
		"scanRange", "scanRanges", "getAdjacentRegions", "RandomRegion", "TotalSize"} {
		if err := o.srcDef(tr, "regionTree", fn, "src_tree_"+fn); err != nil {
			return err
		}
	}
	if err := o.srcDef(tr, "", "newRegionTree", "src_newRegionTree"); err != nil {
		return err
	}
	for _, fn := range []string{"GetRegion", "SetRegion", "updateSubTreeStat", "GetOverlaps", "RemoveRegion", "removeRegionFromSubTree",
		"SearchRegion", "SearchPrevRegion", "ScanRange", "GetAdjacentRegions", "GetAverageRegionSize", "GetStoreRegions",
		"GetStoreLeaderCount", "GetStoreFollowerCount", "GetStoreLearnerCount", "GetStorePendingPeerCount",
		"GetStoreLeaderRegionSize", "GetStoreFollowerRegionSize", "GetStoreLearnerRegionSize",
		"RandLeaderRegion", "RandFollowerRegion", "RandLearnerRegion", "RandPendingRegion", "Len", "TreeLen"} {
		if err := o.srcDef(rg, "RegionsInfo", fn, "src_ri_"+fn); err != nil {
			return err
		}
	}
	// small pure functions: whole body as text
	for _, x := range []struct{ recv, name, coq string }{
		{"regionItem", "Less", "src_item_Less"},
		{"regionItem", "Contains", "src_item_Contains"},
	} {
		if err := o.srcDef(tr, x.recv, x.name, x.coq); err != nil {
			return err
		}
	}
	for _, x := range []struct{ recv, name, coq string }{
		{"", "isInvolved", "src_isInvolved"},
		{"RegionsInfo", "shouldRemoveFromSubTree", "src_shouldRemoveFromSubTree"},
		{"", "SortedPeersEqual", "src_SortedPeersEqual"},
		{"peerSlice", "Less", "src_peerSlice_Less"},
		{"", "classifyVoterAndLearner", "src_classifyVoterAndLearner"},
		{"regionMap", "AddNew", "src_regionMap_AddNew"},
		{"regionMap", "Get", "src_regionMap_Get"},
		{"regionMap", "Delete", "src_regionMap_Delete"},
	} {
		if err := o.srcDef(rg, x.recv, x.name, x.coq); err != nil {
			return err
		}
	}
	return nil
}

func genC07(repo string) (string, error) {
	var o out
	if err := c07Skeletons(&o, repo); err != nil {
		return "", err
	}
	// the btree: the functions that maintain the order statistics (indices) and the rank queries
	bt, err := goast.Load(repo, "pkg/btree/btree.go")
	if err != nil {
		return "", err
	}
	for _, x := range []struct{ recv, name, coq string }{
		{"items", "find", "src_bt_items_find"},
		{"indices", "addAt", "src_bt_indices_addAt"},
		{"indices", "insertAt", "src_bt_indices_insertAt"},
		{"indices", "push", "src_bt_indices_push"},
		{"indices", "split", "src_bt_indices_split"},
		{"indices", "merge", "src_bt_indices_merge"},
		{"indices", "removeAt", "src_bt_indices_removeAt"},
		{"indices", "pop", "src_bt_indices_pop"},
		{"indices", "find", "src_bt_indices_find"},
		{"node", "length", "src_bt_node_length"},
		{"node", "initSize", "src_bt_node_initSize"},
		{"node", "split", "src_bt_node_split"},
		{"node", "maybeSplitChild", "src_bt_node_maybeSplitChild"},
		{"node", "insert", "src_bt_node_insert"},
		{"node", "getAt", "src_bt_node_getAt"},
		{"node", "getWithIndex", "src_bt_node_getWithIndex"},
		{"node", "remove", "src_bt_node_remove"},
		{"node", "growChildAndRemove", "src_bt_node_growChildAndRemove"},
		{"node", "iterate", "src_bt_node_iterate"},
		{"BTree", "ReplaceOrInsert", "src_bt_ReplaceOrInsert"},
		{"BTree", "deleteItem", "src_bt_deleteItem"},
		{"BTree", "maxItems", "src_bt_maxItems"},
		{"BTree", "minItems", "src_bt_minItems"},
		{"BTree", "GetWithIndex", "src_bt_GetWithIndex"},
		{"BTree", "GetAt", "src_bt_GetAt"},
		{"BTree", "AscendGreaterOrEqual", "src_bt_AscendGreaterOrEqual"},
		{"BTree", "DescendLessOrEqual", "src_bt_DescendLessOrEqual"},
		// the rest of what model/C07_BTree.v transcribes (slice helpers, get/min/max, the exported wrappers)
		{"items", "insertAt", "src_bt_items_insertAt"},
		{"items", "removeAt", "src_bt_items_removeAt"},
		{"items", "pop", "src_bt_items_pop"},
		{"items", "truncate", "src_bt_items_truncate"},
		{"children", "insertAt", "src_bt_children_insertAt"},
		{"children", "removeAt", "src_bt_children_removeAt"},
		{"children", "pop", "src_bt_children_pop"},
		{"children", "truncate", "src_bt_children_truncate"},
		{"indices", "truncate", "src_bt_indices_truncate"},
		{"node", "mutableFor", "src_bt_node_mutableFor"},
		{"node", "mutableChild", "src_bt_node_mutableChild"},
		{"node", "get", "src_bt_node_get"},
		{"", "min", "src_bt_min"},
		{"", "max", "src_bt_max"},
		{"BTree", "Delete", "src_bt_Delete"},
		{"BTree", "DeleteMin", "src_bt_DeleteMin"},
		{"BTree", "DeleteMax", "src_bt_DeleteMax"},
		{"BTree", "Get", "src_bt_Get"},
		{"BTree", "Min", "src_bt_Min"},
		{"BTree", "Max", "src_bt_Max"},
		{"BTree", "Len", "src_bt_Len"},
		{"BTree", "getRootLength", "src_bt_getRootLength"},
	} {
		if err := o.srcDef(bt, x.recv, x.name, x.coq); err != nil {
			return "", err
		}
	}
	// the layer the driver puts regions through: BasicCluster.PutRegion (keeps the cached term, then SetRegion)
	bcf, err := goast.Load(repo, "server/core/basic_cluster.go")
	if err != nil {
		return "", err
	}
	if err := o.srcDef(bcf, "BasicCluster", "PutRegion", "src_bc_PutRegion"); err != nil {
		return "", err
	}
	clf, err := goast.Load(repo, "server/cluster/cluster.go")
	if err != nil {
		return "", err
	}
	if err := o.srcDef(clf, "RaftCluster", "DropCacheRegion", "src_rc_DropCacheRegion"); err != nil {
		return "", err
	}
	return o.sb.String(), nil
}
