package main

import (
	"fmt"
	"go/ast"
	"go/parser"
	"go/token"
	"os"
	"path/filepath"
	"sort"
	"strconv"
	"strings"

	"pdverif/internal/goast"
)

func init() { gens["C18"] = genC18 }

// genC18 regenerates the tables and skeletons the C18 model consumes:
//   - the clause tables of ScheduleConfig.Validate / Deprecated, ReplicationConfig.Validate, PDServerConfig.Validate
//     (every if-condition with the first statement of its body, source order) — model/C18_Config.v PARSES these tables
//     into the clauses its `validate` functions evaluate, so a removed clause changes the model and breaks
//     invalid_never_accepted;
//   - the registered scheduler types (first argument of every RegisterSliceDecoderBuilder call, constants resolved);
//   - DefaultSchedulers, the defaults the reload normalisation uses;
//   - the validate / swap / persist / rollback skeleton of every Set*Config and of Persist / Reload.
func genC18(repo string) (string, error) {
	var o out
	cf, err := goast.Load(repo, "server/config/config.go")
	if err != nil {
		return "", err
	}
	for _, x := range [][3]string{{"ScheduleConfig", "Validate", "guards_ScheduleValidate"}, {"ScheduleConfig", "Deprecated", "guards_ScheduleDeprecated"},
		{"ReplicationConfig", "Validate", "guards_ReplicationValidate"}, {"PDServerConfig", "Validate", "guards_PDServerValidate"}} {
		if err := c14Guards(&o, cf, x[0], x[1], x[2]); err != nil {
			return "", err
		}
	}
	// PDServerConfig.Validate: the case labels of the switch on DashboardAddress (values accepted without a URL check)
	fd, err := cf.Func("PDServerConfig", "Validate")
	if err != nil {
		return "", err
	}
	var cases []string
	ast.Inspect(fd.Body, func(n ast.Node) bool {
		if cc, ok := n.(*ast.CaseClause); ok {
			for _, e := range cc.List {
				if bl, ok := e.(*ast.BasicLit); ok && bl.Kind == token.STRING {
					if s, err := strconv.Unquote(bl.Value); err == nil {
						cases = append(cases, s)
					}
				}
			}
		}
		return true
	})
	o.strList("dashboard_keywords", cases, "case labels of the DashboardAddress switch in PDServerConfig.Validate")
	for _, c := range []string{"defaultFlowRoundByDigit", "defaultMaxReplicas"} {
		if err := o.constZ(cf, c, c); err != nil {
			return "", err
		}
	}
	// DefaultSchedulers: composite literal of {Type: "..."}
	var defs []string
	found := false
	for _, d := range cf.AST.Decls {
		gd, ok := d.(*ast.GenDecl)
		if !ok {
			continue
		}
		for _, sp := range gd.Specs {
			vs, ok := sp.(*ast.ValueSpec)
			if !ok || len(vs.Names) != 1 || vs.Names[0].Name != "DefaultSchedulers" || len(vs.Values) != 1 {
				continue
			}
			cl, ok := vs.Values[0].(*ast.CompositeLit)
			if !ok {
				continue
			}
			found = true
			for _, el := range cl.Elts {
				if inner, ok := el.(*ast.CompositeLit); ok {
					for _, kv := range inner.Elts {
						if k, ok := kv.(*ast.KeyValueExpr); ok && cf.Src(k.Key) == "Type" {
							if s, err := strconv.Unquote(cf.Src(k.Value)); err == nil {
								defs = append(defs, s)
							}
						}
					}
				}
			}
		}
	}
	if !found {
		return "", fmt.Errorf("server/config/config.go: anchor var DefaultSchedulers not found")
	}
	o.strList("default_schedulers", defs, "server/config/config.go: DefaultSchedulers (types, in order)")
	for _, fn := range []string{"MigrateDeprecatedFlags"} {
		if err := o.skeleton(cf, "PDServerConfig", fn, "skel_PDServer_"+fn, goast.SkelOpt{Conds: true, Assigns: set("FlowRoundByDigit", "TraceRegionFlow")}); err != nil {
			return "", err
		}
	}
	// registered scheduler types
	reg, err := c18Registered(repo)
	if err != nil {
		return "", err
	}
	o.strList("registered_types", reg, "server/schedulers: first argument of every schedule.RegisterSliceDecoderBuilder call (constants resolved), sorted")

	sf, err := goast.Load(repo, "server/server.go")
	if err != nil {
		return "", err
	}
	sopt := goast.SkelOpt{Conds: true, Calls: set("Validate", "Deprecated", "Persist", "SetScheduleConfig", "SetReplicationConfig", "SetPDServerConfig",
		"SetLabelPropertyConfig", "SetLabelProperty", "DeleteLabelProperty", "SetClusterVersion", "SetReplicationModeConfig", "GetScheduleConfig",
		"GetReplicationConfig", "GetPDServerConfig", "GetLabelPropertyConfig", "GetClusterVersion", "GetReplicationModeConfig", "Initialize", "GetRule",
		"SetRule", "IsClientURL", "NormalizeReplicationMode", "UpdateConfig", "ParseVersion", "CheckInDefaultRule"),
		Assigns: set("Count", "LocationLabels", "SchedulersPayload", "rule", "DashboardAddress", "ReplicationMode")}
	for _, fn := range []string{"SetScheduleConfig", "SetReplicationConfig", "SetPDServerConfig", "SetLabelProperty", "DeleteLabelProperty",
		"SetClusterVersion", "SetReplicationModeConfig"} {
		if err := o.skeleton(sf, "Server", fn, "skel_"+fn, sopt); err != nil {
			return "", err
		}
	}
	pf, err := goast.Load(repo, "server/config/persist_options.go")
	if err != nil {
		return "", err
	}
	popt := goast.SkelOpt{Conds: true, Calls: set("SaveConfig", "LoadConfig", "Adjust", "adjustScheduleCfg", "MigrateDeprecatedFlags", "Store", "SetClusterVersion",
		"Clone", "append", "delete", "NoneOf")}
	for _, fn := range []string{"Persist", "Reload", "adjustScheduleCfg", "SetLabelProperty", "DeleteLabelProperty"} {
		if err := o.skeleton(pf, "PersistOptions", fn, "skel_opt_"+fn, popt); err != nil {
			return "", err
		}
	}
	if err := c14Guards(&o, pf, "PersistOptions", "SetLabelProperty", "guards_opt_SetLabelProperty"); err != nil {
		return "", err
	}
	if err := c14Guards(&o, pf, "PersistOptions", "DeleteLabelProperty", "guards_opt_DeleteLabelProperty"); err != nil {
		return "", err
	}
	rm, err := goast.Load(repo, "server/schedule/placement/rule_manager.go")
	if err != nil {
		return "", err
	}
	if err := o.skeleton(rm, "RuleManager", "GetRule", "skel_rm_GetRule", goast.SkelOpt{Calls: set("getRule", "Clone")}); err != nil {
		return "", err
	}
	if err := o.skeleton(rm, "RuleManager", "tryCommitPatch", "skel_rm_tryCommitPatch", goast.SkelOpt{Conds: true, Calls: set("trim", "savePatch", "commit")}); err != nil {
		return "", err
	}
	// ---- copies: what a getter hands out must share no mutable storage with the served value ----
	// (the HTTP API unmarshals the request INTO what Server.Get*Config returned and only then calls Set*Config, which validates)
	for _, t := range []string{"Config", "ScheduleConfig", "ReplicationConfig", "PDServerConfig", "LabelPropertyConfig", "ReplicationModeConfig"} {
		if err := c18Stmts(&o, cf, t, "Clone", "copy_"+t+"_Clone", nil); err != nil {
			return "", err
		}
	}
	for _, t := range []string{"ScheduleConfig", "ReplicationConfig", "PDServerConfig", "ReplicationModeConfig", "DRAutoSyncReplicationConfig"} {
		if err := c18RefFields(&o, cf, t, "reffields_"+t); err != nil {
			return "", err
		}
	}
	for _, fn := range []string{"GetScheduleConfig", "GetReplicationConfig", "GetPDServerConfig", "GetLabelProperty", "GetReplicationModeConfig", "GetClusterVersion"} {
		if err := c18Stmts(&o, sf, "Server", fn, "getter_"+fn, nil); err != nil {
			return "", err
		}
	}
	if err := c18Stmts(&o, sf, "Server", "GetConfig", "getter_GetConfig_sections", func(src string) bool { return strings.HasPrefix(src, "cfg") }); err != nil {
		return "", err
	}
	// the etcd-backed kv.Base under Storage.SaveConfig: one put, its error is handed up (the model's write is "applied or not, acknowledged or not")
	ef, err := goast.Load(repo, "server/kv/etcd_kv.go")
	if err != nil {
		return "", err
	}
	if err := o.skeleton(ef, "etcdKVBase", "Save", "skel_etcdKVBase_Save", goast.SkelOpt{Conds: true, Calls: set("Commit", "Sleep")}); err != nil {
		return "", err
	}
	af, err := goast.Load(repo, "server/api/config.go")
	if err != nil {
		return "", err
	}
	for _, fn := range []string{"SetSchedule", "SetReplication", "SetReplicationMode"} {
		if err := c18Stmts(&o, af, "confHandler", fn, "api_"+fn, func(src string) bool {
			return strings.Contains(src, "h.svr.") || strings.Contains(src, "ReadJSON")
		}); err != nil {
			return "", err
		}
	}
	for _, fn := range []string{"Post", "updateSchedule", "updateReplication", "updateReplicationModeConfig", "updatePDServerConfig", "mergeConfig"} {
		if err := c18Stmts(&o, af, "confHandler", fn, "api_"+fn, func(src string) bool {
			return strings.HasPrefix(src, "cfg := h.svr.") || strings.Contains(src, "h.mergeConfig(") || strings.HasPrefix(src, "if updated") ||
				strings.Contains(src, "json.Unmarshal(data, v)")
		}); err != nil {
			return "", err
		}
	}
	return o.sb.String(), nil
}

// c18Stmts emits the source text (whitespace-normalised) of the top-level statements of a function body, optionally
// only those selected by keep; an if statement is represented by its header (init; cond) only when its body is long.
func c18Stmts(o *out, f *goast.File, recv, name, coqName string, keep func(src string) bool) error {
	fd, err := f.Func(recv, name)
	if err != nil {
		return err
	}
	var xs []string
	for _, st := range fd.Body.List {
		src := f.Src(st)
		if keep != nil && !keep(src) {
			continue
		}
		if len(src) > 200 {
			src = src[:200] + " ..."
		}
		xs = append(xs, goast.Q(src))
	}
	fmt.Fprintf(&o.sb, "Definition %s : list string := (* %s: (%s).%s *)\n  %s.\n", coqName, f.Path, recv, name, goast.CoqList(xs))
	return nil
}

// c18RefFields lists the fields of a struct type whose type is not a basic value type (bool, string, numbers): each of them is
// a slice, map, pointer, interface or a named type that may be one, i.e. something a shallow `cfg := *c` copy may share.
func c18RefFields(o *out, f *goast.File, typ, coqName string) error {
	basic := set("bool", "string", "int", "int8", "int16", "int32", "int64", "uint", "uint8", "uint16", "uint32", "uint64", "float32", "float64")
	var xs []string
	found := false
	ast.Inspect(f.AST, func(n ast.Node) bool {
		ts, ok := n.(*ast.TypeSpec)
		if !ok || ts.Name.Name != typ {
			return true
		}
		st, ok := ts.Type.(*ast.StructType)
		if !ok {
			return false
		}
		found = true
		for _, fl := range st.Fields.List {
			t := f.Src(fl.Type)
			if basic[t] {
				continue
			}
			for _, nm := range fl.Names {
				xs = append(xs, goast.Q(nm.Name+": "+t))
			}
			if len(fl.Names) == 0 {
				xs = append(xs, goast.Q("(embedded): "+t))
			}
		}
		return false
	})
	if !found {
		return fmt.Errorf("%s: anchor type %s not found", f.Path, typ)
	}
	fmt.Fprintf(&o.sb, "Definition %s : list string := (* %s: fields of %s that are not plain values *)\n  %s.\n", coqName, f.Path, typ, goast.CoqList(xs))
	return nil
}

func c18Registered(repo string) ([]string, error) {
	dir := filepath.Join(repo, "server/schedulers")
	ents, err := os.ReadDir(dir)
	if err != nil {
		return nil, fmt.Errorf("anchor dir server/schedulers: %v", err)
	}
	consts := map[string]string{}
	var args []ast.Expr
	fset := token.NewFileSet()
	for _, e := range ents {
		if e.IsDir() || !strings.HasSuffix(e.Name(), ".go") || strings.HasSuffix(e.Name(), "_test.go") {
			continue
		}
		af, err := parser.ParseFile(fset, filepath.Join(dir, e.Name()), nil, 0)
		if err != nil {
			return nil, err
		}
		ast.Inspect(af, func(n ast.Node) bool {
			switch x := n.(type) {
			case *ast.ValueSpec:
				for i, nm := range x.Names {
					if i < len(x.Values) {
						if bl, ok := x.Values[i].(*ast.BasicLit); ok && bl.Kind == token.STRING {
							if s, err := strconv.Unquote(bl.Value); err == nil {
								consts[nm.Name] = s
							}
						}
					}
				}
			case *ast.CallExpr:
				if sel, ok := x.Fun.(*ast.SelectorExpr); ok && sel.Sel.Name == "RegisterSliceDecoderBuilder" && len(x.Args) > 0 {
					args = append(args, x.Args[0])
				}
			}
			return true
		})
	}
	var out []string
	for _, a := range args {
		switch x := a.(type) {
		case *ast.Ident:
			v, ok := consts[x.Name]
			if !ok {
				return nil, fmt.Errorf("server/schedulers: cannot resolve scheduler type constant %s", x.Name)
			}
			out = append(out, v)
		case *ast.BasicLit:
			if s, err := strconv.Unquote(x.Value); err == nil {
				out = append(out, s)
			}
		}
	}
	if len(out) == 0 {
		return nil, fmt.Errorf("server/schedulers: no RegisterSliceDecoderBuilder call found")
	}
	sort.Strings(out)
	return out, nil
}
