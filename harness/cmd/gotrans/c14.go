package main

import (
	"fmt"
	"go/ast"

	"pdverif/internal/goast"
)

func init() { gens["C14"] = genC14 }

// genC14 regenerates, from /repo's working tree, the structure the C14 model was written against:
// the guard / save / cache skeleton of every store-lifecycle function of server/cluster/cluster.go,
// the gRPC tombstone guards, the in-place label merge, the weight-key writes, and the callers of buryStore.
func genC14(repo string) (string, error) {
	var o out
	cl, err := goast.Load(repo, "server/cluster/cluster.go")
	if err != nil {
		return "", err
	}
	opt := goast.SkelOpt{Conds: true,
		Calls: set("GetStore", "GetStores", "checkStoreVersion", "checkStoreLabels", "MergeLabels", "NewStoreInfo", "Clone",
			"putStoreLocked", "putStoreImpl", "putStoreImplLocked", "SaveStore", "PutStore", "DeleteStore", "SaveStoreWeight",
			"OfflineStore", "UpStore", "TombstoneStore", "SetLeaderWeight", "SetRegionWeight", "SetStoreLabels",
			"SetStoreAddress", "SetStoreVersion", "GetStoreRegionCount", "GetRegionCount", "buryStore",
			"deleteStoreLocked", "onStoreVersionChangeLocked", "OnStoreVersionChange", "NeedPersist", "SetLastPersistTime",
			"ParseVersion", "IsCompatible", "CASClusterVersion", "IsTombstone"),
		Assigns: set("Labels")}
	for _, fn := range []string{"putStoreImpl", "putStoreImplLocked", "PutStore", "UpdateStoreLabels", "checkStoreVersion", "RemoveStore", "UpStore", "buryStore",
		"SetStoreWeight", "putStoreLocked", "checkStores", "RemoveTombStoneRecords", "deleteStoreLocked", "HandleStoreHeartbeat",
		"onStoreVersionChangeLocked"} {
		if _, ferr := cl.Func("RaftCluster", fn); ferr != nil && fn == "putStoreImplLocked" {
			// the function introduced by fix b1c60ab is gone: let the obligations (skel_/guards_putStoreImplLocked_ok,
			// skel_UpdateStoreLabels_ok) fail rather than the translator, so that the driver still runs and shows the replay
			fmt.Fprintf(&o.sb, "Definition skel_%s : list ev := (* server/cluster/cluster.go: (RaftCluster).%s is ABSENT *)\n  [].\n", fn, fn)
			continue
		}
		if err := o.skeleton(cl, "RaftCluster", fn, "skel_"+fn, opt); err != nil {
			return "", err
		}
	}
	// every if-condition with what its body does first (return <expr> / continue / break / ...), in source order:
	// the skeleton above drops ifs whose body is only `continue`, and does not say what is returned
	for _, fn := range []string{"putStoreImplLocked", "RemoveStore", "UpStore", "buryStore", "SetStoreWeight", "checkStores", "RemoveTombStoneRecords"} {
		if _, ferr := cl.Func("RaftCluster", fn); ferr != nil && fn == "putStoreImplLocked" {
			fmt.Fprintf(&o.sb, "Definition guards_%s : list (string * string) := (* (RaftCluster).%s is ABSENT *)\n  [].\n", fn, fn)
			continue
		}
		if err := c14Guards(&o, cl, "RaftCluster", fn, "guards_"+fn); err != nil {
			return "", err
		}
	}
	// LoadClusterInfo: every stored record is put over the cache AND cached stores that storage no longer holds are dropped
	// (model: restart / HReelect serve exactly what is stored)
	if err := o.skeleton(cl, "RaftCluster", "LoadClusterInfo", "skel_LoadClusterInfo",
		goast.SkelOpt{Conds: true, Calls: set("LoadMeta", "LoadStores", "PutStore", "PutLoadedStore", "GetStores", "DeleteStore", "LoadRegionsOnce")}); err != nil {
		return "", err
	}
	gs, err := goast.Load(repo, "server/grpc_service.go")
	if err != nil {
		return "", err
	}
	gopt := goast.SkelOpt{Conds: true, Calls: set("checkStore", "PutStore", "HandleStoreHeartbeat", "GetStore", "GetState", "validateRequest", "GetRaftCluster")}
	if err := o.skeleton(gs, "", "checkStore", "skel_grpc_checkStore", gopt); err != nil {
		return "", err
	}
	for _, fn := range []string{"PutStore", "StoreHeartbeat"} {
		if err := o.skeleton(gs, "Server", fn, "skel_grpc_"+fn, gopt); err != nil {
			return "", err
		}
	}
	sf, err := goast.Load(repo, "server/core/store.go")
	if err != nil {
		return "", err
	}
	if err := o.skeleton(sf, "StoreInfo", "MergeLabels", "skel_MergeLabels",
		goast.SkelOpt{Conds: true, Calls: set("GetLabels", "EqualFold", "append"), Assigns: set("Value", "storeLabels", "res")}); err != nil {
		return "", err
	}
	if err := o.constZ(sf, "storePersistInterval", "storePersistInterval"); err != nil {
		return "", err
	}
	so, err := goast.Load(repo, "server/core/store_option.go")
	if err != nil {
		return "", err
	}
	for _, fn := range []string{"OfflineStore", "UpStore", "TombstoneStore"} {
		if err := o.skeleton(so, "", fn, "skel_opt_"+fn, goast.SkelOpt{Calls: set("Clone"), Assigns: set("State", "PhysicallyDestroyed", "meta")}); err != nil {
			return "", err
		}
	}
	stg, err := goast.Load(repo, "server/core/storage.go")
	if err != nil {
		return "", err
	}
	sopt := goast.SkelOpt{Conds: true, Calls: set("Save", "Remove", "Load", "restoreWeight", "storeLeaderWeightPath", "storeRegionWeightPath", "storePath",
		"loadFloatWithDefaultValue", "LoadRange", "NewStoreInfo", "SetLeaderWeight", "SetRegionWeight", "saveProto")}
	for _, fn := range []string{"SaveStoreWeight", "SaveStore", "DeleteStore", "LoadStores"} {
		if err := o.skeleton(stg, "Storage", fn, "skel_storage_"+fn, sopt); err != nil {
			return "", err
		}
	}
	stf, err := goast.Load(repo, "server/statistics/store.go")
	if err != nil {
		return "", err
	}
	// the filter a store heartbeat runs over the rolling statistics: a store that is gone must be tolerated
	if err := c14Guards(&o, stf, "StoresStats", "FilterUnhealthyStore", "guards_FilterUnhealthyStore"); err != nil {
		return "", err
	}
	vf, err := goast.Load(repo, "server/versioninfo/versioninfo.go")
	if err != nil {
		return "", err
	}
	if err := o.skeleton(vf, "", "IsCompatible", "skel_IsCompatible", goast.SkelOpt{Conds: true, Calls: set("LessThan")}); err != nil {
		return "", err
	}
	sites, err := goast.CallSites(repo, []string{"server"}, "buryStore", nil)
	if err != nil {
		return "", err
	}
	o.strList("bury_callers", sites, "every caller of buryStore (tests and verif hooks excluded)")
	return o.sb.String(), nil
}

func c14Guards(o *out, f *goast.File, recv, name, coqName string) error {
	fd, err := f.Func(recv, name)
	if err != nil {
		return err
	}
	var xs []string
	ast.Inspect(fd.Body, func(n ast.Node) bool {
		is, ok := n.(*ast.IfStmt)
		if !ok {
			return true
		}
		what := "..."
		if len(is.Body.List) > 0 {
			switch b := is.Body.List[0].(type) {
			case *ast.ReturnStmt:
				what = f.Src(b)
			case *ast.BranchStmt:
				what = b.Tok.String()
			}
		}
		xs = append(xs, "("+goast.Q(f.Src(is.Cond))+", "+goast.Q(what)+")")
		return true
	})
	fmt.Fprintf(&o.sb, "Definition %s : list (string * string) := (* %s: (%s).%s — if-conditions and the first statement of their body *)\n  %s.\n",
		coqName, f.Path, recv, name, goast.CoqList(xs))
	return nil
}
