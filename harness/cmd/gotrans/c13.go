package main

// Translator part for C13 (RuleManager: patch / buildRuleList / storage). Regenerated from /repo:
//   - the lock / call / assignment skeletons of tryCommitPatch, savePatch, Initialize, loadRules and
//     of every update entry point (goast.Skeleton),
//   - the case table of compareRule,
//   - the normalised statement text of the sweep and lookup code (rule_list.go), of
//     prepareRulesForApply (rule.go) and of the patch/config code (config.go),
//   - the ids of the default rule created by Initialize, the storage path constants.
// proof/C13_Skel.v states each of them by reflexivity.

import (
	"fmt"
	"go/ast"
	"go/token"
	"strings"

	"pdverif/internal/goast"
)

func init() { gens["C13"] = genC13 }

func c13Bytes(s string) string {
	xs := make([]string, len(s))
	for i := 0; i < len(s); i++ {
		xs[i] = fmt.Sprintf("%d", s[i])
	}
	return "[" + strings.Join(xs, ";") + "]%N"
}

func genC13(repo string) (string, error) {
	var o out
	o.sb.WriteString("From Coq Require Import NArith.\n")
	rm, err := goast.Load(repo, "server/schedule/placement/rule_manager.go")
	if err != nil {
		return "", err
	}
	rl, err := goast.Load(repo, "server/schedule/placement/rule_list.go")
	if err != nil {
		return "", err
	}
	cf, err := goast.Load(repo, "server/schedule/placement/config.go")
	if err != nil {
		return "", err
	}
	ru, err := goast.Load(repo, "server/schedule/placement/rule.go")
	if err != nil {
		return "", err
	}
	st, err := goast.Load(repo, "server/core/storage.go")
	if err != nil {
		return "", err
	}

	// skeletons: where the validation, the storage writes and the in-memory commit sit
	opt := goast.SkelOpt{Calls: set("adjust", "buildRuleList", "trim", "savePatch", "commit", "beginPatch", "tryCommitPatch",
		"adjustRule", "adjustRuleContent", "checkGroupID", "newRuleConfig", "setRule", "deleteRule", "setGroup", "deleteGroup", "iterateRules",
		"SaveRule", "DeleteRule", "SaveRuleGroup", "DeleteRuleGroup", "LoadRules", "LoadRuleGroups", "isDefault",
		"loadRules", "loadGroups"),
		Assigns: set("ruleList", "initialized", "rules", "groups", "keyType", "ruleConfig"), Conds: true}
	for _, fn := range []string{"tryCommitPatch", "savePatch", "Initialize", "loadRules", "loadGroups",
		"SetRule", "DeleteRule", "SetRules", "Batch", "SetRuleGroup", "DeleteRuleGroup",
		"SetAllGroupBundles", "SetGroupBundle", "DeleteGroupBundle",
		// the readers
		"GetRule", "GetSplitKeys", "GetAllRules", "GetRulesByGroup", "GetRulesByKey", "GetRulesForApplyRegion",
		"GetRuleGroup", "GetRuleGroups", "GetAllGroupBundles", "GetGroupBundle", "IsInitialized", "SetKeyType"} {
		if fd, err := rm.Func("RuleManager", fn); err == nil {
			c12Normalize(fd) // log lines and local names do not enter the obligation
		}
		if err := o.skeleton(rm, "RuleManager", fn, "skel_"+fn, opt); err != nil {
			return "", err
		}
	}

	fd, err := ru.Func("", "compareRule")
	if err != nil {
		return "", err
	}
	cs, err := c12Switch(ru, fd)
	if err != nil {
		return "", err
	}
	o.strList("compare_rule_cases", cs, ru.Path+": cases of the switch in compareRule, source order")

	type body struct {
		f          *goast.File
		recv, name string
	}
	for _, b := range []body{
		{ru, "Rule", "groupIndex"}, {ru, "RuleGroup", "isDefault"}, {ru, "", "prepareRulesForApply"}, {ru, "", "sortRules"},
		{ru, "Rule", "Key"}, {ru, "Rule", "StoreKey"},
		{rl, "sortedRules", "insertRule"}, {rl, "sortedRules", "deleteRule"}, {rl, "", "checkApplyRules"},
		{rl, "", "buildRuleList"}, {rl, "ruleList", "getSplitKeys"}, {rl, "ruleList", "getRulesByKey"},
		{rl, "ruleList", "getRulesForApplyRegion"},
		{cf, "ruleConfig", "adjust"}, {cf, "ruleConfig", "getGroup"}, {cf, "ruleConfig", "iterateRules"},
		{cf, "ruleConfigPatch", "setRule"}, {cf, "ruleConfigPatch", "deleteRule"}, {cf, "ruleConfigPatch", "getGroup"},
		{cf, "ruleConfigPatch", "setGroup"}, {cf, "ruleConfigPatch", "deleteGroup"}, {cf, "ruleConfigPatch", "iterateRules"},
		{cf, "ruleConfigPatch", "adjust"}, {cf, "ruleConfigPatch", "trim"}, {cf, "ruleConfigPatch", "commit"},
		{cf, "", "jsonEquals"},
		// clients go through adjustRule (stores are checked), loadRules calls adjustRuleContent(..., false)
		{rm, "RuleManager", "adjustRule"}, {rm, "RuleManager", "loadRules"},
		{rm, "RuleManager", "GetAllRules"}, {rm, "RuleManager", "GetRuleGroups"}, {rm, "RuleManager", "GetRulesByKey"},
		{rm, "RuleManager", "GetRulesForApplyRegion"}, {rm, "RuleManager", "GetSplitKeys"},
	} {
		fd, err := b.f.Func(b.recv, b.name)
		if err != nil {
			return "", err
		}
		nm := "body_" + b.name
		if b.recv != "" {
			nm = "body_" + b.recv + "_" + b.name
		}
		o.strList(nm, c12Body(b.f, fd), b.f.Path+": statements of ("+b.recv+")."+b.name)
	}

	checks, err := c13AdjustChecks(rm)
	if err != nil {
		return "", err
	}
	o.strList("adjust_rule_checks", checks, rm.Path+": conditions of adjustRule that reject a rule, source order")

	// the default rule of Initialize
	ini, err := rm.Func("RuleManager", "Initialize")
	if err != nil {
		return "", err
	}
	gid, rid, role := "", "", ""
	ast.Inspect(ini.Body, func(n ast.Node) bool {
		cl, ok := n.(*ast.CompositeLit)
		if !ok {
			return true
		}
		if id, ok := cl.Type.(*ast.Ident); !ok || id.Name != "Rule" {
			return true
		}
		for _, e := range cl.Elts {
			kv, ok := e.(*ast.KeyValueExpr)
			if !ok {
				continue
			}
			k := rm.Src(kv.Key)
			switch k {
			case "GroupID", "ID":
				if bl, ok := kv.Value.(*ast.BasicLit); ok && bl.Kind == token.STRING {
					if k == "GroupID" {
						gid = strings.Trim(bl.Value, "\"")
					} else {
						rid = strings.Trim(bl.Value, "\"")
					}
				}
			case "Role":
				role = rm.Src(kv.Value)
			}
		}
		return true
	})
	if gid == "" || rid == "" || role == "" {
		return "", fmt.Errorf("%s: Initialize: default rule literal not found", rm.Path)
	}
	fmt.Fprintf(&o.sb, "Definition default_group_id : list N := %s.  (* %s: Initialize, default rule GroupID %q *)\n", c13Bytes(gid), rm.Path, gid)
	fmt.Fprintf(&o.sb, "Definition default_rule_id : list N := %s.  (* %s: Initialize, default rule ID %q *)\n", c13Bytes(rid), rm.Path, rid)
	fmt.Fprintf(&o.sb, "Definition default_rule_role : string := %s.\n", goast.Q(role))

	for _, c := range []struct{ name, coq string }{{"rulesPath", "rules_path"}, {"ruleGroupPath", "rule_group_path"}} {
		s, err := c12StringConst(st, c.name)
		if err != nil {
			return "", err
		}
		fmt.Fprintf(&o.sb, "Definition %s : string := %s.  (* %s: %s *)\n", c.coq, goast.Q(s), st.Path, c.name)
	}
	// the paged prefix scan behind LoadRules / LoadRuleGroups (model/C13_Paged.v)
	if err := o.constZ(st, "minKVRangeLimit", "minKVRangeLimit"); err != nil {
		return "", err
	}
	mk, err := goast.Load(repo, "server/kv/mem_kv.go")
	if err != nil {
		return "", err
	}
	ek, err := goast.Load(repo, "server/kv/etcd_kv.go")
	if err != nil {
		return "", err
	}
	for _, b := range []body{{st, "Storage", "LoadRangeByPrefix"}, {mk, "memoryKV", "LoadRange"}, {ek, "etcdKVBase", "LoadRange"}} {
		fd, err := b.f.Func(b.recv, b.name)
		if err != nil {
			return "", err
		}
		o.strList("body_"+b.recv+"_"+b.name, c12Body(b.f, fd), b.f.Path+": statements of ("+b.recv+")."+b.name)
	}
	// the successor expression of the scan: `nextKey = <expr>` inside LoadRangeByPrefix
	lrp, err := st.Func("Storage", "LoadRangeByPrefix")
	if err != nil {
		return "", err
	}
	// (after normalisation nextKey is the first local declared in the body: the variable assigned by the first statement)
	var nexts []string
	nextName := ""
	if as, ok := lrp.Body.List[0].(*ast.AssignStmt); ok && len(as.Lhs) == 1 {
		if id, ok := as.Lhs[0].(*ast.Ident); ok {
			nextName = id.Name
		}
	}
	ast.Inspect(lrp.Body, func(n ast.Node) bool {
		as, ok := n.(*ast.AssignStmt)
		if !ok || len(as.Lhs) != 1 || len(as.Rhs) != 1 {
			return true
		}
		if id, ok := as.Lhs[0].(*ast.Ident); ok && nextName != "" && id.Name == nextName {
			nexts = append(nexts, as.Tok.String()+" "+st.Src(as.Rhs[0]))
		}
		return true
	})
	if len(nexts) == 0 {
		return "", fmt.Errorf("%s: LoadRangeByPrefix: no assignment to nextKey found", st.Path)
	}
	o.strList("load_next_key", nexts, st.Path+": LoadRangeByPrefix: the assignments to nextKey (start, then successor of the last key of a page)")
	for _, b := range []body{{st, "Storage", "SaveRule"}, {st, "Storage", "DeleteRule"}, {st, "Storage", "LoadRules"},
		{st, "Storage", "SaveRuleGroup"}, {st, "Storage", "DeleteRuleGroup"}, {st, "Storage", "LoadRuleGroups"}} {
		fd, err := b.f.Func(b.recv, b.name)
		if err != nil {
			return "", err
		}
		o.strList("body_"+b.recv+"_"+b.name, c12Body(b.f, fd), b.f.Path+": statements of ("+b.recv+")."+b.name)
	}
	// the key validation of key type table / txn: adjustRuleContent hands the very buffer the rule is indexed
	// by (r.StartKey / r.EndKey) to codec.DecodeBytes and keeps using it: DecodeBytes must not write into its
	// argument (the driver's keytype class exercises it; this pins the text)
	cd, err := goast.Load(repo, "pkg/codec/codec.go")
	if err != nil {
		return "", err
	}
	dfd, err := cd.Func("", "DecodeBytes")
	if err != nil {
		return "", err
	}
	o.strList("body_codec_DecodeBytes", c12Body(cd, dfd), cd.Path+": statements of DecodeBytes")
	return o.sb.String(), nil
}

// c13AdjustChecks lists, in source order, the conditions of adjustRule that reject a rule: every `if cond { return errs... }`.
func c13AdjustChecks(rm *goast.File) ([]string, error) {
	// the checks live in adjustRuleContent since fix f88d4e2 (adjustRule = adjustRuleContent(..., matchStores = true))
	adj, err := rm.Func("RuleManager", "adjustRuleContent")
	if err != nil {
		adj, err = rm.Func("RuleManager", "adjustRule")
		if err != nil {
			return nil, err
		}
	}
	c12Normalize(adj)
	var checks []string
	ast.Inspect(adj.Body, func(n ast.Node) bool {
		is, ok := n.(*ast.IfStmt)
		if !ok {
			return true
		}
		for _, s := range is.Body.List {
			if rs, ok := s.(*ast.ReturnStmt); ok && len(rs.Results) == 1 {
				if strings.HasPrefix(rm.Src(rs.Results[0]), "errs.") {
					checks = append(checks, rm.Src(is.Cond))
				}
			}
		}
		return true
	})
	if len(checks) == 0 {
		return nil, fmt.Errorf("%s: adjustRule: no content check found", rm.Path)
	}
	return checks, nil
}
