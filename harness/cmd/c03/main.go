// Driver for C03: real member.Member / election.Leadership objects of several contenders on one
// embedded etcd, with parked and faulted transactions, real lease expiry, crashes (object dropped,
// lease left behind) and leader-guarded writes of every kind that can be reached from outside.
package main

import (
	"context"
	"encoding/json"
	"flag"
	"fmt"
	"os"
	"path"
	"strconv"
	"strings"
	"sync"
	"time"

	"github.com/pingcap/kvproto/pkg/pdpb"
	"github.com/tikv/pd/pkg/errs"
	"github.com/tikv/pd/pkg/typeutil"
	"github.com/tikv/pd/server/config"
	"github.com/tikv/pd/server/id"
	"github.com/tikv/pd/server/member"
	"github.com/tikv/pd/server/tso"
	"go.etcd.io/etcd/clientv3"

	"pdverif/internal/coqfmt"
	"pdverif/internal/etcdx"
	_ "pdverif/internal/quiet"
	"pdverif/internal/res"
	"pdverif/internal/rng"
)

type op struct {
	K   string // Campaign CampaignBegin CampaignEnd Reset CheckLeader CheckBegin CheckEnd Expire Crash Write EnvPut IsLeader Read
	M   int
	TTL int64
	Out int   // 0 Ok 1 ErrNotApplied 2 ErrApplied
	Kd  int   // data kind
	V   int64 // payload
	Del bool  // write/envput is a delete
	L   int   // lease number for Expire
	Rd  bool  // CheckBegin: stop right after the read of the leader record (not at the delete transaction)
}

var outs = []string{"Ok", "ErrNotApplied", "ErrApplied"}

func optZ(del bool, v int64) string {
	if del {
		return "None"
	}
	return "(Some " + coqfmt.Z(v) + ")"
}

func (o op) coq() string {
	switch o.K {
	case "Campaign":
		return fmt.Sprintf("OCampaign %d %d%%N", o.M, o.TTL)
	case "CampaignBegin":
		return fmt.Sprintf("OCampaignBegin %d %d%%N", o.M, o.TTL)
	case "CampaignEnd":
		return fmt.Sprintf("OCampaignEnd %d %s", o.M, outs[o.Out])
	case "Reset":
		return fmt.Sprintf("OReset %d", o.M)
	case "CheckLeader":
		return fmt.Sprintf("OCheckLeader %d", o.M)
	case "CheckBegin":
		return fmt.Sprintf("OCheckBegin %d", o.M)
	case "CheckEnd":
		return fmt.Sprintf("OCheckEnd %d %s", o.M, outs[o.Out])
	case "Expire":
		return fmt.Sprintf("OExpire %d", o.L)
	case "Crash":
		return fmt.Sprintf("OCrash %d", o.M)
	case "Write":
		return fmt.Sprintf("OWrite %d %d %s", o.M, o.Kd, optZ(o.Del, o.V))
	case "EnvPut":
		return fmt.Sprintf("OEnvPut %d %s", o.Kd, optZ(o.Del, o.V))
	case "IsLeader":
		return fmt.Sprintf("OIsLeader %d", o.M)
	case "KeepBegin":
		return fmt.Sprintf("OKeepBegin %d", o.M)
	case "KeepEnd":
		return fmt.Sprintf("OKeepEnd %d", o.M)
	}
	return "ORead"
}

type pend struct{ done chan string }

type mem struct {
	keep   *etcdx.KeepCtl
	cancel context.CancelFunc
	m      *member.Member
	ctl    *etcdx.CtlKV
	alloc  id.Allocator
	camp   *pend // parked campaign
	chk    *pend // parked CheckLeader delete
	chkRd  bool  // ... parked after its read
	// a member that saw another member's record follows it the way leaderLoop does (WatchLeader) until its next own step
	wcancel context.CancelFunc
	wdone   chan struct{}
}

// unfollow ends the watch a member started after its last CheckLeader (and waits for WatchLeader to return: its
// unsetLeader must not race with a later EnableLeader).
func (x *mem) unfollow() {
	if x.wcancel != nil {
		x.wcancel()
		<-x.wdone
		x.wcancel, x.wdone = nil, nil
	}
}

// follow: what leaderLoop does after CheckLeader returned somebody else's record.
func (x *mem) follow(own uint64, l *pdpb.Member, rev int64, wait time.Duration) {
	if l == nil || l.GetMemberId() == own || x.m.GetLeader().GetMemberId() == own {
		return
	}
	ctx, cancel := context.WithCancel(context.Background())
	done := make(chan struct{})
	go func() { defer close(done); x.m.WatchLeader(ctx, l, rev) }()
	x.wcancel, x.wdone = cancel, done
	time.Sleep(wait) // the watch starts at the record's revision: its first event is that record
}

type world struct {
	e      *etcdx.Etcd
	admin  *clientv3.Client
	root   string
	mems   []*mem
	leases []clientv3.LeaseID // lease number -> etcd id, in grant order
	known  map[clientv3.LeaseID]bool
	short  map[int]time.Time // lease number -> grant time of short leases (timing guard)
	late   bool              // a short lease was overtaken by wall-clock time: case discarded
}

func (w *world) newMember(i int) *mem {
	cli, ctl, keep, err := w.e.NewClientKeep()
	if err != nil {
		panic(err)
	}
	m := member.NewMember(w.e.Srv, cli, uint64(100+i))
	cfg := &config.Config{AdvertiseClientUrls: fmt.Sprintf("http://c%d", i), AdvertisePeerUrls: fmt.Sprintf("http://p%d", i)}
	m.MemberInfo(cfg, fmt.Sprintf("pd%d", i), w.root)
	return &mem{m: m, ctl: ctl, keep: keep, alloc: id.NewAllocator(cli, w.root, m.MemberValue())}
}

// noteLeases appends lease ids that appeared on etcd since the last call (one per successful Grant).
func (w *world) noteLeases(short bool) {
	ctx, cancel := context.WithTimeout(context.Background(), 5*time.Second)
	defer cancel()
	r, err := w.admin.Leases(ctx)
	if err != nil {
		panic(err)
	}
	for _, l := range r.Leases {
		if !w.known[l.ID] {
			w.known[l.ID] = true
			w.leases = append(w.leases, l.ID)
			if short {
				w.short[len(w.leases)-1] = time.Now()
			}
		}
	}
}

func campaignObs(err error) string {
	if err == nil {
		return "BOk"
	}
	if errs.ErrEtcdTxnConflict.Equal(err) {
		return "BConflict"
	}
	return "BErr"
}

var dataKeys = []string{"member/7/leader_priority", "dc-location/9", "alloc_id"}
var modes = []etcdx.Mode{etcdx.Pass, etcdx.FailBefore, etcdx.FailAfter}

func (w *world) seen(memberID uint64) string {
	if memberID == 0 {
		return "BSeen None"
	}
	return fmt.Sprintf("BSeen (Some %d%%nat)", int(memberID)-100)
}

func (w *world) exec(o op) string {
	ctx, cancel := context.WithTimeout(context.Background(), 40*time.Second)
	defer cancel()
	switch o.K {
	case "Campaign", "CampaignBegin", "Reset", "CheckLeader", "CheckBegin", "Crash":
		w.mems[o.M].unfollow()
	}
	switch o.K {
	case "Campaign":
		x := w.mems[o.M]
		err := x.m.CampaignLeader(o.TTL)
		// a failed campaign closes (revokes) its lease at once; it is still counted by the model
		w.noteGrant(o.TTL <= 2, err == nil)
		if err == nil {
			x.m.EnableLeader()
		}
		return campaignObs(err)
	case "CampaignBegin":
		x := w.mems[o.M]
		x.ctl.SetNext(etcdx.Park)
		p := &pend{done: make(chan string, 1)}
		go func() {
			err := x.m.CampaignLeader(o.TTL)
			if err == nil {
				x.m.EnableLeader()
			}
			p.done <- campaignObs(err)
		}()
		select {
		case <-x.ctl.Parked():
		case r := <-p.done:
			panic("campaign finished without reaching its txn: " + r)
		case <-time.After(15 * time.Second):
			panic("campaign: not parked")
		}
		x.camp = p
		w.noteGrant(o.TTL <= 2, true)
		return "BStarted"
	case "CampaignEnd":
		x := w.mems[o.M]
		x.ctl.Release(modes[o.Out])
		r := <-x.camp.done
		x.camp = nil
		return r
	case "Reset":
		w.mems[o.M].m.ResetLeader()
		return "BUnit"
	case "CheckLeader":
		l, rev, again := w.mems[o.M].m.CheckLeader()
		if again {
			return "BErr"
		}
		wait := 30 * time.Millisecond
		if o.Rd { // fixed scenarios: time for the watch to be set up on a loaded machine, too
			wait = 300 * time.Millisecond
		}
		w.mems[o.M].follow(uint64(100+o.M), l, rev, wait)
		return w.seen(l.GetMemberId())
	case "CheckBegin":
		x := w.mems[o.M]
		if o.Rd {
			x.keep.HoldRange()
			p := &pend{done: make(chan string, 1)}
			go func() {
				l, _, again := x.m.CheckLeader()
				if again {
					p.done <- "BErr"
				} else {
					p.done <- w.seen(l.GetMemberId())
				}
			}()
			select {
			case <-x.keep.RangeHeld():
			case r := <-p.done: // no read at all (no etcd leader)
				return r
			case <-time.After(15 * time.Second):
				panic("checkleader: no read")
			}
			// the member has read the record; a delete follows iff the record names the member itself
			own := false
			if r, err := w.admin.Get(ctx, x.m.GetLeaderPath()); err == nil && len(r.Kvs) > 0 {
				var l pdpb.Member
				if l.Unmarshal(r.Kvs[0].Value) == nil && l.GetMemberId() == x.m.ID() {
					own = true
				}
			}
			if !own {
				x.keep.ReleaseRange()
				return <-p.done
			}
			x.chk, x.chkRd = p, true
			return "BStarted"
		}
		x.ctl.SetNext(etcdx.Park)
		p := &pend{done: make(chan string, 1)}
		go func() {
			l, _, again := x.m.CheckLeader()
			if again {
				p.done <- "BErr"
			} else {
				p.done <- w.seen(l.GetMemberId())
			}
		}()
		select {
		case <-x.ctl.Parked():
			x.chk = p
			return "BStarted"
		case r := <-p.done:
			x.ctl.SetNext(etcdx.Pass)
			return r
		case <-time.After(15 * time.Second):
			panic("checkleader: neither parked nor done")
		}
	case "CheckEnd":
		x := w.mems[o.M]
		if x.chkRd {
			x.ctl.SetNext(modes[o.Out])
			x.keep.ReleaseRange()
			r := <-x.chk.done
			x.ctl.SetNext(etcdx.Pass)
			x.chk, x.chkRd = nil, false
			return r
		}
		x.ctl.Release(modes[o.Out])
		r := <-x.chk.done
		x.chk = nil
		return r
	case "Expire":
		if o.L >= len(w.leases) {
			panic(fmt.Sprintf("expire: unknown lease %d of %d", o.L, len(w.leases)))
		}
		if w.leases[o.L] == 0 {
			return "BUnit" // lease of a failed campaign: already revoked
		}
		if t0, ok := w.short[o.L]; ok && time.Since(t0) > 800*time.Millisecond {
			w.late = true // the model's clock only moves here; a slow run may have let it expire earlier
		}
		deadline := time.Now().Add(30 * time.Second)
		for {
			r, err := w.admin.TimeToLive(ctx, w.leases[o.L])
			if err == nil && r.TTL == -1 {
				break
			}
			if time.Now().After(deadline) {
				panic("expire: lease does not expire")
			}
			time.Sleep(40 * time.Millisecond)
		}
		time.Sleep(20 * time.Millisecond)
		return "BUnit"
	case "Crash":
		// the object is dropped without Close: its lease stays on etcd until it expires
		w.mems[o.M] = w.newMember(o.M)
		return "BUnit"
	case "Write":
		x := w.mems[o.M]
		var err error
		switch o.Kd {
		case 0:
			if o.Del {
				err = x.m.DeleteMemberLeaderPriority(7)
			} else {
				err = x.m.SetMemberLeaderPriority(7, int(o.V))
			}
		case 1:
			err = x.m.DeleteMemberDCLocationInfo(9)
		case 2:
			err = x.alloc.Rebase()
		}
		if err != nil {
			return "BRejected"
		}
		return "BOk"
	case "EnvPut":
		k := path.Join(w.root, dataKeys[o.Kd])
		var err error
		if o.Del {
			_, err = w.admin.Delete(ctx, k)
		} else {
			_, err = w.admin.Put(ctx, k, strconv.FormatInt(o.V, 10))
		}
		if err != nil {
			panic(err)
		}
		return "BUnit"
	case "IsLeader":
		return "BBool " + coqfmt.Bool(w.mems[o.M].m.IsLeader())
	case "KeepBegin":
		x := w.mems[o.M]
		x.keep.Hold()
		kctx, kcancel := context.WithCancel(context.Background())
		x.cancel = kcancel
		go x.m.KeepLeader(kctx)
		select {
		case <-x.keep.Held():
		case <-time.After(10 * time.Second):
			panic("keep-alive response never arrived")
		}
		return "BStarted"
	case "KeepEnd":
		x := w.mems[o.M]
		x.keep.Release()
		time.Sleep(60 * time.Millisecond) // let lease.KeepAlive store the expiry it was sent
		return "BUnit"
	case "Sleep":
		time.Sleep(time.Duration(o.TTL) * time.Millisecond)
		return ""
	case "Read":
		get := func(k string) []byte {
			r, err := w.admin.Get(ctx, path.Join(w.root, k))
			if err != nil {
				panic(err)
			}
			if len(r.Kvs) == 0 {
				return nil
			}
			return r.Kvs[0].Value
		}
		ld := "None"
		if v := get("leader"); v != nil {
			for i, x := range w.mems {
				if x.m.MemberValue() == string(v) {
					ld = fmt.Sprintf("(Some %d%%nat)", i)
				}
			}
		}
		d := make([]string, 3)
		for k := 0; k < 3; k++ {
			v := get(dataKeys[k])
			if v == nil {
				d[k] = "None"
			} else if k == 2 {
				u, err := typeutil.BytesToUint64(v)
				if err != nil {
					panic(err)
				}
				d[k] = "(Some " + coqfmt.ZU(u) + ")"
			} else {
				n, _ := strconv.ParseInt(string(v), 10, 64)
				d[k] = "(Some " + coqfmt.Z(n) + ")"
			}
		}
		return "BStore " + ld + " " + strings.Join(d, " ")
	}
	panic("bad op " + o.K)
}

// noteGrant keeps lease numbering identical to the model's (one number per successful Grant).
// A campaign that failed has already revoked its lease, so it is not listed any more: slot 0.
func (w *world) noteGrant(short, alive bool) {
	before := len(w.leases)
	w.noteLeases(short)
	if len(w.leases) == before {
		if alive {
			panic("a live lease was expected on etcd")
		}
		w.leases = append(w.leases, 0)
	}
}

type caseRec struct {
	Ops []op
	Obs []string
}

func (c caseRec) coq() string {
	ops := make([]string, len(c.Ops))
	for i, o := range c.Ops {
		ops[i] = o.coq()
	}
	return "(" + coqfmt.List(ops) + ",\n  " + coqfmt.List(c.Obs) + ")"
}

// ---- generation: a coarse view of who may legally do what (never an op the model calls BBad) ----
func genCase(r *rng.R, nmem int, withExpiry bool, maxOps int) []op {
	var ops []op
	state := make([]int, nmem) // 0 no usable lease, 1 campaign acknowledged (until reset/crash), 2 campaign parked, 3 check parked
	latest := make([]int, nmem)
	for i := range latest {
		latest[i] = -1
	}
	nleases := 0
	add := func(o op) { ops = append(ops, o) }
	probe := func() {
		add(op{K: "Read"})
		for m := 0; m < nmem; m++ {
			add(op{K: "IsLeader", M: m})
		}
	}
	n := 6 + r.Intn(maxOps)
	expiries := 0
	for k := 0; k < n; k++ {
		m := r.Intn(nmem)
		switch r.Pick(22, 8, 10, 8, 6, 6, 16, 5, 12, 7) {
		case 0: // campaign to completion; whether it wins is decided by the implementation
			if state[m] == 0 {
				short := withExpiry && expiries < 2 && r.Pct(50)
				ttl := int64(60)
				if short {
					ttl = 1
				}
				add(op{K: "Read"})
				add(op{K: "Campaign", M: m, TTL: ttl})
				latest[m] = nleases
				nleases++
				state[m] = 1 // conservatively: needs a reset before campaigning again (harmless if it lost)
				if short {
					if r.Pct(50) {
						add(op{K: "Write", M: m, Kd: 0, V: int64(r.Intn(50))})
					}
					probe()
					add(op{K: "Expire", L: latest[m]})
					expiries++
					probe()
				}
			}
		case 1:
			if state[m] == 0 {
				add(op{K: "CampaignBegin", M: m, TTL: 60})
				latest[m] = nleases
				nleases++
				state[m] = 2
			}
		case 2:
			for _, c := range r.Perm(nmem) {
				if state[c] == 2 {
					add(op{K: "Read"})
					add(op{K: "CampaignEnd", M: c, Out: r.Pick(60, 20, 20)})
					state[c] = 1
					break
				}
			}
		case 3:
			if state[m] == 1 {
				add(op{K: "Reset", M: m})
				state[m] = 0
				probe()
			}
		case 4:
			if state[m] < 2 {
				add(op{K: "Crash", M: m})
				state[m] = 0
				add(op{K: "IsLeader", M: m})
			}
		case 5:
			if state[m] == 0 {
				add(op{K: "CheckLeader", M: m})
			}
		case 6:
			if state[m] < 2 {
				kd := r.Intn(3)
				add(op{K: "Read"})
				add(op{K: "Write", M: m, Kd: kd, V: int64(r.Intn(100)), Del: (kd == 0 && r.Pct(30)) || kd == 1})
				add(op{K: "Read"})
			}
		case 7:
			add(op{K: "EnvPut", Kd: r.Intn(2), V: int64(r.Intn(100)), Del: r.Pct(20)})
		case 8:
			probe()
		case 9:
			if state[m] == 0 {
				add(op{K: "CheckBegin", M: m, Rd: r.Intn(2) == 0})
				state[m] = 3
			}
		}
		if r.Pct(35) {
			for c := 0; c < nmem; c++ {
				if state[c] == 3 {
					add(op{K: "CheckEnd", M: c, Out: r.Pick(70, 15, 15)})
					state[c] = 0
				}
			}
		}
	}
	return ops
}

// stale self-delete scenario (props C03_one_leader_full_refuted): a restarted member reads its own old
// record, the old lease expires, another member wins, the unconditional delete removes the new
// leader's record, and the restarted member wins as well.
func staleDeleteScenario() []op {
	return []op{
		{K: "Campaign", M: 0, TTL: 1}, {K: "Crash", M: 0}, {K: "CheckBegin", M: 0},
		{K: "Expire", L: 0}, {K: "Read"},
		{K: "Campaign", M: 1, TTL: 60}, {K: "Read"}, {K: "IsLeader", M: 1},
		{K: "CheckEnd", M: 0, Out: 0}, {K: "Read"},
		{K: "Campaign", M: 0, TTL: 60}, {K: "Read"},
		{K: "IsLeader", M: 0}, {K: "IsLeader", M: 1},
	}
}

// a keep-alive response that arrives after the leadership was reset (lease.Close()) changes nothing
func lateKeepAliveAfterResetScenario() []op {
	return []op{
		{K: "Campaign", M: 0, TTL: 3}, {K: "KeepBegin", M: 0}, {K: "Reset", M: 0}, {K: "KeepEnd", M: 0},
		{K: "IsLeader", M: 0}, {K: "Read"},
		{K: "Campaign", M: 1, TTL: 60}, {K: "Read"},
		{K: "IsLeader", M: 0}, {K: "IsLeader", M: 1},
	}
}

// a member that follows another member's record (CheckLeader, then the watch of leaderLoop) and one that led before and
// follows now: every guarded write they attempt is rejected, whatever the watch has seen
func followerWriteScenario() []op {
	return []op{
		{K: "Campaign", M: 0, TTL: 60}, {K: "CheckLeader", M: 1, Rd: true},
		{K: "Write", M: 1, Kd: 0, V: 5}, {K: "Write", M: 1, Kd: 1, Del: true}, {K: "Write", M: 1, Kd: 2, V: 1}, {K: "Read"},
		{K: "Reset", M: 0}, {K: "Campaign", M: 1, TTL: 60}, {K: "CheckLeader", M: 0, Rd: true},
		{K: "Write", M: 0, Kd: 0, V: 6}, {K: "Write", M: 0, Kd: 1, Del: true}, {K: "Write", M: 0, Kd: 2, V: 1}, {K: "Read"},
		{K: "Write", M: 1, Kd: 0, V: 7}, {K: "IsLeader", M: 0}, {K: "IsLeader", M: 1}, {K: "Read"},
	}
}

// the same with member 0 stopped between its read of the record and whatever it does next
func staleDeleteAfterReadScenario() []op {
	l := staleDeleteScenario()
	l[2].Rd = true
	return l
}

func runCase(e *etcdx.Etcd, admin *clientv3.Client, root string, nmem int, ops []op) (caseRec, bool) {
	w := &world{e: e, admin: admin, root: root, known: map[clientv3.LeaseID]bool{}, short: map[int]time.Time{}}
	defer e.CloseFrom(e.Mark())
	ctx, cancel := context.WithTimeout(context.Background(), 5*time.Second)
	r0, err := admin.Leases(ctx)
	cancel()
	if err != nil {
		panic(err)
	}
	for _, l := range r0.Leases {
		w.known[l.ID] = true
	}
	for i := 0; i < nmem; i++ {
		w.mems = append(w.mems, w.newMember(i))
	}
	defer func() {
		for _, x := range w.mems {
			x.unfollow()
		}
	}()
	var c caseRec
	skipEnd := map[int]bool{}
	step := func(o op) string {
		b := w.exec(o)
		if o.K == "Sleep" {
			return b
		}
		c.Ops = append(c.Ops, o)
		c.Obs = append(c.Obs, b)
		return b
	}
	for _, o := range ops {
		if o.K == "CheckEnd" && skipEnd[o.M] {
			delete(skipEnd, o.M) // the matching CheckBegin completed without parking: nothing to release
			continue
		}
		b := step(o)
		if o.K == "CheckBegin" && b != "BStarted" {
			skipEnd[o.M] = true
		}
	}
	for i, x := range w.mems {
		if x.camp != nil {
			step(op{K: "CampaignEnd", M: i, Out: 1})
		}
		if x.chk != nil {
			step(op{K: "CheckEnd", M: i, Out: 1})
		}
	}
	step(op{K: "Read"})
	// release what is left so that later cases do not accumulate live leases and clients
	for _, x := range w.mems {
		if x.cancel != nil {
			x.cancel()
		}
		x.keep.Pass()
		x.m.ResetLeader()
	}
	for _, l := range w.leases {
		if l != 0 {
			ctx, cancel := context.WithTimeout(context.Background(), 2*time.Second)
			admin.Revoke(ctx, l)
			cancel()
		}
	}
	return c, !w.late
}

// slow keep-alive scenario: the holder's first keep-alive response is delivered late and no further one arrives; the
// local expiry must be counted from the moment the renewal was REQUESTED (that is when etcd extended the lease), so the
// holder stops being leader no later than etcd lets a contender in.
func slowKeepAliveScenario() []op {
	return []op{
		{K: "Campaign", M: 0, TTL: 3}, {K: "KeepBegin", M: 0}, {K: "Sleep", TTL: 2600}, {K: "KeepEnd", M: 0},
		{K: "Expire", L: 0}, {K: "Read"},
		{K: "Campaign", M: 1, TTL: 60}, {K: "Read"},
		{K: "IsLeader", M: 0}, {K: "IsLeader", M: 1},
	}
}

type job struct {
	idx  int
	nmem int
	ops  []op
}

// revokeWindowProbe: a member resigns (ResetLeader -> lease.Close()); the revocation of its lease is applied by etcd
// (the leader record is gone with it) but the call has not returned yet. From that moment on another member may win:
// the resigning member must already answer Check() = false and IsLeader() = false (Close() zeroes the expiry first).
func revokeWindowProbe(R *res.Result) {
	e, err := etcdx.StartOpt(50, 500)
	if err != nil {
		R.Notes = append(R.Notes, "revoke-window probe skipped: "+err.Error())
		return
	}
	defer e.Close()
	admin, _, err := e.NewClient()
	if err != nil {
		R.Notes = append(R.Notes, "revoke-window probe skipped: "+err.Error())
		return
	}
	w := &world{e: e, admin: admin, root: "/c03/revoke", known: map[clientv3.LeaseID]bool{}, short: map[int]time.Time{}}
	for i := 0; i < 2; i++ {
		w.mems = append(w.mems, w.newMember(i))
	}
	a, b := w.mems[0], w.mems[1]
	if err := a.m.CampaignLeader(60); err != nil {
		R.Notes = append(R.Notes, "revoke-window probe skipped: campaign: "+err.Error())
		return
	}
	a.m.EnableLeader()
	a.keep.HoldRevoke()
	done := make(chan struct{})
	go func() { a.m.ResetLeader(); close(done) }()
	select {
	case <-a.keep.RevokeHeld():
	case <-done: // the revocation failed or was not attempted: nothing to observe
		R.Notes = append(R.Notes, "revoke-window probe: ResetLeader returned without a held revocation")
		return
	case <-time.After(5 * time.Second):
		R.Notes = append(R.Notes, "revoke-window probe: revocation not seen")
		return
	}
	R.Count("revoke-window:probed")
	check, isLeader := a.m.GetLeadership().Check(), a.m.IsLeader()
	berr := b.m.CampaignLeader(60)
	if berr == nil {
		b.m.EnableLeader()
	}
	if check || isLeader {
		R.Violate("C03:resigning-member-still-valid-after-its-lease-was-revoked",
			fmt.Sprintf("member 0 resigns; etcd has applied the revocation of its lease (leader record gone) and the Revoke call has not returned yet: Check() = %v, IsLeader() = %v; member 1 campaigned meanwhile: %v; IsLeader() of member 1 = %v", check, isLeader, berr, b.m.IsLeader()),
			map[string]interface{}{"check": check, "is_leader": isLeader, "other_member_won": berr == nil})
	}
	a.keep.ReleaseRevoke()
	<-done
}

// keepAliveAfterCloseProbe: the order of a PD leader's step-down in server.campaignLeader: the deferred
// ResetAllocatorGroup(Global) resets the leadership (lease.Close(): expiry zeroed, lease revoked) while the keep-alive
// goroutine is still running (its context is cancelled only later, together with ResetLeader). A keep-alive response
// that etcd produced before the revocation and that arrives after Close() must not make the resigned member believe in
// its lease again: from the revocation on another member may win.
func keepAliveAfterCloseProbe(R *res.Result) {
	e, err := etcdx.StartOpt(50, 500)
	if err != nil {
		R.Notes = append(R.Notes, "keep-alive-after-close probe skipped: "+err.Error())
		return
	}
	defer e.Close()
	admin, _, err := e.NewClient()
	if err != nil {
		return
	}
	w := &world{e: e, admin: admin, root: "/c03/kaclose", known: map[clientv3.LeaseID]bool{}, short: map[int]time.Time{}}
	for i := 0; i < 2; i++ {
		w.mems = append(w.mems, w.newMember(i))
	}
	a, b := w.mems[0], w.mems[1]
	if err := a.m.CampaignLeader(3); err != nil {
		return
	}
	a.m.EnableLeader()
	a.keep.Hold()
	kctx, kcancel := context.WithCancel(context.Background())
	defer kcancel()
	go a.m.KeepLeader(kctx)
	select {
	case <-a.keep.Held(): // etcd has renewed the lease, the response is on its way
	case <-time.After(10 * time.Second):
		R.Notes = append(R.Notes, "keep-alive-after-close probe: no keep-alive response seen")
		return
	}
	a.m.GetLeadership().Reset() // what ResetAllocatorGroup(Global) does first
	closedCheck := a.m.GetLeadership().Check()
	a.keep.Release() // the response arrives now
	time.Sleep(150 * time.Millisecond)
	check, isLeader := a.m.GetLeadership().Check(), a.m.IsLeader()
	berr := b.m.CampaignLeader(60)
	if berr == nil {
		b.m.EnableLeader()
	}
	R.Count("keep-alive-after-close:probed")
	if closedCheck || check || isLeader {
		R.Violate("C03:resigned-member-valid-again-after-late-keep-alive-response",
			fmt.Sprintf("member 0 leads with a 3 s lease; a keep-alive response is in flight when its leadership is reset (lease.Close(): expiry zeroed, lease revoked; Check() = %v right after); the response arrives: Check() = %v, IsLeader() = %v; member 1 campaigns: %v, IsLeader() of member 1 = %v", closedCheck, check, isLeader, berr, b.m.IsLeader()),
			map[string]interface{}{"check_after_close": closedCheck, "check_after_response": check, "is_leader": isLeader, "other_member_won": berr == nil})
	}
	kcancel()
	a.m.ResetLeader()
}

// tsoInFlightProbe: a timestamp request that is already inside getTS (it overflowed the logical part and sits in its
// retry sleep) when the lease of the serving member runs out; the periodic update that ran while the lease was still
// valid has reset the logical counter, so the retry can generate a timestamp. It must not be returned: the member's
// lease is gone (another member may lead by then).
func tsoInFlightProbe(R *res.Result) {
	e, err := etcdx.StartOpt(50, 500)
	if err != nil {
		R.Notes = append(R.Notes, "tso-in-flight probe skipped: "+err.Error())
		return
	}
	defer e.Close()
	admin, _, err := e.NewClient()
	if err != nil {
		return
	}
	w := &world{e: e, admin: admin, root: "/c03/tsoflight", known: map[clientv3.LeaseID]bool{}, short: map[int]time.Time{}}
	for i := 0; i < 2; i++ {
		w.mems = append(w.mems, w.newMember(i))
	}
	a, b := w.mems[0], w.mems[1]
	cfg := config.NewConfig()
	cfg.TSOSaveInterval = typeutil.NewDuration(3 * time.Second)
	cfg.TSOUpdatePhysicalInterval = typeutil.NewDuration(1500 * time.Millisecond) // = the retry sleep of getTS
	am := tso.NewAllocatorManager(a.m, w.root, cfg, func() time.Duration { return 24 * time.Hour })
	am.SetUpAllocator(context.Background(), tso.GlobalDCLocation, a.m.GetLeadership())
	alloc, err := am.GetAllocator(tso.GlobalDCLocation)
	if err != nil {
		return
	}
	if err := a.m.CampaignLeader(1); err != nil { // 1 s lease, never renewed
		return
	}
	t0 := time.Now()
	if err := alloc.Initialize(0); err != nil {
		return
	}
	defer am.ResetAllocatorGroup(tso.GlobalDCLocation)
	if _, err := alloc.GenerateTSO(1<<18 - 10); err != nil {
		return
	}
	type ans struct {
		ts  pdpb.Timestamp
		err error
		at  time.Duration
	}
	done := make(chan ans, 1)
	go func() {
		ts, err := alloc.GenerateTSO(100) // overflows, sleeps 1.5 s, retries
		done <- ans{ts, err, time.Since(t0)}
	}()
	time.Sleep(300 * time.Millisecond)
	if err := alloc.UpdateTSO(); err != nil { // the lease is still valid: physical time advances, logical = 0
		R.Notes = append(R.Notes, "tso-in-flight probe: update refused: "+err.Error())
	}
	// the lease runs out on etcd; another member wins
	deadline := time.Now().Add(10 * time.Second)
	bwon := false
	for time.Now().Before(deadline) {
		if err := b.m.CampaignLeader(60); err == nil {
			bwon = true
			break
		}
		time.Sleep(50 * time.Millisecond)
	}
	r := <-done
	R.Count("tso-in-flight:probed")
	if r.err == nil && r.at > time.Second {
		R.Violate("C03:timestamp-granted-after-lease-expired:request-in-flight",
			fmt.Sprintf("member 0 leads with a 1 s lease that is never renewed; a request overflowed the logical part and slept in its retry; %.2f s after the campaign (lease expired, member 1 campaigned: %v) it was answered (%d,%d)", r.at.Seconds(), bwon, r.ts.Physical, r.ts.Logical),
			map[string]interface{}{"answered_after_s": r.at.Seconds(), "other_member_won": bwon, "timestamp": []int64{r.ts.Physical, r.ts.Logical}})
	}
}

func main() {
	seed := flag.Uint64("seed", 1, "")
	n := flag.Int("n", 200, "number of generated cases")
	out := flag.String("out", ".", "output directory")
	tier := flag.String("tier", "quick", "")
	corpus := flag.String("corpus", "", "json file of fixed op lists run first")
	replay := flag.String("replay", "", "json file with op lists: run and print observations")
	workers := flag.Int("workers", 8, "")
	expiryPct := flag.Int("expiry-pct", 12, "percentage of generated cases that wait out real 1 s leases")
	flag.Parse()

	R := res.New("C03", *seed, *tier)
	R.Rule = "histories of CampaignLeader (complete / parked txn released with Ok, ErrNotApplied, ErrApplied), ResetLeader, CheckLeader " +
		"(complete / its delete parked), crash (Member object dropped, lease left on etcd), real expiry of 1 s leases, leader-guarded writes " +
		"(member priority set/delete, dc-location delete, id window) bracketed by store reads, and IsLeader probes of all members, on 2-3 real " +
		"member.Member objects per case sharing an embedded etcd; non-trivial = a hand-over (two different members acknowledged) or a rejected " +
		"guarded write or an expiry; distinct by sha256 of canonical (ops,obs)"
	cf := &coqfmt.CaseFile{Dir: *out, Prefix: "C03", PerFile: 100,
		Header: "From Coq Require Import NArith String.\nFrom PDV Require Import lib.Base model.C03_Leader.\nLocal Open Scope Z_scope.\nOpen Scope string_scope.\n",
		Type:   "list op * list obs",
		Footer: "Definition M := Eval vm_compute in map fst (mismatches cases).\nDefinition D := Eval vm_compute in hd_error (mismatches cases).\nDefinition V := Eval vm_compute in monitor_fails cases.\nPrint M. Print D. Print V.\n"}

	var jobs []job
	add := func(nmem int, ops []op) { jobs = append(jobs, job{len(jobs), nmem, ops}) }
	for _, f := range []string{*corpus, *replay} {
		if f == "" {
			continue
		}
		b, err := os.ReadFile(f)
		if err != nil {
			panic(err)
		}
		var l [][]op
		if err := json.Unmarshal(b, &l); err != nil {
			// a replay file written by bin/check: {"replay": {"Ops": [...]}}
			var w struct {
				Replay struct{ Ops []op }
			}
			if err2 := json.Unmarshal(b, &w); err2 != nil || len(w.Replay.Ops) == 0 {
				panic(err)
			}
			l = [][]op{w.Replay.Ops}
		}
		for _, ops := range l {
			add(3, ops)
		}
	}
	if *replay == "" {
		add(2, staleDeleteScenario())
		add(2, staleDeleteAfterReadScenario())
		add(2, slowKeepAliveScenario())
		add(2, lateKeepAliveAfterResetScenario())
		add(2, followerWriteScenario())
		master := rng.New(*seed)
		for k := 0; k < *n; k++ {
			r := master.Fork(uint64(k))
			add(2+r.Intn(2), genCase(r, 3, r.Pct(*expiryPct), 30))
		}
	}
	if *replay == "" {
		revokeWindowProbe(R)
		keepAliveAfterCloseProbe(R)
		tsoInFlightProbe(R)
		servedAfterResetProbe(R)
		neighbourRecordProbe(R)
	}
	results := make([]*caseRec, len(jobs))
	ch := make(chan job)
	var wg sync.WaitGroup
	for wk := 0; wk < *workers; wk++ {
		wg.Add(1)
		go func(wk int) {
			defer wg.Done()
			e, err := etcdx.StartOpt(50, 500)
			if err != nil {
				fmt.Fprintln(os.Stderr, "etcd:", err)
				os.Exit(2)
			}
			defer e.Close()
			admin, _, err := e.NewClient()
			if err != nil {
				panic(err)
			}
			for j := range ch {
				c, ok := runCase(e, admin, fmt.Sprintf("/c03/%d", j.idx), 3, j.ops)
				if ok {
					results[j.idx] = &c
				}
			}
		}(wk)
	}
	for _, j := range jobs {
		ch <- j
	}
	close(ch)
	wg.Wait()

	var all []caseRec
	for _, c := range results {
		if c == nil {
			R.Count("discarded:slow-run-overtook-a-short-lease")
			continue
		}
		winners := map[int]bool{}
		rejected, expired := 0, 0
		for i, o := range c.Ops {
			R.Count("op:" + o.K)
			ob := strings.Fields(c.Obs[i])[0]
			R.Count("obs:" + ob)
			if (o.K == "Campaign" || o.K == "CampaignEnd") && ob == "BOk" {
				winners[o.M] = true
			}
			if o.K == "Write" && ob == "BRejected" {
				rejected++
			}
			if o.K == "Expire" {
				expired++
			}
		}
		txt := c.coq()
		R.Case(txt, len(winners) > 1 || rejected > 0 || expired > 0)
		R.Sample(map[string]interface{}{"ops": c.Ops, "obs": c.Obs})
		if err := cf.Add(txt); err != nil {
			panic(err)
		}
		all = append(all, *c)
		if *replay != "" {
			for i := range c.Ops {
				fmt.Printf("%-36s -> %s\n", c.Ops[i].coq(), c.Obs[i])
			}
		}
	}
	if err := cf.Flush(); err != nil {
		panic(err)
	}
	R.CaseFiles = cf.Files
	b, _ := json.Marshal(all)
	os.WriteFile(path.Join(*out, "cases.json"), b, 0o644)
	if err := R.Write(path.Join(*out, "result.json")); err != nil {
		panic(err)
	}
}
