package main

import (
	"context"
	"fmt"
	"io"
	"time"

	"github.com/pingcap/kvproto/pkg/metapb"
	"github.com/pingcap/kvproto/pkg/pdpb"
	"go.etcd.io/etcd/clientv3"
	"google.golang.org/grpc/metadata"

	"github.com/tikv/pd/server/election"

	"pdverif/internal/etcdx"
	"pdverif/internal/res"
	"pdverif/internal/srv15"
)

// hbStream is a RegionHeartbeat stream whose messages the probe hands over one at a time.
type hbStream struct {
	ctx context.Context
	in  chan *pdpb.RegionHeartbeatRequest
}

func (s *hbStream) Send(*pdpb.RegionHeartbeatResponse) error { return nil }
func (s *hbStream) Recv() (*pdpb.RegionHeartbeatRequest, error) {
	select {
	case r, ok := <-s.in:
		if !ok {
			return nil, io.EOF
		}
		return r, nil
	case <-s.ctx.Done():
		return nil, s.ctx.Err()
	}
}
func (s *hbStream) SetHeader(metadata.MD) error  { return nil }
func (s *hbStream) SendHeader(metadata.MD) error { return nil }
func (s *hbStream) SetTrailer(metadata.MD)       {}
func (s *hbStream) Context() context.Context     { return s.ctx }
func (s *hbStream) SendMsg(interface{}) error    { return nil }
func (s *hbStream) RecvMsg(interface{}) error    { return nil }

type tsoOne struct {
	ctx  context.Context
	req  *pdpb.TsoRequest
	sent bool
	got  *pdpb.TsoResponse
}

func (s *tsoOne) Send(r *pdpb.TsoResponse) error { s.got = r; return nil }
func (s *tsoOne) Recv() (*pdpb.TsoRequest, error) {
	if s.sent {
		return nil, io.EOF
	}
	s.sent = true
	return s.req, nil
}
func (s *tsoOne) SetHeader(metadata.MD) error  { return nil }
func (s *tsoOne) SendHeader(metadata.MD) error { return nil }
func (s *tsoOne) SetTrailer(metadata.MD)       {}
func (s *tsoOne) Context() context.Context     { return s.ctx }
func (s *tsoOne) SendMsg(interface{}) error    { return nil }
func (s *tsoOne) RecvMsg(interface{}) error    { return nil }

// servedAfterResetProbe: a complete server, bootstrapped, with an established region-heartbeat stream (bound while the
// member led). The leadership is reset the way the exit of campaignLeader does it first (lease closed and revoked - the
// raft cluster is stopped only afterwards, and the leader loop looks at the lease every 50 ms) and another member's record
// is put under the leader key, so this member cannot win again. Whatever reaches its handlers from then on - the next
// message on the established stream, AllocID, PutStore, UpdateGCSafePoint, a timestamp request - must be refused and must
// leave nothing in the storage.
func servedAfterResetProbe(R *res.Result) {
	x, err := srv15.Start()
	if err != nil {
		R.Notes = append(R.Notes, "served-after-reset probe skipped: "+err.Error())
		return
	}
	defer x.Close()
	if err := x.Bootstrap(); err != nil {
		R.Notes = append(R.Notes, "served-after-reset probe skipped: bootstrap: "+err.Error())
		return
	}
	ctx, cancel := context.WithCancel(context.Background())
	defer cancel()
	hb := &hbStream{ctx: ctx, in: make(chan *pdpb.RegionHeartbeatRequest)}
	hbDone := make(chan error, 1)
	go func() { hbDone <- x.S.RegionHeartbeat(hb) }()
	peer := &metapb.Peer{Id: 3, StoreId: 1}
	beat := func(version uint64, end string) *pdpb.RegionHeartbeatRequest {
		return &pdpb.RegionHeartbeatRequest{Header: x.Header(), Leader: peer,
			Region: &metapb.Region{Id: 2, EndKey: []byte(end), Peers: []*metapb.Peer{peer}, RegionEpoch: &metapb.RegionEpoch{ConfVer: 1, Version: version}}}
	}
	storedVersion := func() (uint64, bool) {
		r := &metapb.Region{}
		ok, err := x.S.GetStorage().LoadRegion(2, r)
		if err != nil || !ok {
			return 0, false
		}
		return r.GetRegionEpoch().GetVersion(), true
	}
	cachedVersion := func() (uint64, bool) {
		r := x.S.GetBasicCluster().GetRegion(2)
		if r == nil {
			return 0, false
		}
		return r.GetRegionEpoch().GetVersion(), true
	}
	select {
	case hb.in <- beat(1, ""):
	case <-time.After(5 * time.Second):
		R.Notes = append(R.Notes, "served-after-reset probe skipped: the heartbeat stream does not read")
		return
	}
	deadline := time.Now().Add(5 * time.Second)
	for {
		if v, ok := cachedVersion(); ok && v == 1 {
			break
		}
		if time.Now().After(deadline) {
			R.Notes = append(R.Notes, "served-after-reset probe skipped: the first heartbeat was not processed")
			return
		}
		time.Sleep(10 * time.Millisecond)
	}
	idBefore, err := x.S.AllocID(ctx, &pdpb.AllocIDRequest{Header: x.Header()})
	if err != nil || idBefore.GetHeader().GetError() != nil {
		R.Notes = append(R.Notes, "served-after-reset probe skipped: AllocID refused while leading")
		return
	}
	foreign := &pdpb.Member{Name: "other", MemberId: 4242, ClientUrls: []string{"http://127.0.0.1:1"}, PeerUrls: []string{"http://127.0.0.1:2"}}
	data, _ := foreign.Marshal()
	leaderKey := x.S.GetMember().GetLeaderPath()

	x.S.GetMember().GetLeadership().Reset()
	// the foreign record goes in only if the key is still free: a member that was quick enough to win again (a stalled
	// probe on a loaded machine) serves rightfully, and the probe is skipped
	pctx, pcancel := context.WithTimeout(ctx, 5*time.Second)
	tr, err := x.S.GetClient().Txn(pctx).If(clientv3.Compare(clientv3.CreateRevision(leaderKey), "=", 0)).Then(clientv3.OpPut(leaderKey, string(data))).Commit()
	pcancel()
	if err != nil || !tr.Succeeded {
		R.Notes = append(R.Notes, "served-after-reset probe skipped: the leader key was taken again before the foreign record could be written")
		return
	}
	// the next message on the established stream, at once: the raft cluster is still running
	select {
	case hb.in <- beat(2, "m"):
	case <-hbDone: // the handler has already left: nothing more can be served on this stream
	case <-time.After(2 * time.Second):
	}
	R.Count("served-after-reset:probed")
	served := func(h, what string) {
		R.Violate("C03:request-served-after-the-leadership-was-reset:"+h,
			"a complete server led, its leadership was reset (lease closed and revoked) and another member's record stands under the leader key; after that "+what,
			map[string]interface{}{"handler": h, "scenario": "Start; Bootstrap; RegionHeartbeat stream bound; Leadership.Reset(); foreign leader record; request"})
	}
	if r, err := x.S.AllocID(ctx, &pdpb.AllocIDRequest{Header: x.Header()}); err == nil && r.GetHeader().GetError() == nil && r.GetId() != 0 {
		served("AllocID", fmt.Sprintf("AllocID answered %d", r.GetId()))
	}
	if r, err := x.S.PutStore(ctx, &pdpb.PutStoreRequest{Header: x.Header(), Store: &metapb.Store{Id: 9, Address: "127.0.0.1:20009"}}); err == nil && r.GetHeader().GetError() == nil {
		served("PutStore", "PutStore(store 9) was acknowledged")
	}
	if r, err := x.S.UpdateGCSafePoint(ctx, &pdpb.UpdateGCSafePointRequest{Header: x.Header(), SafePoint: 77}); err == nil && r.GetHeader().GetError() == nil {
		served("UpdateGCSafePoint", fmt.Sprintf("UpdateGCSafePoint(77) was acknowledged with %d", r.GetNewSafePoint()))
	}
	ts := &tsoOne{ctx: ctx, req: &pdpb.TsoRequest{Header: x.Header(), Count: 1, DcLocation: "global"}}
	if err := x.S.Tso(ts); err == nil && ts.got != nil {
		served("Tso", fmt.Sprintf("a timestamp (%d,%d) was granted", ts.got.GetTimestamp().GetPhysical(), ts.got.GetTimestamp().GetLogical()))
	}
	time.Sleep(300 * time.Millisecond)
	if v, ok := cachedVersion(); ok && v != 1 {
		served("RegionHeartbeat", fmt.Sprintf("a heartbeat sent on the established stream was processed: the cached region 2 has version %d", v))
	} else {
		time.Sleep(3200 * time.Millisecond) // the region storage flushes its batch after 3 s
		if v, ok := storedVersion(); ok && v > 1 {
			served("RegionHeartbeat", fmt.Sprintf("a heartbeat sent on the established stream was processed: the stored region 2 has version %d", v))
		}
	}
	st := &metapb.Store{}
	if ok, err := x.S.GetStorage().LoadStore(9, st); err == nil && ok {
		served("PutStore:stored", "store 9 is in the storage")
	}
	if sp, err := x.S.GetStorage().LoadGCSafePoint(); err == nil && sp == 77 {
		served("UpdateGCSafePoint:stored", "the GC safe point 77 is in the storage")
	}
}

// neighbourRecordProbe: the leader records of two Local TSO Allocators whose dc-location names are prefixes of each other
// (dc-1, dc-10) live side by side below the root path. Whatever one leadership does with its own record - campaign, delete,
// reset - the neighbour's record and the neighbour's view of its leadership stay as they are.
func neighbourRecordProbe(R *res.Result) {
	e, err := etcdx.Start()
	if err != nil {
		R.Notes = append(R.Notes, "neighbour-record probe skipped: "+err.Error())
		return
	}
	defer e.Close()
	admin, _, err := e.NewClient()
	if err != nil {
		return
	}
	cliA, _, err := e.NewClient()
	if err != nil {
		return
	}
	cliB, _, err := e.NewClient()
	if err != nil {
		return
	}
	root := "/c03/neighbours"
	long := election.NewLeadership(cliA, root+"/dc-10", "probe dc-10")
	short := election.NewLeadership(cliB, root+"/dc-1", "probe dc-1")
	if err := long.Campaign(60, "member of dc-10"); err != nil {
		return
	}
	if err := short.Campaign(60, "member of dc-1"); err != nil {
		return
	}
	value := func(k string) string {
		ctx, cancel := context.WithTimeout(context.Background(), 5*time.Second)
		defer cancel()
		r, err := admin.Get(ctx, k)
		if err != nil || len(r.Kvs) == 0 {
			return ""
		}
		return string(r.Kvs[0].Value)
	}
	R.Count("neighbour-record:probed")
	check := func(after string) bool {
		if v := value(root + "/dc-10"); v != "member of dc-10" {
			R.Violate("C03:record-of-another-leadership-removed:key-is-a-prefix-of-the-neighbours-key",
				fmt.Sprintf("the leaderships of dc-1 and dc-10 both held their records; after %s of dc-1 the record of dc-10 reads %q", after, v),
				map[string]interface{}{"after": after, "record_of_dc-10": v})
			return false
		}
		return true
	}
	if err := short.DeleteLeaderKey(); err != nil {
		R.Notes = append(R.Notes, "neighbour-record probe: DeleteLeaderKey: "+err.Error())
	}
	if !check("DeleteLeaderKey") {
		return
	}
	if v := value(root + "/dc-1"); v != "" {
		R.Violate("C03:own-record-not-removed-by-DeleteLeaderKey", fmt.Sprintf("DeleteLeaderKey of dc-1 returned but its record still reads %q", v), nil)
		return
	}
	if err := short.Campaign(60, "member of dc-1"); err != nil {
		return
	}
	short.Reset()
	time.Sleep(100 * time.Millisecond)
	if !check("Reset") {
		return
	}
	if !long.Check() {
		R.Violate("C03:record-of-another-leadership-removed:key-is-a-prefix-of-the-neighbours-key", "after Reset of dc-1 the leadership of dc-10 reports an invalid lease", nil)
	}
	long.Reset()
}
