// Driver for C20: drives the real Bootstrap / IsBootstrapped handlers of a real server.Server with
// concurrent, repeated, malformed and mismatching requests (the bootstrap transaction of a request can
// be parked after the rc == nil test and released with a storage outcome), a leader-change reload of
// the raft cluster, k members running the real initClusterID logic (Get + the exported
// initOrGetClusterID) on one etcd with parked transactions, and every gRPC handler with a mismatching
// cluster id. Prints (ops, observations + etcd view after every op) as Coq terms for
// model/C20_Bootstrap.v.
package main

import (
	"context"
	"encoding/json"
	"flag"
	"fmt"
	"io"
	"os"
	"path"
	"reflect"
	"sort"
	"strings"
	"time"

	"github.com/pingcap/kvproto/pkg/metapb"
	"github.com/pingcap/kvproto/pkg/pdpb"
	"github.com/tikv/pd/pkg/etcdutil"
	"github.com/tikv/pd/pkg/typeutil"
	"github.com/tikv/pd/server"
	"github.com/tikv/pd/server/core"
	"go.etcd.io/etcd/clientv3"
	"google.golang.org/grpc"

	"pdverif/internal/coqfmt"
	"pdverif/internal/etcdx"
	"pdverif/internal/kvx15"
	"pdverif/internal/res"
	"pdverif/internal/rng"
	"pdverif/internal/srv15"
)

// ---------- payloads ----------
var payloadKinds = []string{"valid", "nostore", "zerostore", "noregion", "startkey", "endkey", "zeroregion", "nopeer", "twopeers", "peerstore", "zeropeer"}

type op struct {
	K     string // boot begin finish isboot reload stop meminit membegin memfinish wrong
	T     int    `json:",omitempty"`
	Wrong bool   `json:",omitempty"` // (old replays) same as Hdr "wrong"
	Hdr   string `json:",omitempty"` // request header: "" right cluster id, "nil" no header at all, "zero" id 0, "wrong" another id
	PK    string `json:",omitempty"` // payload kind
	N     int    `json:",omitempty"` // payload number: store 1000+N, region 2000+N, peer 3000+N
	Out   int    `json:",omitempty"` // 0 Ok 1 ErrNotApplied 2 ErrApplied
	Ms    int    `json:",omitempty"` // finishslow: how long etcd takes over the transaction (milliseconds)
	M     int    `json:",omitempty"`
	H     string `json:",omitempty"`
	Ver   string   `json:",omitempty"` // boot/begin: the store's version string ("" = unset)
	Cfg   string   `json:",omitempty"` // putcfg: body class "right" (id, max 5) "right9" (id, max 9) "zero" (id 0, max 7) "unset" (all default) "nil" (no body) "wrong" (id+1)
	HS    []string `json:",omitempty"` // stream: the header class of each message on the one stream
}

func (o op) request(h *pdpb.RequestHeader) *pdpb.BootstrapRequest {
	sid, rid, pid := uint64(1000+o.N), uint64(2000+o.N), uint64(3000+o.N)
	st := &metapb.Store{Id: sid, Address: fmt.Sprintf("127.0.0.1:%d", 20000+o.N), Version: o.Ver}
	rg := &metapb.Region{Id: rid, Peers: []*metapb.Peer{{Id: pid, StoreId: sid}}}
	req := &pdpb.BootstrapRequest{Header: h, Store: st, Region: rg}
	switch o.PK {
	// every malformed kind violates exactly one clause of checkBootstrapRequest (as far as possible), so that a
	// dropped clause lets the request through
	case "nostore":
		req.Store = nil
		rg.Peers[0].StoreId = 0
	case "zerostore":
		st.Id = 0
		rg.Peers[0].StoreId = 0
	case "noregion":
		req.Region = nil
	case "startkey":
		rg.StartKey = []byte("a")
	case "endkey":
		rg.EndKey = []byte("z")
	case "zeroregion":
		rg.Id = 0
	case "nopeer":
		rg.Peers = nil
	case "twopeers":
		rg.Peers = append(rg.Peers, &metapb.Peer{Id: pid + 500, StoreId: sid})
	case "peerstore":
		rg.Peers[0].StoreId = sid + 1
	case "zeropeer":
		rg.Peers[0].Id = 0
	}
	return req
}

func (o op) payloadCoq() string {
	sid, rid, pid := int64(1000+o.N), int64(2000+o.N), int64(3000+o.N)
	store := "(Some " + coqfmt.Z(sid) + ")"
	se, ee := "true", "true"
	peers := []string{fmt.Sprintf("Peer %s %s", coqfmt.Z(pid), coqfmt.Z(sid))}
	region := ""
	switch o.PK {
	case "nostore":
		store = "None"
		peers[0] = fmt.Sprintf("Peer %s 0%%Z", coqfmt.Z(pid))
	case "zerostore":
		store = "(Some 0%Z)"
		peers[0] = fmt.Sprintf("Peer %s 0%%Z", coqfmt.Z(pid))
	case "noregion":
		region = "None"
	case "startkey":
		se = "false"
	case "endkey":
		ee = "false"
	case "zeroregion":
		rid = 0
	case "nopeer":
		peers = nil
	case "twopeers":
		peers = append(peers, fmt.Sprintf("Peer %s %s", coqfmt.Z(pid+500), coqfmt.Z(sid)))
	case "peerstore":
		peers[0] = fmt.Sprintf("Peer %s %s", coqfmt.Z(pid), coqfmt.Z(sid+1))
	case "zeropeer":
		peers[0] = fmt.Sprintf("Peer 0%%Z %s", coqfmt.Z(sid))
	}
	if region == "" {
		region = fmt.Sprintf("(Some (Region %s %s %s %s))", coqfmt.Z(rid), se, ee, coqfmt.List(peers))
	}
	return "(Payload " + store + " " + region + ")"
}

func (o op) hdr() string {
	if o.Hdr == "" && (o.Wrong || o.K == "wrong") {
		return "wrong"
	}
	return o.Hdr
}

func hdrCoq(h string) string {
	switch h {
	case "nil":
		return "None"
	case "zero":
		return "(Some 0%Z)"
	case "wrong":
		return "(Some 8%Z)"
	}
	return "(Some 7%Z)"
}

var outc = []string{"Ok", "ErrNotApplied", "ErrApplied"}

func (o op) coq() string {
	switch o.K {
	case "boot":
		return fmt.Sprintf("OBoot %d %s %s", o.T, hdrCoq(o.hdr()), o.payloadCoq())
	case "begin":
		return fmt.Sprintf("OBegin %d %s %s", o.T, hdrCoq(o.hdr()), o.payloadCoq())
	case "finish":
		return fmt.Sprintf("OFinish %d %s", o.T, outc[o.Out])
	case "finishsf":
		return fmt.Sprintf("OFinishStartFail %d", o.T)
	case "finishslow":
		return fmt.Sprintf("OFinishSlow %d %d", o.T, o.Ms)
	case "commit":
		return fmt.Sprintf("OCommit %d", o.T)
	case "served":
		return "OServed"
	case "isboot":
		return "OIsBoot"
	case "reload", "lcfault":
		return "OReload" // for the model a real leader change is what the reload hook does: the raft cluster is loaded again
	case "stop":
		return "OStop"
	case "meminit":
		return fmt.Sprintf("OMemInit %d", o.M)
	case "membegin":
		return fmt.Sprintf("OMemBegin %d", o.M)
	case "memfinish":
		return fmt.Sprintf("OMemFinish %d %s", o.M, outc[o.Out])
	case "putcfg":
		return "OPutConfig " + map[string]string{"right": "(Some (7%Z, 5%Z))", "right9": "(Some (7%Z, 9%Z))", "zero": "(Some (0%Z, 7%Z))",
			"unset": "(Some (0%Z, 0%Z))", "nil": "None", "wrong": "(Some (8%Z, 4%Z))"}[o.Cfg]
	case "getcfg":
		return "OGetConfig"
	case "stream":
		hs := make([]string, len(o.HS))
		for i, h := range o.HS {
			hs[i] = hdrCoq(h)
		}
		return fmt.Sprintf("OStream %q %s", o.H, coqfmt.List(hs))
	case "wrong", "call":
		return fmt.Sprintf("OCall %q %s", o.H, hdrCoq(o.hdr()))
	}
	panic("bad op " + o.K)
}

// ---------- world ----------
type bres struct {
	resp *pdpb.BootstrapResponse
	err  error
}
type mres struct {
	id  uint64
	err error
}

type world struct {
	x    *srv15.Srv
	ek   *kvx15.EtcdKV
	sb   *kvx15.Base // controlled kv.Base inside core.Storage (to fail cluster.Start's LoadMeta)
	ctx  context.Context
	done [3]chan bres
	park [3]bool
	caseLeaderRev int64 // create revision of the leader key when the case started
	held [3]bool // parked requests whose transaction etcd has already decided (the winner's answer is held)
	R    *res.Result

	// members' cluster id initialisation runs on a separate embedded etcd
	me    *etcdx.Etcd
	mcli  []*clientv3.Client
	mctl  []*etcdx.CtlKV
	admin *clientv3.Client
	mkey  string
	mdone [3]chan mres
	mpark [3]bool
	seen  []uint64 // renaming of cluster ids by first appearance

	regionIDs []uint64

	noMemberKey bool // view() of the bootstrap records only (cluster phase)
}

// header builds the request header of the given class; "nil" = the request has no header message at all
func (w *world) header(class string) *pdpb.RequestHeader {
	id := w.x.S.ClusterID()
	switch class {
	case "nil":
		return nil
	case "zero":
		id = 0
	case "wrong":
		id++
	}
	return &pdpb.RequestHeader{ClusterId: id}
}

var invalidMsgs = []struct{ sub, coq string }{
	{"missing store meta", "NoStore"}, {"invalid zero store id", "ZeroStoreId"}, {"missing region meta", "NoRegion"},
	{"invalid first region key range", "KeyRange"}, {"invalid zero region id", "ZeroRegionId"},
	{"invalid first region peer count", "PeerCount"}, {"invalid peer store id", "PeerStore"}, {"invalid zero peer id", "ZeroPeerId"},
}

func bootObs(r bres) string {
	if r.err != nil {
		m := r.err.Error()
		switch {
		case strings.Contains(m, "mismatch cluster id"):
			return "BMismatch"
		case strings.Contains(m, "ErrEtcdTxnConflict"):
			return "BConflict"
		case strings.Contains(m, "ErrEtcdTxnInternal"):
			return "BEtcdErr"
		case strings.Contains(m, "injected storage error"):
			return "BStartErr"
		}
		for _, im := range invalidMsgs {
			if strings.Contains(m, im.sub) {
				return "BInvalid " + im.coq
			}
		}
		return "BBad (* " + strings.ReplaceAll(m, "*)", "") + " *)"
	}
	if e := r.resp.GetHeader().GetError(); e != nil {
		if e.GetType() == pdpb.ErrorType_ALREADY_BOOTSTRAPPED {
			return "BAlready"
		}
		return "BBad"
	}
	return "BOk"
}

func (w *world) startBoot(o op, park bool) string {
	t := o.T
	w.done[t] = make(chan bres, 1)
	who := fmt.Sprintf("b%d", t)
	go func() {
		w.ek.Bind(who)
		w.sb.Bind(who)
		if park {
			w.ek.Arm(who, kvx15.Park)
		}
		r, err := w.x.S.Bootstrap(w.ctx, o.request(w.header(o.hdr())))
		w.ek.Arm(who, kvx15.Pass)
		w.ek.Unbind()
		w.sb.Disarm(who)
		w.sb.Unbind()
		w.done[t] <- bres{r, err}
	}()
	select {
	case <-w.ek.Parked(who):
		w.park[t] = true
		return "BStarted"
	case r := <-w.done[t]:
		return bootObs(r)
	case <-time.After(120 * time.Second):
		panic("bootstrap request neither parked nor finished")
	}
}

var modes = []kvx15.Mode{kvx15.Pass, kvx15.FailBefore, kvx15.FailAfter}
var emodes = []etcdx.Mode{etcdx.Pass, etcdx.FailBefore, etcdx.FailAfter}

func (w *world) rename(id uint64) int {
	for i, v := range w.seen {
		if v == id {
			return i
		}
	}
	w.seen = append(w.seen, id)
	return len(w.seen) - 1
}

// what (*Server).initClusterID does, on the member's own client: Get; if absent, initOrGetClusterID
func (w *world) memInit(m int) (uint64, error) {
	resp, err := etcdutil.EtcdKVGet(w.mcli[m], w.mkey)
	if err != nil {
		return 0, err
	}
	if len(resp.Kvs) == 0 {
		return server.VerifC20InitOrGetClusterID(w.mcli[m], w.mkey)
	}
	return typeutil.BytesToUint64(resp.Kvs[0].Value)
}

func (w *world) memObs(r mres) string {
	if r.err != nil {
		if strings.Contains(r.err.Error(), "ErrEtcdTxnInternal") {
			return "BEtcdErr"
		}
		return "BBad (* " + strings.ReplaceAll(r.err.Error(), "*)", "") + " *)"
	}
	return fmt.Sprintf("BId %d", w.rename(r.id))
}

func (w *world) exec(o op) string {
	switch o.K {
	case "boot":
		return w.startBoot(o, false)
	case "begin":
		return w.startBoot(o, true)
	case "finish":
		if !w.park[o.T] {
			return "BBad"
		}
		w.ek.Release(fmt.Sprintf("b%d", o.T), modes[o.Out])
		w.park[o.T], w.held[o.T] = false, false
		return bootObs(<-w.done[o.T])
	case "finishslow":
		// etcd is slow (a stalled disk): it accepts the transaction, takes o.Ms over it and applies it then - also when the
		// client that sent it has stopped waiting
		if !w.park[o.T] || w.held[o.T] {
			return "BBad"
		}
		who := fmt.Sprintf("b%d", o.T)
		d := time.Duration(o.Ms) * time.Millisecond
		w.ek.SetDelay(who, d)
		t0 := time.Now()
		w.ek.Release(who, kvx15.PassSlow)
		w.park[o.T] = false
		ob := bootObs(<-w.done[o.T])
		if el := time.Since(t0); el < d {
			// the request gave up before etcd was done: let etcd finish before anything else is looked at
			w.R.Count("slow-etcd:request-returned-before-etcd-answered")
			time.Sleep(d - el + 700*time.Millisecond)
		} else {
			w.R.Count("slow-etcd:request-waited-for-etcd")
		}
		return ob
	case "commit":
		// the parked transaction is sent and decided by etcd; a winner's answer is held on its way back
		if !w.park[o.T] || w.held[o.T] {
			return "BBad"
		}
		who := fmt.Sprintf("b%d", o.T)
		w.ek.Release(who, kvx15.PassHold)
		select {
		case <-w.ek.Parked(who):
			w.held[o.T] = true
			return "BStarted"
		case r := <-w.done[o.T]:
			w.park[o.T] = false
			return bootObs(r)
		case <-time.After(120 * time.Second):
			panic("released bootstrap transaction neither held nor answered")
		}
	case "served":
		rc := w.x.S.GetRaftCluster()
		if rc == nil {
			return "BNotBoot"
		}
		var ids []uint64
		for _, r := range rc.GetRegions() {
			ids = append(ids, r.GetID())
		}
		sort.Slice(ids, func(i, j int) bool { return ids[i] < ids[j] })
		var l []string
		for _, id := range ids {
			l = append(l, coqfmt.ZU(id))
		}
		return "BRegions " + coqfmt.List(l)
	case "finishsf":
		if !w.park[o.T] {
			return "BBad"
		}
		who := fmt.Sprintf("b%d", o.T)
		// cluster.Start loads the cluster meta the transaction has just written: that load fails
		w.sb.Arm(who, func(x kvx15.Op) bool { return x.Kind == kvx15.Load && x.Key == "raft" }, kvx15.FailBefore)
		w.ek.Release(who, kvx15.Pass)
		w.park[o.T] = false
		return bootObs(<-w.done[o.T])
	case "isboot":
		r, err := w.x.S.IsBootstrapped(w.ctx, &pdpb.IsBootstrappedRequest{Header: w.header("")})
		if err != nil {
			return "BBad (* " + strings.ReplaceAll(err.Error(), "*)", "") + " *)"
		}
		return "BBool " + coqfmt.Bool(r.GetBootstrapped())
	case "reload":
		if err := w.x.S.VerifC20ReloadCluster(); err != nil {
			return "BBad"
		}
		return "BUnit"
	case "lcfault":
		// a REAL leader change (the leadership is reset; the member steps down, stops its raft cluster and campaigns again)
		// during which ONE read of the cluster record by the new term's createRaftCluster fails. A member that cannot load
		// the cluster must not serve as a leader without it: it has to end up leading WITH the raft cluster running.
		w.sb.ScriptAny([]*kvx15.Step{{Match: func(x kvx15.Op) bool { return x.Kind == kvx15.Load && x.Key == "raft" }, Mode: kvx15.FailBefore}})
		w.x.S.GetMember().ResetLeader()
		time.Sleep(300 * time.Millisecond)
		deadline, stableSince := time.Now().Add(30*time.Second), time.Time{}
		for time.Now().Before(deadline) {
			lead := !w.x.S.IsClosed() && w.x.S.GetMember().IsLeader()
			if lead && w.x.S.GetRaftCluster() != nil {
				break
			}
			if lead && w.sb.FiredAny() > 0 {
				if stableSince.IsZero() {
					stableSince = time.Now()
				} else if time.Since(stableSince) > 4*time.Second {
					break // it keeps leading without the raft cluster
				}
			} else {
				stableSince = time.Time{}
			}
			time.Sleep(20 * time.Millisecond)
		}
		w.R.CountN("lcfault:read-faults-fired", w.sb.FiredAny())
		w.sb.ScriptAny(nil)
		return "BUnit"
	case "stop":
		w.x.S.VerifC20StopCluster()
		return "BUnit"
	case "meminit", "membegin":
		m := o.M
		w.mdone[m] = make(chan mres, 1)
		if o.K == "membegin" {
			w.mctl[m].SetNext(etcdx.Park)
		} else {
			w.mctl[m].SetNext(etcdx.Pass)
		}
		go func() {
			id, err := w.memInit(m)
			w.mdone[m] <- mres{id, err}
		}()
		select {
		case <-w.mctl[m].Parked():
			w.mpark[m] = true
			return "BStarted"
		case r := <-w.mdone[m]:
			w.mctl[m].SetNext(etcdx.Pass)
			return w.memObs(r)
		case <-time.After(120 * time.Second):
			panic("member init neither parked nor finished")
		}
	case "memfinish":
		if !w.mpark[o.M] {
			return "BBad"
		}
		w.mctl[o.M].Release(emodes[o.Out])
		w.mpark[o.M] = false
		return w.memObs(<-w.mdone[o.M])
	case "putcfg":
		id := w.x.S.ClusterID()
		var body *metapb.Cluster
		switch o.Cfg {
		case "right":
			body = &metapb.Cluster{Id: id, MaxPeerCount: 5}
		case "right9":
			body = &metapb.Cluster{Id: id, MaxPeerCount: 9}
		case "zero":
			body = &metapb.Cluster{Id: 0, MaxPeerCount: 7}
		case "unset":
			body = &metapb.Cluster{}
		case "wrong":
			body = &metapb.Cluster{Id: id + 1, MaxPeerCount: 4}
		}
		ob := func() (ob string) {
			defer func() {
				if r := recover(); r != nil {
					w.R.Violate("C20:put-cluster-config-panics", fmt.Sprintf("PutClusterConfig with body class %q panicked: %v", o.Cfg, r), o)
					ob = "BBad (* panic *)"
				}
			}()
			r, err := w.x.S.PutClusterConfig(w.ctx, &pdpb.PutClusterConfigRequest{Header: w.header(""), Cluster: body})
			switch {
			case err != nil && (strings.Contains(err.Error(), "not leader") || strings.Contains(err.Error(), "not started")):
				return "BBad (* " + err.Error() + " *)"
			case err != nil:
				return "BInvalidCfg"
			case r.GetHeader().GetError() != nil:
				return "BNotBoot"
			}
			return "BUnit"
		}()
		return ob
	case "getcfg":
		r, err := w.x.S.GetClusterConfig(w.ctx, &pdpb.GetClusterConfigRequest{Header: w.header("")})
		if err != nil {
			return "BBad (* " + strings.ReplaceAll(err.Error(), "*)", "") + " *)"
		}
		if r.GetHeader().GetError() != nil {
			return "BNotBoot"
		}
		return fmt.Sprintf("BCfg %s %s", coqfmt.Bool(r.GetCluster().GetId() == w.x.S.ClusterID()), coqfmt.Z(int64(r.GetCluster().GetMaxPeerCount())))
	case "stream":
		return w.stream(o.H, o.HS)
	case "wrong", "call":
		return w.call(o.H, o.hdr())
	}
	panic("bad op")
}

// ---------- every gRPC handler with a mismatching cluster id ----------
type fakeStream struct {
	grpc.ServerStream
	ctx  context.Context
	sent int
}

func (f *fakeStream) Context() context.Context { return f.ctx }

type tsoStream struct {
	fakeStream
	req *pdpb.TsoRequest
}

func (s *tsoStream) Send(*pdpb.TsoResponse) error { s.sent++; return nil }
func (s *tsoStream) Recv() (*pdpb.TsoRequest, error) {
	if s.req == nil {
		return nil, io.EOF
	}
	r := s.req
	s.req = nil
	return r, nil
}

type hbStream struct {
	fakeStream
	req  *pdpb.RegionHeartbeatRequest
	last *pdpb.RegionHeartbeatResponse
}

func (s *hbStream) Send(r *pdpb.RegionHeartbeatResponse) error { s.sent++; s.last = r; return nil }
func (s *hbStream) Recv() (*pdpb.RegionHeartbeatRequest, error) {
	if s.req == nil {
		return nil, io.EOF
	}
	r := s.req
	s.req = nil
	return r, nil
}

type syncStream struct {
	fakeStream
	req *pdpb.SyncRegionRequest
}

func (s *syncStream) Send(*pdpb.SyncRegionResponse) error { s.sent++; return nil }
func (s *syncStream) Recv() (*pdpb.SyncRegionRequest, error) {
	if s.req == nil {
		return nil, io.EOF
	}
	r := s.req
	s.req = nil
	return r, nil
}

// ---------- ONE stream carrying several messages ----------
type tsoQ struct {
	fakeStream
	reqs []*pdpb.TsoRequest
	got  int
}

func (s *tsoQ) Send(*pdpb.TsoResponse) error { s.sent++; return nil }
func (s *tsoQ) Recv() (*pdpb.TsoRequest, error) {
	if s.got >= len(s.reqs) {
		return nil, io.EOF
	}
	s.got++
	return s.reqs[s.got-1], nil
}

type hbQ struct {
	fakeStream
	reqs []*pdpb.RegionHeartbeatRequest
	got  int
	last *pdpb.RegionHeartbeatResponse
}

func (s *hbQ) Send(r *pdpb.RegionHeartbeatResponse) error { s.sent++; s.last = r; return nil }
func (s *hbQ) Recv() (*pdpb.RegionHeartbeatRequest, error) {
	if s.got >= len(s.reqs) {
		return nil, io.EOF
	}
	s.got++
	return s.reqs[s.got-1], nil
}

type syncQ struct {
	fakeStream
	reqs []*pdpb.SyncRegionRequest
	got  int
}

func (s *syncQ) Send(*pdpb.SyncRegionResponse) error { s.sent++; return nil }
func (s *syncQ) Recv() (*pdpb.SyncRegionRequest, error) {
	if s.got >= len(s.reqs) {
		return nil, io.EOF
	}
	s.got++
	return s.reqs[s.got-1], nil
}

// stream opens ONE stream of the streaming handler `name` and sends one message per header class of hs on it. The
// observation lists, per message the handler received, whether it got past the validation: every message the handler
// came back from to receive the next one was accepted; the last one received is classified by how the handler returned.
func (w *world) stream(name string, hs []string) (ob string) {
	got, err, notBoot := 0, error(nil), false
	func() {
		defer func() {
			if r := recover(); r != nil {
				err = fmt.Errorf("panic past the validation: %v", r)
			}
		}()
		hdr := func(c string) *pdpb.RequestHeader {
			h := w.header(c)
			if h != nil {
				h.SenderId = w.x.S.GetLeader().GetMemberId()
			}
			return h
		}
		switch name {
		case "Tso":
			q := &tsoQ{fakeStream: fakeStream{ctx: w.ctx}}
			for _, c := range hs {
				q.reqs = append(q.reqs, &pdpb.TsoRequest{Header: hdr(c), Count: 1})
			}
			defer func() { got = q.got }()
			err = w.x.S.Tso(q)
		case "RegionHeartbeat":
			q := &hbQ{fakeStream: fakeStream{ctx: w.ctx}}
			// well-formed heartbeats of the bootstrapped store's first region, so that an accepted message keeps the stream open
			var sid, rid uint64
			if r, err := w.x.S.GetClient().Get(w.ctx, w.x.S.GetClusterRootPath()+"/s/", clientv3.WithPrefix()); err == nil && len(r.Kvs) > 0 {
				k := string(r.Kvs[0].Key)
				fmt.Sscanf(k[len(k)-20:], "%d", &sid)
				rid = sid + 1000
			}
			peer := &metapb.Peer{Id: sid + 2000, StoreId: sid}
			for _, c := range hs {
				q.reqs = append(q.reqs, &pdpb.RegionHeartbeatRequest{Header: hdr(c), Leader: peer,
					Region: &metapb.Region{Id: rid, Peers: []*metapb.Peer{peer}}})
			}
			defer func() {
				got = q.got
				notBoot = q.last != nil && q.last.GetHeader().GetError().GetType() == pdpb.ErrorType_NOT_BOOTSTRAPPED
			}()
			err = w.x.S.RegionHeartbeat(q)
		case "SyncRegions":
			q := &syncQ{fakeStream: fakeStream{ctx: w.ctx}}
			for _, c := range hs {
				q.reqs = append(q.reqs, &pdpb.SyncRegionRequest{Header: hdr(c),
					Member: &pdpb.Member{Name: "verif", MemberId: 1, ClientUrls: []string{"http://127.0.0.1:1"}}})
			}
			defer func() { got = q.got }()
			err = w.x.S.SyncRegions(q)
		default:
			panic("not a streaming handler: " + name)
		}
	}()
	var obs []string
	for i := 0; i < got; i++ {
		if i < got-1 {
			obs = append(obs, "BAccepted")
		} else {
			obs = append(obs, classifyWrong(err, notBoot))
		}
	}
	return "BStream " + coqfmt.List(obs)
}

var streamHandlers = []string{"Tso", "RegionHeartbeat", "SyncRegions"}

// handlerNames: every exported method of *server.Server that takes a pdpb request or a pdpb stream
func handlerNames(s *server.Server) []string {
	var out []string
	t := reflect.TypeOf(s)
	for i := 0; i < t.NumMethod(); i++ {
		m := t.Method(i)
		ok := false
		for j := 1; j < m.Type.NumIn(); j++ {
			in := m.Type.In(j)
			if in.Kind() == reflect.Ptr {
				in = in.Elem()
			}
			if strings.HasSuffix(in.PkgPath(), "kvproto/pkg/pdpb") && (strings.HasSuffix(in.Name(), "Request") || strings.HasPrefix(in.Name(), "PD_")) {
				ok = true
			}
		}
		if ok && !strings.HasPrefix(m.Name, "Verif") {
			out = append(out, m.Name)
		}
	}
	sort.Strings(out)
	return out
}

func classifyWrong(err error, notBoot bool) string {
	if err != nil && (strings.Contains(err.Error(), "not leader") || strings.Contains(err.Error(), "not started")) {
		return "BBad (* " + err.Error() + " *)" // leadership lost under load: the case is dropped
	}
	if err != nil && strings.Contains(err.Error(), "mismatch cluster id") {
		return "BMismatch"
	}
	if notBoot {
		return "BNotBoot"
	}
	return "BAccepted"
}

// call invokes handler `name` with an otherwise (almost) empty request carrying a header of the given class.
// BMismatch = refused with the cluster id mismatch error; BNotBoot = NOT_BOOTSTRAPPED answer; anything else
// (a normal answer, another error, even a panic over the empty request) means the request got past the validation.
func (w *world) call(name, class string) (ob string) {
	defer func() {
		if r := recover(); r != nil {
			ob = "BAccepted"
		}
	}()
	h := w.header(class)
	if h != nil {
		h.SenderId = w.x.S.GetLeader().GetMemberId()
	}
	return callOn(w.x.S, w.ctx, name, h)
}

func callOn(sv *server.Server, ctx context.Context, name string, h *pdpb.RequestHeader) string {
	switch name {
	case "Tso":
		return classifyWrong(sv.Tso(&tsoStream{fakeStream: fakeStream{ctx: ctx}, req: &pdpb.TsoRequest{Header: h, Count: 1}}), false)
	case "RegionHeartbeat":
		st := &hbStream{fakeStream: fakeStream{ctx: ctx}, req: &pdpb.RegionHeartbeatRequest{Header: h}}
		err := sv.RegionHeartbeat(st)
		nb := st.last != nil && st.last.GetHeader().GetError().GetType() == pdpb.ErrorType_NOT_BOOTSTRAPPED
		return classifyWrong(err, nb)
	case "SyncRegions":
		return classifyWrong(sv.SyncRegions(&syncStream{fakeStream: fakeStream{ctx: ctx}, req: &pdpb.SyncRegionRequest{Header: h,
			Member: &pdpb.Member{Name: "verif", MemberId: 1, ClientUrls: []string{"http://127.0.0.1:1"}}}}), false)
	}
	m := reflect.ValueOf(sv).MethodByName(name)
	if !m.IsValid() || m.Type().NumIn() != 2 {
		return "BBad"
	}
	req := reflect.New(m.Type().In(1).Elem())
	if f := req.Elem().FieldByName("Header"); f.IsValid() && h != nil {
		f.Set(reflect.ValueOf(h))
	}
	out := m.Call([]reflect.Value{reflect.ValueOf(ctx), req})
	var err error
	if e, ok := out[len(out)-1].Interface().(error); ok {
		err = e
	}
	return classifyWrong(err, false)
}

// probeUnstarted: a server that has been created but has not initialised its cluster id yet (s.clusterID == 0) must
// not serve anything: a header-less request carries id 0 and would match. Every handler is called with no header
// on a created, never started server; each must answer with an error (or NOT_BOOTSTRAPPED).
func probeUnstarted(R *res.Result, ctx context.Context) {
	cfg, err := srv15.Config()
	if err != nil {
		panic(err)
	}
	defer os.RemoveAll(cfg.DataDir)
	sv, err := server.CreateServer(ctx, cfg)
	srv15.Quiet()
	if err != nil {
		panic(err)
	}
	for _, name := range handlerNames(sv) {
		ob := func() (ob string) {
			defer func() {
				if r := recover(); r != nil {
					ob = "panic past the closed-server check"
				}
			}()
			return callUnstarted(sv, ctx, name)
		}()
		R.Count("unstarted:" + ob)
		if ob != "refused" {
			R.Violate("C20:request-served-before-cluster-id-is-initialised",
				fmt.Sprintf("handler %s on a created-but-not-started server (cluster id still 0) answered a header-less request: %s", name, ob), []string{name})
		}
	}
	// second stage - the member is STARTING: Run() has finished startEtcd (its services are reachable, the etcd client exists) and
	// has not yet run startServer, which reads / initialises the cluster id: Server.ClusterID() is still 0. Nothing may be
	// answered then - in particular nothing that carries a cluster id in its header (GetMembers is how clients learn the id)
	err = sv.VerifC20RunWithPause(func() {
		for _, name := range handlerNames(sv) {
			ob := func() (ob string) {
				defer func() {
					if r := recover(); r != nil {
						ob = "panic past the closed-server check"
					}
				}()
				return callUnstarted(sv, ctx, name)
			}()
			R.Count("starting:" + ob)
			if ob != "refused" {
				R.Violate("C20:request-served-before-cluster-id-is-initialised:member-starting",
					fmt.Sprintf("handler %s on a member between startEtcd and startServer (Server.ClusterID() = %d) answered a header-less request: %s", name, sv.ClusterID(), ob), []string{name})
			}
		}
		if r, err := sv.GetMembers(ctx, &pdpb.GetMembersRequest{}); err == nil {
			R.Violate("C20:cluster-id-handed-out-before-it-is-initialised",
				fmt.Sprintf("GetMembers on a starting member answered with header cluster id %d; after start-up the same member reports another id", r.GetHeader().GetClusterId()), []string{"GetMembers"})
		}
	})
	if err != nil {
		R.Notes = append(R.Notes, "starting-member probe incomplete: "+err.Error())
		return
	}
	if r, err := sv.GetMembers(ctx, &pdpb.GetMembersRequest{}); err != nil || r.GetHeader().GetClusterId() != sv.ClusterID() || sv.ClusterID() == 0 {
		R.Violate("C20:cluster:members-disagree-on-cluster-id", fmt.Sprintf("started member: GetMembers header %d (%v), Server.ClusterID() %d", r.GetHeader().GetClusterId(), err, sv.ClusterID()), nil)
	}
	sv.Close()
}

func callUnstarted(sv *server.Server, ctx context.Context, name string) string {
	var err error
	switch name {
	case "Tso":
		err = sv.Tso(&tsoStream{fakeStream: fakeStream{ctx: ctx}, req: &pdpb.TsoRequest{Count: 1}})
	case "RegionHeartbeat":
		st := &hbStream{fakeStream: fakeStream{ctx: ctx}, req: &pdpb.RegionHeartbeatRequest{}}
		err = sv.RegionHeartbeat(st)
		if st.last != nil && st.last.GetHeader().GetError().GetType() == pdpb.ErrorType_NOT_BOOTSTRAPPED {
			return "refused"
		}
	case "SyncRegions":
		err = sv.SyncRegions(&syncStream{fakeStream: fakeStream{ctx: ctx}, req: &pdpb.SyncRegionRequest{
			Member: &pdpb.Member{Name: "verif", MemberId: 1, ClientUrls: []string{"http://127.0.0.1:1"}}}})
	default:
		m := reflect.ValueOf(sv).MethodByName(name)
		out := m.Call([]reflect.Value{reflect.ValueOf(ctx), reflect.New(m.Type().In(1).Elem())})
		if e, ok := out[len(out)-1].Interface().(error); ok {
			err = e
		}
	}
	if err != nil {
		return "refused"
	}
	return "answered without error"
}

// handlers that are harmless to call with the RIGHT cluster id and an empty request (reads, or refusals for other reasons)
var safeWithRightID = []string{"IsBootstrapped", "GetStore", "GetRegion", "GetRegionByID", "GetPrevRegion", "GetAllStores", "GetGCSafePoint",
	"GetClusterConfig", "GetMembers", "GetOperator", "ScanRegions", "AllocID", "Tso", "RegionHeartbeat"}

var foreignClasses = []string{"nil", "zero", "wrong"}

// ---------- view ----------
func (w *world) view() string {
	cli := w.x.S.GetClient()
	root := w.x.S.GetClusterRootPath()
	resp, err := cli.Get(w.ctx, root, clientv3.WithPrefix())
	if err != nil {
		panic(err)
	}
	hasRoot, hasTime := false, false
	var stores, regions []string
	for _, kv := range resp.Kvs {
		k := string(kv.Key)
		switch {
		case k == root:
			hasRoot = true
		case k == path.Join(root, "status", "raft_bootstrap_time"):
			hasTime = true
		case strings.HasPrefix(k, root+"/s/"):
			var id int64
			fmt.Sscanf(k[len(root)+3:], "%d", &id)
			stores = append(stores, coqfmt.Z(id))
		case strings.HasPrefix(k, root+"/r/"):
			var id int64
			fmt.Sscanf(k[len(root)+3:], "%d", &id)
			regions = append(regions, coqfmt.Z(id))
		}
	}
	cid := "None"
	if w.noMemberKey {
		return fmt.Sprintf("(View %s %s %s %s %s [])", coqfmt.Bool(hasRoot), coqfmt.Bool(hasTime), coqfmt.List(stores), coqfmt.List(regions), cid)
	}
	// the region storage: what a restart loads the regions from
	var rstore []string
	if err := w.x.S.GetStorage().LoadRegions(func(r *core.RegionInfo) []*core.RegionInfo {
		rstore = append(rstore, coqfmt.ZU(r.GetID()))
		return nil
	}); err != nil {
		panic(err)
	}
	r2, err := w.admin.Get(w.ctx, w.mkey)
	if err != nil {
		panic(err)
	}
	if len(r2.Kvs) > 0 {
		v, err := typeutil.BytesToUint64(r2.Kvs[0].Value)
		if err != nil {
			panic(err)
		}
		cid = fmt.Sprintf("(Some %d%%nat)", w.rename(v))
	}
	return fmt.Sprintf("(View %s %s %s %s %s %s)", coqfmt.Bool(hasRoot), coqfmt.Bool(hasTime), coqfmt.List(stores), coqfmt.List(regions), cid, coqfmt.List(rstore))
}

// leaderRev: the create revision of the leader key = the leader term the member is serving in
func (w *world) leaderRev() int64 {
	r, err := w.x.S.GetClient().Get(w.ctx, w.x.S.GetMember().GetLeaderPath())
	if err != nil || len(r.Kvs) == 0 {
		return -1
	}
	return r.Kvs[0].CreateRevision
}

func (w *world) reset(caseNo int) {
	for t := range w.park {
		if w.park[t] || w.mpark[t] {
			panic("reset with a parked request")
		}
	}
	w.x.S.VerifC20StopCluster()
	if _, err := w.x.S.GetClient().Delete(w.ctx, w.x.S.GetClusterRootPath(), clientv3.WithPrefix()); err != nil {
		panic(err)
	}
	for _, id := range w.regionIDs {
		_ = w.x.S.GetStorage().DeleteRegion(&metapb.Region{Id: id})
	}
	w.regionIDs = nil
	w.mkey = fmt.Sprintf("/verif/c20/%d/cluster_id", caseNo)
	w.seen = nil
	w.caseLeaderRev = w.leaderRev()
}

type caseRec struct {
	Ops []op
	Obs []string
}

func (c caseRec) coq() string {
	ops := make([]string, len(c.Ops))
	for i, o := range c.Ops {
		ops[i] = o.coq()
	}
	return "(" + coqfmt.List(ops) + ",\n  " + coqfmt.List(c.Obs) + ")"
}

func (w *world) step(c *caseRec, o op) string {
	if o.K == "boot" || o.K == "begin" {
		o.N = len(c.Ops) + 1
		w.regionIDs = append(w.regionIDs, uint64(2000+o.N))
	}
	ob := w.exec(o)
	c.Ops = append(c.Ops, o)
	c.Obs = append(c.Obs, "("+ob+", "+w.view()+")")
	return ob
}

func (w *world) drain(c *caseRec) {
	for t := range w.park {
		if w.park[t] {
			w.step(c, op{K: "finish", T: t})
		}
	}
	for m := range w.mpark {
		if w.mpark[m] {
			w.step(c, op{K: "memfinish", M: m})
		}
	}
}

// ---------- generators ----------
// pickHdr: the header class of a Bootstrap request; `foreign` percent are spread over none / id 0 / another id
func pickHdr(r *rng.R, foreign int) string {
	if r.Pct(foreign) {
		return foreignClasses[r.Intn(3)]
	}
	return ""
}

// unusual store versions: Bootstrap does not look at the version; whatever it is, the answer and the stored state must agree
var storeVersions = []string{"None", "v2.1.0", "4.0.0-rc.2", "not-a-version"}

func pickVer(r *rng.R) string {
	if r.Pct(25) {
		return storeVersions[r.Intn(len(storeVersions))]
	}
	return ""
}

func pickPayload(r *rng.R, malformed int) string {
	if r.Pct(malformed) {
		return payloadKinds[1+r.Intn(len(payloadKinds)-1)]
	}
	return "valid"
}

func (w *world) genCase(r *rng.R, kind int, maxOps int) caseRec {
	var c caseRec
	n := 5 + r.Intn(maxOps)
	malformed := []int{15, 70, 10}[kind]
	for k := 0; k < n; k++ {
		var idle, parked, midle, mparked []int
		for t := range w.park {
			if w.park[t] {
				parked = append(parked, t)
			} else {
				idle = append(idle, t)
			}
			if w.mpark[t] {
				mparked = append(mparked, t)
			} else {
				midle = append(midle, t)
			}
		}
		heldT := -1
		for t := range w.held {
			if w.held[t] {
				heldT = t
			}
		}
		bootOp := func() bool {
			if heldT >= 0 {
				// a winner's answer is on its way back: other requests are handled completely in that window, the
				// leadership may change (reload) or be given up (stop)
				switch r.Pick(36, 18, 9, 12, 12, 8, 5) {
				case 5:
					// the leadership changes hands in the window: the new term loads the cluster the transaction has stored
					w.step(&c, op{K: "reload"})
				case 6:
					w.step(&c, op{K: "stop"})
				case 0:
					w.step(&c, op{K: "finish", T: heldT})
				case 1:
					if len(idle) == 0 {
						return false
					}
					w.step(&c, op{K: "boot", T: idle[r.Intn(len(idle))], PK: pickPayload(r, malformed), Hdr: pickHdr(r, 5), Ver: pickVer(r)})
				case 2:
					var other []int
					for _, t := range parked {
						if t != heldT {
							other = append(other, t)
						}
					}
					if len(other) == 0 {
						return false
					}
					w.step(&c, op{K: "finish", T: other[r.Intn(len(other))]})
				case 3:
					w.step(&c, op{K: "isboot"})
				default:
					w.step(&c, op{K: "call", H: safeWithRightID[r.Intn(len(safeWithRightID))]})
				}
				return true
			}
			if len(parked) > 0 && r.Pct(15) {
				w.step(&c, op{K: "commit", T: parked[r.Intn(len(parked))]})
				return true
			}
			switch r.Pick(22, 30, 26, 8, 7, 3, 8) {
			case 0:
				if len(idle) > 0 {
					w.step(&c, op{K: "boot", T: idle[r.Intn(len(idle))], PK: pickPayload(r, malformed), Hdr: pickHdr(r, 14), Ver: pickVer(r)})
					return true
				}
			case 1:
				if len(idle) > 0 {
					w.step(&c, op{K: "begin", T: idle[r.Intn(len(idle))], PK: pickPayload(r, malformed), Hdr: pickHdr(r, 10), Ver: pickVer(r)})
					return true
				}
			case 2:
				if len(parked) > 0 {
					if r.Pct(12) {
						w.step(&c, op{K: "finishsf", T: parked[r.Intn(len(parked))]})
					} else if r.Pct(8) {
						w.step(&c, op{K: "finishslow", T: parked[r.Intn(len(parked))], Ms: 50 + r.Intn(350)})
					} else {
						w.step(&c, op{K: "finish", T: parked[r.Intn(len(parked))], Out: r.Pick(76, 12, 12)})
					}
					return true
				}
			case 3:
				w.step(&c, op{K: "isboot"})
				return true
			case 4:
				w.step(&c, op{K: "reload"})
				return true
			case 5:
				w.step(&c, op{K: "stop"})
				return true
			default:
				if r.Pct(30) {
					// the other writer of the cluster record
					if r.Pct(60) {
						w.step(&c, op{K: "putcfg", Cfg: []string{"right", "right9", "zero", "unset", "nil", "wrong"}[r.Intn(6)]})
					} else {
						w.step(&c, op{K: "getcfg"})
					}
				} else if r.Pct(35) {
					// one stream, several messages, the header class changing between them
					o := op{K: "stream", H: streamHandlers[r.Intn(3)]}
					for k := 1 + r.Intn(4); k > 0; k-- {
						o.HS = append(o.HS, pickHdr(r, 35))
					}
					w.step(&c, o)
				} else if r.Pct(25) {
					w.step(&c, op{K: "call", H: safeWithRightID[r.Intn(len(safeWithRightID))]})
				} else {
					hs := handlerNames(w.x.S)
					w.step(&c, op{K: "call", H: hs[r.Intn(len(hs))], Hdr: foreignClasses[r.Intn(3)]})
				}
				return true
			}
			return false
		}
		memOp := func() bool {
			switch r.Pick(35, 35, 30) {
			case 0:
				if len(midle) > 0 {
					w.step(&c, op{K: "meminit", M: midle[r.Intn(len(midle))]})
					return true
				}
			case 1:
				if len(midle) > 0 {
					w.step(&c, op{K: "membegin", M: midle[r.Intn(len(midle))]})
					return true
				}
			default:
				if len(mparked) > 0 {
					w.step(&c, op{K: "memfinish", M: mparked[r.Intn(len(mparked))], Out: r.Pick(70, 15, 15)})
					return true
				}
			}
			return false
		}
		for done := false; !done; {
			if kind == 2 {
				done = memOp()
			} else {
				done = bootOp()
			}
		}
	}
	w.drain(&c)
	if kind == 2 {
		w.step(&c, op{K: "meminit", M: 0})
	} else {
		w.step(&c, op{K: "isboot"})
	}
	return c
}

func directed(handlers []string) [][]op {
	all := [][]op{
		// (run first: the server has never loaded a cluster, as at a real first bootstrap - `served` is only used here)
		// request A wins the transaction, etcd's answer reaches it late; in that window request B is handled completely: it
		// is refused and changes nothing - it does not bring the raft cluster up; then A is answered and the leader serves
		// the cluster A bootstrapped, A's first region included
		{{K: "begin", T: 0, PK: "valid"}, {K: "commit", T: 0}, {K: "isboot"}, {K: "boot", T: 1, PK: "valid"}, {K: "isboot"}, {K: "served"},
			{K: "finish", T: 0}, {K: "served"}, {K: "isboot"}, {K: "reload"}, {K: "served"}},
		// a leader change inside that window: the new term finds the record and loads the cluster before the winner has saved
		// its region and started it; the winner is still the one request answered OK, the records are its records, later
		// requests are refused (what the leader SERVES then is outside C20: see notes, "leader change inside the window")
		{{K: "begin", T: 0, PK: "valid"}, {K: "begin", T: 1, PK: "valid"}, {K: "commit", T: 0}, {K: "reload"}, {K: "isboot"}, {K: "boot", T: 2, PK: "valid"}, {K: "finish", T: 0}, {K: "isboot"},
			{K: "finish", T: 1}, {K: "stream", H: "RegionHeartbeat", HS: []string{"", "wrong"}}, {K: "reload"}, {K: "isboot"}},
		{{K: "begin", T: 0, PK: "valid"}, {K: "commit", T: 0}, {K: "reload"}, {K: "stop"}, {K: "isboot"}, {K: "finish", T: 0}, {K: "isboot"}, {K: "boot", T: 1, PK: "valid"}},
		// etcd takes 4 s over the bootstrap transaction (a stalled disk) and applies it: the request waits for it (10 s,
		// kv.requestTimeout) and is answered OK; a second request behind it loses
		{{K: "begin", T: 0, PK: "valid"}, {K: "begin", T: 1, PK: "valid"}, {K: "finishslow", T: 0, Ms: 4000}, {K: "isboot"}, {K: "finishslow", T: 1, Ms: 300}, {K: "isboot"}},
		// ... the same with a parked second request that loses when it is released in the window
		{{K: "begin", T: 0, PK: "valid"}, {K: "begin", T: 1, PK: "valid"}, {K: "commit", T: 1}, {K: "commit", T: 0}, {K: "isboot"}, {K: "finish", T: 1}, {K: "isboot"}, {K: "stop"}, {K: "isboot"}},
		// three concurrent valid requests, the second one released first
		{{K: "begin", T: 0, PK: "valid"}, {K: "begin", T: 1, PK: "valid"}, {K: "begin", T: 2, PK: "valid"}, {K: "finish", T: 1}, {K: "isboot"},
			{K: "finish", T: 0}, {K: "finish", T: 2}, {K: "boot", T: 0, PK: "valid"}, {K: "reload"}, {K: "boot", T: 1, PK: "valid"}, {K: "isboot"}},
		// the winning transaction is applied but the client sees an error: the record exists, nobody was answered OK
		{{K: "begin", T: 0, PK: "valid"}, {K: "finish", T: 0, Out: 2}, {K: "isboot"}, {K: "boot", T: 1, PK: "valid"}, {K: "reload"}, {K: "isboot"}, {K: "boot", T: 1, PK: "valid"}},
		// not applied: a later request wins
		{{K: "begin", T: 0, PK: "valid"}, {K: "finish", T: 0, Out: 1}, {K: "isboot"}, {K: "boot", T: 1, PK: "valid"}, {K: "isboot"}, {K: "stop"}, {K: "boot", T: 2, PK: "valid"}, {K: "isboot"}},
		// the winner's cluster.Start fails: error answer, record stored; retries are refused; the reload brings the cluster up
		{{K: "begin", T: 0, PK: "valid"}, {K: "begin", T: 1, PK: "valid"}, {K: "finishsf", T: 0}, {K: "isboot"}, {K: "finish", T: 1}, {K: "boot", T: 2, PK: "valid"},
			{K: "isboot"}, {K: "reload"}, {K: "isboot"}, {K: "boot", T: 2, PK: "valid"}},
		// unusual store versions: the answer and the stored state agree (a refused Bootstrap leaves nothing behind)
		{{K: "boot", T: 0, PK: "valid", Ver: "None"}, {K: "isboot"}, {K: "reload"}, {K: "isboot"}},
		{{K: "begin", T: 0, PK: "valid", Ver: "not-a-version"}, {K: "boot", T: 1, PK: "valid", Ver: "v2.1.0"}, {K: "finish", T: 0}, {K: "isboot"}},
		// two concurrent requests, the loser has the larger region id; the region storage (what a restart loads) must hold the winner's only
		{{K: "begin", T: 0, PK: "valid"}, {K: "begin", T: 1, PK: "valid"}, {K: "finish", T: 0}, {K: "finish", T: 1}, {K: "reload"}, {K: "isboot"}, {K: "boot", T: 2, PK: "valid"}, {K: "reload"}},
		// members racing for the cluster id
		{{K: "membegin", M: 0}, {K: "membegin", M: 1}, {K: "membegin", M: 2}, {K: "memfinish", M: 1}, {K: "memfinish", M: 0}, {K: "memfinish", M: 2}, {K: "meminit", M: 1}},
		{{K: "membegin", M: 0}, {K: "membegin", M: 1}, {K: "memfinish", M: 0, Out: 2}, {K: "memfinish", M: 1}, {K: "meminit", M: 0}, {K: "meminit", M: 2}},
		{{K: "membegin", M: 0}, {K: "memfinish", M: 0, Out: 1}, {K: "meminit", M: 1}, {K: "meminit", M: 0}},
	}
	// every clause of checkBootstrapRequest, then a valid one, then every clause again
	var mal []op
	for _, k := range payloadKinds[1:] {
		mal = append(mal, op{K: "boot", T: 0, PK: k})
	}
	mal = append(mal, op{K: "boot", T: 1, PK: "valid", Hdr: "wrong"}, op{K: "boot", T: 1, PK: "valid", Hdr: "nil"}, op{K: "boot", T: 1, PK: "valid", Hdr: "zero"}, op{K: "boot", T: 1, PK: "valid"})
	for _, k := range payloadKinds[1:] {
		mal = append(mal, op{K: "boot", T: 0, PK: k})
	}
	all = append(all, mal)
	// the request-header dimension: every handler with no header / id 0 / another id, the harmless ones also with the
	// right id - before bootstrap and after; Bootstrap and IsBootstrapped themselves in every class
	var wr []op
	sweep := func() {
		for _, h := range handlers {
			for _, c := range foreignClasses {
				wr = append(wr, op{K: "call", H: h, Hdr: c})
			}
		}
		for _, h := range safeWithRightID {
			wr = append(wr, op{K: "call", H: h})
		}
	}
	sweep()
	for _, c := range foreignClasses {
		wr = append(wr, op{K: "boot", T: 0, PK: "valid", Hdr: c}, op{K: "begin", T: 1, PK: "valid", Hdr: c}, op{K: "boot", T: 0, PK: "nostore", Hdr: c})
	}
	wr = append(wr, op{K: "boot", T: 0, PK: "valid"})
	sweep()
	for _, c := range foreignClasses {
		wr = append(wr, op{K: "boot", T: 2, PK: "valid", Hdr: c})
	}
	all = append(all, wr)
	// the other writer of the cluster record: PutClusterConfig with every body class, before bootstrap and after, read back,
	// across a reload; then a late Bootstrap
	all = append(all, []op{{K: "putcfg", Cfg: "right"}, {K: "getcfg"}, {K: "boot", T: 0, PK: "valid"}, {K: "getcfg"}, {K: "putcfg", Cfg: "right"}, {K: "getcfg"},
		{K: "putcfg", Cfg: "zero"}, {K: "getcfg"}, {K: "putcfg", Cfg: "unset"}, {K: "getcfg"}, {K: "reload"}, {K: "isboot"}, {K: "getcfg"}, {K: "putcfg", Cfg: "nil"},
		{K: "putcfg", Cfg: "wrong"}, {K: "putcfg", Cfg: "right9"}, {K: "reload"}, {K: "getcfg"}, {K: "isboot"}, {K: "boot", T: 1, PK: "valid"}})
	// stream histories: the header class changes between the messages of ONE stream
	var sh []op
	hist := [][]string{{"", "", "wrong"}, {"", "nil"}, {"", "zero", ""}, {"nil"}, {"wrong", ""}, {"", "", "", "nil", ""}, {"", ""}}
	for round := 0; round < 2; round++ {
		for _, h := range streamHandlers {
			for _, hs := range hist {
				sh = append(sh, op{K: "stream", H: h, HS: hs})
			}
		}
		if round == 0 {
			sh = append(sh, op{K: "boot", T: 0, PK: "valid"})
		}
	}
	all = append(all, sh)
	return all
}

// sameStoreOverlap: while request A (store S) is inside bootstrapCluster - parked at its transaction - two more requests
// arrive that carry the SAME store id: C malformed (its region has a key range) and B valid but with another first region and
// peer (a second process started on a cloned data directory). Each request is answered for what IT carries: C is refused
// as invalid, at most one of A and B is answered OK, and the stored first region is the one of the request answered OK. A
// request that waits for A instead of being handled (coalesced with it) and is then handed A's answer is reported.
func (w *world) sameStoreOverlap(caseNo int) {
	w.reset(caseNo)
	a := op{K: "begin", T: 0, PK: "valid", N: 1}
	w.regionIDs = append(w.regionIDs, 2001, 2002, 2003)
	if ob := w.startBoot(a, true); ob != "BStarted" {
		w.R.Notes = append(w.R.Notes, "same-store overlap scenario skipped: request A answered "+ob)
		return
	}
	same := func(o op) *pdpb.BootstrapRequest {
		req := o.request(w.header(""))
		req.Store.Id = 1001
		for _, p := range req.GetRegion().GetPeers() {
			p.StoreId = 1001
		}
		return req
	}
	type late struct {
		name string
		ch   chan bres
		ob   string
		held bool
	}
	send := func(name string, req *pdpb.BootstrapRequest) *late {
		l := &late{name: name, ch: make(chan bres, 1)}
		go func() {
			r, err := w.x.S.Bootstrap(w.ctx, req)
			l.ch <- bres{r, err}
		}()
		select {
		case r := <-l.ch:
			l.ob = bootObs(r)
		case <-time.After(700 * time.Millisecond):
			l.held = true // not handled on its own: it waits for the request in flight
		}
		return l
	}
	c := send("C (store 1001, region 2003 with a key range)", same(op{K: "boot", PK: "startkey", N: 3}))
	b := send("B (store 1001, region 2002, peer 3002)", same(op{K: "boot", PK: "valid", N: 2}))
	obA := w.exec(op{K: "finish", T: 0})
	for _, l := range []*late{c, b} {
		if l.held {
			select {
			case r := <-l.ch:
				l.ob = bootObs(r)
			case <-time.After(60 * time.Second):
				panic("overlapping bootstrap request never returned")
			}
		}
	}
	trace := []string{"A (store 1001, region 2001) parked at its transaction", c.name + " -> " + c.ob, b.name + " -> " + b.ob, "A released -> " + obA, "records " + w.view()}
	oks := 0
	for _, ob := range []string{obA, b.ob, c.ob} {
		if ob == "BOk" {
			oks++
		}
	}
	switch {
	case c.ob == "BOk":
		w.R.Violate("C20:malformed-request-accepted:answer-shared-with-the-request-in-flight",
			"a Bootstrap request that checkBootstrapRequest refuses was answered OK because it arrived while another request of the same store was in flight", trace)
	case oks > 1:
		w.R.Violate("C20:bootstrapped-twice:answer-shared-with-the-request-in-flight",
			fmt.Sprintf("%d overlapping Bootstrap requests with the same store id and different first regions were answered OK", oks), trace)
	case c.held || b.held:
		w.R.Violate("C20:bootstrap-request-not-handled-on-its-own", "a Bootstrap request waited for another request's bootstrapCluster instead of being handled", trace)
	}
	if oks == 1 {
		want := map[bool]string{true: "[2001%Z]", false: "[2002%Z]"}[obA == "BOk"]
		if v := w.view(); !strings.Contains(v, "[1001%Z] "+want) {
			w.R.Violate("C20:stored-records-not-from-the-acknowledged-request", "same store id, two first regions: stored "+v+", acknowledged region "+want, trace)
		}
	}
	w.R.Count("same-store-overlap:A=" + obA + ",B=" + b.ob + ",C=" + strings.Fields(c.ob)[0])
}

// thorough tier: a real leader change (the leadership is reset, the member steps down, stops its raft
// cluster, campaigns again and reloads the cluster from etcd) and a real restart of the member on the same
// data directory. Bootstrap must stay refused, the records and the cluster id must be the same.
func (w *world) realLeaderChangeAndRestart(caseNo int) *srv15.Srv {
	w.reset(caseNo)
	var c caseRec
	if ob := w.step(&c, op{K: "boot", T: 0, PK: "valid"}); ob != "BOk" {
		panic("thorough: bootstrap failed: " + ob)
	}
	before := w.view()
	id := w.x.S.ClusterID()
	check := func(what string, x *srv15.Srv) {
		deadline := time.Now().Add(30 * time.Second)
		for x.S.GetRaftCluster() == nil && time.Now().Before(deadline) {
			time.Sleep(20 * time.Millisecond)
		}
		w.x = x
		r, err := x.S.IsBootstrapped(w.ctx, &pdpb.IsBootstrappedRequest{Header: w.header("")})
		if err != nil || !r.GetBootstrapped() {
			w.R.Violate("C20:bootstrap-state-lost:"+what, fmt.Sprintf("IsBootstrapped = %v, %v after %s", r.GetBootstrapped(), err, what), c)
		}
		r2, err := x.S.Bootstrap(w.ctx, op{K: "boot", PK: "valid", N: 77}.request(w.header("")))
		if ob := bootObs(bres{r2, err}); ob != "BAlready" && ob != "BConflict" {
			w.R.Violate("C20:bootstrapped-twice:"+what, "a Bootstrap request after "+what+" was answered "+ob, c)
		}
		if v := w.view(); v != before {
			w.R.Violate("C20:stored-records-changed:"+what, "records before: "+before+" after: "+v, c)
		}
		if x.S.ClusterID() != id {
			w.R.Violate("C20:cluster-id-changed:"+what, fmt.Sprintf("cluster id %d became %d after %s", id, x.S.ClusterID(), what), c)
		}
		w.R.Count("thorough:" + what)
	}
	// 1. real leader change
	w.x.S.GetMember().ResetLeader()
	time.Sleep(1500 * time.Millisecond)
	if err := w.x.WaitLeader(30 * time.Second); err != nil {
		panic(err)
	}
	check("leader-change", w.x)
	// 2. real restart on the same data directory
	old := w.x
	old.Stop()
	nx, err := srv15.StartWith(old.Cfg)
	if err != nil {
		panic(err)
	}
	check("restart", nx)
	return nx
}

func main() {
	seed := flag.Uint64("seed", 1, "")
	n := flag.Int("n", 150, "number of generated cases")
	out := flag.String("out", ".", "output directory")
	tier := flag.String("tier", "quick", "")
	corpus := flag.String("corpus", "", "json file of fixed op lists run first")
	replay := flag.String("replay", "", "json file with op lists (or a replay written by bin/check)")
	flag.Parse()

	x, err := srv15.Start()
	if err != nil {
		fmt.Fprintln(os.Stderr, "server:", err)
		os.Exit(2)
	}
	defer x.Close()
	cli := x.S.GetClient()
	ek := kvx15.NewEtcdKV(cli.KV)
	cli.KV = ek
	me, err := etcdx.Start()
	if err != nil {
		fmt.Fprintln(os.Stderr, "etcd:", err)
		os.Exit(2)
	}
	defer me.Close()
	R := res.New("C20", *seed, *tier)
	R.Rule = "histories of Bootstrap requests (valid, every malformed clause, mismatching cluster id; complete or parked at the bootstrap " +
		"transaction and released with Ok/ErrNotApplied/ErrApplied) on three request threads of a real server, IsBootstrapped, leader-change " +
		"reload / stop of the raft cluster, every gRPC handler called with a mismatching cluster id, and three members running " +
		"initClusterID/initOrGetClusterID on one etcd with parked transactions; non-trivial = at least two requests (or members) " +
		"reached their transaction and at least one was refused, lost, or faulted; distinct by sha256 of the canonical (ops,obs) text"
	sb := kvx15.New(x.S.GetStorage().Base)
	x.S.GetStorage().Base = sb
	w := &world{x: x, ek: ek, sb: sb, ctx: context.Background(), R: R, me: me}
	w.admin, _, err = me.NewClient()
	if err != nil {
		panic(err)
	}
	for m := 0; m < 3; m++ {
		c, k, err := me.NewClient()
		if err != nil {
			panic(err)
		}
		w.mcli = append(w.mcli, c)
		w.mctl = append(w.mctl, k)
	}
	// the serving member's own id is the stored one (one real execution of initClusterID at start-up)
	if r, err := cli.Get(w.ctx, "/pd/cluster_id"); err != nil || len(r.Kvs) != 1 {
		R.Violate("C20:server-cluster-id-not-stored", "no /pd/cluster_id after start", nil)
	} else if v, _ := typeutil.BytesToUint64(r.Kvs[0].Value); v != x.S.ClusterID() {
		R.Violate("C20:server-cluster-id-differs-from-stored", fmt.Sprintf("Server.ClusterID()=%d, stored %d", x.S.ClusterID(), v), nil)
	}
	if *replay == "" {
		probeUnstarted(R, w.ctx)
	}
	handlers := handlerNames(x.S)
	R.Notes = append(R.Notes, "handlers exercised with a mismatching cluster id: "+strings.Join(handlers, " "))

	cf := &coqfmt.CaseFile{Dir: *out, Prefix: "C20", PerFile: 100,
		Header: "From Coq Require Import String.\nFrom PDV Require Import lib.Base model.C20_Bootstrap.\nOpen Scope string_scope.\nLocal Open Scope Z_scope.\n",
		Type:   "list op * list (obs * view)",
		Footer: "Definition M := Eval vm_compute in map fst (mismatches cases).\nDefinition D := Eval vm_compute in hd_error (mismatches cases).\nDefinition V := Eval vm_compute in monitor_fails cases.\nPrint M. Print D. Print V.\n"}
	var all []caseRec
	caseNo := 0
	emit := func(c caseRec, origin string) {
		for _, ob := range c.Obs {
			if strings.Contains(ob, "not leader") || strings.Contains(ob, "not started") {
				// the member lost its 1 s leader lease (machine load): the case says nothing about the property
				R.Count("case:dropped-leadership-lost")
				if err := w.x.WaitLeader(60 * time.Second); err != nil {
					panic(err)
				}
				caseNo++
				return
			}
		}
		deliberate := false
		for _, o := range c.Ops {
			if o.K == "lcfault" {
				deliberate = true
			}
		}
		if rev := w.leaderRev(); !deliberate && rev != w.caseLeaderRev {
			// the member lost its leader lease and was elected again during the case (machine load): the new term has
			// loaded the cluster behind the case's back
			R.Count("case:dropped-leadership-lost")
			if err := w.x.WaitLeader(60 * time.Second); err != nil {
				panic(err)
			}
			caseNo++
			return
		}
		reached, lost := 0, 0
		for i, o := range c.Ops {
			R.Count("op:" + o.K)
			ob := strings.TrimSuffix(strings.Fields(strings.TrimPrefix(c.Obs[i], "("))[0], ",")
			R.Count("obs:" + ob)
			if o.K == "boot" || o.K == "begin" {
				R.Count("payload:" + o.PK)
				R.Count("boot-header:" + map[string]string{"": "right", "nil": "none", "zero": "id-0", "wrong": "other-id"}[o.hdr()])
			}
			if o.K == "putcfg" {
				R.Count("putcfg-body:" + o.Cfg)
			}
			if o.K == "stream" {
				for _, h := range o.HS {
					R.Count("stream-message-header:" + map[string]string{"": "right", "nil": "none", "zero": "id-0", "wrong": "other-id"}[h])
				}
			}
			if o.K == "call" || o.K == "wrong" {
				R.Count("call-header:" + map[string]string{"": "right", "nil": "none", "zero": "id-0", "wrong": "other-id"}[o.hdr()])
			}
			switch ob {
			case "BOk", "BStarted", "BId":
				reached++
			}
			switch ob {
			case "BConflict", "BEtcdErr", "BAlready", "BInvalid", "BMismatch", "BStartErr":
				lost++
			}
			if o.K == "finishsf" {
				R.Count("fault:cluster.Start-fails")
			}
			if (o.K == "finish" || o.K == "memfinish") && o.Out != 0 {
				R.Count("fault:" + outc[o.Out])
			}
		}
		R.Count("case:" + origin)
		txt := c.coq()
		R.Case(txt, reached >= 2 && lost >= 1)
		R.Sample(map[string]interface{}{"ops": c.Ops, "obs": c.Obs})
		if err := cf.Add(txt); err != nil {
			panic(err)
		}
		all = append(all, c)
		caseNo++
	}
	runFixed := func(ops []op, origin string) caseRec {
		w.reset(caseNo)
		var c caseRec
		for _, o := range ops {
			w.step(&c, o)
		}
		w.drain(&c)
		emit(c, origin)
		return c
	}
	if *replay == "" {
		for _, d := range directed(handlers) {
			runFixed(d, "directed")
		}
	}
	for _, f := range []string{*corpus, *replay} {
		if f == "" {
			continue
		}
		bs, err := os.ReadFile(f)
		if err != nil {
			panic(err)
		}
		var l [][]op
		if err := json.Unmarshal(bs, &l); err != nil {
			var rp struct {
				Replay struct{ Ops []op }
			}
			if err2 := json.Unmarshal(bs, &rp); err2 != nil || len(rp.Replay.Ops) == 0 {
				panic(err)
			}
			l = [][]op{rp.Replay.Ops}
		}
		for _, ops := range l {
			c := runFixed(ops, "corpus")
			if f == *replay {
				for i := range c.Ops {
					fmt.Printf("%-70s -> %s\n", c.Ops[i].coq(), c.Obs[i])
				}
			}
		}
	}
	if *replay == "" {
		master := rng.New(*seed)
		for k := 0; k < *n; k++ {
			r := master.Fork(uint64(k))
			kind := r.Pick(50, 20, 30)
			w.reset(caseNo)
			c := w.genCase(r, kind, 10)
			emit(c, []string{"gen:bootstrap-interleavings", "gen:malformed-payloads", "gen:member-cluster-id"}[kind])
		}
	}
	if *replay == "" {
		// a real leader change with a read fault on the cluster record during the new term's load
		runFixed([]op{{K: "boot", T: 0, PK: "valid"}, {K: "isboot"}, {K: "lcfault"}, {K: "isboot"}, {K: "getcfg"}, {K: "call", H: "GetStore"},
			{K: "boot", T: 1, PK: "valid"}, {K: "isboot"}}, "directed:leader-change-with-read-fault")
	}
	if *replay == "" {
		w.sameStoreOverlap(caseNo)
		caseNo++
	}
	w.reset(caseNo)
	if *replay == "" {
		// last, because three more servers in the process disturb the timing of everything else
		t0 := time.Now()
		foreignPeerURL = w.x.S.GetConfig().AdvertisePeerUrls
		cleanupCluster := clusterPhase(R, true)
		cleanupCluster()
		R.Notes = append(R.Notes, fmt.Sprintf("cluster phase (3 real members, concurrent start, 4 concurrent Bootstrap requests, restart of all, close): %.1fs", time.Since(t0).Seconds()))
	}
	if *tier == "thorough" && *replay == "" {
		nx := w.realLeaderChangeAndRestart(caseNo + 1)
		defer nx.Close()
	}
	if err := cf.Flush(); err != nil {
		panic(err)
	}
	R.CaseFiles = cf.Files
	bs, _ := json.Marshal(all)
	os.WriteFile(path.Join(*out, "cases.json"), bs, 0o644)
	if err := R.Write(path.Join(*out, "result.json")); err != nil {
		panic(err)
	}
}
