// Cluster phase of the C20 driver: three REAL members started concurrently in one process on one shared etcd
// cluster (so the real initClusterID of each member races with the others), concurrent Bootstrap requests against
// different members (directly: a follower must refuse; with the forwarding metadata: the follower forwards over real
// gRPC to the leader), two more parked at the leader's bootstrap transaction, then a restart of ALL members on their
// data directories. Checked on the Go side (R.Violate): one identity everywhere, exactly one bootstrap overall, the
// stored records are the winner's, nothing changes by refused requests, identity and bootstrap state survive the
// restart. (startCluster is a copy of the function of the same name in harness/cmd/c05/cluster.go, without Local TSO.)
package main

import (
	"context"
	"fmt"
	"os"
	"strings"
	"sync"
	"time"

	"github.com/pingcap/kvproto/pkg/pdpb"
	"github.com/tikv/pd/pkg/grpcutil"
	"github.com/tikv/pd/pkg/typeutil"
	"github.com/tikv/pd/server"
	"github.com/tikv/pd/server/config"
	"github.com/tikv/pd/pkg/etcdutil"
	"go.etcd.io/etcd/clientv3"
	"go.etcd.io/etcd/pkg/types"
	"google.golang.org/grpc/metadata"

	"pdverif/internal/kvx15"
	"pdverif/internal/res"
	"pdverif/internal/srv15"
)

type node struct {
	s      *server.Server
	cfg    *config.Config
	cancel context.CancelFunc
}

type cluster struct{ nodes []*node }

func (c *cluster) stop(removeData bool) {
	var wg sync.WaitGroup
	for _, x := range c.nodes {
		if x != nil {
			wg.Add(1)
			go func(x *node) { // members of one etcd cluster wait for each other when closed one by one
				defer wg.Done()
				x.s.Close()
				x.cancel()
				if removeData {
					os.RemoveAll(x.cfg.DataDir)
				}
			}(x)
		}
	}
	wg.Wait()
}

func (c *cluster) leader() *node {
	for _, x := range c.nodes {
		if !x.s.IsClosed() && x.s.GetMember().IsLeader() {
			return x
		}
	}
	return nil
}

func waitFor(d time.Duration, f func() bool) bool {
	deadline := time.Now().Add(d)
	for time.Now().Before(deadline) {
		if f() {
			return true
		}
		time.Sleep(20 * time.Millisecond)
	}
	return f()
}

func clusterConfigs(n int) ([]*config.Config, error) {
	cfgs := make([]*config.Config, n)
	var peers []string
	for i := 0; i < n; i++ {
		cfg, err := srv15.Config()
		if err != nil {
			return nil, err
		}
		cfg.Name = fmt.Sprintf("pd%d", i+1)
		cfgs[i] = cfg
		peers = append(peers, fmt.Sprintf("%s=%s", cfg.Name, cfg.PeerUrls))
	}
	for _, c := range cfgs {
		c.InitialCluster = strings.Join(peers, ",")
	}
	return cfgs, nil
}

// startCluster starts one real member per config, all at the same time
func startCluster(cfgs []*config.Config) (*cluster, error) {
	n := len(cfgs)
	c := &cluster{nodes: make([]*node, n)}
	errs := make([]error, n)
	var wg sync.WaitGroup
	for i := range cfgs {
		wg.Add(1)
		go func(i int) {
			defer wg.Done()
			ctx, cancel := context.WithCancel(context.Background())
			s, err := server.CreateServer(ctx, cfgs[i])
			if err == nil {
				err = s.Run()
			}
			srv15.Quiet()
			if err != nil {
				cancel()
				errs[i] = err
				return
			}
			c.nodes[i] = &node{s: s, cfg: cfgs[i], cancel: cancel}
		}(i)
	}
	wg.Wait()
	for _, e := range errs {
		if e != nil {
			c.stop(true)
			return nil, e
		}
	}
	return c, nil
}

func storedClusterID(cli *clientv3.Client) (uint64, bool) {
	r, err := cli.Get(context.Background(), "/pd/cluster_id")
	if err != nil || len(r.Kvs) != 1 {
		return 0, false
	}
	v, err := typeutil.BytesToUint64(r.Kvs[0].Value)
	return v, err == nil
}

// records reads the bootstrap record as the view of the single-server part does
func records(x *node) string {
	w := &world{x: &srv15.Srv{S: x.s}, ctx: context.Background(), noMemberKey: true}
	return w.view()
}

// clusterPhase returns a function that waits (bounded) for the members to be closed and removes their data directories;
// closing a multi-member etcd cluster takes 10-20 s and runs in the background while the driver goes on.
// foreignPeerURL: the peer URL of a running member of ANOTHER cluster (the single-member server of the main phase)
var foreignPeerURL string

// startupIdentityCheck: etcdutil.CheckClusterID is what Server.startEtcd runs on every member before the PD cluster id is
// read or initialised; it has to refuse a configuration in which ANY listed peer that answers belongs to another cluster -
// a minority too (a member that was set up again from nothing under its old address; a stale initial-cluster entry). The
// real function is run on the real peers: two members of this cluster plus the foreign one, in every position of
// initial-cluster and repeatedly (the walk follows Go's map order).
func startupIdentityCheck(R *res.Result, c *cluster) {
	if foreignPeerURL == "" || len(c.nodes) < 3 {
		return
	}
	local := c.nodes[0].s.GetMember().Etcd().Server.Cluster().ID()
	own := func(i int) string { return c.nodes[i].cfg.AdvertisePeerUrls }
	// control: the three members of this cluster pass
	um, err := types.NewURLsMap(fmt.Sprintf("m1=%s,m2=%s,m3=%s", own(0), own(1), own(2)))
	if err != nil {
		R.Notes = append(R.Notes, "start-up identity probe skipped: "+err.Error())
		return
	}
	if err := etcdutil.CheckClusterID(local, um, nil); err != nil {
		R.Violate("C20:cluster:startup-check-refuses-own-cluster", err.Error(), nil)
		return
	}
	missed, rounds := 0, 0
	for _, ic := range []string{
		fmt.Sprintf("m1=%s,m2=%s,x=%s", own(0), own(1), foreignPeerURL),
		fmt.Sprintf("x=%s,m1=%s,m3=%s", foreignPeerURL, own(0), own(2)),
		fmt.Sprintf("m1=%s,x=%s,m2=%s,m3=%s,y=http://127.0.0.1:1", own(0), foreignPeerURL, own(1), own(2)), // one listed peer is down
	} {
		for k := 0; k < 12; k++ {
			um, err := types.NewURLsMap(ic) // a fresh map per round: the walk order is the map's iteration order
			if err != nil {
				panic(err)
			}
			rounds++
			if err := etcdutil.CheckClusterID(local, um, nil); err == nil {
				missed++
			}
		}
	}
	R.CountN("cluster:startup-check:foreign-minority-member:refused", rounds-missed)
	if missed > 0 {
		R.Violate("C20:cluster:foreign-minority-member-accepted-at-start-up",
			fmt.Sprintf("etcdutil.CheckClusterID accepted an initial-cluster in which one answering peer belongs to another etcd cluster in %d of %d start-up checks (two or three members of this cluster + the foreign one)", missed, rounds),
			[]string{"members m1,m2,m3 of one cluster", "x = a member of another cluster listed in initial-cluster", "CheckClusterID(local id, initial-cluster)"})
	}
}

func clusterPhase(R *res.Result, restart bool) (cleanup func()) {
	cleanup = func() {}
	t0 := time.Now()
	lap := func(what string) {
		R.Notes = append(R.Notes, fmt.Sprintf("cluster phase: %s at %.1fs", what, time.Since(t0).Seconds()))
	}
	skip := func(why string) { R.Notes = append(R.Notes, "cluster phase incomplete (machinery, not a verdict): "+why) }
	cfgs, err := clusterConfigs(3)
	if err != nil {
		skip(err.Error())
		return
	}
	c, err := startCluster(cfgs)
	if err != nil {
		skip("cluster did not start: " + err.Error())
		return
	}
	defer func() {
		closed := make(chan struct{})
		cc := &cluster{nodes: c.nodes}
		go func() { cc.stop(false); close(closed) }()
		cleanup = func() {
			select {
			case <-closed:
			case <-time.After(40 * time.Second):
			}
			for _, cf := range cfgs {
				os.RemoveAll(cf.DataDir)
			}
		}
	}()
	ctx := context.Background()

	// ---- one identity: every member's ClusterID() is the stored one ----
	identity := func(what string, want uint64) uint64 {
		stored, ok := storedClusterID(c.nodes[0].s.GetClient())
		if !ok {
			R.Violate("C20:cluster:no-stored-cluster-id", "no /pd/cluster_id "+what, nil)
			return 0
		}
		for i, x := range c.nodes {
			if x.s.ClusterID() != stored {
				R.Violate("C20:cluster:members-disagree-on-cluster-id",
					fmt.Sprintf("%s: member %d reports cluster id %d, stored %d", what, i+1, x.s.ClusterID(), stored), nil)
			}
		}
		if want != 0 && stored != want {
			R.Violate("C20:cluster:identity-changed", fmt.Sprintf("%s: cluster id was %d, is %d", what, want, stored), nil)
		}
		R.Count("cluster:identity-checked:" + what)
		return stored
	}
	id := identity("after a concurrent start of three members", 0)
	lap("three members started")

	if !waitFor(30*time.Second, func() bool { return c.leader() != nil }) {
		skip("no leader")
		return
	}
	ld := c.leader()
	lap("leader elected")
	var followers []*node
	for _, x := range c.nodes {
		if x != ld {
			followers = append(followers, x)
		}
	}
	startupIdentityCheck(R, c)
	lap("start-up identity check probed")
	ek := kvx15.NewEtcdKV(ld.s.GetClient().KV)
	ld.s.GetClient().KV = ek
	hdr := &pdpb.RequestHeader{ClusterId: id}
	before := records(ld)

	// ---- concurrent Bootstrap requests against different members ----
	type ans struct {
		who string
		n   int
		ob  string
	}
	results := make(chan ans, 8)
	boot := func(who string, x *node, n int, cx context.Context, park bool) {
		go func() {
			if park {
				ek.Bind(who)
				ek.Arm(who, kvx15.Park)
			}
			r, err := x.s.Bootstrap(cx, op{K: "boot", PK: "valid", N: n}.request(hdr))
			if park {
				ek.Arm(who, kvx15.Pass)
				ek.Unbind()
			}
			results <- ans{who, n, bootObs(bres{r, err})}
		}()
	}
	// two requests parked at the leader's transaction (after its rc == nil test)
	boot("L1", ld, 1, ctx, true)
	boot("L2", ld, 2, ctx, true)
	for _, who := range []string{"L1", "L2"} {
		select {
		case <-ek.Parked(who):
		case <-time.After(60 * time.Second):
			skip("leader request did not reach its transaction")
			return
		}
	}
	// a follower asked directly must refuse (it is not the leader) ...
	boot("F1-direct", followers[0], 3, ctx, false)
	// ... and forwards over real gRPC when the request carries the forwarding metadata
	fwd := metadata.NewIncomingContext(ctx, metadata.Pairs(grpcutil.ForwardMetadataKey, ld.s.GetAddr()))
	boot("F2-forwarded", followers[1], 4, fwd, false)
	got := map[string]ans{}
	for len(got) < 2 {
		select {
		case a := <-results:
			got[a.who] = a
		case <-time.After(60 * time.Second):
			skip("follower requests did not return")
			return
		}
	}
	ek.Release("L2", kvx15.Pass)
	ek.Release("L1", kvx15.Pass)
	for len(got) < 4 {
		select {
		case a := <-results:
			got[a.who] = a
		case <-time.After(60 * time.Second):
			skip("leader requests did not return")
			return
		}
	}
	var oks []ans
	trace := []string{}
	for _, who := range []string{"F1-direct", "F2-forwarded", "L2", "L1"} {
		a := got[who]
		trace = append(trace, fmt.Sprintf("%s(store %d) -> %s", who, 1000+a.n, a.ob))
		if a.ob == "BOk" {
			oks = append(oks, a)
		}
		kind := strings.Fields(a.ob)[0]
		if strings.Contains(a.ob, "not leader") {
			kind = "refused-not-leader"
		}
		R.Count("cluster:bootstrap:" + who + ":" + kind)
	}
	if got["F1-direct"].ob == "BOk" {
		R.Violate("C20:cluster:follower-bootstrapped", "a follower answered a direct Bootstrap request OK", trace)
	}
	if len(oks) != 1 {
		R.Violate("C20:cluster:not-exactly-one-bootstrap", fmt.Sprintf("%d of 4 concurrent Bootstrap requests on 3 members were answered OK", len(oks)), trace)
	}
	after := records(ld)
	if len(oks) == 1 {
		want := fmt.Sprintf("(View true true [%d%%Z] [%d%%Z] None [])", 1000+oks[0].n, 2000+oks[0].n)
		if after != want {
			R.Violate("C20:cluster:stored-records-not-from-the-acknowledged-request", "stored "+after+", acknowledged request wrote "+want+" (before: "+before+")", trace)
		}
	}

	// ---- afterwards: every member (asked through forwarding where it is a follower) says bootstrapped; a repeated
	//      Bootstrap is refused everywhere; a request with the cluster's id is accepted by the leader, one with another id
	//      refused ----
	for i, x := range c.nodes {
		cx := ctx
		if x != ld {
			cx = metadata.NewIncomingContext(ctx, metadata.Pairs(grpcutil.ForwardMetadataKey, ld.s.GetAddr()))
		}
		r, err := x.s.IsBootstrapped(cx, &pdpb.IsBootstrappedRequest{Header: hdr})
		if err != nil || !r.GetBootstrapped() {
			R.Violate("C20:cluster:bootstrap-state-not-visible", fmt.Sprintf("member %d: IsBootstrapped = %v, %v", i+1, r.GetBootstrapped(), err), trace)
		}
		r2, err := x.s.Bootstrap(cx, op{K: "boot", PK: "valid", N: 10 + i}.request(hdr))
		if ob := bootObs(bres{r2, err}); ob == "BOk" {
			R.Violate("C20:cluster:bootstrapped-twice", fmt.Sprintf("member %d answered a second Bootstrap OK", i+1), trace)
		}
		_, err = x.s.IsBootstrapped(cx, &pdpb.IsBootstrappedRequest{Header: &pdpb.RequestHeader{ClusterId: id + 1}})
		if err == nil {
			R.Violate("C20:mismatched-cluster-id-accepted", fmt.Sprintf("member %d answered IsBootstrapped carrying another cluster id", i+1), trace)
		}
		m, err := x.s.GetMembers(ctx, &pdpb.GetMembersRequest{})
		if err != nil || m.GetHeader().GetClusterId() != id {
			R.Violate("C20:cluster:members-disagree-on-cluster-id", fmt.Sprintf("member %d: GetMembers reports cluster id %d (%v), stored %d", i+1, m.GetHeader().GetClusterId(), err, id), nil)
		}
	}
	if v := records(ld); v != after {
		R.Violate("C20:cluster:refused-request-changed-stored-records", "records "+after+" became "+v, trace)
	}

	lap("bootstrap race and follow-up checks done")
	if !restart {
		return
	}
	// ---- restart of ALL members on their data directories: same identity, still bootstrapped, records unchanged ----
	c.stop(false)
	c2, err := startCluster(cfgs)
	if err != nil {
		for _, cf := range cfgs {
			os.RemoveAll(cf.DataDir)
		}
		c.nodes = nil
		skip("restart failed: " + err.Error())
		return
	}
	c.nodes = c2.nodes
	identity("after a restart of all members", id)
	if !waitFor(30*time.Second, func() bool { l := c.leader(); return l != nil && l.s.GetRaftCluster() != nil }) {
		R.Violate("C20:cluster:bootstrap-state-lost:restart", "no member serves a running raft cluster after the restart", trace)
		return
	}
	ld = c.leader()
	if v := records(ld); v != after {
		R.Violate("C20:cluster:stored-records-changed:restart", "records "+after+" became "+v, trace)
	}
	r2, err := ld.s.Bootstrap(ctx, op{K: "boot", PK: "valid", N: 20}.request(hdr))
	if ob := bootObs(bres{r2, err}); ob != "BAlready" && ob != "BConflict" {
		R.Violate("C20:cluster:bootstrapped-twice:restart", "Bootstrap after the restart answered "+ob, trace)
	}
	R.Count("cluster:restart-checked")
	lap("restart checked")
	return
}
