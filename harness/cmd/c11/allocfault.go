package main

// Round 8: operators built while the id allocator fails.  The real RegionScatterer and the real shuffle-region / balance-region
// schedulers run over a cluster whose AllocID returns an error from its k-th call on (gen10.FaultCluster; the real allocator
// fails like that when the etcd transaction extending its window fails).  ORACLE: a build that cannot get its ids yields no
// operator; whatever operator IS returned must still leave the region with the same number of peers of each role on pairwise
// distinct stores (the statement's core clauses, evaluated on the simulated steps).

import (
	"context"
	"fmt"

	"github.com/pingcap/kvproto/pkg/metapb"
	"github.com/tikv/pd/server/core"
	"github.com/tikv/pd/server/kv"
	"github.com/tikv/pd/server/schedule"
	"github.com/tikv/pd/server/schedule/operator"
	"github.com/tikv/pd/server/schedulers"

	"pdverif/internal/gen10"
	"pdverif/internal/res"
	"pdverif/internal/rng"
	"pdverif/internal/sim10"
)

func runAllocFaults(R *res.Result, seed uint64, rounds int) {
	master := rng.New(seed ^ 0xA110C)
	for k := 0; k < rounds; k++ {
		r := master.Fork(uint64(k))
		h := genHistory(r, true)
		bt := gen10.Build(h.Spec)
		tc := bt.TC
		regions := make([]*core.RegionInfo, len(h.Regions))
		for i, rs := range h.Regions {
			regions[i] = rs.build()
			tc.PutRegion(regions[i])
		}
		ctx, cancel := context.WithCancel(context.Background())
		failFrom := 1 + r.Intn(3)
		fc := &gen10.FaultCluster{Cluster: tc, FailFrom: failFrom}
		judge := func(name string, region *core.RegionInfo, op *operator.Operator) {
			if op == nil || region == nil {
				return
			}
			R.Count("alloc-fault:" + name + ":operator")
			replay := map[string]interface{}{"history": h, "alloc-fails-from-call": failFrom, "region": region.GetID()}
			what := fmt.Sprintf("%s (AllocID fails from its call %d on)", sim10.Summary(op), failFrom)
			tr := sim10.Run(region, op)
			if tr.Err != "" {
				R.Violate("C11:"+name+"-alloc-fault:unsafe-step", tr.Err+" in "+what, replay)
				return
			}
			before, after := sim10.FromRegion(region), tr.Final()
			cb, ca := map[metapb.PeerRole]int{}, map[metapb.PeerRole]int{}
			for _, p := range before.Peers {
				cb[p.Role]++
			}
			seen, dup := map[uint64]bool{}, false
			for _, p := range after.Peers {
				ca[p.Role]++
				dup = dup || seen[p.Store]
				seen[p.Store] = true
			}
			clause := ""
			switch {
			case len(after.Peers) < len(before.Peers):
				clause = "replica-lost"
			case len(after.Peers) > len(before.Peers):
				clause = "replica-added"
			case dup:
				clause = "two-peers-on-one-store"
			default:
				for ro, n := range cb {
					if ca[ro] != n {
						clause = "role-count-changed"
					}
				}
			}
			if clause != "" {
				R.Violate("C11:"+name+"-alloc-fault:"+clause, fmt.Sprintf("region %d %v -> %v by %s", region.GetID(), before.Peers, after.Peers, what), replay)
			}
		}
		sc := schedule.NewRegionScatterer(ctx, fc)
		for i, rg := range regions {
			if i >= 4 {
				break
			}
			fc.Calls = 0
			if op, err := sc.Scatter(rg, "g1"); err == nil {
				judge("scatter", rg, op)
			}
		}
		hb := schedule.NewOperatorController(ctx, fc, nil)
		for _, typ := range []string{schedulers.ShuffleRegionType, schedulers.BalanceRegionType} {
			sch, err := schedule.CreateScheduler(typ, hb, core.NewStorage(kv.NewMemoryKV()), schedule.ConfigSliceDecoder(typ, []string{"", ""}))
			if err != nil {
				continue
			}
			for t := 0; t < 4; t++ {
				fc.Calls = 0
				fc.FailFrom = 1
				for _, op := range sch.Schedule(fc) {
					judge(typ, fc.GetRegion(op.RegionID()), op)
				}
			}
		}
		R.Count("alloc-fault:history")
		cancel()
		bt.Cancel()
	}
}
