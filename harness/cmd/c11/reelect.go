package main

// Re-election histories on a REAL server (round 4): this member leads and caches the stores; leadership moves away and the
// other leader sets a store Offline / Tombstone in the shared storage; this member's RaftCluster is started again in the same
// process (LoadClusterInfo runs over the cache of its earlier term); the store heartbeats; then the real RegionScatterer and the
// real balance-region / shuffle-region schedulers run on the RaftCluster.
// Oracles: the store states the re-elected leader shows are the states in storage, and every peer an operator adds sits on a
// store that is Up ACCORDING TO STORAGE.

import (
	"context"
	"fmt"

	"github.com/pingcap/kvproto/pkg/metapb"
	"github.com/pingcap/kvproto/pkg/pdpb"
	"github.com/tikv/pd/server/core"
	"github.com/tikv/pd/server/kv"
	"github.com/tikv/pd/server/schedule"
	"github.com/tikv/pd/server/schedule/operator"
	"github.com/tikv/pd/server/schedulers"

	"pdverif/internal/res"
	"pdverif/internal/rng"
	"pdverif/internal/sim10"
	"pdverif/internal/srv10"
)

type reelectRec struct {
	Stores  int
	Changed map[uint64]string // store -> state another leader persisted while this member was a follower
	Regions [][]uint64
}

func runReelections(R *res.Result, seed uint64, rounds int) {
	x, err := srv10.Start(nil)
	if err != nil {
		R.Notes = append(R.Notes, "re-election histories skipped: real server did not start: "+err.Error())
		return
	}
	defer x.Close()
	if err := x.Bootstrap(&metapb.Store{Id: 1, Address: "s1", Version: "4.0.0"}); err != nil {
		R.Notes = append(R.Notes, "re-election histories skipped: "+err.Error())
		return
	}
	s := x.S
	rc := s.GetRaftCluster()
	ctx, cancel := context.WithCancel(context.Background())
	defer cancel()
	master := rng.New(seed ^ 0xC11C11)
	hbeat := func(id uint64, regions int) {
		_ = rc.HandleStoreHeartbeat(&pdpb.StoreStats{StoreId: id, Capacity: 1000 << 30, Available: 600 << 30, UsedSize: 400 << 30, RegionCount: uint32(regions)})
	}
	for k := 0; k < rounds; k++ {
		r := master.Fork(uint64(k))
		rec := reelectRec{Stores: 5 + r.Intn(2), Changed: map[uint64]string{}}
		other := core.NewStorage(s.GetStorage().Base)
		// start of the history: every store Up in storage and in this member's cache
		rc.Stop()
		for i := 1; i <= 6; i++ {
			if err := other.SaveStore(&metapb.Store{Id: uint64(i), Address: fmt.Sprintf("s%d", i), Version: "4.0.0", State: metapb.StoreState_Up}); err != nil {
				panic(err)
			}
		}
		bc := s.GetBasicCluster()
		for _, rg := range bc.GetRegions() {
			bc.RemoveRegion(rg)
		}
		for _, st := range bc.GetStores() {
			bc.DeleteStore(st)
		}
		if err := rc.Start(s); err != nil {
			panic(err)
		}
		for i := 1; i <= rec.Stores; i++ {
			hbeat(uint64(i), 30)
		}
		// leadership moves away; the other leader takes one or two stores out of service
		rc.Stop()
		for j := 1 + r.Intn(2); j > 0; j-- {
			id := uint64(1 + r.Intn(rec.Stores))
			st := metapb.StoreState_Offline
			if r.Pct(30) {
				st = metapb.StoreState_Tombstone
			}
			rec.Changed[id] = st.String()
			if err := other.SaveStore(&metapb.Store{Id: id, Address: fmt.Sprintf("s%d", id), Version: "4.0.0", State: st}); err != nil {
				panic(err)
			}
		}
		// this member is elected again, in the same process; the stores heartbeat (a store being drained is alive)
		if err := rc.Start(s); err != nil {
			panic(err)
		}
		for i := 1; i <= rec.Stores; i++ {
			regions := 30
			if _, ch := rec.Changed[uint64(i)]; ch {
				regions = 0 // being emptied: attractive for scatter and balance
			}
			hbeat(uint64(i), regions)
		}
		R.Count("reelect:history")
		replay := map[string]interface{}{"reelection": rec}
		stored := map[uint64]metapb.StoreState{}
		for i := 1; i <= rec.Stores; i++ {
			m := &metapb.Store{}
			if ok, err := other.LoadStore(uint64(i), m); err != nil || !ok {
				panic(fmt.Sprint("store not in storage ", i, err))
			}
			stored[uint64(i)] = m.GetState()
			if st := rc.GetStore(uint64(i)); st == nil || st.GetState() != m.GetState() {
				shown := "absent"
				if st != nil {
					shown = st.GetState().String()
				}
				R.Violate("C11:reelected-leader-store-state-differs-from-storage",
					fmt.Sprintf("after leadership A -> B (store %d set %s through B) -> A, A shows the store as %s", i, m.GetState(), shown), replay)
			}
		}
		// regions on stores that are Up in storage; scatter and schedule
		var up []uint64
		for i := 1; i <= rec.Stores; i++ {
			if stored[uint64(i)] == metapb.StoreState_Up {
				up = append(up, uint64(i))
			}
		}
		if len(up) < 3 {
			continue
		}
		var regions []*core.RegionInfo
		pid := uint64(8000)
		for q := 0; q < 4; q++ {
			off := r.Intn(len(up))
			meta := &metapb.Region{Id: uint64(7100 + q), StartKey: []byte(fmt.Sprintf("k%02d", q)), EndKey: []byte(fmt.Sprintf("k%02d", q+1)),
				RegionEpoch: &metapb.RegionEpoch{ConfVer: 5, Version: 5}}
			var on []uint64
			for j := 0; j < 3; j++ {
				pid++
				meta.Peers = append(meta.Peers, &metapb.Peer{Id: pid, StoreId: up[(off+j)%len(up)]})
				on = append(on, up[(off+j)%len(up)])
			}
			rec.Regions = append(rec.Regions, on)
			rg := core.NewRegionInfo(meta, meta.Peers[0], core.SetApproximateSize(10), core.SetApproximateKeys(100))
			bc.PutRegion(rg)
			regions = append(regions, rg)
		}
		judge := func(name string, region *core.RegionInfo, op *operator.Operator) {
			if op == nil || region == nil {
				return
			}
			R.Count("reelect:" + name + ":operator")
			tr := sim10.Run(region, op)
			before := map[uint64]bool{}
			for _, p := range region.GetPeers() {
				before[p.GetStoreId()] = true
			}
			for _, p := range tr.Final().Peers {
				if !before[p.Store] && stored[p.Store] != metapb.StoreState_Up {
					R.Violate("C11:"+name+":peer-moved-to-store-not-up-in-storage",
						fmt.Sprintf("after a re-election %s puts a peer on store %d, which storage records as %s", sim10.Summary(op), p.Store, stored[p.Store]), replay)
				}
			}
		}
		sc := schedule.NewRegionScatterer(ctx, rc)
		for _, rg := range regions {
			for _, g := range []string{"g1", "g2"} {
				op, err := sc.Scatter(rg, g)
				if err == nil {
					judge("scatter", rg, op)
				}
			}
		}
		oc := rc.GetOperatorController()
		for _, typ := range []string{schedulers.BalanceRegionType, schedulers.ShuffleRegionType} {
			sch, err := schedule.CreateScheduler(typ, oc, core.NewStorage(kv.NewMemoryKV()), schedule.ConfigSliceDecoder(typ, []string{"", ""}))
			if err != nil {
				continue
			}
			for t := 0; t < 6; t++ {
				for _, op := range sch.Schedule(rc) {
					judge(typ, rc.GetRegion(op.RegionID()), op)
				}
			}
		}
	}
}
