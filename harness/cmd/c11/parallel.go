package main

// Truly parallel Scatter calls (audit defect 4): RegionScatterer is shared by all ScatterRegion requests, which run on
// concurrent goroutines. The cooperative phase (one goroutine at a time) cannot observe unsynchronised state; a Go runtime
// "fatal error: concurrent map ..." kills the process and cannot be recovered, so this probe runs in a child process
// (the driver re-executes itself with -probe-parallel) and the parent turns a crash into a violation with its own signature.

import (
	"bytes"
	"context"
	"fmt"
	"os"
	"os/exec"
	"strings"
	"sync"

	"pdverif/internal/gen10"
	"pdverif/internal/res"

	"github.com/tikv/pd/server/schedule"
)

func parallelSpec() (gen10.ClusterSpec, []regionSpec) {
	var spec gen10.ClusterSpec
	spec.Cfg = baseCfg(true)
	for i := 1; i <= 3; i++ {
		spec.Stores = append(spec.Stores, healthyStore(uint64(i)))
	}
	for i := 4; i <= 6; i++ {
		spec.Stores = append(spec.Stores, healthyStore(uint64(i), [2]string{"engine", "tiflash"}))
	}
	spec.Rules = []gen10.RuleSpec{{ID: "voters", Index: 1, Role: "voter", Count: 3},
		{ID: "tiflash", Index: 2, Role: "learner", Count: 1, Cons: []gen10.ConsSpec{{Key: "engine", Op: "in", Values: []string{"tiflash"}}}}}
	mk := func(id, base uint64) regionSpec {
		return regionSpec{ID: id, Peers: []gen10.PeerSpec{{ID: base + 1, Store: 1}, {ID: base + 2, Store: 2}, {ID: base + 3, Store: 3},
			{ID: base + 4, Store: 4 + id%3, Role: 1}}}
	}
	spec.Region = gen10.RegionSpec{ID: 1000, Peers: mk(1000, 2000).Peers}
	lp := spec.Region.Peers[0]
	spec.Region.Leader = &lp
	var regions []regionSpec
	for i := 0; i < 16; i++ {
		regions = append(regions, mk(uint64(1001+i), uint64(3000+10*i)))
	}
	return spec, regions
}

// probeParallel is the child: many fresh scatterers, each hit by 8 goroutines at once with regions that carry a tiflash learner
// (the first use of a special engine creates its context).
func probeParallel() {
	spec, rss := parallelSpec()
	bt := gen10.Build(spec)
	defer bt.Cancel()
	ctx, cancel := context.WithCancel(context.Background())
	defer cancel()
	for round := 0; round < 300; round++ {
		sc := schedule.NewRegionScatterer(ctx, bt.TC)
		var wg sync.WaitGroup
		for g := 0; g < 8; g++ {
			wg.Add(1)
			go func(g int) {
				defer wg.Done()
				for k := 0; k < 4; k++ {
					_, _ = sc.Scatter(rss[(g*4+k)%len(rss)].build(), "g1")
				}
			}(g)
		}
		wg.Wait()
	}
	fmt.Println("parallel probe: no crash")
}

func runParallelProbe(R *res.Result, seed uint64) {
	cmd := exec.Command(os.Args[0], "-probe-parallel")
	cmd.Env = append(os.Environ(), "GOMAXPROCS=8")
	var out bytes.Buffer
	cmd.Stdout, cmd.Stderr = &out, &out
	err := cmd.Run()
	R.Count("parallel-probe:run")
	if err == nil {
		return
	}
	txt := out.String()
	head := txt
	if len(head) > 600 {
		head = head[:600]
	}
	sig := "C11:scatter-parallel:crash"
	if strings.Contains(txt, "concurrent map") {
		sig = "C11:scatter-parallel:fatal-concurrent-map-access"
	}
	R.Violate(sig, "8 goroutines calling Scatter on one RegionScatterer for regions with a tiflash learner kill the process: "+strings.Join(strings.Fields(head), " "),
		map[string]interface{}{"probe": "c11 -probe-parallel (3 tikv + 3 tiflash stores, learner rule, 16 regions, 300 fresh scatterers x 8 goroutines)"})
}
