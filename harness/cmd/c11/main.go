// Driver for C11: runs the REAL RegionScatterer (histories of Scatter calls per group, counters read through the
// verif hook) and the REAL Schedule() of the peer / leader moving schedulers on generated mock clusters, applies
// every returned operator step by step with harness/internal/sim10 and prints the cases as Coq terms for
// model/C11_Scatter.v (model correspondence M, monitor V).
package main

import (
	"context"
	"encoding/json"
	"flag"
	"fmt"
	"math/rand"
	"os"
	"path"
	"sort"
	"strings"
	"sync"
	"sync/atomic"
	"time"

	"github.com/pingcap/kvproto/pkg/metapb"
	"github.com/pingcap/kvproto/pkg/pdpb"
	"github.com/pingcap/log"
	"github.com/tikv/pd/pkg/mock/mockcluster"
	"github.com/tikv/pd/server/core"
	"github.com/tikv/pd/server/kv"
	"github.com/tikv/pd/server/schedule"
	"github.com/tikv/pd/server/schedule/filter"
	"github.com/tikv/pd/server/schedule/hbstream"
	"github.com/tikv/pd/server/schedule/operator"
	"github.com/tikv/pd/server/schedule/placement"
	"github.com/tikv/pd/server/schedulers"
	"github.com/tikv/pd/server/statistics"
	"go.uber.org/zap"

	"pdverif/internal/coqfmt"
	"pdverif/internal/gen10"
	"pdverif/internal/res"
	"pdverif/internal/rng"
	"pdverif/internal/sim10"
)

// ---------- a replayable history ----------

type regionSpec struct {
	ID      uint64
	Peers   []gen10.PeerSpec
	Leader  int // index into Peers
	Down    []int
	Pending []int
}

type action struct {
	Kind    string // "put" | "scatter" | "apply" (install the last scatter result in the cluster) | "schedule"
	Region  int    // index into Regions
	Group   string
	Stores  []uint64 // put: the stores; Stores[0] is the leader
	Sched   string   // schedule: scheduler type
	Args    []string
	Hot     []int    // schedule (hot-region, shuffle-hot-region): regions reported as hot spots before
	HotRead bool     // read hot spots instead of write hot spots
	Conc    []int    // conc: indices of the regions scattered by one goroutine each
	Groups  []string // conc: the group of each
	Seed    uint64   // conc: seed of the interleaving
}

type history struct {
	Spec    gen10.ClusterSpec
	Regions []regionSpec
	Actions []action
}

func (rs regionSpec) build() *core.RegionInfo {
	meta := &metapb.Region{Id: rs.ID, StartKey: []byte(fmt.Sprintf("%020d", rs.ID)), EndKey: []byte(fmt.Sprintf("%020d", rs.ID+1)),
		RegionEpoch: &metapb.RegionEpoch{ConfVer: 5, Version: 5}}
	for _, p := range rs.Peers {
		meta.Peers = append(meta.Peers, p.Meta())
	}
	var down []*pdpb.PeerStats
	for _, i := range rs.Down {
		down = append(down, &pdpb.PeerStats{Peer: meta.Peers[i], DownSeconds: 4000})
	}
	var pend []*metapb.Peer
	for _, i := range rs.Pending {
		pend = append(pend, meta.Peers[i])
	}
	return core.NewRegionInfo(meta, meta.Peers[rs.Leader], core.WithDownPeers(down), core.WithPendingPeers(pend),
		core.SetApproximateSize(10), core.SetApproximateKeys(1000))
}

// ---------- generation ----------

func genRegions(r *rng.R, spec gen10.ClusterSpec, n int, healthy bool, scatterMode bool) []regionSpec {
	var out []regionSpec
	var ord, tf []uint64
	for _, s := range spec.Stores {
		isTf := false
		for _, l := range s.Labels {
			if l[0] == "engine" && l[1] == "tiflash" {
				isTf = true
			}
		}
		if isTf {
			tf = append(tf, s.ID)
		} else {
			ord = append(ord, s.ID)
		}
	}
	if len(ord) == 0 {
		ord, tf = tf, nil
	}
	next := uint64(3001)
	for i := 0; i < n; i++ {
		k := spec.Cfg.MaxReplicas
		if !healthy {
			switch r.Pick(80, 10, 10) {
			case 1:
				k--
			case 2:
				k++
			}
		}
		if k > len(ord) {
			k = len(ord)
		}
		if k < 1 {
			k = 1
		}
		perm := append([]uint64(nil), ord...)
		for a := len(perm) - 1; a > 0; a-- {
			b := r.Intn(a + 1)
			perm[a], perm[b] = perm[b], perm[a]
		}
		rs := regionSpec{ID: uint64(1001 + i)}
		for j := 0; j < k; j++ {
			rs.Peers = append(rs.Peers, gen10.PeerSpec{ID: next, Store: perm[j]})
			next += uint64(1 + r.Intn(2))
		}
		rs.Leader = r.Intn(len(rs.Peers))
		if spec.Cfg.Rules && len(tf) > 0 && r.Pct(70) {
			rs.Peers = append(rs.Peers, gen10.PeerSpec{ID: next, Store: tf[r.Intn(len(tf))], Role: 1})
			next++
		} else if !scatterMode && r.Pct(20) && k < len(ord) {
			rs.Peers = append(rs.Peers, gen10.PeerSpec{ID: next, Store: perm[k], Role: 1})
			next++
		}
		if healthy && scatterMode && r.Pct(18) && len(rs.Peers) > 1 {
			// the last heartbeat of a fully replicated region may still carry a pending or a down peer (right after a split / add-peer)
			j := (rs.Leader + 1 + r.Intn(len(rs.Peers)-1)) % len(rs.Peers)
			if r.Pct(60) {
				rs.Pending = append(rs.Pending, j)
			} else {
				rs.Down = append(rs.Down, j)
			}
		}
		if !healthy {
			for j := range rs.Peers {
				if j != rs.Leader && r.Pct(6) {
					rs.Down = append(rs.Down, j)
				} else if j != rs.Leader && r.Pct(6) {
					rs.Pending = append(rs.Pending, j)
				}
			}
		}
		out = append(out, rs)
	}
	return out
}

func isTiflash(spec gen10.ClusterSpec, store uint64) bool {
	for _, s := range spec.Stores {
		if s.ID == store {
			for _, l := range s.Labels {
				if l[0] == "engine" && l[1] == "tiflash" {
					return true
				}
			}
		}
	}
	return false
}

var schedTypes = []string{schedulers.BalanceRegionType, schedulers.BalanceLeaderType, schedulers.ShuffleRegionType, schedulers.ShuffleLeaderType,
	schedulers.EvictLeaderType, schedulers.GrantLeaderType, schedulers.LabelType, schedulers.ScatterRangeType, schedulers.ShuffleHotRegionType, schedulers.HotRegionType}

func healthyStore(id uint64, labels ...[2]string) gen10.StoreSpec {
	return gen10.StoreSpec{ID: id, Regions: 10, Leaders: 3, Labels: labels}
}

func baseCfg(rules bool) gen10.CfgSpec {
	return gen10.CfgSpec{MaxReplicas: 3, RemoveDown: true, ReplaceOffline: true, MakeUp: true, RemoveExtra: true, LocationReplace: true, Rules: rules, Joint: true}
}

// genLearnerHistory: regions with learners as a class. Variant A: >= 2 tiflash learners per region on 3-4 tiflash stores;
// variant B: a placement rule puts one learner on an ordinary store. Histories (scatters of sibling regions, recorded
// decisions) make single stores attractive.
func genLearnerHistory(r *rng.R) history {
	var h history
	h.Spec.Cfg = baseCfg(true)
	h.Spec.Cfg.Joint = r.Pct(60)
	h.Spec.Region = gen10.RegionSpec{ID: 1000}
	variantA := r.Pct(55)
	var ord, tf []uint64
	nOrd := 3 + r.Intn(2)
	if !variantA {
		nOrd = 4 + r.Intn(2)
	}
	for i := 1; i <= nOrd; i++ {
		h.Spec.Stores = append(h.Spec.Stores, healthyStore(uint64(i)))
		ord = append(ord, uint64(i))
	}
	learners := 1
	if variantA {
		nTf := 3 + r.Intn(2)
		for i := 0; i < nTf; i++ {
			id := uint64(nOrd + 1 + i)
			h.Spec.Stores = append(h.Spec.Stores, healthyStore(id, [2]string{"engine", "tiflash"}))
			tf = append(tf, id)
		}
		learners = 2
		if nTf == 4 && r.Pct(30) {
			learners = 3
		}
		h.Spec.Rules = []gen10.RuleSpec{{ID: "voters", Index: 1, Role: "voter", Count: 3},
			{ID: "tiflash", Index: 2, Role: "learner", Count: learners, Cons: []gen10.ConsSpec{{Key: "engine", Op: "in", Values: []string{"tiflash"}}}}}
		h.Spec.Tags = []string{"class:tiflash-learners"}
	} else {
		h.Spec.Rules = []gen10.RuleSpec{{ID: "voters", Index: 1, Role: "voter", Count: 3}, {ID: "learner", Index: 2, Role: "learner", Count: 1}}
		h.Spec.Tags = []string{"class:ordinary-learner"}
	}
	shuffle := func(xs []uint64) []uint64 {
		p := append([]uint64(nil), xs...)
		for a := len(p) - 1; a > 0; a-- {
			b := r.Intn(a + 1)
			p[a], p[b] = p[b], p[a]
		}
		return p
	}
	next := uint64(3001)
	mk := func(id uint64) regionSpec {
		rs := regionSpec{ID: id}
		po := shuffle(ord)
		for j := 0; j < 3; j++ {
			rs.Peers = append(rs.Peers, gen10.PeerSpec{ID: next, Store: po[j]})
			next++
		}
		if variantA {
			pt := shuffle(tf)
			for j := 0; j < learners; j++ {
				rs.Peers = append(rs.Peers, gen10.PeerSpec{ID: next, Store: pt[j], Role: 1})
				next++
			}
		} else {
			rs.Peers = append(rs.Peers, gen10.PeerSpec{ID: next, Store: po[3], Role: 1})
			next++
		}
		rs.Leader = r.Intn(3)
		return rs
	}
	h.Spec.Region.Peers = mk(1000).Peers
	lp := h.Spec.Region.Peers[0]
	h.Spec.Region.Leader = &lp
	for i := 0; i < 3+r.Intn(5); i++ {
		h.Regions = append(h.Regions, mk(uint64(1001+i)))
	}
	groups := []string{"g1", "g2"}
	put := func() {
		rg := h.Regions[r.Intn(len(h.Regions))]
		var st []uint64
		for _, p := range rg.Peers {
			if r.Pct(75) {
				st = append(st, p.Store)
			}
		}
		if len(st) > 0 && !isTiflash(h.Spec, st[0]) {
			h.Actions = append(h.Actions, action{Kind: "put", Group: groups[r.Pick(75, 25)], Stores: st})
		}
	}
	for i := r.Intn(3); i > 0; i-- {
		put()
	}
	for i := 5 + r.Intn(9); i > 0; i-- {
		h.Actions = append(h.Actions, action{Kind: "scatter", Region: r.Intn(len(h.Regions)), Group: groups[r.Pick(75, 25)]})
		switch r.Pick(35, 35, 30) {
		case 0:
			h.Actions = append(h.Actions, action{Kind: "apply"})
		case 1:
			put()
		}
	}
	return h
}

// genConcHistory: small healthy clusters, several regions on overlapping stores, recorded decisions, then rounds of
// Scatter calls issued by one goroutine per region on the same RegionScatterer, interleaved by a seeded cooperative
// scheduler at the points where the scatterer asks the cluster for the region's stores / fit.
func genConcHistory(r *rng.R) history {
	var h history
	h.Spec.Cfg = baseCfg(r.Pct(40))
	h.Spec.Cfg.Joint = r.Pct(60)
	h.Spec.Tags = []string{"class:concurrent"}
	n := 3 + r.Pick(50, 30, 20)
	var ids []uint64
	for i := 1; i <= n; i++ {
		h.Spec.Stores = append(h.Spec.Stores, healthyStore(uint64(i)))
		ids = append(ids, uint64(i))
	}
	next := uint64(3001)
	mk := func(id uint64) regionSpec {
		rs := regionSpec{ID: id}
		p := append([]uint64(nil), ids...)
		for a := len(p) - 1; a > 0; a-- {
			b := r.Intn(a + 1)
			p[a], p[b] = p[b], p[a]
		}
		for j := 0; j < 3; j++ {
			rs.Peers = append(rs.Peers, gen10.PeerSpec{ID: next, Store: p[j]})
			next++
		}
		rs.Leader = r.Intn(3)
		return rs
	}
	h.Spec.Region = gen10.RegionSpec{ID: 1000, Peers: mk(1000).Peers}
	lp := h.Spec.Region.Peers[0]
	h.Spec.Region.Leader = &lp
	nr := 3 + r.Intn(4)
	for i := 0; i < nr; i++ {
		h.Regions = append(h.Regions, mk(uint64(1001+i)))
	}
	groups := []string{"g1", "g2", ""}
	for round := 2 + r.Intn(3); round > 0; round-- {
		for i := r.Intn(3); i > 0; i-- {
			rg := h.Regions[r.Intn(nr)]
			var st []uint64
			for _, p := range rg.Peers {
				if r.Pct(70) {
					st = append(st, p.Store)
				}
			}
			if len(st) > 0 {
				h.Actions = append(h.Actions, action{Kind: "put", Group: groups[r.Intn(2)], Stores: st})
			}
		}
		a := action{Kind: "conc", Seed: r.U64()}
		k := 2 + r.Pick(60, 30, 10)
		perm := r.Intn(nr)
		for j := 0; j < k && j < nr; j++ {
			a.Conc = append(a.Conc, (perm+j)%nr)
			a.Groups = append(a.Groups, groups[r.Pick(45, 45, 10)])
		}
		h.Actions = append(h.Actions, a)
	}
	return h
}

func genHistory(r *rng.R, scatter bool) history {
	var h history
	o := gen10.GenOpt{RulesPct: 30, TiFlashPct: 12, MinStores: 3, MaxStores: 8, HealthyBias: 55, ExactPeers: true}
	h.Spec = gen10.Generate(r, o)
	if scatter && h.Spec.Cfg.MaxReplicas > 4 && r.Pct(85) {
		h.Spec.Cfg.MaxReplicas = 3 + r.Intn(2) // five ordinary peers = 120 processing orders per call: half of the time
	}
	if !scatter {
		for i := range h.Spec.Stores {
			switch r.Pick(50, 25, 25) {
			case 1:
				h.Spec.Stores[i].Leaders, h.Spec.Stores[i].Regions = 150+r.Intn(100), 300+r.Intn(200)
			case 2:
				h.Spec.Stores[i].Leaders, h.Spec.Stores[i].Regions = r.Intn(3), r.Intn(10)
			}
		}
		if h.Spec.Cfg.Rules && r.Pct(60) {
			// two tiflash stores, so that a learner can be balanced from one to the other
			for k := 0; k < 2; k++ {
				i := r.Intn(len(h.Spec.Stores))
				has := false
				for _, l := range h.Spec.Stores[i].Labels {
					if l[0] == "engine" {
						has = true
					}
				}
				ordLeft := 0
				for _, st := range h.Spec.Stores {
					e := false
					for _, l := range st.Labels {
						if l[0] == "engine" {
							e = true
						}
					}
					if !e {
						ordLeft++
					}
				}
				if !has && ordLeft > 2 {
					h.Spec.Stores[i].Labels = append(h.Spec.Stores[i].Labels, [2]string{"engine", "tiflash"})
					h.Spec.Stores[i].State, h.Spec.Stores[i].HB, h.Spec.Stores[i].Busy = 0, 0, false
				}
			}
		}
		if len(h.Spec.Cfg.RejectLeader) == 0 {
			h.Spec.Cfg.RejectLeader = gen10.GenRejectLeader(r, 55)
		}
	}
	h.Spec.Rules = nil // the default rule (voters = max-replicas) plus, with tiflash stores, one learner rule (below)
	if h.Spec.Cfg.Rules {
		for _, s := range h.Spec.Stores {
			for _, l := range s.Labels {
				if l[0] == "engine" {
					h.Spec.Rules = []gen10.RuleSpec{
						{ID: "voters", Index: 1, Role: "voter", Count: h.Spec.Cfg.MaxReplicas, Labels: h.Spec.Cfg.Labels},
						{ID: "tiflash", Index: 2, Role: "learner", Count: 1, Cons: []gen10.ConsSpec{{Key: "engine", Op: "in", Values: []string{"tiflash"}}}}}
				}
			}
		}
	}
	h.Regions = genRegions(r, h.Spec, 4+r.Intn(10), scatter || r.Pct(60), scatter)
	if scatter {
		groups := []string{"g1", "g2", ""}
		for i := r.Intn(4); i > 0; i-- { // earlier decisions recorded through the exported Put
			rg := h.Regions[r.Intn(len(h.Regions))]
			var st []uint64
			for _, p := range rg.Peers {
				// ordinary stores only: Put on a tiflash store before the first scatter of a tiflash peer
				// dereferences the not yet created engine context (nil) in the real code
				if p.Role == 0 && !isTiflash(h.Spec, p.Store) && r.Pct(80) {
					st = append(st, p.Store)
				}
			}
			if len(st) > 0 {
				h.Actions = append(h.Actions, action{Kind: "put", Group: groups[r.Intn(2)], Stores: st})
			}
		}
		for i := 3 + r.Intn(10); i > 0; i-- {
			h.Actions = append(h.Actions, action{Kind: "scatter", Region: r.Intn(len(h.Regions)), Group: groups[r.Pick(60, 30, 10)]})
			if r.Pct(50) {
				h.Actions = append(h.Actions, action{Kind: "apply"})
			}
		}
	} else {
		for i := 2 + r.Intn(3); i > 0; i-- {
			a := action{Kind: "schedule", Sched: schedTypes[r.Pick(22, 18, 11, 9, 8, 8, 7, 5, 6, 6)]}
			st := h.Spec.Stores[r.Intn(len(h.Spec.Stores))].ID
			switch a.Sched {
			case schedulers.EvictLeaderType, schedulers.GrantLeaderType:
				a.Args = []string{fmt.Sprint(st)}
			case schedulers.ScatterRangeType:
				a.Args = []string{fmt.Sprintf("%020d", 1001), fmt.Sprintf("%020d", 1001+len(h.Regions)), "t"}
			case schedulers.HotRegionType:
				a.Args = nil
			default:
				a.Args = []string{"", ""}
			}
			if a.Sched == schedulers.HotRegionType || a.Sched == schedulers.ShuffleHotRegionType {
				for k := 2 + r.Intn(3); k > 0; k-- {
					a.Hot = append(a.Hot, r.Intn(len(h.Regions)))
				}
				a.HotRead = r.Pct(45)
			}
			h.Actions = append(h.Actions, a)
		}
	}
	return h
}

// ---------- printing ----------

func coqSched(desc string, typ string) string {
	switch typ {
	case schedulers.BalanceRegionType:
		return "SBalanceRegion"
	case schedulers.BalanceLeaderType:
		return "SBalanceLeader"
	case schedulers.ShuffleRegionType:
		return "SShuffleRegion"
	case schedulers.ShuffleLeaderType:
		return "SShuffleLeader"
	case schedulers.EvictLeaderType:
		return "SEvictLeader"
	case schedulers.GrantLeaderType:
		return "SGrantLeader"
	case schedulers.LabelType:
		return "SLabel"
	case schedulers.ScatterRangeType:
		return "SScatterRange"
	case schedulers.ShuffleHotRegionType:
		return "SShuffleHot"
	case schedulers.HotRegionType:
		return "SHotRegion"
	}
	return "SScatter"
}

var groupIDs = map[string]int{"": 0, "g1": 1, "g2": 2}

func coqGdist(m map[string]map[uint64]uint64) string {
	var gs []string
	for g := range m {
		gs = append(gs, g)
	}
	sort.Strings(gs)
	var out []string
	for _, g := range gs {
		var ks []uint64
		for k := range m[g] {
			ks = append(ks, k)
		}
		sort.Slice(ks, func(i, j int) bool { return ks[i] < ks[j] })
		var kv []string
		for _, k := range ks {
			kv = append(kv, fmt.Sprintf("(%d, %d)", k, m[g][k]))
		}
		id, ok := groupIDs[g]
		if !ok {
			id = 9
		}
		out = append(out, fmt.Sprintf("(%d, [%s])", id, strings.Join(kv, "; ")))
	}
	return "[" + strings.Join(out, "; ") + "]"
}

func coqScst(sc *schedule.RegionScatterer) string {
	return fmt.Sprintf("(ScSt %s %s %s)", coqGdist(sc.VerifSelectedPeers("")), coqGdist(sc.VerifSelectedPeers("tiflash")), coqGdist(sc.VerifSelectedLeaders()))
}

func coqRegion(r *core.RegionInfo) string {
	return fmt.Sprintf("(Region %s %d)", sim10.CoqPeers(sim10.FromRegion(r).Peers), r.GetLeader().GetStoreId())
}

// ruleOK lists the stores that a leader / voter rule of the region's fit selects (all stores without placement rules): computed
// with placement.MatchLabelConstraints directly, independently of the scatterer / builder code
func ruleOK(tc *mockcluster.Cluster, region *core.RegionInfo) string {
	var xs []string
	stores := tc.GetStores()
	sort.Slice(stores, func(i, j int) bool { return stores[i].GetID() < stores[j].GetID() })
	var rules []*placement.Rule
	if tc.GetOpts().IsPlacementRulesEnabled() {
		for _, rf := range tc.FitRegion(region).RuleFits {
			rules = append(rules, rf.Rule)
		}
	}
	for _, st := range stores {
		ok := len(rules) == 0
		for _, ru := range rules {
			if (ru.Role == placement.Leader || ru.Role == placement.Voter) && placement.MatchLabelConstraints(st, ru.LabelConstraints) {
				ok = true
			}
		}
		if ok {
			xs = append(xs, fmt.Sprint(st.GetID()))
		}
	}
	return "[" + strings.Join(xs, "; ") + "]"
}

func labelsOf(tc *mockcluster.Cluster) string {
	var xs []string
	for _, k := range tc.GetOpts().GetLocationLabels() {
		xs = append(xs, fmt.Sprint(gen10.KeyID(k)))
	}
	return "[" + strings.Join(xs, "; ") + "]"
}

func coqOp(region *core.RegionInfo, op *operator.Operator) (string, *sim10.Trace) {
	tr := sim10.Run(region, op)
	return fmt.Sprintf("(Some (ImplOp %s %s))", sim10.CoqSteps(tr.Steps), sim10.CoqState(tr.Final())), tr
}

// wrap08 adds the region and the steps in C08's vocabulary (for C08's verified plan checker, model/C11_Plan.v)
func wrap08(coqCase string, region *core.RegionInfo, tr *sim10.Trace) string {
	steps := "[]"
	if tr != nil {
		steps = sim10.Coq08Steps(tr.Steps)
	}
	return fmt.Sprintf("(Case08 %s\n   %s\n   %s)", coqCase, sim10.Coq08Region(region), steps)
}

// hookCluster is the mock cluster plus a hook called, on the calling goroutine, whenever the scatterer asks for the stores
// or the placement fit of a region (while it builds / evaluates the placement safeguard). The concurrent phase parks the
// goroutines there; the parking is in the harness, PD is untouched.
type hookCluster struct {
	*mockcluster.Cluster
	mu   sync.Mutex
	hook func(regionID uint64)
}

func (c *hookCluster) call(id uint64) {
	c.mu.Lock()
	h := c.hook
	c.mu.Unlock()
	if h != nil {
		h(id)
	}
}

// GetStores is called by selectCandidates between the construction of its filter list and its evaluation
func (c *hookCluster) GetStores() []*core.StoreInfo {
	c.call(0)
	return c.Cluster.GetStores()
}

func (c *hookCluster) GetRegionStores(region *core.RegionInfo) []*core.StoreInfo {
	c.call(region.GetID())
	return c.Cluster.GetRegionStores(region)
}

func (c *hookCluster) FitRegion(region *core.RegionInfo) *placement.RegionFit {
	c.call(region.GetID())
	return c.Cluster.FitRegion(region)
}

type concResult struct {
	region int
	op     *operator.Operator
	err    error
}

// runConcurrent runs one Scatter call per region on its own goroutine; exactly one goroutine runs at a time, and at every
// hook point the seeded scheduler decides which one continues (a deterministic interleaving given the seed, up to Go's map
// iteration order inside PD).
func runConcurrent(hc *hookCluster, sc *schedule.RegionScatterer, regions []*core.RegionInfo, idx []int, groups []string, seed uint64) []concResult {
	r := rng.New(seed)
	type worker struct {
		grant chan struct{}
		done  bool
	}
	ws := map[uint64]*worker{}
	byID := map[uint64]int{}
	events := make(chan uint64) // a worker yielded (its region id) or finished (id | 1<<63)
	for k, ri := range idx {
		id := regions[ri].GetID()
		if _, dup := ws[id]; dup {
			continue
		}
		ws[id] = &worker{grant: make(chan struct{})}
		byID[id] = k
	}
	results := make([]concResult, 0, len(ws))
	var resMu sync.Mutex
	hc.mu.Lock()
	var curID uint64 // the one goroutine that is running (set by the scheduler before it grants the turn)
	hc.hook = func(id uint64) {
		// exactly one worker runs at a time, so whoever calls is the current one (GetStores carries no region)
		me := atomic.LoadUint64(&curID)
		if w, ok := ws[me]; ok {
			events <- me
			<-w.grant
		}
	}
	hc.mu.Unlock()
	for id, w := range ws {
		id, w := id, w
		k := byID[id]
		go func() {
			<-w.grant
			op, err := sc.Scatter(regions[idx[k]], groups[k])
			resMu.Lock()
			results = append(results, concResult{idx[k], op, err})
			resMu.Unlock()
			events <- id | 1<<63
		}()
	}
	var order []uint64
	for id := range ws {
		order = append(order, id)
	}
	sort.Slice(order, func(i, j int) bool { return order[i] < order[j] })
	cur := uint64(0)
	for len(order) > 0 {
		// keep the current goroutine with probability 1/3, otherwise switch
		next := cur
		if cur == 0 || ws[cur].done || r.Pct(67) {
			next = order[r.Intn(len(order))]
		}
		cur = next
		atomic.StoreUint64(&curID, cur)
		ws[cur].grant <- struct{}{}
		select {
		case ev := <-events:
			if ev&(1<<63) != 0 {
				id := ev &^ (1 << 63)
				ws[id].done = true
				for i, x := range order {
					if x == id {
						order = append(order[:i], order[i+1:]...)
						break
					}
				}
			}
		case <-time.After(20 * time.Second):
			panic("concurrent phase: scheduler stuck")
		}
	}
	hc.mu.Lock()
	hc.hook = nil
	hc.mu.Unlock()
	sort.Slice(results, func(i, j int) bool { return results[i].region < results[j].region })
	return results
}

// ---------- running ----------

type emitFn func(coq string, canon string, nontrivial bool, tags []string, viol []res.Violation)

func runHistory(h history, emit emitFn, hidx int) []string {
	bt := gen10.Build(h.Spec)
	defer bt.Cancel()
	tc := bt.TC
	var log []string
	regions := make([]*core.RegionInfo, len(h.Regions))
	for i, rs := range h.Regions {
		regions[i] = rs.build()
		tc.PutRegion(regions[i])
	}
	ctx, cancel := context.WithCancel(context.Background())
	defer cancel()
	hc := &hookCluster{Cluster: tc}
	sc := schedule.NewRegionScatterer(ctx, hc)
	stores := bt.CoqStores()
	reject := bt.CoqReject()
	for _, d := range bt.PredicateDiffs() {
		sig := "C11:store-predicate-misjudged:" + d[0]
		if d[0] == "reject-leader" {
			sig = "C11:reject-leader-property-misjudged"
		}
		emit("", "", false, []string{"predicate-diff:" + d[0]}, []res.Violation{{Sig: sig, Desc: d[1], Replay: h}})
	}
	labels := labelsOf(tc)
	rules := tc.GetOpts().IsPlacementRulesEnabled()
	var lastRegion int = -1
	tfCtx := false // the tiflash engine context of the scatterer exists
	var lastFinal *sim10.State
	// Go-side copy of the monitor's core clauses (peer count, count per role, one peer per store), so that a concrete
	// replay is reported even when the Coq side cannot run (lost translator anchor, broken model build)
	goMonitor := func(name string, region *core.RegionInfo, tr *sim10.Trace, what string) []res.Violation {
		if tr.Err != "" {
			return []res.Violation{{Sig: "C11:" + name + ":unsafe-step", Desc: tr.Err + " in " + what, Replay: h}}
		}
		before, after := sim10.FromRegion(region), tr.Final()
		cb, ca := map[metapb.PeerRole]int{}, map[metapb.PeerRole]int{}
		for _, p := range before.Peers {
			cb[p.Role]++
		}
		seen := map[uint64]bool{}
		dup := false
		for _, p := range after.Peers {
			ca[p.Role]++
			dup = dup || seen[p.Store]
			seen[p.Store] = true
		}
		clause := ""
		switch {
		case len(after.Peers) < len(before.Peers):
			clause = "replica-lost"
		case len(after.Peers) > len(before.Peers):
			clause = "replica-added"
		case dup:
			clause = "two-peers-on-one-store"
		default:
			for _, ro := range []metapb.PeerRole{metapb.PeerRole_Voter, metapb.PeerRole_Learner, metapb.PeerRole_IncomingVoter, metapb.PeerRole_DemotingVoter} {
				if cb[ro] != ca[ro] {
					clause = "role-count-changed"
				}
			}
		}
		if clause == "" {
			return nil
		}
		return []res.Violation{{Sig: "C11:" + name + ":" + clause, Replay: h,
			Desc: fmt.Sprintf("region %d %s -> %s by %s", region.GetID(), sim10.CoqPeers(before.Peers), sim10.CoqPeers(after.Peers), what)}}
	}
	anomalies := func(tr *sim10.Trace, what string) []res.Violation {
		var v []res.Violation
		for _, a := range tr.Anomalies {
			v = append(v, res.Violation{Sig: "C11:step-disagrees-with-own-CheckSafety-or-IsFinish", Desc: a + " in " + what, Replay: h})
		}
		return v
	}
	for ai, a := range h.Actions {
		switch a.Kind {
		case "put":
			peers := map[uint64]*metapb.Peer{}
			for _, s := range a.Stores {
				// Put on a tiflash store before the first tiflash peer was scattered dereferences the not yet created
				// engine context in the real code: such stores are left out until then
				if isTiflash(h.Spec, s) && !tfCtx {
					continue
				}
				peers[s] = &metapb.Peer{StoreId: s}
			}
			sc.Put(peers, a.Stores[0], a.Group)
			log = append(log, fmt.Sprintf("put %v leader %d group %q", a.Stores, a.Stores[0], a.Group))
		case "apply":
			if lastFinal != nil {
				old := regions[lastRegion]
				regions[lastRegion] = lastFinal.Region(old)
				tc.PutRegion(regions[lastRegion])
				log = append(log, fmt.Sprintf("apply result to region %d", old.GetID()))
				lastFinal = nil
			}
		case "scatter":
			region := regions[a.Region]
			before := coqScst(sc)
			// the real placement safeguard, per source store
			var guard []string
			for _, p := range region.GetPeers() {
				src := tc.GetStore(p.GetStoreId())
				g := filter.NewPlacementSafeguard("region-scatter", tc, region, src)
				var ok []string
				all := tc.GetStores()
				sort.Slice(all, func(i, j int) bool { return all[i].GetID() < all[j].GetID() })
				for _, s := range all {
					if g.Target(tc.GetOpts(), s) {
						ok = append(ok, fmt.Sprint(s.GetID()))
					}
				}
				guard = append(guard, fmt.Sprintf("(%d, [%s])", p.GetStoreId(), strings.Join(ok, "; ")))
			}
			op, err := sc.Scatter(region, a.Group)
			after := coqScst(sc)
			if err == nil {
				for _, p := range region.GetPeers() {
					if isTiflash(h.Spec, p.GetStoreId()) {
						tfCtx = true
					}
				}
			}
			if err != nil {
				log = append(log, fmt.Sprintf("scatter region %d group %q: refused: %v", region.GetID(), a.Group, err))
				emit("", "", false, []string{"scatter:refused"}, nil)
				continue
			}
			opS := "None"
			tags := []string{"scatter:no-operator"}
			var viol []res.Violation
			summary := "no operator"
			lastFinal = nil
			var scTr *sim10.Trace
			if op != nil {
				var tr *sim10.Trace
				opS, tr = coqOp(region, op)
				scTr = tr
				viol = append(anomalies(tr, sim10.Summary(op)), goMonitor("scatter", region, tr, sim10.Summary(op))...)
				f := tr.Final()
				lastFinal, lastRegion = &f, a.Region
				summary = sim10.Summary(op)
				tags = []string{"scatter:operator", fmt.Sprintf("scatter:steps=%d", len(tr.Steps))}
				if len(f.Peers) != len(region.GetPeers()) {
					tags = append(tags, "scatter:peer-count-changed")
				}
			}
			log = append(log, fmt.Sprintf("scatter region %d %v group %q -> %s", region.GetID(), sim10.StoresOf(sim10.FromRegion(region)), a.Group, summary))
			so := fmt.Sprintf("(Some (ScatterObs %d %s [%s] %v %s))", groupIDs[a.Group], before, strings.Join(guard, "; "), !rules, after)
			coq := wrap08(fmt.Sprintf("(Case SScatter\n   %s\n   %s %s %s %s\n   %s\n   %s)", stores, labels, reject, ruleOK(tc, region), coqRegion(region), opS, so), region, scTr)
			emit(coq, coq, true, tags, viol)
		case "conc":
			rs := runConcurrent(hc, sc, regions, a.Conc, a.Groups, a.Seed)
			for _, cr := range rs {
				region := regions[cr.region]
				if cr.err != nil {
					emit("", "", false, []string{"conc:refused"}, nil)
					continue
				}
				if cr.op == nil {
					emit("", "", false, []string{"conc:no-operator"}, nil)
					continue
				}
				opS, tr := coqOp(region, cr.op)
				coq := wrap08(fmt.Sprintf("(Case SScatterConc\n   %s\n   %s %s %s %s\n   %s\n   None)", stores, labels, reject, ruleOK(tc, region), coqRegion(region), opS), region, tr)
				log = append(log, fmt.Sprintf("concurrent scatter (seed %d) region %d %v -> %s", a.Seed, region.GetID(), sim10.StoresOf(sim10.FromRegion(region)), sim10.Summary(cr.op)))
				emit(coq, coq, true, []string{"conc:operator"}, append(anomalies(tr, sim10.Summary(cr.op)), goMonitor("scatter-concurrent", region, tr, sim10.Summary(cr.op))...))
			}
			lastFinal = nil
		case "schedule":
			if len(a.Hot) > 0 {
				// report write hot spots the way PD's own hot-region tests do (voters only; the region is re-created)
				tc.SetHotRegionCacheHitsThreshold(0)
				lead := map[uint64]int{}
				for _, ri := range a.Hot {
					rg := regions[ri]
					var fol []uint64
					for _, p := range rg.GetVoters() {
						if p.GetStoreId() != rg.GetLeader().GetStoreId() {
							fol = append(fol, p.GetStoreId())
						}
					}
					if a.HotRead {
						iv := uint64(statistics.ReadReportInterval)
						tc.AddRegionWithReadInfo(rg.GetID(), rg.GetLeader().GetStoreId(), 512*1024*iv, 0, iv, fol)
					} else {
						iv := uint64(statistics.WriteReportInterval)
						tc.AddLeaderRegionWithWriteInfo(rg.GetID(), rg.GetLeader().GetStoreId(), 512*1024*iv, 0, iv, fol)
					}
					regions[ri] = tc.GetRegion(rg.GetID())
					lead[rg.GetLeader().GetStoreId()]++
				}
				for _, st := range tc.GetStores() {
					if a.HotRead {
						tc.UpdateStorageReadBytes(st.GetID(), uint64(1+3*lead[st.GetID()])*1024*1024*statistics.StoreHeartBeatReportInterval)
					} else {
						tc.UpdateStorageWrittenBytes(st.GetID(), uint64(1+3*lead[st.GetID()])*1024*1024*statistics.StoreHeartBeatReportInterval)
					}
				}
				stores = bt.CoqStores()
			}
			hb := hbstream.NewTestHeartbeatStreams(ctx, tc.ID, tc, false)
			oc := schedule.NewOperatorController(ctx, tc, hb)
			var dec schedule.ConfigDecoder
			if a.Sched == schedulers.HotRegionType {
				dec = schedule.ConfigJSONDecoder([]byte("null"))
			} else {
				dec = schedule.ConfigSliceDecoder(a.Sched, a.Args)
			}
			s, err := schedule.CreateScheduler(a.Sched, oc, core.NewStorage(kv.NewMemoryKV()), dec)
			if err != nil {
				log = append(log, fmt.Sprintf("create %s %v: %v", a.Sched, a.Args, err))
				emit("", "", false, []string{"sched:create-failed:" + a.Sched}, nil)
				continue
			}
			caseStores := stores
			if a.Sched == schedulers.ScatterRangeType && len(a.Args) == 3 {
				// scatter-range schedules on a RangeCluster, which recomputes region / pending-peer counts and used space of
				// every store from the regions of the range: print the stores the way ITS filters see them
				rc := schedule.GenRangeCluster(tc, []byte(a.Args[0]), []byte(a.Args[1]))
				all := rc.GetStores()
				sort.Slice(all, func(i, j int) bool { return all[i].GetID() < all[j].GetID() })
				xs := make([]string, len(all))
				for i, st := range all {
					xs[i] = bt.CoqStoreView(st)
				}
				caseStores = "[" + strings.Join(xs, ";\n    ") + "]"
			}
			got := 0
			for try := 0; try < 4 && got == 0; try++ {
				ops := s.Schedule(tc)
				for _, op := range ops {
					region := tc.GetRegion(op.RegionID())
					if region == nil {
						continue
					}
					got++
					opS, tr := coqOp(region, op)
					coq := wrap08(fmt.Sprintf("(Case %s\n   %s\n   %s %s %s %s\n   %s\n   None)", coqSched(op.Desc(), a.Sched), caseStores, labels, reject, ruleOK(tc, region), coqRegion(region), opS), region, tr)
					log = append(log, fmt.Sprintf("schedule %s %v -> region %d: %s", a.Sched, a.Args, region.GetID(), sim10.Summary(op)))
					emit(coq, coq, true, []string{"sched:" + a.Sched + ":operator", "op:" + op.Desc()}, append(anomalies(tr, sim10.Summary(op)), goMonitor(a.Sched, region, tr, sim10.Summary(op))...))
				}
			}
			if got == 0 {
				log = append(log, fmt.Sprintf("schedule %s %v -> nothing", a.Sched, a.Args))
				emit("", "", false, []string{"sched:" + a.Sched + ":nothing"}, nil)
			}
		}
		_ = ai
	}
	return log
}

func main() {
	seed := flag.Uint64("seed", 1, "")
	n := flag.Int("n", 600, "number of generated histories")
	out := flag.String("out", ".", "output directory")
	tier := flag.String("tier", "quick", "")
	corpus := flag.String("corpus", "", "json file of fixed histories run first")
	replay := flag.String("replay", "", "json file with histories: run and print what the implementation answers")
	probe := flag.Bool("probe-parallel", false, "child mode: truly parallel Scatter calls on one scatterer (may crash)")
	flag.Parse()
	log.ReplaceGlobals(zap.NewNop(), nil)
	if *probe {
		probeParallel()
		return
	}
	rand.Seed(int64(*seed)) // PD's own uses of math/rand (RandomPick, Rand*Region); Go map order stays free: the models are set-valued

	R := res.New("C11", *seed, *tier)
	R.Rule = "histories on generated clusters (3-8 stores with every state the filters read, labels, optional tiflash stores and placement rules, 4-13 regions): " +
		"(a) scatter histories: 0-3 earlier decisions recorded with RegionScatterer.Put, then 3-12 Scatter calls over three groups, every second result installed in the " +
		"cluster; counters read before and after every call through the verif hook; one case per accepted Scatter call; (b) scheduler histories: 2-4 Schedule() calls of " +
		"balance-region / balance-leader / shuffle-region / shuffle-leader / evict-leader / grant-leader / label / scatter-range / shuffle-hot-region / hot-region; one case " +
		"per returned operator; (c) learner classes (every 6th history): regions with 2-3 tiflash learners on 3-4 tiflash stores, or a rule learner on an ordinary " +
		"store, scatter histories with recorded decisions (tiflash stores included once the engine context exists); (d) concurrent phase (every 6th history): " +
		"2-4 goroutines call Scatter for different regions on ONE RegionScatterer; a cluster wrapper parks them wherever the scatterer asks for a region's stores / " +
		"fit and a seeded scheduler picks who continues (one runs at a time); every operator goes through the per-operator monitor (also evaluated on the Go side). " +
		"non-trivial = every emitted case (a Scatter call that was accepted, or a returned operator); refused calls and empty schedules are " +
		"counted in the histogram only; distinct by sha256 of the Coq term"
	cf := &coqfmt.CaseFile{Dir: *out, Prefix: "C11", PerFile: 60,
		Header: "From PDV Require Import lib.C10_Cluster model.C11_Scatter model.C11_Plan.\nFrom PDV Require model.C08_Steps.\nLocal Open Scope string_scope.\nLocal Open Scope Z_scope.\n",
		Type:   "case08",
		Footer: "Definition M := Eval vm_compute in map fst (mismatches08 cases).\nDefinition D := Eval vm_compute in hd_error (mismatches08 cases).\nDefinition V := Eval vm_compute in monitor_fails08 cases.\nPrint M. Print D. Print V.\n"}
	type rec struct {
		History history
		Case    int // index of the case within the history
	}
	var all []rec
	run := func(h history, verbose bool) {
		k := 0
		hidx := len(all)
		lines := runHistory(h, func(coq, canon string, nontrivial bool, tags []string, viol []res.Violation) {
			for _, t := range tags {
				R.Count(t)
			}
			for _, v := range viol {
				R.Violate(v.Sig, v.Desc, v.Replay)
			}
			if coq == "" {
				return
			}
			R.Case(canon, nontrivial)
			if err := cf.Add(coq); err != nil {
				panic(err)
			}
			all = append(all, rec{h, k})
			k++
		}, hidx)
		for _, t := range h.Spec.Tags {
			R.Count(t)
		}
		if k > 0 {
			R.Sample(map[string]interface{}{"history": h, "log": lines})
		}
		if verbose {
			for _, l := range lines {
				fmt.Println(l)
			}
		}
	}
	for _, f := range []string{*corpus, *replay} {
		if f == "" {
			continue
		}
		b, err := os.ReadFile(f)
		if err != nil {
			panic(err)
		}
		var l []history
		if err := json.Unmarshal(b, &l); err != nil {
			var w struct{ Replay rec }
			if err2 := json.Unmarshal(b, &w); err2 != nil {
				panic(err)
			}
			l = []history{w.Replay.History}
		}
		for _, h := range l {
			run(h, f == *replay)
		}
	}
	if *replay == "" {
		master := rng.New(*seed)
		for k := 0; k < *n; k++ {
			r := master.Fork(uint64(k))
			switch k % 6 {
			case 2:
				run(genLearnerHistory(r), false)
			case 5:
				run(genConcHistory(r), false)
			default:
				run(genHistory(r, k%2 == 0), false)
			}
		}
	}
	if *replay == "" {
		runAllocFaults(R, *seed, 40)
		runReelections(R, *seed, 6)
		runLifecycles(R, *seed, 16)
		runParallelProbe(R, *seed)
	}
	if err := cf.Flush(); err != nil {
		panic(err)
	}
	R.CaseFiles = cf.Files
	b, _ := json.Marshal(all)
	os.WriteFile(path.Join(*out, "cases.json"), b, 0o644)
	if err := R.Write(path.Join(*out, "result.json")); err != nil {
		panic(err)
	}
}
