package main

// Round 6, on a real server (harness/internal/life10):
//  (1) store life-cycle histories - registration and RE-registration of a restarted TiKV, store delete, store up, label
//      updates, heartbeats, some calls overlapping; the served / stored record of every store must equal the ACKNOWLEDGED one and
//      every peer the real scatterer, balance-region and shuffle-region place afterwards must sit on a store that is Up as
//      acknowledged;
//  (2) scheduler life-cycle histories - evict-leader / grant-leader added, removed and added again through RaftCluster's own
//      AddScheduler / RemoveScheduler while the goroutine of the removed scheduler is still inside a Schedule call (a wrapper
//      around the real scheduler whose first Schedule call waits); as long as an evict-leader scheduler for a store is registered
//      the store must not accept leaders, and balance-leader / shuffle-leader must not hand it one.

import (
	"context"
	"encoding/json"
	"fmt"
	"net/http/httptest"
	"strings"
	"sync/atomic"
	"time"

	"github.com/pingcap/kvproto/pkg/metapb"
	"github.com/tikv/pd/server/config"
	"github.com/tikv/pd/server/core"
	"github.com/tikv/pd/server/kv"
	"github.com/tikv/pd/server/schedule"
	"github.com/tikv/pd/server/schedule/operator"
	"github.com/tikv/pd/server/schedule/opt"
	"github.com/tikv/pd/server/schedulers"

	"pdverif/internal/life10"
	"pdverif/internal/res"
	"pdverif/internal/rng"
	"pdverif/internal/sim10"
)

type slowScheduler struct {
	schedule.Scheduler
	entered  chan struct{}
	release  chan struct{}
	first    int32
	cleanups int32
}

func (s *slowScheduler) Schedule(cluster opt.Cluster) []*operator.Operator {
	if atomic.CompareAndSwapInt32(&s.first, 0, 1) {
		close(s.entered)
		<-s.release
	}
	return s.Scheduler.Schedule(cluster)
}

func (s *slowScheduler) Cleanup(cluster opt.Cluster) {
	s.Scheduler.Cleanup(cluster)
	atomic.AddInt32(&s.cleanups, 1)
}

func runLifecycles(R *res.Result, seed uint64, rounds int) {
	w, err := life10.Start()
	if err != nil {
		R.Notes = append(R.Notes, "life-cycle histories skipped: real server did not start: "+err.Error())
		return
	}
	defer w.Close()
	ctx, cancel := context.WithCancel(context.Background())
	defer cancel()
	master := rng.New(seed ^ 0xC11C12)
	const n = 5
	bc := w.S.GetBasicCluster()
	for k := 0; k < rounds; k++ {
		r := master.Fork(uint64(k))
		w.Reset(n)
		h := life10.Generate(r, n)
		failed := w.Run(h)
		R.Count("lifecycle:history")
		replay := map[string]interface{}{"lifecycle": h, "refused": failed}
		for _, d := range w.Diffs() {
			R.Violate("C11:store-record-differs-from-acknowledged", d+" (history: "+life10.Describe(h)+")", replay)
		}
		var up []uint64
		for id := uint64(1); id <= n; id++ {
			if w.Ack[id].State == metapb.StoreState_Up {
				up = append(up, id)
			}
		}
		if len(up) < 3 {
			R.Count("lifecycle:fewer-than-three-up")
			continue
		}
		var regions []*core.RegionInfo
		pid := uint64(8000)
		for q := 0; q < 4; q++ {
			off := r.Intn(len(up))
			meta := &metapb.Region{Id: uint64(7100 + q), StartKey: []byte(fmt.Sprintf("k%02d", q)), EndKey: []byte(fmt.Sprintf("k%02d", q+1)),
				RegionEpoch: &metapb.RegionEpoch{ConfVer: 5, Version: 5}}
			for j := 0; j < 3; j++ {
				pid++
				meta.Peers = append(meta.Peers, &metapb.Peer{Id: pid, StoreId: up[(off+j)%len(up)]})
			}
			rg := core.NewRegionInfo(meta, meta.Peers[0], core.SetApproximateSize(10), core.SetApproximateKeys(100))
			bc.PutRegion(rg)
			regions = append(regions, rg)
		}
		for _, id := range up {
			_ = w.Heartbeat(id, 30)
		}
		judge := func(name string, region *core.RegionInfo, op *operator.Operator) {
			if op == nil || region == nil {
				return
			}
			R.Count("lifecycle:" + name + ":operator")
			tr := sim10.Run(region, op)
			before := map[uint64]bool{}
			for _, p := range region.GetPeers() {
				before[p.GetStoreId()] = true
			}
			for _, p := range tr.Final().Peers {
				if ak := w.Ack[p.Store]; !before[p.Store] && (ak == nil || ak.State != metapb.StoreState_Up) {
					st := "unknown"
					if ak != nil {
						st = ak.State.String()
					}
					R.Violate("C11:"+name+":peer-moved-to-store-not-up-as-acknowledged",
						fmt.Sprintf("%s puts a peer on store %d, whose acknowledged state is %s (history: %s)", sim10.Summary(op), p.Store, st, life10.Describe(h)), replay)
				}
			}
		}
		sc := schedule.NewRegionScatterer(ctx, w.RC)
		for _, rg := range regions {
			for _, g := range []string{"g1", "g2"} {
				if op, err := sc.Scatter(rg, g); err == nil {
					judge("scatter", rg, op)
				}
			}
		}
		oc := w.RC.GetOperatorController()
		for _, typ := range []string{schedulers.BalanceRegionType, schedulers.ShuffleRegionType} {
			sch, err := schedule.CreateScheduler(typ, oc, core.NewStorage(kv.NewMemoryKV()), schedule.ConfigSliceDecoder(typ, []string{"", ""}))
			if err != nil {
				continue
			}
			for t := 0; t < 6; t++ {
				for _, op := range sch.Schedule(w.RC) {
					judge(typ, w.RC.GetRegion(op.RegionID()), op)
				}
			}
		}
	}
	runSchedulerLifecycles(R, w, master, 4)
	runEvictConfigUpdates(R, w, master, 2)
	runConfigReelections(R, w, master, 2)
}

type schedRec struct {
	Kind       string // evict-leader | grant-leader of the first scheduler
	Store      uint64
	SlowFirst  bool   // the first Schedule call of the removed scheduler is still running when it is removed and added again
	Again      string // the scheduler added right after the removal
	AddRefused string `json:",omitempty"`
}

// runSchedulerLifecycles: add X(store), remove it, add Y(store) again at once; optionally the goroutine of X is late.
func runSchedulerLifecycles(R *res.Result, w *life10.World, master *rng.R, rounds int) {
	const n = 3
	bc := w.S.GetBasicCluster()
	oc := func() *schedule.OperatorController { return w.RC.GetOperatorController() }
	names := map[string]string{schedulers.EvictLeaderType: schedulers.EvictLeaderName, schedulers.GrantLeaderType: schedulers.GrantLeaderName}
	for k := 0; k < rounds; k++ {
		r := master.Fork(uint64(1000 + k))
		w.Reset(n)
		rec := schedRec{Kind: schedulers.EvictLeaderType, Store: 1, SlowFirst: k%4 != 3, Again: schedulers.EvictLeaderType}
		if r.Pct(25) {
			rec.Kind = schedulers.GrantLeaderType // grant-leader removed, evict-leader added for the same store
		}
		// store 1 has no leader, stores 2 and 3 have plenty: balance-leader wants to move leaders to store 1
		pid := uint64(9000)
		for q := 0; q < 10; q++ {
			meta := &metapb.Region{Id: uint64(7200 + q), StartKey: []byte(fmt.Sprintf("m%02d", q)), EndKey: []byte(fmt.Sprintf("m%02d", q+1)),
				RegionEpoch: &metapb.RegionEpoch{ConfVer: 5, Version: 5}}
			for _, st := range []uint64{uint64(2 + q%2), 1, uint64(3 - q%2)} {
				pid++
				meta.Peers = append(meta.Peers, &metapb.Peer{Id: pid, StoreId: st})
			}
			bc.PutRegion(core.NewRegionInfo(meta, meta.Peers[0], core.SetApproximateSize(10), core.SetApproximateKeys(100)))
		}
		for id := uint64(1); id <= n; id++ {
			_ = w.Heartbeat(id, 10)
		}
		storage := core.NewStorage(kv.NewMemoryKV())
		mk := func(typ string) schedule.Scheduler {
			s, err := schedule.CreateScheduler(typ, oc(), storage, schedule.ConfigSliceDecoder(typ, []string{"1"}))
			if err != nil {
				panic(err)
			}
			return s
		}
		old := &slowScheduler{Scheduler: mk(rec.Kind), entered: make(chan struct{}), release: make(chan struct{})}
		if !rec.SlowFirst {
			atomic.StoreInt32(&old.first, 1)
		}
		if err := w.RC.AddScheduler(old, "1"); err != nil {
			R.Notes = append(R.Notes, "scheduler life-cycle: first add refused: "+err.Error())
			close(old.release)
			continue
		}
		if rec.SlowFirst {
			select {
			case <-old.entered:
			case <-time.After(5 * time.Second):
				R.Notes = append(R.Notes, "scheduler life-cycle: the scheduler was not run within 5 s")
				close(old.release)
				_ = w.RC.RemoveScheduler(names[rec.Kind])
				continue
			}
		} else {
			time.Sleep(30 * time.Millisecond)
		}
		R.Count("lifecycle:scheduler-history")
		if err := w.RC.RemoveScheduler(names[rec.Kind]); err != nil {
			R.Notes = append(R.Notes, "scheduler life-cycle: remove refused: "+err.Error())
			close(old.release)
			continue
		}
		again := mk(rec.Again)
		addErr := w.RC.AddScheduler(again, "1")
		before := atomic.LoadInt32(&old.cleanups)
		close(old.release)
		if rec.SlowFirst {
			dl := time.Now().Add(5 * time.Second)
			for atomic.LoadInt32(&old.cleanups) == before && time.Now().Before(dl) {
				time.Sleep(5 * time.Millisecond)
			}
		}
		time.Sleep(40 * time.Millisecond)
		if addErr != nil {
			// refused while the removed scheduler was still around: the client retries
			rec.AddRefused = addErr.Error()
			R.Count("lifecycle:scheduler-re-add-refused-first")
			if err := w.RC.AddScheduler(again, "1"); err != nil {
				R.Notes = append(R.Notes, "scheduler life-cycle: second add refused: "+err.Error())
				continue
			}
		}
		// ACKNOWLEDGED: an evict-leader scheduler for store 1 is registered => store 1 does not accept leaders
		replay := map[string]interface{}{"scheduler-lifecycle": rec}
		hist := fmt.Sprintf("%s(store 1) added, removed (its goroutine still inside Schedule: %v), %s(store 1) added again", rec.Kind, rec.SlowFirst, rec.Again)
		if st := w.RC.GetStore(1); st.AllowLeaderTransfer() {
			R.Violate("C11:store-accepts-leaders-although-evict-leader-is-registered",
				"store 1 is served with leader transfer allowed while evict-leader for store 1 is registered and running: "+hist, replay)
		}
		for _, typ := range []string{schedulers.BalanceLeaderType, schedulers.ShuffleLeaderType} {
			sch, err := schedule.CreateScheduler(typ, oc(), storage, schedule.ConfigSliceDecoder(typ, []string{"", ""}))
			if err != nil {
				continue
			}
			for t := 0; t < 8; t++ {
				for _, op := range sch.Schedule(w.RC) {
					region := w.RC.GetRegion(op.RegionID())
					if region == nil {
						continue
					}
					R.Count("lifecycle:" + typ + ":operator")
					if tr := sim10.Run(region, op); tr.Final().Leader == 1 && region.GetLeader().GetStoreId() != 1 {
						R.Violate("C11:"+typ+":leader-to-store-with-registered-evict-leader",
							fmt.Sprintf("%s hands the leader to store 1: %s", sim10.Summary(op), hist), replay)
					}
				}
			}
		}
		_ = w.RC.RemoveScheduler(names[rec.Again])
		time.Sleep(30 * time.Millisecond)
	}
}

// ---- round 7: the configuration a member serves after it is elected ----
// Another member led meanwhile, acknowledged a reject-leader label property and persisted it (written here through a second
// PersistOptions over the SAME storage, the way a leader's Persist does); then the leadership is reset for real
// (Member.ResetLeader: this member steps down, campaigns again, campaignLeader runs).  ORACLE: a leader serves the label
// properties that are in storage; the leader schedulers and the scatterer on the RaftCluster must not hand a leader to a store
// whose labels carry a reject-leader property AS ACKNOWLEDGED by the other leader.
type cfgRec struct {
	RejectZones []string
}

func runConfigReelections(R *res.Result, w *life10.World, master *rng.R, rounds int) {
	const n = 5
	ctx, cancel := context.WithCancel(context.Background())
	defer cancel()
	bc := w.S.GetBasicCluster()
	for k := 0; k < rounds; k++ {
		r := master.Fork(uint64(2000 + k))
		w.Reset(n)
		rec := cfgRec{RejectZones: []string{fmt.Sprintf("z%d", 1+r.Intn(n))}}
		if r.Pct(40) {
			rec.RejectZones = append(rec.RejectZones, fmt.Sprintf("z%d", 1+r.Intn(n)))
		}
		// with no region in the cache the coordinator of the restarted cluster starts at once, registers the default schedulers and
		// persists the options it holds: let that start-up write pass before another leader's write is simulated
		for dl := time.Now().Add(3 * time.Second); len(w.RC.GetSchedulers()) == 0 && time.Now().Before(dl); {
			time.Sleep(20 * time.Millisecond)
		}
		time.Sleep(250 * time.Millisecond)
		// what the other leader did: load the configuration, set the property, persist
		other := config.NewPersistOptions(w.S.GetConfig())
		if err := other.Reload(w.S.GetStorage()); err != nil {
			R.Notes = append(R.Notes, "configuration re-election history skipped: "+err.Error())
			return
		}
		cur := other.GetLabelPropertyConfig()
		for _, ps := range cur[opt.RejectLeader] {
			other.DeleteLabelProperty(opt.RejectLeader, ps.Key, ps.Value)
		}
		for _, z := range rec.RejectZones {
			other.SetLabelProperty(opt.RejectLeader, "zone", z)
		}
		if err := other.Persist(w.S.GetStorage()); err != nil {
			R.Notes = append(R.Notes, "configuration re-election history skipped: "+err.Error())
			return
		}
		// this member is elected (again)
		w.S.GetMember().ResetLeader()
		time.Sleep(200 * time.Millisecond)
		dl := time.Now().Add(20 * time.Second)
		for !(w.S.GetMember().IsLeader() && w.S.GetRaftCluster() != nil && w.S.GetRaftCluster().IsRunning()) {
			if time.Now().After(dl) {
				R.Notes = append(R.Notes, "configuration re-election history skipped: the member did not lead again within 20 s")
				return
			}
			time.Sleep(20 * time.Millisecond)
		}
		R.Count("lifecycle:config-reelection-history")
		replay := map[string]interface{}{"config-reelection": rec}
		hist := fmt.Sprintf("another leader persisted reject-leader zone in %v, then this member was elected", rec.RejectZones)
		// the oracle is what the other leader ACKNOWLEDGED (its Persist returned nil), not what storage holds afterwards: a leader
		// that works with a stale configuration writes it back over the acknowledged one with its next Persist
		fresh := other
		now := config.NewPersistOptions(w.S.GetConfig())
		if err := now.Reload(w.S.GetStorage()); err != nil {
			panic(err)
		}
		stored, served := fmt.Sprint(fresh.GetLabelPropertyConfig()), fmt.Sprint(w.S.GetPersistOptions().GetLabelPropertyConfig())
		if inStorage := fmt.Sprint(now.GetLabelPropertyConfig()); inStorage != stored {
			R.Violate("C11:acknowledged-label-properties-lost-from-storage",
				fmt.Sprintf("%s; acknowledged label properties %s, storage holds %s after the election", hist, stored, inStorage), replay)
		}
		if stored != served {
			R.Violate("C11:elected-leader-serves-stale-label-properties",
				fmt.Sprintf("%s; acknowledged label properties %s, the leader serves %s", hist, stored, served), replay)
		}
		rejecting := map[uint64]bool{}
		for id := uint64(1); id <= n; id++ {
			if fresh.CheckLabelProperty(opt.RejectLeader, []*metapb.StoreLabel{{Key: "zone", Value: fmt.Sprintf("z%d", id)}}) {
				rejecting[id] = true
			}
		}
		// regions led from stores that accept leaders, with followers everywhere else; the rejecting stores hold no leader, so
		// every leader scheduler is drawn to them
		var lead []uint64
		for id := uint64(1); id <= n; id++ {
			if !rejecting[id] {
				lead = append(lead, id)
			}
		}
		pid := uint64(9500)
		var regions []*core.RegionInfo
		for q := 0; q < 12; q++ {
			meta := &metapb.Region{Id: uint64(7300 + q), StartKey: []byte(fmt.Sprintf("c%02d", q)), EndKey: []byte(fmt.Sprintf("c%02d", q+1)),
				RegionEpoch: &metapb.RegionEpoch{ConfVer: 5, Version: 5}}
			l := lead[q%len(lead)]
			on := []uint64{l}
			for id := uint64(1); id <= n && len(on) < 3; id++ {
				if rejecting[id] && id != l {
					on = append(on, id)
				}
			}
			for id := uint64(1); id <= n && len(on) < 3; id++ {
				dup := false
				for _, x := range on {
					dup = dup || x == id
				}
				if !dup {
					on = append(on, id)
				}
			}
			for _, st := range on {
				pid++
				meta.Peers = append(meta.Peers, &metapb.Peer{Id: pid, StoreId: st})
			}
			rg := core.NewRegionInfo(meta, meta.Peers[0], core.SetApproximateSize(10), core.SetApproximateKeys(100))
			bc.PutRegion(rg)
			regions = append(regions, rg)
		}
		for id := uint64(1); id <= n; id++ {
			_ = w.Heartbeat(id, 10)
		}
		rc := w.S.GetRaftCluster()
		judge := func(name string, region *core.RegionInfo, op *operator.Operator) {
			if op == nil || region == nil {
				return
			}
			R.Count("lifecycle:config:" + name + ":operator")
			tr := sim10.Run(region, op)
			if to := tr.Final().Leader; to != region.GetLeader().GetStoreId() && rejecting[to] {
				R.Violate("C11:"+name+":leader-to-store-rejecting-leaders-as-acknowledged",
					fmt.Sprintf("%s hands the leader to store %d (zone z%d): %s", sim10.Summary(op), to, to, hist), replay)
			}
		}
		sc := schedule.NewRegionScatterer(ctx, rc)
		for _, rg := range regions[:6] {
			if op, err := sc.Scatter(rg, "g1"); err == nil {
				judge("scatter", rg, op)
			}
		}
		storage := core.NewStorage(kv.NewMemoryKV())
		for _, typ := range []string{schedulers.BalanceLeaderType, schedulers.ShuffleLeaderType} {
			sch, err := schedule.CreateScheduler(typ, rc.GetOperatorController(), storage, schedule.ConfigSliceDecoder(typ, []string{"", ""}))
			if err != nil {
				continue
			}
			for t := 0; t < 8; t++ {
				for _, op := range sch.Schedule(rc) {
					judge(typ, rc.GetRegion(op.RegionID()), op)
				}
			}
		}
	}
	// leave no property behind for the phases of a later run on this server
}

// ---- round 8: the evict-leader configuration through its HTTP handler ----
// evict-leader(store 1) and grant-leader(store 2) are registered on the RaftCluster; POST /config {"store_id": 2} is sent to
// the REAL handler of the evict-leader scheduler (what POST /schedulers is redirected to once the scheduler exists).  Store 2 is
// paused by grant-leader, so the request is refused (500).  ORACLE: a refused request leaves the served configuration as it was;
// every store the served evict-leader configuration lists is closed for leader transfer - also after grant-leader is removed -
// and balance-leader / shuffle-leader hand no leader to a listed store.
type evictCfgRec struct {
	Requests []string
	Answers  []int
}

func runEvictConfigUpdates(R *res.Result, w *life10.World, master *rng.R, rounds int) {
	const n = 3
	bc := w.S.GetBasicCluster()
	for k := 0; k < rounds; k++ {
		w.Reset(n)
		pid := uint64(9700)
		for q := 0; q < 10; q++ {
			meta := &metapb.Region{Id: uint64(7400 + q), StartKey: []byte(fmt.Sprintf("e%02d", q)), EndKey: []byte(fmt.Sprintf("e%02d", q+1)),
				RegionEpoch: &metapb.RegionEpoch{ConfVer: 5, Version: 5}}
			for _, st := range []uint64{3, 2, 1} {
				pid++
				meta.Peers = append(meta.Peers, &metapb.Peer{Id: pid, StoreId: st})
			}
			bc.PutRegion(core.NewRegionInfo(meta, meta.Peers[0], core.SetApproximateSize(10), core.SetApproximateKeys(100)))
		}
		for id := uint64(1); id <= n; id++ {
			_ = w.Heartbeat(id, 10)
		}
		storage := core.NewStorage(kv.NewMemoryKV())
		oc := w.RC.GetOperatorController()
		mk := func(typ, store string) schedule.Scheduler {
			s, err := schedule.CreateScheduler(typ, oc, storage, schedule.ConfigSliceDecoder(typ, []string{store}))
			if err != nil {
				panic(err)
			}
			return s
		}
		evict, grant := mk(schedulers.EvictLeaderType, "1"), mk(schedulers.GrantLeaderType, "2")
		if err := w.RC.AddScheduler(evict, "1"); err != nil {
			R.Notes = append(R.Notes, "evict-leader config history skipped: "+err.Error())
			continue
		}
		if err := w.RC.AddScheduler(grant, "2"); err != nil {
			R.Notes = append(R.Notes, "evict-leader config history skipped: "+err.Error())
			_ = w.RC.RemoveScheduler(schedulers.EvictLeaderName)
			continue
		}
		list := func() (string, map[uint64]bool) {
			rw := httptest.NewRecorder()
			evict.ServeHTTP(rw, httptest.NewRequest("GET", "/list", nil))
			var conf struct {
				StoreIDWithRanges map[uint64]interface{} `json:"store-id-ranges"`
			}
			_ = json.Unmarshal(rw.Body.Bytes(), &conf)
			ids := map[uint64]bool{}
			var xs []string
			for id := range conf.StoreIDWithRanges {
				ids[id] = true
			}
			for id := uint64(1); id <= n; id++ {
				if ids[id] {
					xs = append(xs, fmt.Sprint(id))
				}
			}
			return "[" + strings.Join(xs, " ") + "]", ids
		}
		rec := evictCfgRec{}
		before, _ := list()
		body := `{"store_id": 2}`
		rw := httptest.NewRecorder()
		evict.ServeHTTP(rw, httptest.NewRequest("POST", "/config", strings.NewReader(body)))
		rec.Requests, rec.Answers = append(rec.Requests, "POST /config "+body), append(rec.Answers, rw.Code)
		R.Count(fmt.Sprintf("lifecycle:evict-config-update-answered-%d", rw.Code))
		after, _ := list()
		replay := map[string]interface{}{"evict-leader-config": rec}
		hist := fmt.Sprintf("evict-leader(1) and grant-leader(2) registered; POST /config %s to evict-leader answered %d", body, rw.Code)
		if rw.Code != 200 && after != before {
			R.Violate("C11:refused-evict-leader-update-changes-served-config",
				fmt.Sprintf("%s; evict-leader stores before %s, after %s", hist, before, after), replay)
		}
		// grant-leader goes away: it releases store 2
		_ = w.RC.RemoveScheduler(schedulers.GrantLeaderName)
		time.Sleep(150 * time.Millisecond)
		hist += "; grant-leader removed"
		_, listed := list()
		for id := range listed {
			if st := w.RC.GetStore(id); st != nil && st.AllowLeaderTransfer() {
				R.Violate("C11:store-in-evict-leader-config-accepts-leaders",
					fmt.Sprintf("%s; the evict-leader configuration lists store %d, which is served with leader transfer allowed", hist, id), replay)
			}
		}
		for _, typ := range []string{schedulers.BalanceLeaderType, schedulers.ShuffleLeaderType} {
			sch, err := schedule.CreateScheduler(typ, oc, storage, schedule.ConfigSliceDecoder(typ, []string{"", ""}))
			if err != nil {
				continue
			}
			for t := 0; t < 8; t++ {
				for _, op := range sch.Schedule(w.RC) {
					region := w.RC.GetRegion(op.RegionID())
					if region == nil {
						continue
					}
					R.Count("lifecycle:evict-config:" + typ + ":operator")
					if to := sim10.Run(region, op).Final().Leader; to != region.GetLeader().GetStoreId() && listed[to] {
						R.Violate("C11:"+typ+":leader-to-store-in-evict-leader-config",
							fmt.Sprintf("%s hands the leader to store %d: %s", sim10.Summary(op), to, hist), replay)
					}
				}
			}
		}
		R.Count("lifecycle:evict-config-history")
		_ = w.RC.RemoveScheduler(schedulers.EvictLeaderName)
		time.Sleep(50 * time.Millisecond)
	}
}
