// Driver for C07: (a) pkg/btree against the ordered-list specification L0 (degrees 2,3,4,64, rank
// queries), (b) core.RegionsInfo against the L2 model: puts / removes followed by every query method.
// Prints (ops, observations) as Coq terms for model/C07_Region.v.
package main

import (
	"bytes"
	"context"
	"encoding/json"
	"flag"
	"fmt"
	"io"
	"math/rand"
	"net/http/httptest"
	"net/url"
	"os"
	"path"
	"sort"
	"strings"
	"sync"
	"time"

	"github.com/pingcap/kvproto/pkg/metapb"
	"github.com/pingcap/log"
	"github.com/tikv/pd/pkg/btree"
	"github.com/tikv/pd/pkg/codec"
	"github.com/tikv/pd/pkg/mock/mockid"
	"github.com/tikv/pd/server/api"
	"github.com/tikv/pd/server/cluster"
	"github.com/tikv/pd/server/config"
	"github.com/tikv/pd/server/core"
	"github.com/tikv/pd/server/kv"
	"go.uber.org/zap"
	"go.uber.org/zap/zapcore"

	"pdverif/internal/c07x"
	"pdverif/internal/coqfmt"
	"pdverif/internal/res"
	"pdverif/internal/rng"
	"pdverif/internal/srv15"
)

// ---------------------------------------------------------------------------------------------
// (a) btree

type bop struct {
	K   string `json:"k"`
	X   int    `json:"x,omitempty"`
	Lim int    `json:"lim,omitempty"`
}

func (o bop) coq() string {
	switch o.K {
	case "ins":
		return fmt.Sprintf("BIns %s", coqfmt.Z(int64(o.X)))
	case "del":
		return fmt.Sprintf("BDel %s", coqfmt.Z(int64(o.X)))
	case "delmin":
		return "BDelMin"
	case "delmax":
		return "BDelMax"
	case "get":
		return fmt.Sprintf("BGet %s", coqfmt.Z(int64(o.X)))
	case "getidx":
		return fmt.Sprintf("BGetIdx %s", coqfmt.Z(int64(o.X)))
	case "getat":
		return fmt.Sprintf("BGetAt %s", coqfmt.Z(int64(o.X)))
	case "asc":
		return fmt.Sprintf("BAsc %s %d", coqfmt.Z(int64(o.X)), o.Lim)
	case "desc":
		return fmt.Sprintf("BDesc %s %d", coqfmt.Z(int64(o.X)), o.Lim)
	case "len":
		return "BLen"
	case "min":
		return "BMin"
	case "max":
		return "BMax"
	}
	return "BRanks"
}

func optItem(i btree.Item) string {
	if i == nil {
		return "None"
	}
	return "(Some " + coqfmt.Z(int64(i.(btree.Int))) + ")"
}

func zlist(xs []int) string {
	s := make([]string, len(xs))
	for i, x := range xs {
		s[i] = coqfmt.Z(int64(x))
	}
	return "[" + strings.Join(s, "; ") + "]"
}

func btExec(t *btree.BTree, o bop) string {
	switch o.K {
	case "ins":
		return "BoItem " + optItem(t.ReplaceOrInsert(btree.Int(o.X)))
	case "del":
		return "BoItem " + optItem(t.Delete(btree.Int(o.X)))
	case "delmin":
		return "BoItem " + optItem(t.DeleteMin())
	case "delmax":
		return "BoItem " + optItem(t.DeleteMax())
	case "get":
		return "BoItem " + optItem(t.Get(btree.Int(o.X)))
	case "getidx":
		it, i := t.GetWithIndex(btree.Int(o.X))
		return fmt.Sprintf("BoIdx %s %s", optItem(it), coqfmt.Z(int64(i)))
	case "getat":
		return "BoItem " + optItem(t.GetAt(o.X))
	case "asc":
		var l []int
		if o.Lim > 0 {
			t.AscendGreaterOrEqual(btree.Int(o.X), func(i btree.Item) bool {
				l = append(l, int(i.(btree.Int)))
				return len(l) < o.Lim
			})
		}
		return "BoList " + zlist(l)
	case "desc":
		var l []int
		if o.Lim > 0 {
			t.DescendLessOrEqual(btree.Int(o.X), func(i btree.Item) bool {
				l = append(l, int(i.(btree.Int)))
				return len(l) < o.Lim
			})
		}
		return "BoList " + zlist(l)
	case "len":
		return "BoNum " + coqfmt.Z(int64(t.Len()))
	case "min":
		return "BoItem " + optItem(t.Min())
	case "max":
		return "BoItem " + optItem(t.Max())
	}
	// ranks: GetAt k for every k, then GetWithIndex of each item
	var items, idx []int
	for k := 0; k < t.Len(); k++ {
		it := t.GetAt(k)
		if it == nil {
			items = append(items, -999999)
			continue
		}
		items = append(items, int(it.(btree.Int)))
	}
	for _, x := range items {
		_, i := t.GetWithIndex(btree.Int(x))
		idx = append(idx, i)
	}
	return "BoRanks " + zlist(items) + " " + zlist(idx)
}

type btCase struct {
	Kind   string   `json:"kind"`
	Degree int      `json:"degree"`
	Ops    []bop    `json:"ops"`
	Obs    []string `json:"obs"`
	Every  int      `json:"shape_every"` // the node structure is dumped after every Every-th operation (and the last)
	shapes []string
	maxLen int
	panic  string // "<function>: <message>" when the real code panicked; the case ends there
}

// journal of the running case (kept by the child process, read by the supervising parent after a crash)
var journal *c07x.OpLog

var btFunc = map[string]string{"ins": "ReplaceOrInsert", "del": "Delete", "delmin": "DeleteMin", "delmax": "DeleteMax", "get": "Get",
	"getidx": "GetWithIndex", "getat": "GetAt", "asc": "AscendGreaterOrEqual", "desc": "DescendLessOrEqual", "len": "Len", "min": "Min",
	"max": "Max", "ranks": "GetAt+GetWithIndex"}

// btSafe runs one operation on the real tree; a panic of pkg/btree is a failing input, not a driver failure
func btSafe(t *btree.BTree, o bop) (obs string, pan string) {
	journal.Op(o)
	defer func() {
		if e := recover(); e != nil {
			obs, pan = "", fmt.Sprintf("btree.%s: %v", btFunc[o.K], e)
		}
	}()
	return btExec(t, o), ""
}

func dumpTree(t *btree.BTree) string {
	return t.VerifDump(func(i btree.Item) int64 { return int64(i.(btree.Int)) })
}

func genBT(r *rng.R, degree, nops, space, ranksEvery int) btCase {
	t := btree.New(degree)
	c := btCase{Kind: "bt", Degree: degree, Every: 1}
	if nops > 400 {
		c.Every = 50
	}
	if nops > 5000 { // long histories: a dump of a 3000-item tree is large, eight of them are enough
		c.Every = nops / 8
	}
	journal.Begin(map[string]interface{}{"kind": "bt", "degree": degree})
	step := func(o bop) {
		if c.panic != "" {
			return
		}
		ob, pan := btSafe(t, o)
		c.Ops = append(c.Ops, o)
		if pan != "" {
			c.panic = pan
			return
		}
		c.Obs = append(c.Obs, ob)
		if k := len(c.Ops) - 1; k%c.Every == 0 {
			c.shapes = append(c.shapes, fmt.Sprintf("(%d%%nat, %s)", k, dumpTree(t)))
		}
		if t.Len() > c.maxLen {
			c.maxLen = t.Len()
		}
	}
	// phases: grow, churn, shrink (forces split, steal, merge), churn again
	phase := 0
	for k := 0; k < nops; k++ {
		if k == nops/3 || k == nops/2 || k == (3*nops)/4 {
			phase++
		}
		wIns, wDel := 45, 15
		if phase == 2 {
			wIns, wDel = 10, 50
		}
		x := r.Intn(space) - 2
		switch r.Pick(wIns, wDel, 3, 3, 8, 8, 6, 5, 5, 2, 1, 1) {
		case 0:
			step(bop{K: "ins", X: x})
		case 1:
			step(bop{K: "del", X: x})
		case 2:
			step(bop{K: "delmin"})
		case 3:
			step(bop{K: "delmax"})
		case 4:
			step(bop{K: "get", X: x})
		case 5:
			step(bop{K: "getidx", X: x})
		case 6:
			step(bop{K: "getat", X: r.Intn(t.Len()+3) - 1})
		case 7:
			step(bop{K: "asc", X: x, Lim: 1 + r.Intn(6)})
		case 8:
			step(bop{K: "desc", X: x, Lim: 1 + r.Intn(6)})
		case 9:
			step(bop{K: "len"})
		case 10:
			step(bop{K: "min"})
		case 11:
			step(bop{K: "max"})
		}
		if ranksEvery > 0 && k%ranksEvery == ranksEvery-1 {
			step(bop{K: "ranks"})
		}
	}
	step(bop{K: "ranks"})
	step(bop{K: "len"})
	return c
}

// genBTGrowShrinkGrow: the history class that exposes stale state in recycled nodes: grow past maxItems (the root gets
// children), shrink until the root collapses (the old root and a merged child go to the free list), grow past maxItems again
// (the split of the root leaf takes nodes from the free list); rank sweeps and rank queries after every phase.
func genBTGrowShrinkGrow(r *rng.R, degree int) btCase {
	t := btree.New(degree)
	c := btCase{Kind: "bt", Degree: degree, Every: 1}
	journal.Begin(map[string]interface{}{"kind": "bt", "degree": degree})
	step := func(o bop) {
		if c.panic != "" {
			return
		}
		ob, pan := btSafe(t, o)
		c.Ops = append(c.Ops, o)
		if pan != "" {
			c.panic = pan
			return
		}
		c.Obs = append(c.Obs, ob)
		if k := len(c.Ops) - 1; k%c.Every == 0 {
			c.shapes = append(c.shapes, fmt.Sprintf("(%d%%nat, %s)", k, dumpTree(t)))
		}
		if t.Len() > c.maxLen {
			c.maxLen = t.Len()
		}
	}
	max := 2*degree - 1
	space := 6 * degree
	probe := func() {
		step(bop{K: "ranks"})
		for j := 0; j < 4; j++ {
			step(bop{K: "getidx", X: r.Intn(space)})
			step(bop{K: "getat", X: r.Intn(t.Len() + 1)})
		}
		step(bop{K: "len"})
	}
	for round := 0; round < 2; round++ {
		for guard := 0; t.Len() < max+2+r.Intn(degree) && guard < 100*space; guard++ {
			step(bop{K: "ins", X: r.Intn(space)})
		}
		probe()
		low := max - 1 - r.Intn(degree/2+1) // at most 2*degree-2 items: the two children of the root have merged
		for guard := 0; t.Len() > low && guard < 100*space; guard++ {
			switch r.Intn(4) {
			case 0:
				step(bop{K: "delmin"})
			case 1:
				step(bop{K: "delmax"})
			default:
				step(bop{K: "del", X: r.Intn(space)})
			}
		}
		probe()
	}
	for guard := 0; t.Len() < max+3 && guard < 100*space; guard++ {
		step(bop{K: "ins", X: r.Intn(space)})
	}
	probe()
	return c
}

func (c btCase) coq() string {
	ops := make([]string, len(c.Ops))
	for i, o := range c.Ops {
		ops[i] = o.coq()
	}
	return fmt.Sprintf("CaseBT %d %s\n  %s\n  %s", c.Degree, coqfmt.List(ops), coqfmt.List(c.Obs), coqfmt.List(c.shapes))
}

// ---------------------------------------------------------------------------------------------
// (b) RegionsInfo

type rop struct {
	K      string       `json:"k"`
	R      *c07x.Region `json:"r,omitempty"`
	R2     *c07x.Region `json:"r2,omitempty"` // hbrace: the heartbeat that overtakes R
	ID     uint64       `json:"id,omitempty"`
	S      string       `json:"s,omitempty"`
	E      string       `json:"e,omitempty"`
	Lim    int          `json:"lim,omitempty"`
	Store  uint64       `json:"store,omitempty"`
	Fam    string       `json:"fam,omitempty"`
	Seed   int64        `json:"seed,omitempty"`
	Ranges [][2]string  `json:"ranges,omitempty"`
	Re     bool         `json:"re,omitempty"` // scan: run through ScanRangeWithIterator; every callback also looks the key Inner up (re-entrant reader)
	Inner  string       `json:"inner,omitempty"`
	Stash  bool         `json:"stashed,omitempty"` // search / prev: the answer is the one obtained inside the iterator of the preceding scan
	draws  []int
	p, p2  *c07x.Region // hbrace: what the model sees of R and R2 (projection of the real RegionInfo objects)
}

func (o rop) coq() string {
	switch o.K {
	case "set":
		return "OSet " + o.R.Coq()
	case "droprace": // the heartbeat that slips in, then the removal of the (current) cached region
		return "OSet " + o.p.Coq() + fmt.Sprintf("; ORemove %d", o.ID)
	case "hbrace": // two operations of the model: the overtaking heartbeat, then the parked one
		return "OSet " + o.p2.Coq() + "; OSet " + o.p.Coq()
	case "remove":
		return fmt.Sprintf("ORemove %d", o.ID)
	case "get":
		return fmt.Sprintf("OGet %d", o.ID)
	case "search":
		return "OSearch " + c07x.Key(o.S)
	case "prev":
		return "OSearchPrev " + c07x.Key(o.S)
	case "scan":
		return fmt.Sprintf("OScan %s %s %s", c07x.Key(o.S), c07x.Key(o.E), coqfmt.Z(int64(o.Lim)))
	case "overlaps":
		return "OOverlaps " + o.R.Coq()
	case "adjacent":
		return "OAdjacent " + o.R.Coq()
	case "counts", "deletestore":
		return fmt.Sprintf("OCounts %d", o.Store)
	case "global":
		return "OGlobal"
	case "storeregions":
		return fmt.Sprintf("OStoreRegions %d", o.Store)
	case "all":
		return "OAll"
	case "rand1":
		return fmt.Sprintf("ORand1 %s %d %s %s %s", o.Fam, o.Store, c07x.Key(o.S), c07x.Key(o.E), zlist(o.draws))
	case "randn":
		xs := make([]string, len(o.Ranges))
		for i, p := range o.Ranges {
			xs[i] = "(" + c07x.Key(p[0]) + ", " + c07x.Key(p[1]) + ")"
		}
		return fmt.Sprintf("ORandN %s %d %s", o.Fam, o.Store, coqfmt.List(xs))
	}
	panic("bad op " + o.K)
}

type world struct {
	ri        *core.RegionsInfo
	bc        *core.BasicCluster // puts go through BasicCluster.PutRegion (the layer around RegionsInfo.SetRegion); created on first use
	hb        *hbRig             // RaftCluster facades over bc for the heartbeat race phase; created on first use
	stash     []string           // answers of the lookups made inside the iterator of the last re-entrant scan: (search, prev) per callback
	malformed bool               // the case belongs to the malformed stream (a nil dereference in SetRegion / RemoveRegion is modelled)
	panic     string             // "<function>: <message>" of a panic of the real code that is not such an observation
}

func randFam(ri *core.RegionsInfo, fam string, store uint64, ranges []core.KeyRange) *core.RegionInfo {
	switch fam {
	case "FLeader":
		return ri.RandLeaderRegion(store, ranges)
	case "FFollower":
		return ri.RandFollowerRegion(store, ranges)
	case "FLearner":
		return ri.RandLearnerRegion(store, ranges)
	}
	return ri.RandPendingRegion(store, ranges)
}

func (w *world) cluster() *core.BasicCluster {
	if w.bc == nil {
		w.bc = core.NewBasicCluster()
		w.bc.Regions = w.ri
	}
	return w.bc
}

// hbRig: two RaftCluster facades over the world's BasicCluster (as in the C06 driver): facade a is parked at c.Lock() by
// holding its read lock, facade b runs a whole heartbeat meanwhile.
type hbRig struct {
	a, b *cluster.RaftCluster
}

func (w *world) rig() *hbRig {
	if w.hb == nil {
		mk := func() *cluster.RaftCluster {
			rc := cluster.NewRaftCluster(context.Background(), "", 1, nil, nil, nil)
			rc.InitCluster(mockid.NewIDAllocator(), config.NewTestOptions(), core.NewStorage(kv.NewMemoryKV()), w.cluster())
			return rc
		}
		w.hb = &hbRig{a: mk(), b: mk()}
	}
	return w.hb
}

// hbRace: heartbeat A (o.R) passes its first PreCheckPutRegion and waits at c.Lock(); heartbeat B (o.R2) of the same region is
// processed completely; then A takes the lock, is checked again and put.  Both are reports of a cached region with its cached
// range and epoch, so nothing is displaced and the region set afterwards is the one after SetRegion(B); SetRegion(A).
func (w *world) hbRace(o *rop) string {
	rig := w.rig()
	a := core.RegionFromHeartbeat(o.R.Heartbeat())
	b := core.RegionFromHeartbeat(o.R2.Heartbeat())
	pa, pb := c07x.Project(a), c07x.Project(b)
	o.p, o.p2 = &pa, &pb
	done := make(chan error, 1)
	rig.a.RLock()
	go func() {
		defer func() {
			if e := recover(); e != nil {
				done <- fmt.Errorf("panic: %v", e)
			}
		}()
		done <- rig.a.VerifC06ProcessRegionHeartbeat(a)
	}()
	parked := false
	deadline := time.Now().Add(10 * time.Second)
	for !parked {
		select {
		case err := <-done: // answered at the first check
			rig.a.RUnlock()
			errB := rig.b.VerifC06ProcessRegionHeartbeat(b)
			_, _ = err, errB
			return "RoBad \"heartbeat A was answered before it reached the lock\"; RoRegs []"
		default:
		}
		if rig.a.TryRLock() {
			rig.a.RUnlock()
		} else {
			parked = true
		}
		if time.Now().After(deadline) {
			panic("heartbeat A neither returned nor reached c.Lock()")
		}
		time.Sleep(20 * time.Microsecond)
	}
	errB := rig.b.VerifC06ProcessRegionHeartbeat(b)
	rig.a.RUnlock()
	errA := <-done
	if errA != nil || errB != nil {
		return fmt.Sprintf("RoBad \"heartbeat rejected: A=%v B=%v\"; RoRegs []", errA != nil, errB != nil)
	}
	return "RoRegs []; RoRegs []"
}

// dropRace: RaftCluster.DropCacheRegion(o.ID) is started while the harness holds the write lock of its facade, so it has to wait at
// c.RLock(); meanwhile a heartbeat of the same region that changes its peers (o.R) is processed through the other facade; then the
// lock is released.  DropCacheRegion removes the region that is cached when it holds the lock, so the outcome is SetRegion(R);
// RemoveRegion(cached region of the id).
func (w *world) dropRace(o *rop) string {
	rig := w.rig()
	b := core.RegionFromHeartbeat(o.R.Heartbeat())
	pb := c07x.Project(b)
	o.p = &pb
	done := make(chan interface{}, 1)
	rig.a.Lock()
	go func() {
		defer func() { done <- recover() }()
		rig.a.DropCacheRegion(o.ID)
	}()
	time.Sleep(3 * time.Millisecond) // the dropper is now waiting for the facade's lock (whatever it did before asking for it)
	errB := rig.b.VerifC06ProcessRegionHeartbeat(b)
	rig.a.Unlock()
	if e := <-done; e != nil {
		panic(e)
	}
	if errB != nil {
		return "RoBad \"heartbeat rejected\"; RoUnit"
	}
	return "RoRegs []; RoUnit"
}

// exec runs one op on the real RegionsInfo.  A nil dereference inside SetRegion / RemoveRegion on the malformed stream is an
// observation the model predicts (RemoveRegion(nil)); every other panic of the real code is a failing input.
func (w *world) exec(o *rop) (obs string) {
	journal.Op(o)
	defer func() {
		if e := recover(); e != nil {
			msg := fmt.Sprint(e)
			if w.malformed && (o.K == "set" || o.K == "remove") && strings.Contains(msg, "nil pointer dereference") {
				obs = "RoBad \"nil-deref\""
				return
			}
			w.panic = fmt.Sprintf("RegionsInfo.%s: %s", o.K, msg)
			obs = "RoBad \"panic\""
		}
	}()
	ri := w.ri
	switch o.K {
	case "set":
		info := o.R.Info()
		ov := w.cluster().PutRegion(info)
		// read-only observers: the log formatting helpers, on the region that is now cached and on what it displaced
		// (once per object: a helper that is not read-only would otherwise compound its damage on every call)
		_ = core.RegionToHexMeta(info.GetMeta()).String()
		_ = info.GetMeta().String()
		// ... and the key helpers of pkg/codec that the merge checker applies to the keys of cached regions
		_ = codec.Key(info.GetStartKey()).TableID()
		_ = codec.Key(info.GetEndKey()).TableID()
		_, _ = codec.Key(info.GetStartKey()).MetaOrTable()
		_, _ = codec.Key(info.GetEndKey()).MetaOrTable()
		for _, x := range ov {
			if x != nil {
				_ = core.RegionToHexMeta(x.GetMeta()).String()
			}
		}
		if ri.Len() <= 16 {
			_ = core.RegionsToHexMeta(ri.GetMetaRegions()).String()
		}
		s, ok := c07x.Refs(ov)
		if !ok {
			return "RoBad \"nil-overlap\""
		}
		return "RoRegs " + s
	case "hbrace":
		return w.hbRace(o)
	case "droprace":
		return w.dropRace(o)
	case "remove":
		if g := ri.GetRegion(o.ID); g != nil {
			ri.RemoveRegion(g)
		}
		return "RoUnit"
	case "get":
		return "RoReg " + c07x.ORef(ri.GetRegion(o.ID))
	case "search", "prev":
		if o.Stash && len(w.stash) > 0 {
			// the lookups made from inside the scan iterator; the tree did not change, so all callbacks must agree
			off := 0
			if o.K == "prev" {
				off = 1
			}
			for i := off; i < len(w.stash); i += 2 {
				if w.stash[i] != w.stash[off] {
					return "RoBad \"re-entrant-lookups-disagree\""
				}
			}
			return w.stash[off]
		}
		if o.K == "search" {
			return "RoReg " + c07x.ORef(ri.SearchRegion([]byte(o.S)))
		}
		return "RoReg " + c07x.ORef(ri.SearchPrevRegion([]byte(o.S)))
	case "scan":
		if o.Re {
			// ScanRange written over ScanRangeWithIterator, with a lookup by key issued from inside the iterator
			var res []*core.RegionInfo
			w.stash = w.stash[:0]
			end := []byte(o.E)
			ri.ScanRangeWithIterator([]byte(o.S), func(region *core.RegionInfo) bool {
				if len(end) > 0 && bytes.Compare(region.GetStartKey(), end) >= 0 {
					return false
				}
				if o.Lim > 0 && len(res) >= o.Lim {
					return false
				}
				w.stash = append(w.stash, "RoReg "+c07x.ORef(ri.SearchRegion([]byte(o.Inner))), "RoReg "+c07x.ORef(ri.SearchPrevRegion([]byte(o.Inner))))
				res = append(res, ri.GetRegion(region.GetID()))
				return true
			})
			s, ok := c07x.Refs(res)
			if !ok {
				return "RoBad \"scan-nil\""
			}
			return "RoRegs " + s
		}
		w.stash = w.stash[:0]
		s, ok := c07x.Refs(ri.ScanRange([]byte(o.S), []byte(o.E), o.Lim))
		if !ok {
			return "RoBad \"scan-nil\""
		}
		return "RoRegs " + s
	case "overlaps":
		s, ok := c07x.Refs(ri.GetOverlaps(o.R.Info()))
		if !ok {
			return "RoBad \"nil-overlap\""
		}
		return "RoRegs " + s
	case "adjacent":
		p, n := ri.GetAdjacentRegions(o.R.Info())
		return "RoPair " + c07x.ORef(p) + " " + c07x.ORef(n)
	case "deletestore":
		// BasicCluster.DeleteStore removes the record of a store (RemoveTombStoneRecords); the regions' indexes are not its business:
		// whatever the region cache attributes to the store is still what the cached regions imply.  Observed like `counts`.
		st := core.NewStoreInfo(&metapb.Store{Id: o.Store})
		w.cluster().PutStore(st)
		w.cluster().DeleteStore(st)
		fallthrough
	case "counts":
		s := o.Store
		return "RoNums " + c07x.Zs([]int64{int64(ri.GetStoreLeaderCount(s)), int64(ri.GetStoreFollowerCount(s)),
			int64(ri.GetStoreLearnerCount(s)), int64(ri.GetStorePendingPeerCount(s)),
			ri.GetStoreLeaderRegionSize(s), ri.GetStoreFollowerRegionSize(s), ri.GetStoreLearnerRegionSize(s)})
	case "global":
		return "RoNums " + c07x.Zs([]int64{int64(ri.Len()), int64(ri.TreeLen()), ri.VerifTreeTotalSize(), ri.GetAverageRegionSize()})
	case "storeregions":
		s, ok := c07x.Refs(ri.GetStoreRegions(o.Store))
		if !ok {
			return "RoBad \"nil-region\""
		}
		return "RoRegs " + s
	case "all":
		l := ri.GetRegions()
		sort.SliceStable(l, func(i, j int) bool { return l[i].GetID() < l[j].GetID() })
		s, _ := c07x.Refs(l)
		return "RoRegs " + s
	case "rand1":
		// the value rand.Intn(k) will return after this seeding and the Perm(1) of RandomRegion, for every k
		n := ri.Len() + 2
		o.draws = o.draws[:0]
		for k := 1; k <= n; k++ {
			rand.Seed(o.Seed)
			rand.Perm(1)
			o.draws = append(o.draws, rand.Intn(k))
		}
		var ranges []core.KeyRange
		if !(o.S == "" && o.E == "" && o.Seed%2 == 0) { // an empty range list is replaced by ("","") in the code
			ranges = []core.KeyRange{core.NewKeyRange(o.S, o.E)}
		}
		rand.Seed(o.Seed)
		return "RoReg " + c07x.ORef(randFam(ri, o.Fam, o.Store, ranges))
	case "randn":
		var ranges []core.KeyRange
		for _, p := range o.Ranges {
			ranges = append(ranges, core.NewKeyRange(p[0], p[1]))
		}
		rand.Seed(o.Seed)
		return "RoReg " + c07x.ORef(randFam(ri, o.Fam, o.Store, ranges))
	}
	panic("bad op")
}

type riCase struct {
	Kind       string   `json:"kind"`
	Ops        []rop    `json:"ops"`
	Obs        []string `json:"obs"`
	tags       map[string]int
	panic      string
	concurrent string // first answer of a concurrent reader that differs from the sequential answer
	totals     string // first per-store total (BasicCluster level) that matches no state of the cache
}

func (c riCase) coq() string {
	ops := make([]string, len(c.Ops))
	for i, o := range c.Ops {
		ops[i] = o.coq()
	}
	return "CaseRI " + coqfmt.List(ops) + "\n  " + coqfmt.List(c.Obs)
}

var fams = []string{"FLeader", "FFollower", "FLearner", "FPending"}

type riGen struct {
	r      *rng.R
	a      c07x.Alphabet
	w      *world
	c      *riCase
	stores int
	stamp  int64
	cached map[uint64]c07x.Region // what the driver believes is cached (only to aim queries)
	dead   bool
}

func (g *riGen) step(o rop) string {
	if g.dead {
		return ""
	}
	if len(g.c.Ops) == 0 {
		journal.Begin(map[string]interface{}{"kind": "ri"})
	}
	ob := g.w.exec(&o)
	if g.w.panic != "" {
		g.c.panic = g.w.panic
		g.c.Ops = append(g.c.Ops, o)
		g.dead = true
		return ""
	}
	if o.K == "set" && strings.HasPrefix(ob, "RoBad") {
		g.dead = true // the real object may be half-updated after a panic: the case ends here
	}
	g.c.Ops = append(g.c.Ops, o)
	g.c.Obs = append(g.c.Obs, ob)
	return ob
}

func (g *riGen) probe() string { return g.a.Probes[g.r.Intn(len(g.a.Probes))] }

func (g *riGen) rangeKeys() (string, string) {
	s, e := g.probe(), g.probe()
	switch g.r.Pick(60, 15, 15, 10) {
	case 0:
		if e != "" && s > e {
			s, e = e, s
		}
	case 1:
		e = ""
	case 2:
		s = ""
	}
	return s, e
}

// put applies SetRegion and classifies the put for the histogram.
func (g *riGen) put(x c07x.Region) {
	// a region that swallows cached neighbours and itself reports size 0 or 1 (the first heartbeats after a merge)
	if !g.dead && g.r.Pct(25) {
		for _, o := range g.w.ri.GetOverlaps(x.Info()) {
			if o != nil && o.GetID() != x.ID {
				x.Size = int64(g.r.Intn(2))
				g.c.tags["put:size-0-or-1-swallowing"]++
				break
			}
		}
	}
	old, had := g.cached[x.ID]
	ob := g.step(rop{K: "set", R: &x})
	nov := strings.Count(ob, "(")
	switch {
	case !had:
		g.c.tags["put:new-id"]++
	case old.Start == x.Start && old.End == x.End:
		g.c.tags["put:same-range"]++
	default:
		g.c.tags["put:range-changed"]++
	}
	if nov >= 2 {
		g.c.tags["put:swallows>=2"]++
	} else if nov == 1 {
		g.c.tags["put:displaces-1"]++
	}
	if x.End == "" {
		g.c.tags["put:unbounded-end"]++
	}
	// refresh the belief from the real object set
	g.cached = map[uint64]c07x.Region{}
	for _, ri := range g.w.ri.GetRegions() {
		p := c07x.Project(ri)
		g.cached[p.ID] = p
	}
}

func (g *riGen) someCached() (c07x.Region, bool) {
	if len(g.cached) == 0 {
		return c07x.Region{}, false
	}
	ids := make([]uint64, 0, len(g.cached))
	for id, c := range g.cached {
		if c.End == "" || c.Start < c.End { // a region with an invalid range is never put again under its id (see mangle)
			ids = append(ids, id)
		}
	}
	if len(ids) == 0 {
		return c07x.Region{}, false
	}
	sort.Slice(ids, func(i, j int) bool { return ids[i] < ids[j] })
	return g.cached[ids[g.r.Intn(len(ids))]], true
}

// queries after a mutation: `full` sweeps every probe key and every store.
func (g *riGen) queries(full bool) {
	r := g.r
	g.step(rop{K: "global"})
	if full || r.Pct(30) {
		g.step(rop{K: "all"})
	}
	if full && len(g.a.Probes) <= 24 {
		for _, k := range g.a.Probes {
			g.step(rop{K: "search", S: k})
			g.step(rop{K: "prev", S: k})
		}
	} else {
		for i := 0; i < 6; i++ {
			g.step(rop{K: "search", S: g.probe()})
			g.step(rop{K: "prev", S: g.probe()})
		}
	}
	nscan := 3
	if full {
		nscan = 8
	}
	for i := 0; i < nscan; i++ {
		s, e := g.rangeKeys()
		g.step(rop{K: "scan", S: s, E: e, Lim: []int{0, -1, 1, 2, 3, 1000}[r.Intn(6)]})
	}
	// re-entrant reader: a scan through ScanRangeWithIterator whose iterator looks a key up; the answers of those lookups
	// are recorded as the two operations that follow
	for i := 0; i < 2; i++ {
		sk, ek := g.rangeKeys()
		in := g.probe()
		g.step(rop{K: "scan", S: sk, E: ek, Lim: []int{0, 2, 1000}[r.Intn(3)], Re: true, Inner: in})
		g.step(rop{K: "search", S: in, Stash: true})
		g.step(rop{K: "prev", S: in, Stash: true})
	}
	for st := 1; st <= g.stores+1; st++ {
		if full || r.Pct(50) {
			g.step(rop{K: "counts", Store: uint64(st)})
		}
	}
	g.step(rop{K: "storeregions", Store: uint64(1 + r.Intn(g.stores))})
	// overlaps / adjacent: a cached region, and an arbitrary one
	if c, ok := g.someCached(); ok {
		g.step(rop{K: "adjacent", R: &c})
		g.step(rop{K: "overlaps", R: &c})
		g.step(rop{K: "get", ID: c.ID})
	}
	q := c07x.RandomValid(g.a, r, 12, g.stores, 0)
	g.step(rop{K: "adjacent", R: &q})
	g.step(rop{K: "overlaps", R: &q})
	g.step(rop{K: "get", ID: uint64(1 + r.Intn(14))})
	// random picks
	nr := 3
	if full {
		nr = 8
	}
	for i := 0; i < nr; i++ {
		s, e := g.rangeKeys()
		if r.Pct(25) {
			s, e = "", ""
		}
		g.step(rop{K: "rand1", Fam: fams[r.Intn(4)], Store: uint64(1 + r.Intn(g.stores)), S: s, E: e, Seed: int64(r.U64() >> 2)})
	}
	var rs [][2]string
	for i := 0; i < 2+r.Intn(2); i++ {
		s, e := g.rangeKeys()
		rs = append(rs, [2]string{s, e})
	}
	g.step(rop{K: "randn", Fam: fams[r.Intn(4)], Store: uint64(1 + r.Intn(g.stores)), Ranges: rs, Seed: int64(r.U64() >> 2)})
}

func (g *riGen) nextStamp() int64 { g.stamp++; return g.stamp }

// readQuery answers a read-only lookup without touching the world's journal / stash (used by concurrent readers)
func readQuery(ri *core.RegionsInfo, o rop) (obs string) {
	defer func() {
		if e := recover(); e != nil {
			obs = fmt.Sprint("panic: ", e)
		}
	}()
	switch o.K {
	case "search":
		return "RoReg " + c07x.ORef(ri.SearchRegion([]byte(o.S)))
	case "prev":
		return "RoReg " + c07x.ORef(ri.SearchPrevRegion([]byte(o.S)))
	case "scan":
		s, _ := c07x.Refs(ri.ScanRange([]byte(o.S), []byte(o.E), o.Lim))
		return "RoRegs " + s
	case "storeregions":
		s, _ := c07x.Refs(ri.GetStoreRegions(o.Store))
		return "RoRegs " + s
	case "get":
		return "RoReg " + c07x.ORef(ri.GetRegion(o.ID))
	}
	return ""
}

// concurrentReaders: on the unchanged region set, the lookups that BasicCluster serves under its read lock are issued from
// several goroutines at once; every answer must be the answer the same lookup gave sequentially (those sequential answers are
// ordinary operations of the case and are compared with the model).  Returns a description of the first difference.
func (g *riGen) concurrentReaders(rounds int) string {
	if g.dead {
		return ""
	}
	var qs []rop
	for _, k := range g.a.Probes {
		if len(qs) >= 24 {
			break
		}
		qs = append(qs, rop{K: "search", S: k}, rop{K: "prev", S: k})
	}
	for i := 0; i < 6; i++ {
		s, e := g.rangeKeys()
		qs = append(qs, rop{K: "scan", S: s, E: e, Lim: []int{0, 3, 1000}[g.r.Intn(3)]})
	}
	for st := 1; st <= g.stores; st++ {
		qs = append(qs, rop{K: "storeregions", Store: uint64(st)})
	}
	want := make([]string, len(qs))
	for i, q := range qs {
		want[i] = g.step(q)
		if g.dead {
			return ""
		}
	}
	const readers = 4
	diff := make(chan string, readers)
	var wg sync.WaitGroup
	for t := 0; t < readers; t++ {
		wg.Add(1)
		go func(t int) {
			defer wg.Done()
			for n := 0; n < rounds; n++ {
				for j := range qs {
					i := (j*(2*t+1) + n + t) % len(qs)
					if got := readQuery(g.w.ri, qs[i]); got != want[i] {
						select {
						case diff <- fmt.Sprintf("%s concurrently answered %s, sequentially %s", qs[i].coq(), got, want[i]):
						default:
						}
						return
					}
				}
			}
		}(t)
	}
	wg.Wait()
	select {
	case d := <-diff:
		return d
	default:
		return ""
	}
}

// structured case: a simulated cluster history whose heartbeats are put (in order, stale, repeated),
// mixed with arbitrary well-formed overlapping puts and removals.
func genRI(r *rng.R, a c07x.Alphabet, nmut int, malformed bool) riCase {
	c := riCase{Kind: "ri", tags: map[string]int{}}
	g := &riGen{r: r, a: a, w: &world{ri: core.NewRegionsInfo(), malformed: malformed}, c: &c, stores: 3 + r.Intn(3), cached: map[uint64]c07x.Region{}}
	sim := c07x.NewSim(a, g.stores, &g.stamp, r)
	var stale []c07x.Region
	c.tags["alphabet:"+a.Name]++
	if malformed {
		c.tags["stream:malformed"]++
	} else {
		c.tags["stream:structured"]++
	}
	for m := 0; m < nmut; m++ {
		switch k := r.Pick(40, 12, 18, 8, 8, 6, 8); {
		case k == 0 || len(g.cached) == 0: // history step + heartbeats of the changed regions
			for _, i := range sim.Step(r) {
				if i < len(sim.Regions) {
					s := sim.Snapshot(i)
					stale = append(stale, s)
					if r.Pct(85) {
						g.put(s)
					}
				}
			}
		case k == 1: // heartbeat of an arbitrary live region
			g.put(sim.Snapshot(r.Intn(len(sim.Regions))))
		case k == 2: // arbitrary well-formed region, possibly swallowing several
			x := c07x.RandomValid(a, r, 12, g.stores, g.nextStamp())
			if malformed {
				x = mangle(r, x, c.tags)
			}
			g.put(x)
		case k == 3 && len(stale) > 0: // a delayed heartbeat
			x := stale[r.Intn(len(stale))].Clone()
			x.Stamp = g.nextStamp()
			g.put(x)
		case k == 4: // same region again, only statistics / leader / pending changed
			if x, ok := g.someCached(); ok {
				x = x.Clone()
				x.Stamp = g.nextStamp()
				switch r.Intn(4) {
				case 0:
					x.Size = int64(r.Intn(200))
				case 1:
					x.Pending = nil
					for _, p := range x.Peers {
						if r.Pct(40) {
							x.Pending = append(x.Pending, p)
						}
					}
				case 2:
					var vs []c07x.Peer
					for _, p := range x.Peers {
						if !p.Learner {
							vs = append(vs, p)
						}
					}
					if len(vs) > 0 {
						x.Leader = vs[r.Intn(len(vs))].ID
					}
				case 3:
					for j := range x.Peers {
						if r.Pct(30) {
							x.Peers[j].Learner = !x.Peers[j].Learner
						}
					}
				}
				if malformed {
					x = mangle(r, x, c.tags)
				}
				g.put(x)
			}
		case k == 5: // exact re-put (nothing changed but the object)
			if x, ok := g.someCached(); ok {
				x = x.Clone()
				x.Stamp = g.nextStamp()
				g.put(x)
			}
		default: // removal
			id := uint64(1 + r.Intn(14))
			if x, ok := g.someCached(); ok && r.Pct(80) {
				id = x.ID
			}
			g.step(rop{K: "remove", ID: id})
			delete(g.cached, id)
			c.tags["remove"]++
		}
		g.queries(m%5 == 4 || m == nmut-1)
	}
	for k, v := range sim.Hist {
		c.tags[k] += v
	}
	if !malformed {
		g.heartbeatRace()
		g.dropRacePhase()
		if d := g.roleFlips(400); d != "" {
			c.totals = d
		}
		g.deleteStorePhase()
	}
	// concurrent readers on the final, unchanged region set
	if d := g.concurrentReaders(60); d != "" {
		c.concurrent = d
	}
	c.tags["phase:concurrent-readers"]++
	return c
}

// mangle produces the malformed stream: inverted / empty ranges, several peers on one store, a learner or
// an unknown peer as leader, nil leader, peer id 0, negative size. Pending peers stay among the peers
// (the other class is the dedicated probe below).
// A region whose range does not contain its own start key cannot be found again by regionTree.remove, so a later
// put of the same id mutates the key of an item that is still inside the btrees: from then on the behaviour depends
// on the internal node layout, which the list specification cannot follow. Such regions therefore get an id that is
// used exactly once (what happens to them when they are displaced, scanned or removed is still compared).
var freshID uint64 = 100000

func mangle(r *rng.R, x c07x.Region, tags map[string]int) c07x.Region {
	switch r.Intn(7) {
	case 0:
		if x.End != "" {
			x.Start, x.End = x.End, x.Start
			freshID++
			x.ID = freshID
			tags["malformed:inverted-range"]++
		}
	case 1:
		if x.Start != "" {
			x.End = x.Start
			freshID++
			x.ID = freshID
			tags["malformed:empty-range"]++
		}
	case 2:
		if len(x.Peers) >= 2 {
			x.Peers[1].Store = x.Peers[0].Store
			tags["malformed:two-peers-one-store"]++
		}
	case 3:
		for _, p := range x.Peers {
			if p.Learner {
				x.Leader = p.ID
				tags["malformed:learner-leader"]++
				break
			}
		}
	case 4:
		x.Leader = 777777
		tags["malformed:unknown-leader"]++
	case 5:
		x.Leader = 0
		if len(x.Peers) > 0 && r.Bool() {
			x.Peers[0].ID = 0
		}
		tags["malformed:nil-leader-or-peer-id-0"]++
	case 6:
		if len(x.Peers) >= 2 {
			x.Peers[1].ID = x.Peers[0].ID
			tags["malformed:duplicate-peer-id"]++
		}
	}
	var np []c07x.Peer
	for _, p := range x.Pending {
		for _, q := range x.Peers {
			if q.Store == p.Store {
				np = append(np, p)
				break
			}
		}
	}
	x.Pending = np
	return x
}

// foreignPendingProbe: a heartbeat whose pending peer sits on a store where the region has no peer,
// then the region goes away; the pending-peer count of that store must return to 0.
func foreignPendingProbe(variant int) riCase {
	c := riCase{Kind: "ri", tags: map[string]int{"probe:foreign-pending": 1}}
	g := &riGen{r: rng.New(uint64(variant)), a: c07x.Small(), w: &world{ri: core.NewRegionsInfo(), malformed: true}, c: &c, stores: 4, cached: map[uint64]c07x.Region{}}
	x := c07x.Region{ID: 1, Start: "a", End: "c", Peers: []c07x.Peer{{101, 1, false}, {102, 2, false}, {103, 3, false}}, Leader: 101,
		Pending: []c07x.Peer{{109, 4, false}}, Size: 10, Ver: 1, ConfVer: 1, Term: 1, Stamp: 1}
	g.step(rop{K: "set", R: &x})
	g.step(rop{K: "counts", Store: 4})
	if variant == 0 {
		g.step(rop{K: "remove", ID: 1})
	} else { // displaced by a newer overlapping region
		y := c07x.Region{ID: 2, Start: "", End: "", Peers: []c07x.Peer{{201, 1, false}}, Leader: 201, Size: 5, Ver: 2, ConfVer: 1, Term: 1, Stamp: 2}
		g.step(rop{K: "set", R: &y})
	}
	g.step(rop{K: "counts", Store: 4})
	g.step(rop{K: "global"})
	return c
}

// sharedStoreProbe: two peers of one region on the same store, then an in-place update that only changes
// the size: the follower size of that store must follow the region's size.
func sharedStoreProbe() riCase {
	c := riCase{Kind: "ri", tags: map[string]int{"probe:shared-store": 1}}
	g := &riGen{r: rng.New(7), a: c07x.Small(), w: &world{ri: core.NewRegionsInfo(), malformed: true}, c: &c, stores: 3, cached: map[uint64]c07x.Region{}}
	x := c07x.Region{ID: 1, Start: "a", End: "c", Peers: []c07x.Peer{{101, 1, false}, {102, 2, false}, {103, 2, false}}, Leader: 101,
		Size: 10, Ver: 1, ConfVer: 1, Term: 1, Stamp: 1}
	g.step(rop{K: "set", R: &x})
	g.step(rop{K: "counts", Store: 2})
	y := x.Clone()
	y.Size, y.Stamp = 30, 2
	g.step(rop{K: "set", R: &y})
	g.step(rop{K: "counts", Store: 2})
	return c
}

// widePeersCase: regions with 13..17 peers with distinct ids (sort.Sort leaves its insertion-sort regime at 12
// elements; with distinct peer ids every correct sort gives the same list, Coq theorem C07_sort_peers_unique).  The peers
// arrive in a shuffled order; then the same peer set in another order with another size (statistics-only path), then one
// peer moved to another store (sub-tree cleanup path), then a removal.
func widePeersCase(seed uint64) riCase {
	c := riCase{Kind: "ri", tags: map[string]int{"directed:wide-peer-lists": 1}}
	r := rng.New(seed)
	g := &riGen{r: r, a: c07x.Small(), w: &world{ri: core.NewRegionsInfo()}, c: &c, stores: 20, cached: map[uint64]c07x.Region{}}
	mk := func(id uint64, start, end string, n int, ver uint64) c07x.Region {
		perm := r.Perm(n)
		var ps []c07x.Peer
		for k, j := range perm {
			ps = append(ps, c07x.Peer{ID: id*100 + uint64(j) + 1, Store: uint64(k) + 1, Learner: j%5 == 4})
		}
		lead := ps[0]
		for _, q := range ps {
			if !q.Learner {
				lead = q
				break
			}
		}
		return c07x.Region{ID: id, Start: start, End: end, Peers: ps, Leader: lead.ID, Pending: []c07x.Peer{ps[n-1], ps[n/2]},
			Size: int64(10 + n), Ver: ver, ConfVer: 1, Term: 1, Stamp: g.nextStamp()}
	}
	x := mk(1, "a", "c", 13+r.Intn(5), 1)
	y := mk(2, "c", "e", 13+r.Intn(5), 1)
	g.put(x)
	g.put(y)
	g.queries(true)
	// same peers, other order, other size
	x2 := x.Clone()
	for i, j := range r.Perm(len(x2.Peers)) {
		x2.Peers[i] = x.Peers[j]
	}
	x2.Size, x2.Stamp = x.Size+7, g.nextStamp()
	g.put(x2)
	g.queries(true)
	// one peer moves to a free store
	x3 := x2.Clone()
	x3.Peers[3].Store = 19
	x3.Pending = nil
	x3.ConfVer, x3.Stamp = 2, g.nextStamp()
	g.put(x3)
	g.queries(true)
	// a wide region swallowing both
	z := mk(3, "", "", 13+r.Intn(5), 2)
	g.put(z)
	g.queries(true)
	g.step(rop{K: "remove", ID: 3})
	g.queries(true)
	return c
}

// heartbeatRace: two reports of one cached region (same range and epoch) through the real processRegionHeartbeat on two
// goroutines with the interleaving forced: A (statistics only w.r.t. the cached region) waits at c.Lock(), B (other leader, other
// pending peers, other size) is processed completely, then A continues.  Afterwards every per-store statistic is queried.
func (g *riGen) heartbeatRace() {
	x, ok := g.someCached()
	if !ok || g.dead || len(x.Peers) < 2 || x.Start >= x.End && x.End != "" {
		return
	}
	voters := []c07x.Peer{}
	for _, p := range x.Peers {
		if !p.Learner {
			voters = append(voters, p)
		}
	}
	if len(voters) < 2 || x.Leader == 0 {
		return
	}
	a := x.Clone()
	a.Size, a.Stamp = x.Size+5+int64(g.r.Intn(20)), g.nextStamp()
	b := x.Clone()
	for _, p := range voters {
		if p.ID != x.Leader {
			b.Leader = p.ID
			break
		}
	}
	b.Pending = nil
	if len(x.Pending) == 0 {
		b.Pending = []c07x.Peer{voters[len(voters)-1]}
	}
	b.Size, b.Stamp = x.Size+40+int64(g.r.Intn(20)), g.nextStamp()
	g.step(rop{K: "hbrace", R: &a, R2: &b})
	g.c.tags["phase:heartbeat-race"]++
	g.step(rop{K: "global"})
	for st := 1; st <= g.stores+1; st++ {
		g.step(rop{K: "counts", Store: uint64(st)})
		g.step(rop{K: "storeregions", Store: uint64(st)})
	}
	g.step(rop{K: "get", ID: x.ID})
	// a further ordinary report of the region: statistics must still add up
	c := a.Clone()
	c.Size, c.Stamp = a.Size+3, g.nextStamp()
	g.step(rop{K: "set", R: &c})
	for st := 1; st <= g.stores+1; st++ {
		g.step(rop{K: "counts", Store: uint64(st)})
	}
}

// dropRacePhase: an admin request DropCacheRegion of a cached region overlapping in time with a heartbeat of that region which moves
// one of its peers to another store (same range, conf_ver + 1); afterwards the region must be gone from every index.
func (g *riGen) dropRacePhase() {
	x, ok := g.someCached()
	if !ok || g.dead || len(x.Peers) < 2 || x.Start >= x.End && x.End != "" || x.Leader == 0 {
		return
	}
	b := x.Clone()
	moved := -1
	for i, p := range b.Peers {
		if p.ID != b.Leader {
			moved = i
		}
	}
	if moved < 0 {
		return
	}
	b.Peers[moved].Store = uint64(g.stores + 1) // a store the region has no peer on
	b.Peers[moved].ID += 5000
	b.Pending = nil
	b.ConfVer, b.Size, b.Stamp = x.ConfVer+1, x.Size+9, g.nextStamp()
	g.step(rop{K: "droprace", ID: x.ID, R: &b})
	delete(g.cached, x.ID)
	g.c.tags["phase:drop-cache-region-race"]++
	g.step(rop{K: "global"})
	g.step(rop{K: "get", ID: x.ID})
	for st := 1; st <= g.stores+1; st++ {
		g.step(rop{K: "counts", Store: uint64(st)})
		g.step(rop{K: "storeregions", Store: uint64(st)})
	}
}

// tableKeysCase: region keys in TiDB's memcomparable table format (two encoding groups and more), as the merge checker with
// cross-table merge disabled sees them; the read-only key helpers of pkg/codec run on every cached key (observers in `set`),
// then every lookup is compared as usual.
func tableKeysCase(seed uint64) riCase {
	c := riCase{Kind: "ri", tags: map[string]int{"directed:table-encoded-keys": 1}}
	r := rng.New(seed)
	g := &riGen{r: r, a: c07x.Small(), w: &world{ri: core.NewRegionsInfo()}, c: &c, stores: 3, cached: map[uint64]c07x.Region{}}
	var bounds []string
	for t := int64(1); t <= 6; t++ {
		bounds = append(bounds, string(codec.EncodeBytes(codec.GenerateTableKey(t))))
		bounds = append(bounds, string(codec.EncodeBytes(codec.GenerateRowKey(t, 100+t))))
	}
	sort.Strings(bounds)
	g.a.Probes = append([]string{""}, bounds...)
	for _, b := range bounds {
		g.a.Probes = append(g.a.Probes, b+"\x01")
	}
	sort.Strings(g.a.Probes)
	for i := 0; i+1 < len(bounds); i++ {
		id := uint64(i + 1)
		x := c07x.Region{ID: id, Start: bounds[i], End: bounds[i+1], Peers: []c07x.Peer{{ID: id*10 + 1, Store: 1}, {ID: id*10 + 2, Store: 2}, {ID: id*10 + 3, Store: 3}},
			Leader: id*10 + uint64(1+i%3), Size: int64(2 + i), Ver: 1, ConfVer: 1, Term: 1, Stamp: g.nextStamp()}
		g.put(x)
		if i%3 == 2 {
			g.queries(true)
		}
	}
	// a merge of two neighbours and a refresh
	m := c07x.Region{ID: 2, Start: bounds[1], End: bounds[3], Peers: []c07x.Peer{{ID: 21, Store: 1}, {ID: 22, Store: 2}, {ID: 23, Store: 3}}, Leader: 21, Size: 9, Ver: 2, ConfVer: 1, Term: 1, Stamp: g.nextStamp()}
	g.put(m)
	g.queries(true)
	return c
}

// deleteStorePhase: the record of a store is deleted (as RemoveTombStoneRecords does on the leader) while this member's region cache
// still has peers on it (a member whose cache lags behind: it missed the moves off that store); afterwards the per-store indexes of
// that store, a refresh of one of its regions and the move of that region off the store must still be exact.
func (g *riGen) deleteStorePhase() {
	x, ok := g.someCached()
	if !ok || g.dead || len(x.Peers) < 2 || x.Start >= x.End && x.End != "" || x.Leader == 0 {
		return
	}
	st := x.Peers[len(x.Peers)-1].Store
	g.step(rop{K: "deletestore", Store: st})
	g.c.tags["phase:delete-store-record"]++
	g.step(rop{K: "storeregions", Store: st})
	y := x.Clone() // a statistics-only refresh of a region with a peer on that store
	y.Size, y.Stamp = x.Size+11, g.nextStamp()
	g.put(y)
	g.step(rop{K: "counts", Store: st})
	z := y.Clone() // the region leaves the store (conf change): its peer there is removed
	var keep []c07x.Peer
	for _, p := range z.Peers {
		if p.Store != st {
			keep = append(keep, p)
		}
	}
	if len(keep) > 0 && len(keep) < len(z.Peers) {
		z.Peers, z.Pending = keep, nil
		lead := false
		for _, p := range keep {
			if p.ID == z.Leader {
				lead = true
			}
		}
		if !lead {
			z.Leader = keep[0].ID
			z.Peers[0].Learner = false
		}
		z.ConfVer, z.Stamp = y.ConfVer+1, g.nextStamp()
		g.put(z)
	}
	g.step(rop{K: "counts", Store: st})
	g.step(rop{K: "storeregions", Store: st})
	g.step(rop{K: "global"})
}

// mergeSizeCase: the first heartbeats of a merged region report size 0 / 1: a put that swallows its neighbour and carries no
// size, the statistics, then the refresh with the real size, the statistics again, and a removal.
func mergeSizeCase(sz int64) riCase {
	c := riCase{Kind: "ri", tags: map[string]int{"directed:merge-without-size": 1}}
	g := &riGen{r: rng.New(uint64(11 + sz)), a: c07x.Small(), w: &world{ri: core.NewRegionsInfo()}, c: &c, stores: 3, cached: map[uint64]c07x.Region{}}
	peers := func(id uint64) []c07x.Peer {
		return []c07x.Peer{{ID: id*10 + 1, Store: 1}, {ID: id*10 + 2, Store: 2}, {ID: id*10 + 3, Store: 3}}
	}
	all := func() {
		g.step(rop{K: "global"})
		for st := 1; st <= 3; st++ {
			g.step(rop{K: "counts", Store: uint64(st)})
		}
	}
	x := c07x.Region{ID: 1, Start: "a", End: "c", Peers: peers(1), Leader: 11, Size: 10, Ver: 1, ConfVer: 1, Term: 1, Stamp: g.nextStamp()}
	y := c07x.Region{ID: 2, Start: "c", End: "e", Peers: peers(2), Leader: 22, Size: 20, Ver: 1, ConfVer: 1, Term: 1, Stamp: g.nextStamp()}
	z := c07x.Region{ID: 3, Start: "e", End: "", Peers: peers(3), Leader: 33, Size: 7, Ver: 1, ConfVer: 1, Term: 1, Stamp: g.nextStamp()}
	g.step(rop{K: "set", R: &x})
	g.step(rop{K: "set", R: &y})
	g.step(rop{K: "set", R: &z})
	all()
	m := x.Clone() // region 1 has absorbed region 2, no size sampled yet
	m.End, m.Ver, m.Size, m.Stamp = "e", 2, sz, g.nextStamp()
	g.step(rop{K: "set", R: &m})
	all()
	m2 := m.Clone() // the refresh with the real size
	m2.Size, m2.Stamp = 31, g.nextStamp()
	g.step(rop{K: "set", R: &m2})
	all()
	n := c07x.Region{ID: 4, Start: "", End: "", Peers: peers(4), Leader: 41, Size: sz, Ver: 3, ConfVer: 1, Term: 1, Stamp: g.nextStamp()} // a new id over everything
	g.step(rop{K: "set", R: &n})
	all()
	g.step(rop{K: "remove", ID: 4})
	all()
	return c
}

// bigScanCase: more regions than any constant in the scan path (base 1080 in the quick tier, 2100 in the thorough tier), then limited scans with limits around and above
// those constants (1024, 1025, 2048, 5000) and unlimited ones, from the first key and from the middle: a limited scan returns
// min(limit, number of regions in the range) regions.
func bigScanCase(seed uint64, base int) riCase {
	c := riCase{Kind: "ri", tags: map[string]int{"directed:scan-limits-above-2048-regions": 1}}
	r := rng.New(seed)
	g := &riGen{r: r, a: c07x.Small(), w: &world{ri: core.NewRegionsInfo()}, c: &c, stores: 1, cached: map[uint64]c07x.Region{}}
	n := base + r.Intn(100)
	key := func(i int) string { return fmt.Sprintf("s%04d", i) }
	for i := 0; i < n; i++ {
		id := uint64(i + 1)
		x := c07x.Region{ID: id, Start: key(i), End: key(i + 1), Peers: []c07x.Peer{{ID: id + 100000, Store: 1}}, Leader: id + 100000,
			Size: 1, Ver: 1, ConfVer: 1, Term: 1, Stamp: g.nextStamp()}
		g.step(rop{K: "set", R: &x})
	}
	g.step(rop{K: "global"})
	for _, lim := range []int{1024, 1025, 2048, 5000, 0} {
		g.step(rop{K: "scan", S: "", E: "", Lim: lim})
	}
	g.step(rop{K: "scan", S: key(10) + "x", E: key(n - 5), Lim: 2049})
	g.step(rop{K: "scan", S: key(40), E: "", Lim: 1500})
	g.step(rop{K: "scan", S: key(n / 2), E: "", Lim: 5000})
	g.step(rop{K: "counts", Store: 1})
	return c
}

// roleFlips: one writer moves the leadership of a cached region back and forth between two of its voters (two stores) through
// BasicCluster.PutRegion while readers ask BasicCluster for the totals of those stores (GetStoreRegionCount, GetStoreRegionSize).
// A leader flip between two stores that both keep their peer changes no per-store total, so every answer must be the total
// computed before the writer started; an answer that differs matches no state of the cache.  In the case text the phase is
// `OSet a; OSet b` (the two alternating reports; the writer ends on b).  Returns a description of the first wrong answer.
func (g *riGen) roleFlips(flips int) string {
	x, ok := g.someCached()
	if !ok || g.dead {
		return ""
	}
	var voters []c07x.Peer
	for _, p := range x.Peers {
		if !p.Learner {
			voters = append(voters, p)
		}
	}
	if len(voters) < 2 || x.Start >= x.End && x.End != "" {
		return ""
	}
	a, b := x.Clone(), x.Clone()
	a.Leader, a.Stamp = voters[0].ID, g.nextStamp()
	b.Leader, b.Stamp = voters[1].ID, g.nextStamp()
	s1, s2 := voters[0].Store, voters[1].Store
	g.step(rop{K: "set", R: &a}) // both reports once through the ordinary path: the model sees the same two puts
	g.step(rop{K: "set", R: &b})
	if g.dead {
		return ""
	}
	bc := g.w.cluster()
	want := [4]int64{int64(bc.GetStoreRegionCount(s1)), int64(bc.GetStoreRegionCount(s2)), bc.GetStoreRegionSize(s1), bc.GetStoreRegionSize(s2)}
	ia, ib := a.Info(), b.Info()
	stop := make(chan struct{})
	diff := make(chan string, 4)
	var wg sync.WaitGroup
	for t := 0; t < 3; t++ {
		wg.Add(1)
		go func() {
			defer wg.Done()
			for {
				select {
				case <-stop:
					return
				default:
				}
				got := [4]int64{int64(bc.GetStoreRegionCount(s1)), int64(bc.GetStoreRegionCount(s2)), bc.GetStoreRegionSize(s1), bc.GetStoreRegionSize(s2)}
				if got != want {
					select {
					case diff <- fmt.Sprintf("GetStoreRegionCount / GetStoreRegionSize of stores %d and %d answered %v while region %d only changed its leader between them; every state of the cache gives %v", s1, s2, got, x.ID, want):
					default:
					}
					return
				}
			}
		}()
	}
	for k := 0; k < flips; k++ {
		bc.PutRegion(ia)
		bc.PutRegion(ib)
	}
	close(stop)
	wg.Wait()
	g.c.tags["phase:role-flips-under-readers"]++
	for st := 1; st <= g.stores+1; st++ {
		g.step(rop{K: "counts", Store: uint64(st)})
	}
	select {
	case d := <-diff:
		return d
	default:
		return ""
	}
}

// apiLookups (driver-side oracle on a real PD server, through the real api.NewHandler router): regions whose boundaries separate keys
// that differ only in a blank / '+' / '%' / '/' byte are put by heartbeats; GET /pd/api/v1/region/key/{key} with the key escaped the way
// pd-ctl does it (url.QueryEscape) must answer the region the lookup by key (RaftCluster.GetRegionByKey = the C07 `search`) gives.
func apiLookups() (viol string, trace []string, note string) {
	x, err := srv15.Start()
	if err != nil {
		return "", nil, "server did not start: " + err.Error()
	}
	defer x.Close()
	if err := x.Bootstrap(); err != nil {
		return "", nil, "bootstrap failed: " + err.Error()
	}
	for end := time.Now().Add(10 * time.Second); time.Now().Before(end); time.Sleep(5 * time.Millisecond) {
		if rc := x.S.GetRaftCluster(); rc != nil && rc.IsRunning() {
			break
		}
	}
	rc := x.S.GetRaftCluster()
	if rc == nil {
		return "", nil, "the raft cluster did not start"
	}
	h, _, err := api.NewHandler(context.Background(), x.S)
	if err != nil {
		return "", nil, "api.NewHandler: " + err.Error()
	}
	bounds := []string{"", "a!", "a,", "a0", "b", "b c", "b+c", "c%2", "c/d", "d", ""}
	for i := 0; i+1 < len(bounds); i++ {
		id := uint64(100 + i)
		if i == 0 {
			id = 2 // the bootstrap region
		}
		r := c07x.Region{ID: id, Start: bounds[i], End: bounds[i+1], Peers: []c07x.Peer{{ID: id*10 + 1, Store: 1}}, Leader: id*10 + 1, Size: 5, Ver: 2, ConfVer: 1, Term: 1, Stamp: int64(i + 1)}
		if id == 2 {
			r.Peers, r.Leader = []c07x.Peer{{ID: 3, Store: 1}}, 3
		}
		if err := rc.VerifC06ProcessRegionHeartbeat(core.RegionFromHeartbeat(r.Heartbeat())); err != nil {
			return "", trace, fmt.Sprintf("heartbeat of region %d rejected: %v", id, err)
		}
	}
	for _, key := range []string{"a", "a b", "a+b", "a b+", "a%20b", "b c", "b+c", "b c d", "b  c", "c%2", "c%2B", "c/d", "c/e", "c d", "z z", "+", " ", "d+", "a!", "a,"} {
		want := rc.GetRegionByKey([]byte(key))
		req := httptest.NewRequest("GET", "/pd/api/v1/region/key/"+url.QueryEscape(key), nil)
		rec := httptest.NewRecorder()
		h.ServeHTTP(rec, req)
		var got struct {
			ID       uint64 `json:"id"`
			StartKey string `json:"start_key"`
		}
		_ = json.Unmarshal(rec.Body.Bytes(), &got)
		trace = append(trace, fmt.Sprintf("GET /region/key/%s (key %q) -> %d, region %d", url.QueryEscape(key), key, rec.Code, got.ID))
		if want == nil || rec.Code != 200 || got.ID != want.GetID() {
			w := uint64(0)
			if want != nil {
				w = want.GetID()
			}
			return "C07:region-by-key-api-differs-from-the-lookup", append(trace, fmt.Sprintf("key %q lies in region %d [%q,%q); the API answered region %d (status %d)", key, w, want.GetStartKey(), want.GetEndKey(), got.ID, rec.Code)), ""
		}
	}
	return "", trace, ""
}

// bigTreeReaders: a region tree with inner nodes (more regions than one btree node of degree 64 holds), then scans through
// ScanRangeWithIterator whose iterator looks up a key far away (re-entrant reader: deterministic witness for read paths that
// share state), ordinary lookups, and the concurrent readers.
func bigTreeReaders(seed uint64) riCase {
	c := riCase{Kind: "ri", tags: map[string]int{"directed:big-tree-readers": 1}}
	r := rng.New(seed)
	g := &riGen{r: r, a: c07x.Small(), w: &world{ri: core.NewRegionsInfo()}, c: &c, stores: 3, cached: map[uint64]c07x.Region{}}
	n := 150 + r.Intn(60)
	key := func(i int) string { return fmt.Sprintf("k%03d", i) }
	for _, i := range r.Perm(n) {
		if i%17 == 5 {
			continue // key holes
		}
		id := uint64(i + 1)
		x := c07x.Region{ID: id, Start: key(i), End: key(i + 1), Peers: []c07x.Peer{{ID: id*10 + 1, Store: 1}, {ID: id*10 + 2, Store: 2}, {ID: id*10 + 3, Store: 3}},
			Leader: id*10 + uint64(1+i%3), Size: int64(1 + i%9), Ver: 1, ConfVer: 1, Term: 1, Stamp: g.nextStamp()}
		g.step(rop{K: "set", R: &x})
	}
	g.step(rop{K: "global"})
	for j := 0; j < 12; j++ {
		a, b := r.Intn(n), r.Intn(n)
		start := key(a)
		switch j % 3 {
		case 0:
			start += "x" // inside a region
		case 1:
			start = key(17*r.Intn(n/17)+5) + "h" // inside a key hole: the scan starts from the search key itself
		}
		in := key(b) + "m"
		g.step(rop{K: "scan", S: start, E: "", Lim: []int{0, 5, 40, 1000}[r.Intn(4)], Re: true, Inner: in})
		g.step(rop{K: "search", S: in, Stash: true})
		g.step(rop{K: "prev", S: in, Stash: true})
		g.step(rop{K: "search", S: start})
		g.step(rop{K: "prev", S: start})
	}
	for st := 1; st <= 3; st++ {
		g.step(rop{K: "counts", Store: uint64(st)})
	}
	// concurrent readers over keys of this tree
	g.a.Probes = nil
	for j := 0; j < 12; j++ {
		g.a.Probes = append(g.a.Probes, key(r.Intn(n))+"q")
	}
	if d := g.concurrentReaders(40); d != "" {
		c.concurrent = d
	}
	return c
}

// ---------------------------------------------------------------------------------------------

type anyCase struct {
	bt *btCase
	ri *riCase
}

func main() {
	seed := flag.Uint64("seed", 1, "")
	n := flag.Int("n", 200, "number of generated RegionsInfo cases (btree cases are n/2)")
	out := flag.String("out", ".", "output directory")
	tier := flag.String("tier", "quick", "")
	corpus := flag.String("corpus", "", "json file of fixed cases run first")
	replay := flag.String("replay", "", "json file with cases: run and print observations")
	child := flag.Bool("child", false, "internal: this process runs the cases (the parent supervises it)")
	oplog := flag.String("oplog", "", "internal: journal of the running case")
	flag.Parse()
	// the cases run in a child process: a fatal runtime error of the real code (stack overflow ...) that recover() cannot
	// catch is reported by the parent with the journalled case
	c07x.Supervise(*child || *replay != "", "C07", *seed, *tier, *out, func(h, last map[string]interface{}) string {
		k, _ := last["k"].(string)
		if h["kind"] == "bt" {
			return "btree." + btFunc[k]
		}
		return "RegionsInfo." + k
	})
	journal = c07x.OpenOpLog(*oplog)
	// debug level with a core that formats every field (output discarded): the lazily evaluated Stringers of the log lines
	// inside the code under test (RegionToHexMeta ...) are really evaluated, as with log-level = "debug"
	log.ReplaceGlobals(zap.New(zapcore.NewCore(zapcore.NewJSONEncoder(zap.NewProductionEncoderConfig()), zapcore.AddSync(io.Discard), zap.DebugLevel)), nil)

	R := res.New("C07", *seed, *tier)
	R.Rule = "(a) random insert/delete/query histories on real pkg/btree trees of degree 2,3,4,64 with rank sweeps (GetAt k / GetWithIndex for every k); " +
		"non-trivial = the tree grew beyond maxItems of its degree (a split happened) and an existing item was deleted. " +
		"(b) real core.RegionsInfo: heartbeats of a simulated split/merge/conf-change/leader-change history (in order, delayed, repeated), arbitrary well-formed " +
		"overlapping puts, in-place updates and removals, each followed by every query method over the key alphabet and all stores; a malformed stream " +
		"(inverted/empty ranges, duplicate stores or peer ids, learner/unknown/nil leader); non-trivial = at least one put that displaced an overlapped " +
		"region, one in-place update of a cached id and one removal; distinct by sha256 of the canonical (ops,obs) text"
	cf := &coqfmt.CaseFile{Dir: *out, Prefix: "C07", PerFile: 20,
		Header: "From Coq Require Import String.\nFrom PDV Require Import lib.Base lib.C07_Key model.C07_BTreeSpec model.C07_BTree model.C07_Region.\nLocal Open Scope Z_scope.\n",
		Type:   "ccase",
		Footer: "Definition M := Eval vm_compute in map fst (mismatches cases).\nDefinition D := Eval vm_compute in hd_error (mismatches cases).\nDefinition V := Eval vm_compute in monitor_fails cases.\nOpen Scope string_scope.\nPrint M. Print D. Print V.\n"}

	var all []interface{}
	emitBT := func(c btCase) {
		if c.panic != "" {
			fn := strings.SplitN(c.panic, ":", 2)[0]
			R.Violate("C07:implementation-panicked:"+fn, c.panic+" (last operation of the replayed case)", map[string]interface{}{"kind": "bt", "degree": c.Degree, "ops": c.Ops})
			R.Count("panicked:" + fn)
			return
		}
		for i, o := range c.Ops {
			R.Count("bt-op:" + o.K)
			R.Count("bt-obs:" + strings.Fields(c.Obs[i])[0])
		}
		R.Count(fmt.Sprintf("bt-degree:%d", c.Degree))
		deleted := false
		for i, o := range c.Ops {
			if (o.K == "del" || o.K == "delmin" || o.K == "delmax") && strings.Contains(c.Obs[i], "Some") {
				deleted = true
			}
		}
		txt := c.coq()
		R.Case(txt, deleted && c.maxLen > 2*c.Degree-1)
		if err := cf.Add(txt); err != nil {
			panic(err)
		}
		all = append(all, c)
	}
	emitRI := func(c riCase) {
		if c.totals != "" {
			R.Violate("C07:store-total-matches-no-state-of-the-cache", c.totals, map[string]interface{}{"kind": "ri", "ops": c.Ops})
			R.Count("store-total-matches-no-state")
		}
		if c.concurrent != "" {
			R.Violate("C07:concurrent-lookup-differs-from-sequential", c.concurrent+" (4 readers on the unchanged region set built by the replayed operations)", map[string]interface{}{"kind": "ri", "ops": c.Ops})
			R.Count("concurrent-lookup-differs")
		}
		if c.panic != "" {
			fn := strings.SplitN(c.panic, ":", 2)[0]
			R.Violate("C07:implementation-panicked:"+fn, c.panic+" (last operation of the replayed case)", map[string]interface{}{"kind": "ri", "ops": c.Ops})
			R.Count("panicked:" + fn)
			return
		}
		for i, o := range c.Ops {
			R.Count("ri-op:" + o.K)
			R.Count("ri-obs:" + strings.Fields(c.Obs[i])[0])
		}
		for k, v := range c.tags {
			R.CountN(k, v)
		}
		txt := c.coq()
		R.Case(txt, c.tags["put:displaces-1"]+c.tags["put:swallows>=2"] > 0 && c.tags["put:same-range"]+c.tags["put:range-changed"] > 0 && c.tags["remove"] > 0)
		if len(c.Ops) < 200 {
			R.Sample(map[string]interface{}{"ops": c.Ops, "obs": c.Obs})
		}
		if err := cf.Add(txt); err != nil {
			panic(err)
		}
		all = append(all, c)
	}

	runFixed := func(f string) {
		b, err := os.ReadFile(f)
		if err != nil {
			panic(err)
		}
		var raw []json.RawMessage
		if err := json.Unmarshal(b, &raw); err != nil {
			panic(err)
		}
		for _, m := range raw {
			var head struct {
				Kind string `json:"kind"`
			}
			json.Unmarshal(m, &head)
			if head.Kind == "bt" {
				var c btCase
				if err := json.Unmarshal(m, &c); err != nil {
					panic(err)
				}
				t := btree.New(c.Degree)
				c.Obs = nil
				if c.Every <= 0 {
					c.Every = 1
				}
				journal.Begin(map[string]interface{}{"kind": "bt", "degree": c.Degree})
				for k, o := range c.Ops {
					ob, pan := btSafe(t, o)
					if pan != "" {
						c.panic = pan
						c.Ops = c.Ops[:k+1]
						break
					}
					c.Obs = append(c.Obs, ob)
					if k%c.Every == 0 {
						c.shapes = append(c.shapes, fmt.Sprintf("(%d%%nat, %s)", k, dumpTree(t)))
					}
				}
				if *replay != "" && c.panic != "" {
					fmt.Println("PANIC:", c.panic)
				}
				emitBT(c)
			} else {
				var c riCase
				if err := json.Unmarshal(m, &c); err != nil {
					panic(err)
				}
				c.tags = map[string]int{"fixed": 1}
				w := &world{ri: core.NewRegionsInfo(), malformed: true}
				c.Obs = nil
				journal.Begin(map[string]interface{}{"kind": "ri"})
				for i := range c.Ops {
					ob := w.exec(&c.Ops[i])
					if w.panic != "" {
						c.panic = w.panic
						c.Ops = c.Ops[:i+1]
						break
					}
					c.Obs = append(c.Obs, ob)
				}
				if *replay != "" && c.panic != "" {
					fmt.Println("PANIC:", c.panic)
				}
				emitRI(c)
			}
			if *replay != "" && len(all) > 0 {
				switch c := all[len(all)-1].(type) {
				case btCase:
					for i := range c.Ops {
						fmt.Printf("%-30s -> %s\n", c.Ops[i].coq(), c.Obs[i])
					}
				case riCase:
					for i := range c.Ops {
						fmt.Printf("%-60s -> %s\n", c.Ops[i].coq(), c.Obs[i])
					}
				}
			}
		}
	}
	if *corpus != "" {
		runFixed(*corpus)
	}
	if *replay != "" {
		runFixed(*replay)
	} else {
		master := rng.New(*seed)
		// the probes for the excluded input class (pending peer on a store without a peer)
		// inputs outside the domain of the property (malformed peer lists): compared with the model like the rest
		// of the malformed stream, never judged by the monitor; what the real code did is recorded as a note
		for v := 0; v < 2; v++ {
			c := foreignPendingProbe(v)
			if strings.HasPrefix(c.Obs[3], "RoNums [0; 0; 0; 1;") {
				R.Count("outside-domain:stale-pending-entry-observed")
				R.Notes = append(R.Notes, "outside the domain (pending peer on a store where the region has no peer): after the region left the cache GetStorePendingPeerCount(4) is still 1")
			}
			emitRI(c)
		}
		emitRI(bigTreeReaders(*seed))
		emitRI(tableKeysCase(*seed))
		emitRI(bigScanCase(*seed, 1080)) // more regions than 1024; the case above 2048 regions runs in the thorough tier (its replay in Coq takes about a minute)
		emitRI(mergeSizeCase(0))
		emitRI(mergeSizeCase(1))
		emitRI(widePeersCase(*seed))
		emitRI(widePeersCase(*seed + 1000))
		{
			c := sharedStoreProbe()
			if strings.HasSuffix(c.Obs[3], "0; 50; 0]") {
				R.Count("outside-domain:follower-size-counted-twice-observed")
				R.Notes = append(R.Notes, "outside the domain (two peers of one region on one store): size-only update 10 -> 30 leaves GetStoreFollowerRegionSize(2) = 50")
			}
			emitRI(c)
		}
		degrees := []int{2, 3, 4, 64}
		// grow / shrink / grow around maxItems (node recycling through the free list), every degree, in every run
		for k, d := range []int{64, 2, 3, 4, 64, 64} {
			c := genBTGrowShrinkGrow(master.Fork(uint64(3000000+k)), d)
			R.Count("bt-class:grow-shrink-grow")
			emitBT(c)
		}
		nbt := *n / 2
		for k := 0; k < nbt; k++ {
			r := master.Fork(uint64(1000000 + k))
			d := degrees[k%4]
			nops, space, every := 80+r.Intn(120), 12+r.Intn(40), 7
			if k%8 >= 4 { // long histories: deep trees for small degrees, a split root for degree 64
				nops, space, every = 1500, 400, 250
			}
			emitBT(genBT(r, d, nops, space, every))
		}

		small, large := c07x.Small(), c07x.Large()
		for k := 0; k < *n; k++ {
			r := master.Fork(uint64(k))
			a := small
			nmut := 8 + r.Intn(14)
			if k%5 == 4 {
				a = large
				nmut = 25 + r.Intn(25)
			}
			emitRI(genRI(r, a, nmut, k%10 == 7))
		}
		if *tier == "thorough" {
			emitRI(bigScanCase(*seed+1, 2100))
		}
		if *tier == "thorough" { // very long btree histories, at the end so that they share the last case files
			for k, d := range []int{2, 3, 4, 64, 2, 3, 4, 64} {
				emitBT(genBT(master.Fork(uint64(2000000+k)), d, 20000, 3000, 2500))
			}
		}
	}
	if *replay == "" {
		// last: the real server sets up its own global logger
		v, trace, note := apiLookups()
		if v != "" {
			R.Violate(v, "a real PD server, HTTP API through api.NewHandler: "+trace[len(trace)-1], map[string]interface{}{"trace": trace})
		}
		if note != "" {
			R.Notes = append(R.Notes, "API lookup phase incomplete (machinery, not a verdict): "+note)
		}
		R.Count("phase:api-lookups-on-a-real-server")
	}
	if err := cf.Flush(); err != nil {
		panic(err)
	}
	R.CaseFiles = cf.Files
	b, _ := json.Marshal(all)
	os.WriteFile(path.Join(*out, "cases.json"), b, 0o644)
	if err := R.Write(path.Join(*out, "result.json")); err != nil {
		panic(err)
	}
}
