// Driver for C08: runs the REAL operator.Builder (and every Create*Operator helper that goes through it)
// on mockcluster, executes every produced plan step by step with the real OpStep methods, the real
// SendScheduleCommand and the store simulator, and prints input, plan and execution trace as Coq terms
// for model/C08_Builder.v (translation validation of every plan by the verified checker plan_check).
package main

import (
	"context"
	"encoding/json"
	"flag"
	"fmt"
	"os"
	"path"
	"reflect"
	"sort"
	"strconv"
	"strings"
	"time"

	"github.com/pingcap/kvproto/pkg/eraftpb"
	"github.com/pingcap/kvproto/pkg/metapb"
	"github.com/pingcap/kvproto/pkg/pdpb"
	"github.com/pingcap/log"
	"github.com/tikv/pd/pkg/mock/mockcluster"
	"github.com/tikv/pd/server/config"
	"github.com/tikv/pd/server/core"
	"github.com/tikv/pd/server/core/storelimit"
	"github.com/tikv/pd/server/schedule"
	"github.com/tikv/pd/server/schedule/filter"
	"github.com/tikv/pd/server/schedule/operator"
	"github.com/tikv/pd/server/schedule/opt"
	"github.com/tikv/pd/server/schedule/placement"
	"github.com/tikv/pd/server/versioninfo"
	"go.uber.org/zap"

	"pdverif/internal/coqfmt"
	"pdverif/internal/res"
	"pdverif/internal/rng"
	"pdverif/internal/tikvsim"
)

// ---------- case description (JSON: corpus / replay) ----------

type storeSpec struct {
	ID     uint64 `json:"id"`
	State  string `json:"state"`  // up offline down disconnected busy tombstone evicted reject absent
	Labels []int  `json:"labels"` // value per location label, 0 = label missing
	// the TiKV release the store reports ("" = none, as mock stores): the CLUSTER version (= oldest store, what the
	// joint-consensus feature gate reads) is set separately - during a rolling upgrade the two differ
	Version string `json:"version,omitempty"`
}

type peerSpec struct {
	Store uint64 `json:"store"`
	ID    uint64 `json:"id"`
	Role  string `json:"role"` // voter learner incoming demoting
}

type roleSpec struct {
	Store uint64 `json:"store"`
	Role  string `json:"role"` // leader follower voter learner
}

type opSpec struct {
	K     string     `json:"k"` // add remove promote demote leader peers roles light force
	Store uint64     `json:"store,omitempty"`
	Peer  *peerSpec  `json:"peer,omitempty"`
	Peers []peerSpec `json:"peers,omitempty"`
	Roles []roleSpec `json:"roles,omitempty"`
}

type caseIn struct {
	Stores         []storeSpec `json:"stores"`
	JointSupported bool        `json:"joint_supported"`
	JointEnabled   bool        `json:"joint_enabled"`
	LocLabels      int         `json:"loc_labels"`
	Origin         []peerSpec  `json:"origin"`
	Leader         uint64      `json:"leader"`
	Pending        []uint64    `json:"pending,omitempty"`
	Down           []uint64    `json:"down,omitempty"`
	Via            string      `json:"via"` // api | helper name
	Ops            []opSpec    `json:"ops"`
	Gen            string      `json:"gen,omitempty"`
	Probe          *probeIn    `json:"probe,omitempty"` // via == "probe": arbitrary steps on an arbitrary region
	// ExecSeed != 0: the built operator is additionally run by a real OperatorController (AddOperator, Dispatch on
	// heartbeats; commands applied or lost, leadership moved between heartbeats at unchanged epoch); the seed fixes
	// every choice of that run
	ExecSeed uint64 `json:"exec_seed,omitempty"`
	// AllocFail = k > 0: the k-th AllocID call the builder makes fails (the allocator could not persist its next window);
	// Build has to give up - a plan built without the peer whose id could not be allocated is judged like any other plan
	AllocFail int `json:"alloc_fail,omitempty"`
}

var roleOfName = map[string]metapb.PeerRole{"voter": metapb.PeerRole_Voter, "learner": metapb.PeerRole_Learner,
	"incoming": metapb.PeerRole_IncomingVoter, "demoting": metapb.PeerRole_DemotingVoter}

var coqRole = map[metapb.PeerRole]string{metapb.PeerRole_Voter: "Voter", metapb.PeerRole_Learner: "Learner",
	metapb.PeerRole_IncomingVoter: "Incoming", metapb.PeerRole_DemotingVoter: "Demoting"}

var xroleOfName = map[string]placement.PeerRoleType{"leader": placement.Leader, "follower": placement.Follower,
	"voter": placement.Voter, "learner": placement.Learner}
var coqXRole = map[string]string{"leader": "XLeader", "follower": "XFollower", "voter": "XVoter", "learner": "XLearner"}

func (p peerSpec) meta() *metapb.Peer {
	return &metapb.Peer{Id: p.ID, StoreId: p.Store, Role: roleOfName[p.Role]}
}

func coqPeer(p *metapb.Peer) string {
	return fmt.Sprintf("Peer %s %s %s", coqfmt.ZU(p.GetStoreId()), coqfmt.ZU(p.GetId()), coqRole[p.GetRole()])
}

func coqOptPeer(p *metapb.Peer) string {
	if p == nil {
		return "None"
	}
	return "(Some (" + coqPeer(p) + "))"
}

func coqRegion(r *core.RegionInfo, rngID int64) string {
	ps := make([]string, 0, len(r.GetPeers()))
	for _, p := range r.GetPeers() {
		ps = append(ps, coqPeer(p))
	}
	return fmt.Sprintf("(Region %s %s %s %s)", coqfmt.List(ps), coqfmt.ZU(r.GetLeader().GetStoreId()),
		coqfmt.ZU(r.GetRegionEpoch().GetConfVer()), coqfmt.Z(rngID))
}

func zlist(xs []uint64) string {
	out := make([]string, len(xs))
	for i, x := range xs {
		out[i] = coqfmt.ZU(x)
	}
	return coqfmt.List(out)
}

func pairList(n int, f func(i int) (uint64, uint64)) string {
	out := make([]string, n)
	for i := 0; i < n; i++ {
		a, b := f(i)
		out[i] = coqfmt.Pair(coqfmt.ZU(a), coqfmt.ZU(b))
	}
	return coqfmt.List(out)
}

func coqStep(s operator.OpStep) string {
	switch st := s.(type) {
	case operator.TransferLeader:
		return fmt.Sprintf("TransferLeader %s %s", coqfmt.ZU(st.FromStore), coqfmt.ZU(st.ToStore))
	case operator.AddPeer:
		return fmt.Sprintf("AddPeer %s %s", coqfmt.ZU(st.ToStore), coqfmt.ZU(st.PeerID))
	case operator.AddLearner:
		return fmt.Sprintf("AddLearner %s %s", coqfmt.ZU(st.ToStore), coqfmt.ZU(st.PeerID))
	case operator.AddLightPeer:
		return fmt.Sprintf("AddLightPeer %s %s", coqfmt.ZU(st.ToStore), coqfmt.ZU(st.PeerID))
	case operator.AddLightLearner:
		return fmt.Sprintf("AddLightLearner %s %s", coqfmt.ZU(st.ToStore), coqfmt.ZU(st.PeerID))
	case operator.PromoteLearner:
		return fmt.Sprintf("PromoteLearner %s %s", coqfmt.ZU(st.ToStore), coqfmt.ZU(st.PeerID))
	case operator.DemoteFollower:
		return fmt.Sprintf("DemoteFollower %s %s", coqfmt.ZU(st.ToStore), coqfmt.ZU(st.PeerID))
	case operator.RemovePeer:
		return fmt.Sprintf("RemovePeer %s %s", coqfmt.ZU(st.FromStore), coqfmt.ZU(st.PeerID))
	case operator.ChangePeerV2Enter:
		return fmt.Sprintf("ChangePeerV2Enter %s %s",
			pairList(len(st.PromoteLearners), func(i int) (uint64, uint64) { return st.PromoteLearners[i].ToStore, st.PromoteLearners[i].PeerID }),
			pairList(len(st.DemoteVoters), func(i int) (uint64, uint64) { return st.DemoteVoters[i].ToStore, st.DemoteVoters[i].PeerID }))
	case operator.ChangePeerV2Leave:
		return fmt.Sprintf("ChangePeerV2Leave %s %s",
			pairList(len(st.PromoteLearners), func(i int) (uint64, uint64) { return st.PromoteLearners[i].ToStore, st.PromoteLearners[i].PeerID }),
			pairList(len(st.DemoteVoters), func(i int) (uint64, uint64) { return st.DemoteVoters[i].ToStore, st.DemoteVoters[i].PeerID }))
	case operator.MergeRegion:
		return fmt.Sprintf("MergeRegion %s 0%%Z", coqfmt.Bool(st.IsPassive))
	case operator.SplitRegion:
		return "SplitRegion 0%Z"
	}
	return "UNKNOWN_STEP"
}

func stepName(s operator.OpStep) string { return strings.Fields(coqStep(s))[0] }

var coqChange = map[eraftpb.ConfChangeType]string{eraftpb.ConfChangeType_AddNode: "AddNode",
	eraftpb.ConfChangeType_AddLearnerNode: "AddLearnerNode", eraftpb.ConfChangeType_RemoveNode: "RemoveNode"}

func coqCmd(m *pdpb.RegionHeartbeatResponse) string {
	switch {
	case m == nil:
		return "None"
	case m.GetTransferLeader() != nil:
		return "(Some (CTransferLeader " + coqOptPeer(m.GetTransferLeader().GetPeer()) + "))"
	case m.GetChangePeer() != nil:
		return "(Some (CChangePeer " + coqChange[m.GetChangePeer().GetChangeType()] + " " + coqOptPeer(m.GetChangePeer().GetPeer()) + "))"
	case m.GetChangePeerV2() != nil:
		cs := []string{}
		for _, c := range m.GetChangePeerV2().GetChanges() {
			cs = append(cs, "("+coqChange[c.GetChangeType()]+", "+coqPeer(c.GetPeer())+")")
		}
		return "(Some (CChangePeerV2 " + coqfmt.List(cs) + "))"
	case m.GetMerge() != nil:
		return "(Some CMerge)"
	case m.GetSplitRegion() != nil:
		return "(Some CSplit)"
	}
	return "(Some CSplit)"
}

// ---------- the world of one case ----------

var locationLabels = []string{"zone", "rack", "host"}

type world struct {
	tc     *mockcluster.Cluster
	cancel context.CancelFunc
	region *core.RegionInfo
	rules  []string // CRule cases: the real leader-target filter on every store of the case
	alloc  *failingAlloc
}

func buildWorld(c *caseIn) *world {
	ctx, cancel := context.WithCancel(context.Background())
	opts := config.NewTestOptions()
	tc := mockcluster.NewCluster(ctx, opts)
	if !c.JointSupported {
		tc.DisableFeature(versioninfo.JointConsensus)
	}
	sc := tc.GetScheduleConfig().Clone()
	sc.EnableJointConsensus = c.JointEnabled
	tc.SetScheduleConfig(sc)
	tc.SetLocationLabels(locationLabels[:c.LocLabels])
	lp := tc.GetLabelPropertyConfig().Clone()
	// two properties of the type with the SAME label key (two DR sites): both values must be honoured
	lp[optRejectLeader] = []config.StoreLabel{{Key: "noleader", Value: "true"}, {Key: "noleader", Value: "yes"}}
	tc.SetLabelPropertyConfig(lp)
	for _, s := range c.Stores {
		if s.State == "absent" {
			continue
		}
		labels := map[string]string{}
		for i, v := range s.Labels {
			if i < len(locationLabels) && v != 0 {
				labels[locationLabels[i]] = fmt.Sprintf("v%d", v)
			}
		}
		if s.State == "reject" {
			labels["noleader"] = "true"
		}
		if s.State == "reject2" {
			labels["noleader"] = "yes"
		}
		tc.AddLabelsStore(s.ID, 1, labels)
		if s.Version != "" {
			tc.PutStore(tc.GetStore(s.ID).Clone(core.SetStoreVersion("verif", s.Version)))
		}
		switch s.State {
		case "offline":
			tc.SetStoreOffline(s.ID)
		case "down":
			tc.SetStoreDown(s.ID)
		case "restarted":
			// silent for an hour, but its process registered again a few seconds ago (PutStore copies the start time) and
			// has not sent a store heartbeat since: still down
			tc.PutStore(tc.GetStore(s.ID).Clone(core.UpStore(), core.SetLastHeartbeatTS(time.Now().Add(-time.Hour)),
				core.SetStoreStartTime(time.Now().Add(-5*time.Second).Unix())))
		case "restarted-disconnected":
			// the last store heartbeat is a minute old (disconnected: > 20 s), the process has just registered again
			tc.PutStore(tc.GetStore(s.ID).Clone(core.UpStore(), core.SetLastHeartbeatTS(time.Now().Add(-time.Minute)),
				core.SetStoreStartTime(time.Now().Add(-2*time.Second).Unix())))
		case "disconnected":
			tc.SetStoreDisconnect(s.ID)
		case "busy":
			tc.SetStoreBusy(s.ID, true)
		case "tombstone":
			tc.PutStore(tc.GetStore(s.ID).Clone(core.TombstoneStore()))
		case "evicted":
			_ = tc.PauseLeaderTransfer(s.ID)
		}
	}
	meta := &metapb.Region{Id: 1, StartKey: []byte("a"), EndKey: []byte("b"), RegionEpoch: &metapb.RegionEpoch{ConfVer: 5, Version: 3}}
	var leader *metapb.Peer
	for _, p := range c.Origin {
		mp := p.meta()
		meta.Peers = append(meta.Peers, mp)
		if p.Store == c.Leader {
			leader = mp
		}
	}
	var ropts []core.RegionCreateOption
	if len(c.Pending) > 0 {
		var pp []*metapb.Peer
		for _, st := range c.Pending {
			for _, p := range meta.Peers {
				if p.StoreId == st {
					pp = append(pp, p)
				}
			}
		}
		ropts = append(ropts, core.WithPendingPeers(pp))
	}
	if len(c.Down) > 0 {
		var dp []*pdpb.PeerStats
		for _, st := range c.Down {
			for _, p := range meta.Peers {
				if p.StoreId == st {
					dp = append(dp, &pdpb.PeerStats{Peer: p, DownSeconds: 100})
				}
			}
		}
		ropts = append(ropts, core.WithDownPeers(dp))
	}
	region := core.NewRegionInfo(meta, leader, ropts...)
	tc.PutRegion(region)
	return &world{tc: tc, cancel: cancel, region: region}
}

const optRejectLeader = "reject-leader"

func peersMapOf(ps []peerSpec) map[uint64]*metapb.Peer {
	m := map[uint64]*metapb.Peer{}
	for _, p := range ps {
		m[p.Store] = p.meta()
	}
	return m
}

func rolesMapOf(rs []roleSpec) map[uint64]placement.PeerRoleType {
	m := map[uint64]placement.PeerRoleType{}
	for _, r := range rs {
		m[r.Store] = xroleOfName[r.Role]
	}
	return m
}

func applyOps(b *operator.Builder, ops []opSpec) *operator.Builder {
	for _, o := range ops {
		switch o.K {
		case "add":
			b = b.AddPeer(o.Peer.meta())
		case "remove":
			b = b.RemovePeer(o.Store)
		case "promote":
			b = b.PromoteLearner(o.Store)
		case "demote":
			b = b.DemoteVoter(o.Store)
		case "leader":
			b = b.SetLeader(o.Store)
		case "peers":
			b = b.SetPeers(peersMapOf(o.Peers))
		case "roles":
			b = b.SetExpectedRoles(rolesMapOf(o.Roles))
		case "light":
			b = b.EnableLightWeight()
		case "force":
			b = b.EnableForceTargetLeader()
		}
	}
	return b
}

// runBuilder calls the real code the way `via` says. The Ops of the case are the call sequence the
// helper performs (checked against create_operator.go by the translator's helper table).
// callHelper calls a Create*Operator helper. If the helper (in the tree under test) accepts builder options - a variadic
// ...operator.BuilderOption at the end, which no helper that changes peers has in the unchanged tree - and the region is in
// a joint state, the option an admin end point would pass for such a region (SkipOriginJointStateCheck) is handed over:
// whatever comes out is judged like any other plan.
func callHelper(region *core.RegionInfo, fn interface{}, args ...interface{}) (*operator.Operator, error) {
	fv := reflect.ValueOf(fn)
	ft := fv.Type()
	in := make([]reflect.Value, len(args))
	for i, a := range args {
		if a == nil {
			in[i] = reflect.Zero(ft.In(i))
		} else {
			in[i] = reflect.ValueOf(a).Convert(ft.In(i))
		}
	}
	optT := reflect.TypeOf(operator.BuilderOption(nil))
	if ft.IsVariadic() && ft.In(ft.NumIn()-1).Elem() == optT && core.IsInJointState(region.GetPeers()...) {
		in = append(in, reflect.ValueOf(operator.BuilderOption(operator.SkipOriginJointStateCheck)))
	}
	out := fv.Call(in)
	var err error
	if e, ok := out[1].Interface().(error); ok {
		err = e
	}
	op, _ := out[0].Interface().(*operator.Operator)
	return op, err
}

// failingAlloc is the case's cluster with an id allocator that fails on demand.
type failingAlloc struct {
	*mockcluster.Cluster
	failAt, calls int
	failed        bool
}

func (f *failingAlloc) AllocID() (uint64, error) {
	f.calls++
	if f.calls == f.failAt {
		f.failed = true
		return 0, fmt.Errorf("alloc id: etcd transaction failed")
	}
	return f.Cluster.AllocID()
}

func runBuilder(w *world, c *caseIn) (*operator.Operator, error) {
	var tc opt.Cluster = w.tc
	region := w.region
	if c.AllocFail > 0 {
		w.alloc = &failingAlloc{Cluster: w.tc, failAt: c.AllocFail}
		tc = w.alloc
	}
	arg := func(k string) opSpec {
		for _, o := range c.Ops {
			if o.K == k {
				return o
			}
		}
		return opSpec{}
	}
	switch c.Via {
	case "api":
		return applyOps(operator.NewBuilder("verif", tc, region), c.Ops).Build(0)
	case "api-skip":
		return applyOps(operator.NewBuilder("verif", tc, region, operator.SkipOriginJointStateCheck), c.Ops).Build(0)
	case "AddPeer":
		return callHelper(region, operator.CreateAddPeerOperator, "verif", tc, region, arg("add").Peer.meta(), operator.OpKind(0))
	case "PromoteLearner":
		return callHelper(region, operator.CreatePromoteLearnerOperator, "verif", tc, region, &metapb.Peer{StoreId: arg("promote").Store})
	case "RemovePeer":
		return callHelper(region, operator.CreateRemovePeerOperator, "verif", tc, operator.OpKind(0), region, arg("remove").Store)
	case "TransferLeader":
		return operator.CreateTransferLeaderOperator("verif", tc, region, region.GetLeader().GetStoreId(), arg("leader").Store, 0)
	case "ForceTransferLeader":
		return operator.CreateForceTransferLeaderOperator("verif", tc, region, region.GetLeader().GetStoreId(), arg("leader").Store, 0)
	case "MoveRegion":
		return callHelper(region, operator.CreateMoveRegionOperator, "verif", tc, region, operator.OpKind(0), rolesMapOf(arg("roles").Roles))
	case "MovePeer":
		return callHelper(region, operator.CreateMovePeerOperator, "verif", tc, region, operator.OpKind(0), arg("remove").Store, arg("add").Peer.meta())
	case "ReplaceLeaderPeer":
		return callHelper(region, operator.CreateReplaceLeaderPeerOperator, "verif", tc, region, operator.OpKind(0), arg("remove").Store, arg("add").Peer.meta(),
			&metapb.Peer{StoreId: arg("leader").Store})
	case "MoveLeader":
		return callHelper(region, operator.CreateMoveLeaderOperator, "verif", tc, region, operator.OpKind(0), arg("remove").Store, arg("add").Peer.meta())
	case "Scatter":
		return callHelper(region, operator.CreateScatterRegionOperator, "verif", tc, region, peersMapOf(arg("peers").Peers), arg("leader").Store)
	case "MergeMatch":
		// target region = the requested peers; CreateMergeRegionOperator makes the source match it first
		tm := &metapb.Region{Id: 2, StartKey: []byte("b"), EndKey: []byte("c"), RegionEpoch: &metapb.RegionEpoch{ConfVer: 1, Version: 1}}
		for _, p := range arg("peers").Peers {
			tm.Peers = append(tm.Peers, &metapb.Peer{Id: 900 + p.Store, StoreId: p.Store, Role: roleOfName[p.Role]})
		}
		target := core.NewRegionInfo(tm, tm.Peers[0])
		ops, err := operator.CreateMergeRegionOperator("verif", tc, region, target, 0)
		if err != nil {
			return nil, err
		}
		return ops[0], nil
	case "LeaveJoint":
		return operator.CreateLeaveJointStateOperator("verif", tc, region)
	}
	panic("unknown via " + c.Via)
}

// the helper's call sequence as the model's bop list (what create_operator.go does with its arguments)
func modelOps(c *caseIn) []opSpec {
	switch c.Via {
	case "MoveRegion":
		roles := c.Ops[0].Roles
		var ps []peerSpec
		for _, r := range roles {
			role := "voter"
			if r.Role == "learner" {
				role = "learner"
			}
			ps = append(ps, peerSpec{Store: r.Store, Role: role})
		}
		return []opSpec{{K: "peers", Peers: ps}, {K: "roles", Roles: roles}}
	case "MoveLeader":
		var add *peerSpec
		for _, o := range c.Ops {
			if o.K == "add" {
				add = o.Peer
			}
		}
		return append(append([]opSpec{}, c.Ops...), opSpec{K: "leader", Store: add.Store})
	case "ForceTransferLeader":
		return append(append([]opSpec{}, c.Ops...), opSpec{K: "force"})
	case "Scatter":
		return append(append([]opSpec{}, c.Ops...), opSpec{K: "light"}, opSpec{K: "force"})
	case "MergeMatch":
		var ps []peerSpec
		for _, p := range c.Ops[0].Peers {
			ps = append(ps, peerSpec{Store: p.Store, Role: p.Role})
		}
		return []opSpec{{K: "peers", Peers: ps}}
	}
	return c.Ops
}

func coqOp(o opSpec) string {
	switch o.K {
	case "add":
		return "OAddPeer (" + coqPeer(o.Peer.meta()) + ")"
	case "remove":
		return "ORemovePeer " + coqfmt.ZU(o.Store)
	case "promote":
		return "OPromoteLearner " + coqfmt.ZU(o.Store)
	case "demote":
		return "ODemoteVoter " + coqfmt.ZU(o.Store)
	case "leader":
		return "OSetLeader " + coqfmt.ZU(o.Store)
	case "peers":
		ps := make([]string, len(o.Peers))
		for i, p := range o.Peers {
			ps[i] = coqPeer(p.meta())
		}
		return "OSetPeers " + coqfmt.List(ps)
	case "roles":
		rs := make([]string, len(o.Roles))
		for i, r := range o.Roles {
			rs[i] = coqfmt.Pair(coqfmt.ZU(r.Store), coqXRole[r.Role])
		}
		return "OSetExpectedRoles " + coqfmt.List(rs)
	case "light":
		return "OLightWeight"
	case "force":
		return "OForceTargetLeader"
	}
	panic("bad op " + o.K)
}

// store facts read back from the real StoreInfo (DESIGN.md section 3: derived predicates are inputs of the model)
func coqCluster(w *world, c *caseIn) string {
	tc := w.tc
	var rules []*placement.Rule
	if tc.GetOpts().IsPlacementRulesEnabled() {
		for _, rf := range tc.FitRegion(w.region).RuleFits {
			rules = append(rules, rf.Rule)
		}
	}
	var ss []string
	ids := []uint64{}
	for _, s := range c.Stores {
		ids = append(ids, s.ID)
	}
	sort.Slice(ids, func(i, j int) bool { return ids[i] < ids[j] })
	for _, id := range ids {
		st := tc.GetStore(id)
		if st == nil {
			continue
		}
		// whether the store may receive a leader is decided by the STATE THE CASE PUT IT IN (only a store that is up, connected,
		// not busy, not evicted and not excluded by a reject-leader property may), not read back from the filter: the real
		// filter's answer is compared with it (CRule case, below)
		f := &filter.StoreStateFilter{ActionScope: "verif", TransferLeader: true}
		real := f.Target(tc.GetOpts(), st)
		state := "up"
		for _, sp := range c.Stores {
			if sp.ID == id {
				state = sp.State
			}
		}
		ok := state == "up"
		w.rules = append(w.rules, fmt.Sprintf("CRule %s %s", strconv.Quote(state), coqfmt.Bool(real)))
		if ok && len(rules) > 0 {
			ok = false
			for _, r := range rules {
				if (r.Role == placement.Leader || r.Role == placement.Voter) && placement.MatchLabelConstraints(st, r.LabelConstraints) {
					ok = true
				}
			}
		}
		lv := make([]string, c.LocLabels)
		for i := 0; i < c.LocLabels; i++ {
			v := st.GetLabelValue(locationLabels[i])
			n := 0
			if v != "" {
				fmt.Sscanf(v, "v%d", &n)
			}
			lv[i] = coqfmt.Z(int64(n))
		}
		ss = append(ss, fmt.Sprintf("Store %s %s %s %s", coqfmt.ZU(id), coqfmt.Bool(st.IsUp()), coqfmt.Bool(ok), coqfmt.List(lv)))
	}
	return fmt.Sprintf("(Cluster %s %s %s %d%%nat)", coqfmt.List(ss), coqfmt.Bool(tc.IsFeatureSupported(versioninfo.JointConsensus)),
		coqfmt.Bool(tc.GetOpts().IsUseJointConsensus()), len(tc.GetOpts().GetLocationLabels()))
}

// ---------- execution of a plan ----------

type runner struct {
	rec *tikvsim.Recorder
	oc  *schedule.OperatorController
}

type traceEntry struct {
	Step     string `json:"step"`
	FinBefor bool   `json:"finished_before"`
	Safe     string `json:"check_safety"`
	Cmd      string `json:"cmd"`
	Applied  string `json:"store"`
	Region   string `json:"region_after"`
}

func (rn *runner) execute(region *core.RegionInfo, steps []operator.OpStep) (coq []string, js []traceEntry) {
	sim := tikvsim.New(region)
	cur := region
	for k, s := range steps {
		safeRaw := s.CheckSafety(cur) == nil
		fb := s.IsFinish(cur)
		safe, accepted := true, false
		var msg *pdpb.RegionHeartbeatResponse
		te := traceEntry{Step: s.String(), FinBefor: fb}
		if !fb {
			if err := s.CheckSafety(cur); err != nil {
				safe = false
				te.Safe = err.Error()
			} else {
				rn.oc.SendScheduleCommand(cur, s, "verif")
				msgs := rn.rec.Collect()
				if len(msgs) > 1 {
					d := ""
					for _, m := range msgs {
						d += fmt.Sprintf(" [region %d epoch %v: %s]", m.GetRegionId(), m.GetRegionEpoch(), strings.TrimSpace(coqCmd(m)))
					}
					panic("more than one command for one step " + s.String() + ":" + d)
				}
				if len(msgs) == 1 {
					msg = msgs[0]
					te.Cmd = strings.TrimSpace(coqCmd(msg))
					err := sim.CheckAddress(msg)
					if err == nil {
						err = sim.Apply(msg)
					}
					if err == nil {
						accepted = true
						te.Applied = "ok"
					} else {
						te.Applied = err.Error()
					}
					cur = sim.Region()
				}
			}
		}
		te.Region = coqRegion(cur, sim.Rng)
		js = append(js, te)
		// what every EARLIER step of the plan counts in the region as it is now (Operator.ConfVerChanged sums them)
		prev := make([]string, k)
		for i := 0; i < k; i++ {
			prev[i] = coqfmt.ZU(steps[i].ConfVerChanged(cur))
		}
		coq = append(coq, fmt.Sprintf("TObs %s %s %s %s %s %s %s %s %s", coqfmt.Bool(safeRaw), coqfmt.Bool(fb), coqfmt.Bool(safe), coqCmd(msg), coqfmt.Bool(accepted),
			coqfmt.ZU(s.ConfVerChanged(cur)), coqfmt.List(prev), coqfmt.Bool(s.IsFinish(cur)), coqRegion(cur, sim.Rng)))
	}
	return
}

type execEntry struct {
	Event   string   `json:"event"`
	Region  string   `json:"region"`
	Sent    []string `json:"sent"`
	Running bool     `json:"running"`
}

// executor runs the operator through a real OperatorController over the case's cluster.
func (rn *runner) executor(w *world, c *caseIn, op *operator.Operator, steps []operator.OpStep) (string, []execEntry) {
	r := rng.New(c.ExecSeed)
	ctx, cancel := context.WithCancel(context.Background())
	defer cancel()
	for _, st := range w.tc.GetStores() {
		w.tc.SetStoreLimit(st.GetID(), storelimit.AddPeer, 6e7)
		w.tc.SetStoreLimit(st.GetID(), storelimit.RemovePeer, 6e7)
	}
	sim := tikvsim.New(w.region)
	origin := sim.Region() // without pending / down peers: the executor model reads IsFinish without them
	w.tc.PutRegion(origin)
	oc := schedule.NewOperatorController(ctx, w.tc, rn.rec.HB)
	rn.rec.Collect()
	var xs []string
	var js []execEntry
	var inbox []*pdpb.RegionHeartbeatResponse
	observe := func(ev string, hb bool, region *core.RegionInfo) bool {
		sent := rn.rec.Collect()
		inbox = append(inbox, sent...)
		running := oc.GetOperator(region.GetID()) != nil
		cs := make([]string, len(sent))
		for i, m := range sent {
			cs[i] = strings.TrimPrefix(strings.TrimSuffix(strings.TrimSpace(coqCmd(m)), ")"), "(Some ")
		}
		xs = append(xs, fmt.Sprintf("XObs %s %s %s %s", coqfmt.Bool(hb), coqRegion(region, sim.Rng), coqfmt.List(cs), coqfmt.Bool(running)))
		js = append(js, execEntry{Event: ev, Region: coqRegion(region, sim.Rng), Sent: cs, Running: running})
		return running
	}
	if !oc.AddOperator(op) {
		rn.rec.Collect()
		return "", nil
	}
	observe("AddOperator", false, origin)
	prevLeader := uint64(0)
	for round := 0; round < 3*len(steps)+6; round++ {
		for _, m := range inbox {
			if r.Pct(25) {
				js = append(js, execEntry{Event: "command lost: " + strings.TrimSpace(coqCmd(m))})
				continue
			}
			err := sim.CheckAddress(m)
			if err == nil {
				err = sim.Apply(m)
			}
			res := "applied"
			if err != nil {
				res = "refused (" + err.Error() + ")"
			}
			js = append(js, execEntry{Event: "command " + res + ": " + strings.TrimSpace(coqCmd(m))})
		}
		inbox = nil
		if r.Pct(35) {
			// an election: leadership moves to another voter, the epoch does not change
			var cands []*metapb.Peer
			for _, p := range sim.Meta.Peers {
				if p.StoreId != sim.Leader.GetStoreId() && p.Role != metapb.PeerRole_Learner {
					cands = append(cands, p)
				}
			}
			if len(cands) > 0 {
				to := cands[r.Intn(len(cands))]
				if r.Pct(60) {
					for _, p := range cands {
						if p.StoreId == prevLeader {
							to = p
						}
					}
				}
				prevLeader = sim.Leader.GetStoreId()
				if sim.TransferLeader(to) == nil {
					js = append(js, execEntry{Event: fmt.Sprintf("election: leader moves to store %d", to.StoreId)})
				}
			}
		}
		cur := sim.Region()
		if cur.GetLeader().GetStoreId() != prevLeader && prevLeader == 0 {
			prevLeader = origin.GetLeader().GetStoreId()
		}
		w.tc.PutRegion(cur)
		oc.Dispatch(cur, schedule.DispatchFromHeartBeat)
		if !observe("heartbeat", true, cur) {
			break
		}
	}
	ss := make([]string, len(steps))
	for i, st := range steps {
		ss[i] = coqStep(st)
	}
	return fmt.Sprintf("CExec %s %s\n   %s", coqRegion(origin, 0), coqfmt.List(ss), coqfmt.List(xs)), js
}

type caseOut struct {
	In    caseIn       `json:"in"`
	Exec  []execEntry  `json:"executor,omitempty"`
	execCoq string
	rules []string
	skipped string
	Err   string       `json:"build_error,omitempty"`
	Steps []string     `json:"steps,omitempty"`
	Trace []traceEntry `json:"trace,omitempty"`
	coq   string
	nstep int
	kinds []string
	class string
}

func runCase(rn *runner, c *caseIn) caseOut {
	w := buildWorld(c)
	defer w.cancel()
	out := caseOut{In: *c}
	clusterTerm := coqCluster(w, c)
	out.rules = w.rules
	op, err := runBuilder(w, c)
	if w.alloc != nil && w.alloc.failed && err != nil {
		out.skipped = "alloc-failure:build-gave-up"
		return out
	}
	var steps []operator.OpStep
	outTerm := "BuildErr"
	if err != nil {
		out.Err = err.Error()
	} else {
		for i := 0; i < op.Len(); i++ {
			steps = append(steps, op.Step(i))
		}
		if c.Via == "MergeMatch" && len(steps) > 0 {
			if _, ok := steps[len(steps)-1].(operator.MergeRegion); ok {
				steps = steps[:len(steps)-1] // the merge itself is outside the builder
			}
		}
		ss := make([]string, len(steps))
		for i, s := range steps {
			ss[i] = coqStep(s)
			out.Steps = append(out.Steps, s.String())
			out.kinds = append(out.kinds, stepName(s))
		}
		outTerm = fmt.Sprintf("(Built %s %s %s)", coqfmt.List(ss), coqfmt.Bool(op.Kind()&operator.OpLeader != 0), coqfmt.Bool(op.Kind()&operator.OpRegion != 0))
		out.nstep = len(steps)
	}
	var tr []string
	if len(steps) > 0 {
		tr, out.Trace = rn.execute(w.region, steps)
		if c.ExecSeed != 0 && op.Len() == len(steps) {
			out.execCoq, out.Exec = rn.executor(w, c, op, steps)
		}
	}
	regionTerm := coqRegion(w.region, 0)
	if c.Via == "LeaveJoint" {
		out.coq = fmt.Sprintf("CLeave %s %s %s\n   %s", clusterTerm, regionTerm, outTerm, coqfmt.List(tr))
		return out
	}
	// the ids the allocator handed out, read back from the plan (witness for the model)
	allocSeen := map[uint64]uint64{}
	for _, s := range steps {
		switch st := s.(type) {
		case operator.AddLearner:
			allocSeen[st.ToStore] = st.PeerID
		case operator.AddLightLearner:
			allocSeen[st.ToStore] = st.PeerID
		}
	}
	var allocStores []uint64
	for st := range allocSeen {
		allocStores = append(allocStores, st)
	}
	sort.Slice(allocStores, func(i, j int) bool { return allocStores[i] < allocStores[j] })
	alloc := pairList(len(allocStores), func(i int) (uint64, uint64) { return allocStores[i], allocSeen[allocStores[i]] })
	unhealthy := append(append([]uint64{}, c.Pending...), c.Down...)
	mops := modelOps(c)
	ops := make([]string, len(mops))
	for i, o := range mops {
		ops[i] = coqOp(o)
	}
	skip := c.Via == "api-skip" || c.Via == "TransferLeader" || c.Via == "ForceTransferLeader"
	out.coq = fmt.Sprintf("CBuild (BInput %s %s %s %s\n   %s %s)\n   %s\n   %s", clusterTerm, regionTerm, zlist(unhealthy), coqfmt.Bool(skip),
		coqfmt.List(ops), alloc, outTerm, coqfmt.List(tr))
	return out
}

// ---------- generators ----------

var stateNames = []string{"up", "offline", "down", "disconnected", "busy", "tombstone", "evicted", "reject", "absent", "restarted", "restarted-disconnected", "reject2"}

func genStores(r *rng.R, n int, allUp bool, loc int) []storeSpec {
	ss := make([]storeSpec, n)
	for i := range ss {
		st := "up"
		if !allUp {
			st = stateNames[r.Pick(60, 5, 5, 4, 3, 2, 5, 4, 4, 3, 2, 3)]
		}
		lb := make([]int, loc)
		for j := range lb {
			lb[j] = r.Pick(10, 45, 45)
		}
		ss[i] = storeSpec{ID: uint64(i + 1), State: st, Labels: lb}
	}
	// rolling upgrade: the stores report their own release, whatever the cluster version still is
	switch r.Pick(40, 35, 25) {
	case 1:
		for i := range ss {
			ss[i].Version = "5.0.0"
		}
	case 2:
		for i := range ss {
			ss[i].Version = []string{"4.0.9", "5.0.0", "5.1.0"}[r.Pick(30, 50, 20)]
		}
	}
	return ss
}

func pid(store uint64) uint64 { return 100 + store*7 }

// random origin over stores 1..n: at least one voter, leader among the voters
func genOrigin(r *rng.R, n int, joint bool) ([]peerSpec, uint64) {
	for {
		var ps []peerSpec
		var voters []uint64
		for s := uint64(1); s <= uint64(n); s++ {
			switch r.Pick(30, 50, 20) {
			case 1:
				role := "voter"
				if joint {
					role = []string{"voter", "incoming", "demoting"}[r.Pick(50, 25, 25)]
				}
				ps = append(ps, peerSpec{Store: s, ID: pid(s), Role: role})
				voters = append(voters, s)
			case 2:
				ps = append(ps, peerSpec{Store: s, ID: pid(s), Role: "learner"})
			}
		}
		if len(voters) == 0 {
			continue
		}
		if joint {
			// a reachable joint state: the outgoing (voter+demoting) and the incoming (voter+incoming)
			// configuration are both non-empty
			oldN, newN := 0, 0
			for _, p := range ps {
				if p.Role == "voter" || p.Role == "demoting" {
					oldN++
				}
				if p.Role == "voter" || p.Role == "incoming" {
					newN++
				}
			}
			if oldN == 0 || newN == 0 {
				continue
			}
		}
		// region meta order is not sorted in general
		if r.Pct(30) {
			for i := len(ps) - 1; i > 0; i-- {
				j := r.Intn(i + 1)
				ps[i], ps[j] = ps[j], ps[i]
			}
		}
		return ps, voters[r.Intn(len(voters))]
	}
}

func genTarget(r *rng.R, n int, origin []peerSpec) []peerSpec {
	has := map[uint64]peerSpec{}
	for _, p := range origin {
		has[p.Store] = p
	}
	for {
		var ps []peerSpec
		voters := 0
		for s := uint64(1); s <= uint64(n); s++ {
			var k int
			if o, ok := has[s]; ok {
				// keep 55 %, flip role 20 %, drop 25 %
				switch r.Pick(55, 20, 25) {
				case 0:
					k = 1
					if o.Role == "learner" {
						k = 2
					}
				case 1:
					k = 2
					if o.Role == "learner" {
						k = 1
					}
				}
			} else {
				k = r.Pick(60, 28, 12)
			}
			id := uint64(0)
			if r.Pct(25) {
				id = 500 + s // explicit id given by the caller
			}
			switch k {
			case 1:
				ps = append(ps, peerSpec{Store: s, ID: id, Role: "voter"})
				voters++
			case 2:
				ps = append(ps, peerSpec{Store: s, ID: id, Role: "learner"})
			}
		}
		if voters > 0 || r.Pct(3) { // 3 %: target without voter (rejected by prepareBuild)
			return ps
		}
	}
}

func voterStores(ps []peerSpec) []uint64 {
	var v []uint64
	for _, p := range ps {
		if p.Role != "learner" {
			v = append(v, p.Store)
		}
	}
	return v
}

func genRandom(r *rng.R, n int) *caseIn {
	c := &caseIn{Gen: fmt.Sprintf("random%d", n)}
	c.LocLabels = r.Pick(40, 20, 25, 15)
	c.Stores = genStores(r, n, r.Pct(35), c.LocLabels)
	switch r.Pick(62, 13, 25) {
	case 0:
		c.JointSupported, c.JointEnabled = true, true
	case 1:
		c.JointSupported, c.JointEnabled = true, false
	case 2:
		c.JointSupported, c.JointEnabled = false, r.Bool()
	}
	via := r.Pick(33, 22, 39, 4, 2)
	jointOrigin := via == 3 || via == 4 || (via == 2 && r.Pct(10))
	c.Origin, c.Leader = genOrigin(r, n, jointOrigin)
	// a region cannot have a peer on a store PD does not know: "absent" is only for stores without origin peer
	for _, p := range c.Origin {
		for i := range c.Stores {
			if c.Stores[i].ID == p.Store && c.Stores[i].State == "absent" {
				c.Stores[i].State = "up"
			}
		}
	}
	for _, p := range c.Origin {
		if p.Store != c.Leader && r.Pct(5) {
			c.Pending = append(c.Pending, p.Store)
		} else if p.Store != c.Leader && r.Pct(4) {
			c.Down = append(c.Down, p.Store)
		}
	}
	free := func() uint64 { // a store without origin peer (0 if none); sometimes an occupied or unknown one
		var fs []uint64
		occ := map[uint64]bool{}
		for _, p := range c.Origin {
			occ[p.Store] = true
		}
		for s := uint64(1); s <= uint64(n); s++ {
			if !occ[s] {
				fs = append(fs, s)
			}
		}
		if r.Pct(6) || len(fs) == 0 {
			return uint64(1 + r.Intn(n+1)) // malformed: maybe occupied, maybe a store the cluster does not know
		}
		return fs[r.Intn(len(fs))]
	}
	anyPeer := func() uint64 {
		if r.Pct(5) {
			return uint64(r.Intn(n + 2)) // malformed: maybe absent, maybe 0
		}
		return c.Origin[r.Intn(len(c.Origin))].Store
	}
	newPeer := func(st uint64) *peerSpec {
		role := "voter"
		if r.Pct(30) {
			role = "learner"
		}
		id := uint64(0)
		if r.Pct(30) {
			id = 500 + st
		}
		return &peerSpec{Store: st, ID: id, Role: role}
	}
	switch via {
	case 0: // SetPeers [+ SetLeader] [+ flags]
		c.Via = "api"
		t := genTarget(r, n, c.Origin)
		c.Ops = []opSpec{{K: "peers", Peers: t}}
		if v := voterStores(t); len(v) > 0 && r.Pct(60) {
			c.Ops = append(c.Ops, opSpec{K: "leader", Store: v[r.Intn(len(v))]})
		} else if r.Pct(5) {
			c.Ops = append(c.Ops, opSpec{K: "leader", Store: uint64(1 + r.Intn(n))}) // malformed: maybe learner / absent
		}
		if r.Pct(15) {
			c.Ops = append(c.Ops, opSpec{K: "light"})
		}
		if r.Pct(15) {
			c.Ops = append(c.Ops, opSpec{K: "force"})
		}
	case 1: // incremental calls
		c.Via = "api"
		k := 1 + r.Intn(4)
		for i := 0; i < k; i++ {
			switch r.Pick(30, 30, 15, 15, 10) {
			case 0:
				c.Ops = append(c.Ops, opSpec{K: "add", Peer: newPeer(free())})
			case 1:
				c.Ops = append(c.Ops, opSpec{K: "remove", Store: anyPeer()})
			case 2:
				c.Ops = append(c.Ops, opSpec{K: "promote", Store: anyPeer()})
			case 3:
				c.Ops = append(c.Ops, opSpec{K: "demote", Store: anyPeer()})
			case 4:
				c.Ops = append(c.Ops, opSpec{K: "leader", Store: anyPeer()})
			}
		}
		if r.Pct(10) {
			c.Ops = append(c.Ops, opSpec{K: "light"})
		}
		if r.Pct(10) {
			c.Ops = append(c.Ops, opSpec{K: "force"})
		}
	case 2: // the helpers of create_operator.go
		hs := []string{"AddPeer", "PromoteLearner", "RemovePeer", "TransferLeader", "ForceTransferLeader", "MoveRegion",
			"MovePeer", "ReplaceLeaderPeer", "MoveLeader", "Scatter", "MergeMatch"}
		c.Via = hs[r.Intn(len(hs))]
		switch c.Via {
		case "AddPeer":
			c.Ops = []opSpec{{K: "add", Peer: newPeer(free())}}
		case "PromoteLearner":
			c.Ops = []opSpec{{K: "promote", Store: anyPeer()}}
		case "RemovePeer":
			c.Ops = []opSpec{{K: "remove", Store: anyPeer()}}
		case "TransferLeader", "ForceTransferLeader":
			c.Ops = []opSpec{{K: "leader", Store: anyPeer()}}
		case "MoveRegion":
			t := genTarget(r, n, c.Origin)
			var rs []roleSpec
			leaderGiven := false
			for _, p := range t {
				role := "learner"
				if p.Role == "voter" {
					role = []string{"voter", "follower", "leader"}[r.Pick(50, 25, 25)]
					if role == "leader" {
						if leaderGiven && !r.Pct(5) {
							role = "voter"
						}
						leaderGiven = true
					}
				}
				rs = append(rs, roleSpec{Store: p.Store, Role: role})
			}
			c.Ops = []opSpec{{K: "roles", Roles: rs}}
		case "MovePeer":
			c.Ops = []opSpec{{K: "remove", Store: anyPeer()}, {K: "add", Peer: newPeer(free())}}
		case "ReplaceLeaderPeer":
			c.Ops = []opSpec{{K: "remove", Store: anyPeer()}, {K: "add", Peer: newPeer(free())}, {K: "leader", Store: anyPeer()}}
		case "MoveLeader":
			p := newPeer(free())
			if !r.Pct(5) {
				p.Role = "voter"
			}
			c.Ops = []opSpec{{K: "remove", Store: anyPeer()}, {K: "add", Peer: p}}
		case "Scatter":
			t := genTarget(r, n, c.Origin)
			v := voterStores(t)
			l := uint64(1 + r.Intn(n))
			if len(v) > 0 && !r.Pct(5) {
				l = v[r.Intn(len(v))]
			}
			c.Ops = []opSpec{{K: "peers", Peers: t}, {K: "leader", Store: l}}
		case "MergeMatch":
			for {
				t := genTarget(r, n, c.Origin)
				if len(t) == 0 || regionMatch(c.Origin, t) {
					continue
				}
				c.Ops = []opSpec{{K: "peers", Peers: t}}
				break
			}
		}
	case 3:
		c.Via = "LeaveJoint"
	case 4:
		// the grant-leader / evict-leader entry points on a region that sits between ChangePeerV2Enter and Leave: the
		// (forced) leader target is any peer of the joint state, demoting and incoming voters included
		c.Via = "ForceTransferLeader"
		if r.Pct(25) {
			c.Via = "TransferLeader"
		}
		var others, demoting []uint64
		for _, p := range c.Origin {
			if p.Store != c.Leader {
				others = append(others, p.Store)
				if p.Role == "demoting" {
					demoting = append(demoting, p.Store)
				}
			}
		}
		st := anyPeer()
		if len(demoting) > 0 && r.Pct(50) {
			st = demoting[r.Intn(len(demoting))]
		} else if len(others) > 0 {
			st = others[r.Intn(len(others))]
		}
		c.Ops = []opSpec{{K: "leader", Store: st}}
	}
	if r.Pct(35) {
		c.ExecSeed = 1 + r.U64()%1000000
	}
	if r.Pct(12) {
		c.AllocFail = 1 + r.Pick(70, 30)
	}
	return c
}

// isRegionMatch of create_operator.go (MergeMatch goes through the builder only when it is false)
func regionMatch(origin []peerSpec, t []peerSpec) bool {
	if len(origin) != len(t) {
		return false
	}
	m := map[uint64]peerSpec{}
	for _, p := range t {
		m[p.Store] = p
	}
	for _, p := range origin {
		q, ok := m[p.Store]
		if !ok || (q.Role == "learner") != (p.Role == "learner") {
			return false
		}
	}
	return true
}

// exhaustive enumeration for n stores, all up: every origin (roles, leader) x every target (roles, optional
// leader) x {joint, supported-but-disabled, unsupported}; light/force are varied by `variant`.
func enumerate(n int, emit func(*caseIn)) {
	roles := []string{"", "voter", "learner"}
	var vecs [][]string
	var rec func(i int, cur []string)
	rec = func(i int, cur []string) {
		if i == n {
			for _, x := range cur {
				if x == "voter" {
					vecs = append(vecs, append([]string{}, cur...))
					return
				}
			}
			return
		}
		for _, x := range roles {
			rec(i+1, append(cur, x))
		}
	}
	rec(0, nil)
	stores := make([]storeSpec, n)
	for i := range stores {
		stores[i] = storeSpec{ID: uint64(i + 1), State: "up"}
	}
	k := 0
	for _, ov := range vecs {
		var origin []peerSpec
		for i, x := range ov {
			if x != "" {
				origin = append(origin, peerSpec{Store: uint64(i + 1), ID: pid(uint64(i + 1)), Role: x})
			}
		}
		for _, ol := range voterStores(origin) {
			for _, tv := range vecs {
				var target []peerSpec
				for i, x := range tv {
					if x != "" {
						target = append(target, peerSpec{Store: uint64(i + 1), Role: x})
					}
				}
				for _, tl := range append([]uint64{0}, voterStores(target)...) {
					for mode := 0; mode < 3; mode++ {
						c := &caseIn{Stores: stores, JointSupported: mode != 2, JointEnabled: mode == 0, Origin: origin, Leader: ol,
							Via: "api", Ops: []opSpec{{K: "peers", Peers: target}}, Gen: fmt.Sprintf("enum%d", n)}
						if tl != 0 {
							c.Ops = append(c.Ops, opSpec{K: "leader", Store: tl})
						}
						// light / force rotate deterministically so that every combination occurs many times
						switch k % 8 {
						case 5:
							c.Ops = append(c.Ops, opSpec{K: "light"})
						case 6:
							c.Ops = append(c.Ops, opSpec{K: "force"})
						case 7:
							c.Ops = append(c.Ops, opSpec{K: "light"}, opSpec{K: "force"})
						}
						k++
						emit(c)
					}
				}
			}
		}
	}
}

// ---------- step probes: arbitrary steps on arbitrary regions (transcription of step.go, tikvsim vs apply_cmd) ----------

type probeStep struct {
	K     string      `json:"k"`
	Store uint64      `json:"store,omitempty"`
	ID    uint64      `json:"id,omitempty"`
	From  uint64      `json:"from,omitempty"`
	PL    [][2]uint64 `json:"pl,omitempty"`
	DV    [][2]uint64 `json:"dv,omitempty"`
}

type probeIn struct {
	Peers   []peerSpec  `json:"peers"`
	Leader  uint64      `json:"leader"`
	ConfVer uint64      `json:"conf_ver"`
	Steps   []probeStep `json:"steps"`
}

func (p probeStep) step(region *core.RegionInfo) operator.OpStep {
	pl := []operator.PromoteLearner{}
	for _, x := range p.PL {
		pl = append(pl, operator.PromoteLearner{ToStore: x[0], PeerID: x[1]})
	}
	dv := []operator.DemoteVoter{}
	for _, x := range p.DV {
		dv = append(dv, operator.DemoteVoter{ToStore: x[0], PeerID: x[1]})
	}
	switch p.K {
	case "transfer":
		return operator.TransferLeader{FromStore: p.From, ToStore: p.Store}
	case "add-peer":
		return operator.AddPeer{ToStore: p.Store, PeerID: p.ID}
	case "add-learner":
		return operator.AddLearner{ToStore: p.Store, PeerID: p.ID}
	case "add-light-peer":
		return operator.AddLightPeer{ToStore: p.Store, PeerID: p.ID}
	case "add-light-learner":
		return operator.AddLightLearner{ToStore: p.Store, PeerID: p.ID}
	case "promote":
		return operator.PromoteLearner{ToStore: p.Store, PeerID: p.ID}
	case "demote":
		return operator.DemoteFollower{ToStore: p.Store, PeerID: p.ID}
	case "remove":
		return operator.RemovePeer{FromStore: p.Store, PeerID: p.ID}
	case "enter":
		return operator.ChangePeerV2Enter{PromoteLearners: pl, DemoteVoters: dv}
	case "leave":
		return operator.ChangePeerV2Leave{PromoteLearners: pl, DemoteVoters: dv}
	case "split":
		return operator.SplitRegion{StartKey: region.GetStartKey(), EndKey: region.GetEndKey(), Policy: pdpb.CheckPolicy_USEKEY}
	case "merge":
		return operator.MergeRegion{FromRegion: region.GetMeta(), ToRegion: &metapb.Region{Id: 77}, IsPassive: false}
	case "merge-passive":
		return operator.MergeRegion{FromRegion: &metapb.Region{Id: 77}, ToRegion: region.GetMeta(), IsPassive: true}
	}
	panic("bad probe step " + p.K)
}

func genProbe(r *rng.R) *probeIn {
	p := &probeIn{ConfVer: uint64(1 + r.Intn(9))}
	joint := r.Pct(35)
	sameIDs := r.Pct(20)
	for {
		p.Peers = nil
		var cand []uint64
		for s := uint64(1); s <= 6; s++ {
			if !r.Pct(55) {
				continue
			}
			role := []string{"voter", "learner"}[r.Pick(65, 35)]
			if joint && role == "voter" {
				role = []string{"voter", "incoming", "demoting"}[r.Pick(40, 30, 30)]
			} else if joint && r.Pct(20) {
				role = "learner"
			}
			id := 100 + s*7
			if sameIDs {
				id = s
			}
			p.Peers = append(p.Peers, peerSpec{Store: s, ID: id, Role: role})
			if role != "learner" {
				cand = append(cand, s)
			}
		}
		if len(cand) > 0 {
			p.Leader = cand[r.Intn(len(cand))]
			break
		}
	}
	peer := func() peerSpec { return p.Peers[r.Intn(len(p.Peers))] }
	idOf := func(q peerSpec) uint64 {
		switch r.Pick(80, 10, 10) {
		case 1:
			return 0
		case 2:
			return q.ID + 1
		}
		return q.ID
	}
	pairs := func(want func(string) bool) [][2]uint64 {
		var out [][2]uint64
		for _, q := range p.Peers {
			if (want(q.Role) && r.Pct(75)) || r.Pct(6) {
				out = append(out, [2]uint64{q.Store, idOf(q)})
			}
		}
		return out
	}
	n := 1 + r.Intn(4)
	for i := 0; i < n; i++ {
		q := peer()
		st := q.Store
		if r.Pct(35) {
			st = uint64(1 + r.Intn(7)) // maybe a store without peer
		}
		id := idOf(q)
		if st != q.Store {
			id = 200 + st
		}
		switch r.Pick(12, 7, 9, 5, 5, 10, 10, 14, 9, 9, 4, 3, 3) {
		case 0:
			p.Steps = append(p.Steps, probeStep{K: "transfer", From: p.Leader, Store: st})
		case 1:
			p.Steps = append(p.Steps, probeStep{K: "add-peer", Store: st, ID: id})
		case 2:
			p.Steps = append(p.Steps, probeStep{K: "add-learner", Store: st, ID: id})
		case 3:
			p.Steps = append(p.Steps, probeStep{K: "add-light-peer", Store: st, ID: id})
		case 4:
			p.Steps = append(p.Steps, probeStep{K: "add-light-learner", Store: st, ID: id})
		case 5:
			p.Steps = append(p.Steps, probeStep{K: "promote", Store: st, ID: id})
		case 6:
			p.Steps = append(p.Steps, probeStep{K: "demote", Store: st, ID: id})
		case 7:
			p.Steps = append(p.Steps, probeStep{K: "remove", Store: st, ID: id})
		case 8:
			if joint {
				p.Steps = append(p.Steps, probeStep{K: "enter", PL: pairs(func(x string) bool { return x == "incoming" }), DV: pairs(func(x string) bool { return x == "demoting" })})
			} else {
				p.Steps = append(p.Steps, probeStep{K: "enter", PL: pairs(func(x string) bool { return x == "learner" }), DV: pairs(func(x string) bool { return x == "voter" && r.Pct(50) })})
			}
		case 9:
			if joint {
				p.Steps = append(p.Steps, probeStep{K: "leave", PL: pairs(func(x string) bool { return x == "incoming" }), DV: pairs(func(x string) bool { return x == "demoting" })})
			} else {
				p.Steps = append(p.Steps, probeStep{K: "leave", PL: pairs(func(x string) bool { return x == "voter" && r.Pct(40) }), DV: pairs(func(x string) bool { return x == "learner" })})
			}
		case 10:
			p.Steps = append(p.Steps, probeStep{K: "split"})
		case 11:
			p.Steps = append(p.Steps, probeStep{K: "merge"})
		case 12:
			p.Steps = append(p.Steps, probeStep{K: "merge-passive"})
		}
	}
	return p
}

type probeOut struct {
	In    probeIn      `json:"probe"`
	Trace []traceEntry `json:"trace"`
	coq   string
	kinds []string
}

func runProbe(rn *runner, p *probeIn) probeOut {
	meta := &metapb.Region{Id: 1, StartKey: []byte("a"), EndKey: []byte("b"), RegionEpoch: &metapb.RegionEpoch{ConfVer: p.ConfVer, Version: 3}}
	var leader *metapb.Peer
	for _, q := range p.Peers {
		mp := q.meta()
		meta.Peers = append(meta.Peers, mp)
		if q.Store == p.Leader {
			leader = mp
		}
	}
	region := core.NewRegionInfo(meta, leader)
	out := probeOut{In: *p}
	var steps []operator.OpStep
	var ss []string
	for _, s := range p.Steps {
		st := s.step(region)
		steps = append(steps, st)
		ss = append(ss, coqStep(st))
		out.kinds = append(out.kinds, stepName(st))
	}
	tr, js := rn.execute(region, steps)
	out.Trace = js
	out.coq = fmt.Sprintf("CProbe %s %s\n   %s", coqRegion(region, 0), coqfmt.List(ss), coqfmt.List(tr))
	return out
}

// runPending evaluates the real IsFinish of every step of the probe on the probe's region with a deterministic subset
// of its peers reported as pending (every second peer in region order, chosen by the probe's conf_ver parity).
func runPending(p *probeIn) string {
	meta := &metapb.Region{Id: 1, StartKey: []byte("a"), EndKey: []byte("b"), RegionEpoch: &metapb.RegionEpoch{ConfVer: p.ConfVer, Version: 3}}
	var leader *metapb.Peer
	var pending []*metapb.Peer
	var pendIDs []string
	for i, q := range p.Peers {
		mp := q.meta()
		meta.Peers = append(meta.Peers, mp)
		if q.Store == p.Leader {
			leader = mp
		}
		if (uint64(i)+p.ConfVer)%2 == 0 {
			pending = append(pending, mp)
			pendIDs = append(pendIDs, coqfmt.ZU(mp.Id))
		}
	}
	if len(pending) == 0 {
		return ""
	}
	plain := core.NewRegionInfo(meta, leader)
	region := plain.Clone(core.WithPendingPeers(pending))
	var ss, fins []string
	for _, s := range p.Steps {
		st := s.step(plain)
		ss = append(ss, coqStep(st))
		fins = append(fins, coqfmt.Bool(st.IsFinish(region)))
	}
	return fmt.Sprintf("CPend %s %s %s\n   %s", coqRegion(plain, 0), coqfmt.List(pendIDs), coqfmt.List(ss), coqfmt.List(fins))
}

func main() {
	seed := flag.Uint64("seed", 1, "")
	n := flag.Int("n", 4000, "number of random cases (5-6 stores; the same number again for 4 stores in the quick tier)")
	out := flag.String("out", ".", "output directory")
	tier := flag.String("tier", "quick", "")
	corpus := flag.String("corpus", "", "json file with a list of cases, run first")
	replay := flag.String("replay", "", "json file with one case (or a list): run and print plan and trace")
	enumMax := flag.Int("enum", 0, "exhaustive enumeration up to this many stores (default 3 quick, 4 thorough)")
	probes := flag.Int("probes", 3000, "number of step probes (random steps on random regions)")
	flag.Parse()
	log.ReplaceGlobals(zap.NewNop(), nil)

	ctx, cancel := context.WithCancel(context.Background())
	defer cancel()
	var storeIDs []uint64
	for i := uint64(0); i <= 12; i++ {
		storeIDs = append(storeIDs, i)
	}
	rec, err := tikvsim.NewRecorder(ctx, 7, storeIDs)
	if err != nil {
		fmt.Fprintln(os.Stderr, err)
		os.Exit(2)
	}
	dummy := mockcluster.NewCluster(ctx, config.NewTestOptions())
	rn := &runner{rec: rec, oc: schedule.NewOperatorController(ctx, dummy, rec.HB)}

	R := res.New("C08", *seed, *tier)
	R.Rule = "plans of the real operator.Builder on mockcluster: exhaustive over origin roles x leader x target roles x requested leader x " +
		"{joint, joint disabled, joint unsupported} for <= 3 (quick) / 4 (thorough) stores, random over 4-6 stores with store states, labels, " +
		"unhealthy peers, every Create*Operator helper and malformed call sequences; each plan is executed by the real OpStep methods + " +
		"real SendScheduleCommand + tikvsim; non-trivial = an operator with >= 2 steps was built; distinct by sha256 of the canonical case text"
	cf := &coqfmt.CaseFile{Dir: *out, Prefix: "C08", PerFile: 500,
		Header: "From Coq Require Import String.\nFrom PDV Require Import lib.Base model.C08_Steps model.C08_Builder.\nLocal Open Scope string_scope.\nLocal Open Scope list_scope.\nLocal Open Scope Z_scope.\n",
		Type:   "ccase",
		Footer: "Definition M := Eval vm_compute in map fst (mismatches cases).\nDefinition D := Eval vm_compute in hd_error (mismatches cases).\nDefinition V := Eval vm_compute in monitor_fails cases.\nPrint M. Print D. Print V.\n"}

	var all []caseOut
	seenRule := map[string]bool{}
	emitProbe := func(pi *probeIn) {
		po := runProbe(rn, pi)
		R.Count("gen:probe")
		for i, kd := range po.kinds {
			R.Count("probe-step:" + kd)
			te := po.Trace[i]
			switch {
			case te.FinBefor:
				R.Count("probe:already-finished")
			case te.Safe != "":
				R.Count("probe:unsafe")
			case te.Applied == "ok":
				R.Count("probe:applied")
			case te.Cmd == "" || te.Cmd == "None":
				R.Count("probe:nothing-sent")
			default:
				R.Count("probe:store-refused")
			}
		}
		R.Case(po.coq, false)
		if err := cf.Add(po.coq); err != nil {
			panic(err)
		}
		pc := po.In
		all = append(all, caseOut{Steps: []string{"probe"}, Trace: po.Trace, In: caseIn{Gen: "probe", Via: "probe", Origin: po.In.Peers, Leader: po.In.Leader, Probe: &pc}})
		// the same steps on the same region with some peers still pending (snapshot not applied yet): IsFinish only
		if pend := runPending(pi); pend != "" {
			R.Count("gen:pending-probe")
			R.Case(pend, false)
			if err := cf.Add(pend); err != nil {
				panic(err)
			}
			all = append(all, caseOut{Steps: []string{"pending-probe"}, In: caseIn{Gen: "pending-probe", Via: "probe", Origin: po.In.Peers, Leader: po.In.Leader, Probe: &pc}})
		}
	}
	emitServed := func() {
		o, err := servedScatterCase(rn)
		if err != nil {
			R.Notes = append(R.Notes, "grpc-scatter phase skipped: "+err.Error())
			return
		}
		R.Count("gen:grpc-scatter")
		R.Case(o.coq, true)
		if err := cf.Add(o.coq); err != nil {
			panic(err)
		}
		all = append(all, o)
	}
	emit := func(c *caseIn) {
		if c.Via == "grpc-scatter" {
			emitServed()
			return
		}
		if c.Via == "probe" {
			if c.Probe != nil {
				emitProbe(c.Probe)
			}
			return
		}
		o := runCase(rn, c)
		if o.skipped != "" {
			R.Count(o.skipped)
			return
		}
		if c.AllocFail > 0 {
			R.Count("alloc-failure:not-reached-or-plan-built")
		}
		R.Count("gen:" + c.Gen)
		R.Count("via:" + c.Via)
		R.Count(fmt.Sprintf("stores:%d", len(c.Stores)))
		mode := "joint"
		if !c.JointSupported {
			mode = "joint-unsupported"
		} else if !c.JointEnabled {
			mode = "joint-disabled"
		}
		R.Count("mode:" + mode)
		for _, s := range c.Stores {
			R.Count("store-state:" + s.State)
		}
		if o.Err != "" {
			R.Count("result:error")
			e := o.Err
			if i := strings.IndexAny(e, "0123456789:"); i > 0 {
				e = e[:i]
			}
			R.Count("error:" + strings.TrimSpace(e))
		} else {
			R.Count("result:built")
			R.Count(fmt.Sprintf("steps:%d", o.nstep))
			for _, k := range o.kinds {
				R.Count("step:" + k)
			}
		}
		R.Case(o.coq, o.nstep >= 2)
		if o.nstep >= 2 {
			R.Sample(o)
		}
		if err := cf.Add(o.coq); err != nil {
			panic(err)
		}
		all = append(all, o)
		for _, rl := range o.rules {
			if seenRule[rl] {
				continue
			}
			seenRule[rl] = true
			R.Count("gen:leader-target-rule")
			R.Case(rl, false)
			if err := cf.Add(rl); err != nil {
				panic(err)
			}
			all = append(all, caseOut{In: o.In, Steps: []string{rl}})
		}
		if o.execCoq != "" {
			R.Count("gen:executor")
			for _, e := range o.Exec {
				R.Count("exec:" + strings.SplitN(e.Event, ":", 2)[0])
			}
			R.Case(o.execCoq, len(o.Exec) > 3)
			if err := cf.Add(o.execCoq); err != nil {
				panic(err)
			}
			all = append(all, caseOut{In: o.In, Steps: o.Steps, Exec: o.Exec})
		}
	}

	for _, f := range []string{*corpus, *replay} {
		if f == "" {
			continue
		}
		b, err := os.ReadFile(f)
		if err != nil {
			panic(err)
		}
		var l []caseIn
		if err := json.Unmarshal(b, &l); err != nil {
			var one struct {
				Replay json.RawMessage `json:"replay"`
			}
			var c caseIn
			if json.Unmarshal(b, &one) == nil && len(one.Replay) > 0 {
				var co struct {
					In caseIn `json:"in"`
				}
				if err := json.Unmarshal(one.Replay, &co); err != nil {
					panic(err)
				}
				c = co.In
			} else if err := json.Unmarshal(b, &c); err != nil {
				panic(err)
			}
			l = []caseIn{c}
		}
		for i := range l {
			l[i].Gen = "corpus"
			emit(&l[i])
		}
	}
	if *replay != "" {
		for _, o := range all {
			b, _ := json.MarshalIndent(o, "", " ")
			fmt.Println(string(b))
		}
	} else {
		t0 := time.Now()
		emitServed()
		em := *enumMax
		if em == 0 {
			em = 3
			if *tier == "thorough" {
				em = 4
			}
		}
		for k := 1; k <= em; k++ {
			enumerate(k, emit)
		}
		master := rng.New(*seed)
		for k := 0; k < *n; k++ {
			r := master.Fork(uint64(k))
			emit(genRandom(r, 5+r.Intn(2)))
		}
		if em < 4 {
			for k := 0; k < *n; k++ {
				r := master.Fork(uint64(1000000 + k))
				emit(genRandom(r, 4))
			}
		}
		for k := 0; k < *probes; k++ {
			emitProbe(genProbe(master.Fork(uint64(5000000 + k))))
		}
		R.Notes = append(R.Notes, fmt.Sprintf("driver generated and executed %d cases in %.1fs", len(all), time.Since(t0).Seconds()))
	}
	if err := cf.Flush(); err != nil {
		panic(err)
	}
	R.CaseFiles = cf.Files
	b, _ := json.Marshal(all)
	os.WriteFile(path.Join(*out, "cases.json"), b, 0o644)
	if err := R.Write(path.Join(*out, "result.json")); err != nil {
		panic(err)
	}
}
