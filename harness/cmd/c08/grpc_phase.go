package main

// One fixed request through the gRPC layer of a REAL pd server.Server: Server.ScatterRegion in its single-region form,
// carrying the deprecated `region` / `leader` fields of a client whose cache is behind an election (the leader named in
// the request is the previous one; an election does not change the epoch). The operator the server builds and admits is
// then executed with the real step methods on the region AS PD HAS IT - the leader PD learnt from the heartbeat.
import (
	"context"
	"fmt"

	"github.com/pingcap/kvproto/pkg/metapb"
	"github.com/pingcap/kvproto/pkg/pdpb"
	"github.com/tikv/pd/server/config"
	"github.com/tikv/pd/server/core"
	"github.com/tikv/pd/server/schedule/operator"

	"pdverif/internal/coqfmt"
	"pdverif/internal/srv14"
)

func servedScatterCase(rn *runner) (caseOut, error) {
	out := caseOut{}
	srv, err := srv14.Start(func(cfg *config.Config) {
		cfg.Schedule.RegionScheduleLimit = 0
		cfg.Schedule.LeaderScheduleLimit = 0
		cfg.Schedule.ReplicaScheduleLimit = 0
		cfg.Schedule.HotRegionScheduleLimit = 0
		cfg.Schedule.MergeScheduleLimit = 0
	})
	if err != nil {
		return out, err
	}
	defer srv.Close()
	s := srv.S
	ctx := context.Background()
	if err := srv.Bootstrap(&metapb.Store{Id: 1, Address: "mock://1", Version: "2.0.0"}); err != nil {
		return out, err
	}
	for id := uint64(1); id <= 6; id++ {
		if _, err := s.PutStore(ctx, &pdpb.PutStoreRequest{Header: srv.Header(), Store: &metapb.Store{Id: id, Address: fmt.Sprintf("mock://%d", id), Version: "2.0.0"}}); err != nil {
			return out, err
		}
		if _, err := s.StoreHeartbeat(ctx, &pdpb.StoreHeartbeatRequest{Header: srv.Header(), Stats: &pdpb.StoreStats{StoreId: id, Capacity: 1 << 40, Available: 1 << 39}}); err != nil {
			return out, err
		}
	}
	rc := s.GetRaftCluster()
	epoch := &metapb.RegionEpoch{ConfVer: 5, Version: 5}
	// region 10 makes the stores 2, 5 and 6 "already used" in the scatter group
	r10 := &metapb.Region{Id: 10, StartKey: []byte(""), EndKey: []byte("m"), RegionEpoch: epoch,
		Peers: []*metapb.Peer{{Id: 102, StoreId: 2}, {Id: 105, StoreId: 5}, {Id: 106, StoreId: 6}}}
	if err := rc.HandleRegionHeartbeat(core.NewRegionInfo(r10, r10.Peers[0])); err != nil {
		return out, err
	}
	// region 20: peers on 1, 2, 3; the leader was on store 1 and has moved to store 2 - PD knows it from the heartbeat
	r20 := &metapb.Region{Id: 20, StartKey: []byte("m"), EndKey: []byte(""), RegionEpoch: epoch,
		Peers: []*metapb.Peer{{Id: 201, StoreId: 1}, {Id: 202, StoreId: 2}, {Id: 203, StoreId: 3}}}
	if err := rc.HandleRegionHeartbeat(core.NewRegionInfo(r20, r20.Peers[1])); err != nil {
		return out, err
	}
	// stores 3 and 4 take no leaders at the moment: the scatterer's choice of the target leader is store 1
	if err := rc.PauseLeaderTransfer(3); err != nil {
		return out, err
	}
	if err := rc.PauseLeaderTransfer(4); err != nil {
		return out, err
	}
	if _, err := s.ScatterRegion(ctx, &pdpb.ScatterRegionRequest{Header: srv.Header(), RegionId: 10, Group: "g"}); err != nil {
		return out, err
	}
	// the client still believes the leader is on store 1 and sends its copy of the region along
	resp, err := s.ScatterRegion(ctx, &pdpb.ScatterRegionRequest{Header: srv.Header(), RegionId: 20, Group: "g", Region: r20, Leader: r20.Peers[0]})
	if err != nil {
		return out, err
	}
	if e := resp.GetHeader().GetError(); e != nil {
		return out, fmt.Errorf("scatter: %v", e)
	}
	op := rc.GetOperatorController().GetOperator(20)
	if op == nil {
		return out, fmt.Errorf("the scatter of region 20 produced no operator")
	}
	var steps []operator.OpStep
	ss := make([]string, op.Len())
	for i := 0; i < op.Len(); i++ {
		steps = append(steps, op.Step(i))
		ss[i] = coqStep(op.Step(i))
		out.Steps = append(out.Steps, op.Step(i).String())
		out.kinds = append(out.kinds, stepName(op.Step(i)))
	}
	real := rc.GetRegion(20)
	rn.rec.Collect()
	var tr []string
	tr, out.Trace = rn.execute(real, steps)
	out.In = caseIn{Gen: "grpc-scatter", Via: "grpc-scatter", Leader: real.GetLeader().GetStoreId()}
	for _, p := range real.GetPeers() {
		out.In.Origin = append(out.In.Origin, peerSpec{Store: p.StoreId, ID: p.Id, Role: "voter"})
	}
	out.coq = fmt.Sprintf("CServed %s %s\n   %s", coqRegion(real, 0), coqfmt.List(ss), coqfmt.List(tr))
	out.nstep = len(steps)
	return out, nil
}
