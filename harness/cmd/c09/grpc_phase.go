package main

// One fixed history through the gRPC layer of a REAL pd server.Server (embedded etcd, bootstrapped cluster, schedulers
// and checkers switched off by their limits): region heartbeats enter through Server.RegionHeartbeat on a fake stream -
// the stream handler, RaftCluster.HandleRegionHeartbeat, the coordinator's operator controller and the server's own
// HeartbeatStreams are all the real ones. The heartbeat that reports a foreign change is the IMMEDIATE report a store
// sends after applying a configuration change: its report interval is empty ([t, t)).
import (
	"context"
	"fmt"
	"io"
	"time"

	"github.com/pingcap/kvproto/pkg/eraftpb"
	"github.com/pingcap/kvproto/pkg/metapb"
	"github.com/pingcap/kvproto/pkg/pdpb"
	"github.com/tikv/pd/server/config"
	"github.com/tikv/pd/server/core"
	"github.com/tikv/pd/server/schedule/operator"
	"google.golang.org/grpc"

	"pdverif/internal/coqfmt"
	"pdverif/internal/srv14"
	"pdverif/internal/tikvsim"
)

type fakeHB struct {
	grpc.ServerStream
	ctx  context.Context
	in   chan *pdpb.RegionHeartbeatRequest
	idle chan struct{} // the handler is back at Recv: the previous request has been dealt with completely
	out  chan *pdpb.RegionHeartbeatResponse
}

func (f *fakeHB) Context() context.Context { return f.ctx }
func (f *fakeHB) Recv() (*pdpb.RegionHeartbeatRequest, error) {
	f.idle <- struct{}{}
	r, ok := <-f.in
	if !ok {
		return nil, io.EOF
	}
	return r, nil
}
func (f *fakeHB) Send(m *pdpb.RegionHeartbeatResponse) error {
	f.out <- m
	return nil
}

const grpcSentinel = 1<<40 + 21

func grpcHeartbeatCase() (out caseOut, err error) {
	out = caseOut{stats: map[string]int{}}
	srv, err := srv14.Start(func(cfg *config.Config) {
		cfg.Schedule.RegionScheduleLimit = 0
		cfg.Schedule.LeaderScheduleLimit = 0
		cfg.Schedule.ReplicaScheduleLimit = 0
		cfg.Schedule.HotRegionScheduleLimit = 0
		cfg.Schedule.MergeScheduleLimit = 0
		cfg.Schedule.PatrolRegionInterval.Duration = time.Hour
	})
	if err != nil {
		return out, err
	}
	defer srv.Close()
	s := srv.S
	ctx := context.Background()
	if err := srv.Bootstrap(&metapb.Store{Id: 1, Address: "mock://1", Version: "5.0.0"}); err != nil {
		return out, err
	}
	for id := uint64(2); id <= 5; id++ {
		if _, err := s.PutStore(ctx, &pdpb.PutStoreRequest{Header: srv.Header(), Store: &metapb.Store{Id: id, Address: fmt.Sprintf("mock://%d", id), Version: "5.0.0"}}); err != nil {
			return out, err
		}
	}
	rc := s.GetRaftCluster()
	const rid = 900001
	peers := []*metapb.Peer{{Id: 900002, StoreId: 1}, {Id: 900012, StoreId: 2}, {Id: 900013, StoreId: 3}}
	meta := &metapb.Region{Id: rid, Peers: peers, RegionEpoch: &metapb.RegionEpoch{ConfVer: 3, Version: 1}}
	sim := tikvsim.New(core.NewRegionInfo(meta, peers[0]))

	f := &fakeHB{ctx: ctx, in: make(chan *pdpb.RegionHeartbeatRequest), idle: make(chan struct{}), out: make(chan *pdpb.RegionHeartbeatResponse, 256)}
	go func() { _ = s.RegionHeartbeat(f) }()
	<-f.idle
	now := uint64(time.Now().Unix())
	report := func(r *core.RegionInfo, start, end uint64) {
		f.in <- &pdpb.RegionHeartbeatRequest{Header: srv.Header(), Region: r.GetMeta(), Leader: r.GetLeader(),
			Interval: &pdpb.TimeInterval{StartTimestamp: start, EndTimestamp: end}}
		<-f.idle
	}
	// everything the store's stream has received so far, in order (a sentinel goes through the same FIFO)
	sl := &metapb.Peer{Id: 1, StoreId: 1}
	sentinel := core.NewRegionInfo(&metapb.Region{Id: grpcSentinel, Peers: []*metapb.Peer{sl}, RegionEpoch: &metapb.RegionEpoch{}}, sl)
	collect := func() []*pdpb.RegionHeartbeatResponse {
		s.GetHBStreams().SendMsg(sentinel, &pdpb.RegionHeartbeatResponse{})
		var ms []*pdpb.RegionHeartbeatResponse
		for {
			select {
			case m := <-f.out:
				if m.GetRegionId() == grpcSentinel {
					return ms
				}
				if m.GetRegionId() == 0 { // keep-alive or error note
					continue
				}
				ms = append(ms, m)
			case <-time.After(5 * time.Second):
				panic("grpc phase: sentinel lost")
			}
		}
	}

	c := &caseIn{JointSupported: true, JointEnabled: true, MaxWaiting: 5, Gen: "grpc-heartbeat", Scenario: "grpc-heartbeat"}
	w := &world{c: c, rc: rc, cl: rc, oc: rc.GetOperatorController(), sims: map[uint64]*tikvsim.Sim{rid: sim},
		history: map[uint64][]*core.RegionInfo{}, opID: map[*operator.Operator]int{}, dropped: map[uint64]*pdpb.RegionHeartbeatResponse{}, rids: []uint64{rid}}
	var evs, obsT []string
	rec := func(term string, o obs) {
		ot, js := w.snapshot(o)
		evs = append(evs, term)
		obsT = append(obsT, ot)
		js["event"] = term
		out.Trace = append(out.Trace, js)
	}
	// the region as the stores have it, reported by a periodic heartbeat (interval of a minute)
	r0 := sim.Region()
	report(r0, now-60, now)
	collect()
	rec(fmt.Sprintf("ERegion %s %s", coqfmt.ZU(rid), tikvsim.CoqRegion(r0, 1)), obs{Res: -1, Region: r0, RegVer: 1})
	// an operator on it
	op := operator.NewOperator("d1", "verif", rid, r0.GetRegionEpoch(), operator.OpRegion, operator.AddLearner{ToStore: 4, PeerID: 900044})
	w.ops = append(w.ops, op)
	w.opID[op] = 1
	rec(fmt.Sprintf("ECreate 1%%Z %s %s %s %s %s %s 1%%Z", coqfmt.ZU(rid), coqfmt.ZU(3), coqfmt.ZU(1),
		coqfmt.List([]string{tikvsim.CoqStep(op.Step(0), 1)}), coqfmt.Z(int64(op.GetPriorityLevel())), coqfmt.Bool(true)), obs{Res: -1})
	ok := w.oc.AddOperator(op)
	rec("EAdd [1%Z]", obs{Res: b2i(ok), Sent: collect()})
	// somebody else adds a learner on store 5; the store reports it at once: the report interval is empty
	fm := &pdpb.RegionHeartbeatResponse{ChangePeer: &pdpb.ChangePeer{ChangeType: eraftpb.ConfChangeType_AddLearnerNode,
		Peer: &metapb.Peer{Id: 900055, StoreId: 5, Role: metapb.PeerRole_Learner}}}
	d := "DAccepted"
	if err := sim.Apply(fm); err != nil {
		d = "DRejected"
	}
	r1 := sim.Region()
	rec(fmt.Sprintf("EForeign %s (%s)", coqfmt.ZU(rid), tikvsim.CoqCmdBody(fm)), obs{Res: -1, Region: r1, RegVer: 1, Deliver: d})
	report(r1, now, now)
	rec("EHeartbeat "+coqfmt.ZU(rid), obs{Res: -1, Sent: collect(), Region: r1, RegVer: 1})
	close(f.in)
	out.In = *c
	out.coq = fmt.Sprintf("(%s%%Z,\n  %s,\n  %s)", fmt.Sprint(c.MaxWaiting), coqfmt.List(evs), coqfmt.List(obsT))
	return out, nil
}
