// Driver for C09: a REAL schedule.OperatorController on mockcluster with a recording
// hbstream.HeartbeatStreams; operators come from the real operator.Builder (every step kind) or are
// assembled from explicit steps; the commands PD really sends are executed by harness/internal/tikvsim,
// foreign configuration changes, lost commands, heartbeats, active pushes, removals and the passing of
// time (back-dated status reach times) are interleaved at random. After every event the visible state
// (result, commands sent, running set, every operator's status, GetOperatorStatus per region, the
// store-side region) is printed as a Coq term for model/C09_OpCtl.v.
package main

import (
	"context"
	"encoding/json"
	"flag"
	"fmt"
	"os"
	"path"
	"reflect"
	"runtime"
	"sort"
	"strings"
	"sync"
	"time"

	"github.com/pingcap/kvproto/pkg/eraftpb"
	"github.com/pingcap/kvproto/pkg/metapb"
	"github.com/pingcap/kvproto/pkg/pdpb"
	"github.com/pingcap/log"
	"github.com/tikv/pd/pkg/cache"
	"github.com/tikv/pd/pkg/mock/mockcluster"
	"github.com/tikv/pd/pkg/mock/mockid"
	"github.com/tikv/pd/server/cluster"
	"github.com/tikv/pd/server/config"
	"github.com/tikv/pd/server/core"
	"github.com/tikv/pd/server/core/storelimit"
	"github.com/tikv/pd/server/kv"
	"github.com/tikv/pd/server/schedule"
	"github.com/tikv/pd/server/schedule/operator"
	"github.com/tikv/pd/server/schedule/opt"
	"github.com/tikv/pd/server/versioninfo"
	"go.uber.org/zap"

	"pdverif/internal/coqfmt"
	"pdverif/internal/res"
	"pdverif/internal/rng"
	"pdverif/internal/tikvsim"
)

const nStores = 6

type peerSpec struct {
	Store uint64 `json:"store"`
	ID    uint64 `json:"id"`
	Role  string `json:"role"`
}

var roleOfName = map[string]metapb.PeerRole{"voter": metapb.PeerRole_Voter, "learner": metapb.PeerRole_Learner,
	"incoming": metapb.PeerRole_IncomingVoter, "demoting": metapb.PeerRole_DemotingVoter}

func (p peerSpec) meta() *metapb.Peer {
	return &metapb.Peer{Id: p.ID, StoreId: p.Store, Role: roleOfName[p.Role]}
}

type stepSpec struct {
	K     string      `json:"k"`
	Store uint64      `json:"store,omitempty"`
	ID    uint64      `json:"id,omitempty"`
	From  uint64      `json:"from,omitempty"`
	PL    [][2]uint64 `json:"pl,omitempty"`
	DV    [][2]uint64 `json:"dv,omitempty"`
}

// one event of a history; everything needed to replay it is in here
type event struct {
	K   string `json:"k"` // region create add addw promote hb push remove deliver drop foreign age slow poke influence vanish pollgone break rebind (FStore)
	Rid uint64 `json:"rid,omitempty"`
	ID  int    `json:"id,omitempty"`
	IDs []int  `json:"ids,omitempty"`
	// region
	Peers   []peerSpec `json:"peers,omitempty"`
	Leader  uint64     `json:"leader,omitempty"`
	ConfVer uint64     `json:"conf_ver,omitempty"`
	Version uint64     `json:"version,omitempty"`
	// create
	Target  []peerSpec `json:"target,omitempty"`  // builder: SetPeers(target)
	TLeader uint64     `json:"tleader,omitempty"` // builder: SetLeader
	Steps   []stepSpec `json:"steps,omitempty"`   // explicit steps instead of the builder
	Level   int        `json:"level,omitempty"`   // 0 low 1 normal 2 high
	Desc    int        `json:"desc,omitempty"`
	Stale   int        `json:"stale,omitempty"` // build from the n-th older cached version of the region
	// foreign
	F      string `json:"f,omitempty"` // add-learner remove promote demote transfer split leave shadow
	FStore uint64 `json:"fstore,omitempty"`
	FID    uint64 `json:"fid,omitempty"`
	// poke: an exported status method of the *Operator is called directly
	P string `json:"p,omitempty"` // start cancel replace check-expired check-timeout check-success check
}

type caseIn struct {
	JointSupported bool    `json:"joint_supported"`
	JointEnabled   bool    `json:"joint_enabled"`
	SameIDs        bool    `json:"same_ids"` // peer ids equal store ids (as PD's unit tests build regions)
	MaxWaiting     int     `json:"max_waiting"`
	AllocBase      int     `json:"alloc_base,omitempty"` // ids the mock allocator hands out start above this
	// Raft: the controller is the coordinator's one of a real cluster.RaftCluster (InitCluster over a BasicCluster and a
	// core.Storage whose kv can be made to fail its writes); heartbeats go through RaftCluster.HandleRegionHeartbeat
	Raft bool `json:"raft,omitempty"`
	// Scenario names a fixed history that is not made of driver events ("grpc-heartbeat": grpc_phase.go)
	Scenario string `json:"scenario,omitempty"`
	Events         []event `json:"events"`
	Gen            string  `json:"gen,omitempty"`
}

// faultyKV fails every write while the fault is on (PD's meta storage is unreachable)
type faultyKV struct {
	kv.Base
	fail bool
}

func (f *faultyKV) Save(k, v string) error {
	if f.fail {
		return fmt.Errorf("kv: write failed")
	}
	return f.Base.Save(k, v)
}
func (f *faultyKV) Remove(k string) error {
	if f.fail {
		return fmt.Errorf("kv: write failed")
	}
	return f.Base.Remove(k)
}

// hookStep is a step of an operator that tells the harness when the controller looks at it: the first time IsFinish is
// called from Dispatch after arming (not from pollNeedDispatchRegion, which holds the controller's lock), the callback
// runs - in the middle of a PushOperators round. SendScheduleCommand does not know the type and sends nothing,
// as for the passive merge step it wraps.
type hookCtl struct {
	armed bool
	count int
	fire  func()
}

func calledFrom(fn string) bool {
	pcs := make([]uintptr, 32)
	n := runtime.Callers(2, pcs)
	frames := runtime.CallersFrames(pcs[:n])
	for {
		f, more := frames.Next()
		if strings.HasSuffix(f.Function, fn) {
			return true
		}
		if !more {
			return false
		}
	}
}
type hookStep struct {
	operator.OpStep
	ctl *hookCtl
}

func (h hookStep) IsFinish(r *core.RegionInfo) bool {
	if h.ctl.armed && calledFrom("(*OperatorController).Dispatch") {
		h.ctl.armed = false
		h.ctl.fire()
	}
	return h.OpStep.IsFinish(r)
}

type world struct {
	hook    *hookCtl
	c       *caseIn
	tc      *mockcluster.Cluster // mock mode
	rc      *cluster.RaftCluster // raft mode
	bc      *core.BasicCluster
	fkv     *faultyKV
	cl      opt.Cluster
	oc      *schedule.OperatorController
	rec     *tikvsim.Recorder
	cancel  context.CancelFunc
	sims    map[uint64]*tikvsim.Sim
	history map[uint64][]*core.RegionInfo // cached versions per region, oldest first
	rids    []uint64
	ops     []*operator.Operator // id = index+1
	opID    map[*operator.Operator]int
	created []string // Coq ECreate terms by op (for events that failed to build: "")
	inbox   []*pdpb.RegionHeartbeatResponse
	dropped map[uint64]*pdpb.RegionHeartbeatResponse // last dropped command per region (foreign "shadow" replays its body)
	nextPID uint64
}

func newRaftWorld(c *caseIn, rec *tikvsim.Recorder) *world {
	ctx, cancel := context.WithCancel(context.Background())
	opts := config.NewTestOptions()
	if c.JointSupported {
		opts.SetClusterVersion(versioninfo.MinSupportedVersion(versioninfo.JointConsensus))
	} else {
		opts.SetClusterVersion(versioninfo.MinSupportedVersion(versioninfo.Version4_0))
	}
	sc := opts.GetScheduleConfig().Clone()
	sc.EnableJointConsensus = c.JointEnabled
	sc.SchedulerMaxWaitingOperator = uint64(c.MaxWaiting)
	opts.SetScheduleConfig(sc)
	opts.SetPlacementRuleEnabled(false)
	bc := core.NewBasicCluster()
	for s := uint64(1); s <= nStores; s++ {
		bc.PutStore(core.NewStoreInfo(&metapb.Store{Id: s, Address: fmt.Sprintf("mock://%d", s), Version: "5.0.0"}, core.SetLastHeartbeatTS(time.Now())))
	}
	fkv := &faultyKV{Base: kv.NewMemoryKV()}
	rc := cluster.NewRaftCluster(ctx, "", 1, nil, nil, nil)
	rc.InitCluster(mockid.NewIDAllocator(), opts, core.NewStorage(fkv), bc)
	for i := 0; i < c.AllocBase; i++ {
		_, _ = rc.AllocID()
	}
	rec.Reset()
	rec.Collect()
	return &world{c: c, rc: rc, bc: bc, fkv: fkv, cl: rc, oc: rc.VerifC09Coordinator(rec.HB), rec: rec, cancel: cancel,
		sims: map[uint64]*tikvsim.Sim{}, history: map[uint64][]*core.RegionInfo{}, opID: map[*operator.Operator]int{},
		dropped: map[uint64]*pdpb.RegionHeartbeatResponse{}, nextPID: 1000}
}

func newWorld(c *caseIn, rec *tikvsim.Recorder) *world {
	if c.Raft {
		return newRaftWorld(c, rec)
	}
	ctx, cancel := context.WithCancel(context.Background())
	opts := config.NewTestOptions()
	tc := mockcluster.NewCluster(ctx, opts)
	if !c.JointSupported {
		tc.DisableFeature(versioninfo.JointConsensus)
	}
	sc := tc.GetScheduleConfig().Clone()
	sc.EnableJointConsensus = c.JointEnabled
	sc.SchedulerMaxWaitingOperator = uint64(c.MaxWaiting)
	tc.SetScheduleConfig(sc)
	for s := uint64(1); s <= nStores; s++ {
		tc.AddLabelsStore(s, 1, map[string]string{})
		tc.SetStoreLimit(s, storelimit.AddPeer, 6e7)
		tc.SetStoreLimit(s, storelimit.RemovePeer, 6e7)
	}
	if c.AllocBase > 0 {
		for i := 0; i < c.AllocBase; i++ {
			_, _ = tc.AllocID() // allocated peer ids start above the store ids
		}
	}
	rec.Reset()
	rec.Collect() // nothing of an earlier case may leak into this one
	return &world{c: c, tc: tc, cl: tc, oc: schedule.NewOperatorController(ctx, tc, rec.HB), rec: rec, cancel: cancel,
		sims: map[uint64]*tikvsim.Sim{}, history: map[uint64][]*core.RegionInfo{}, opID: map[*operator.Operator]int{},
		dropped: map[uint64]*pdpb.RegionHeartbeatResponse{}, nextPID: 1000}
}

// recordStoreProbe drives the TTL store that keeps the operator records (pkg/cache, the constructor NewOperatorRecords
// uses) the way buryOperator and its collector do, only faster: n keys get an entry that expires at once and stays in the
// map until the next collection; then every key is written again (a new operator of the region has just left the running
// set) by four writers while the collector passes; afterwards every fresh entry must be there. Returns how many are not.
func recordStoreProbe(n int) int64 {
	ctx, cancel := context.WithCancel(context.Background())
	defer cancel()
	c := cache.NewIDTTL(ctx, time.Millisecond, time.Hour)
	lost := int64(0)
	for r := 0; r < 5; r++ {
		base := uint64(r * n)
		for i := 0; i < n; i++ {
			c.PutWithTTL(base+uint64(i), 0, 2*time.Millisecond)
		}
		time.Sleep(2 * time.Millisecond)
		var wg sync.WaitGroup
		for g := 0; g < 4; g++ {
			wg.Add(1)
			go func(g int) {
				defer wg.Done()
				for i := g; i < n; i += 4 {
					c.Put(base+uint64(i), r+1)
				}
			}(g)
		}
		wg.Wait()
		time.Sleep(5 * time.Millisecond)
		for i := 0; i < n; i++ {
			if _, ok := c.Get(base + uint64(i)); !ok {
				lost++
			}
		}
	}
	return lost
}

// pushRoundCase: two running operators are due in the same round of the real PushOperators; while the round is busy with
// the first region, the heartbeat that reports the second operator's applied step is processed. The second region must
// then be pushed with the region as it is cached at ITS turn (epoch and leader of the heartbeat), not as it was when the
// round began.
func pushRoundCase() *caseIn {
	vs := func(base uint64) []peerSpec {
		return []peerSpec{{Store: 1, ID: base + 1, Role: "voter"}, {Store: 2, ID: base + 2, Role: "voter"}, {Store: 3, ID: base + 3, Role: "voter"}}
	}
	return &caseIn{JointSupported: true, JointEnabled: true, MaxWaiting: 5, Gen: "push-round", Events: []event{
		{K: "region", Rid: 10, Peers: vs(1000), Leader: 1, ConfVer: 5, Version: 2},
		{K: "region", Rid: 11, Peers: vs(1100), Leader: 1, ConfVer: 5, Version: 2},
		{K: "create", Rid: 10, Level: 1, Desc: 1, Steps: []stepSpec{{K: "hook-merge-passive"}}},
		{K: "create", Rid: 11, Level: 1, Desc: 2, Steps: []stepSpec{{K: "add-learner", Store: 4, ID: 1104}, {K: "promote", Store: 4, ID: 1104}}},
		{K: "add", IDs: []int{1}},
		{K: "add", IDs: []int{2}},
		{K: "deliver", Rid: 11},
		{K: "wait", ID: 5100},
		{K: "pushround", Rid: 10, FStore: 11},
		{K: "deliver", Rid: 11},
		{K: "deliver", Rid: 11},
		{K: "hb", Rid: 11},
	}}
}

// the exported methods of *OperatorController the driver and the model know (= the regenerated obligation
// controller_entry_points_ok); anything else that can be called without arguments is an entry point nobody modelled
var knownEntryPoints = map[string]bool{"AddOperator": true, "AddWaitingOperator": true, "Ctx": true, "Dispatch": true, "ExceedStoreLimit": true,
	"GetCluster": true, "GetFastOpInfluence": true, "GetHistory": true, "GetLeaderSchedulePolicy": true, "GetOpInfluence": true, "GetOperator": true,
	"GetOperatorStatus": true, "GetOperators": true, "GetWaitingOperators": true, "OperatorCount": true, "PromoteWaitingOperator": true,
	"PruneHistory": true, "PushOperators": true, "RemoveOperator": true, "SendScheduleCommand": true, "SetOperator": true,
	// promoted from the embedded sync.RWMutex
	"Lock": true, "Unlock": true, "RLock": true, "RUnlock": true, "RLocker": true, "TryLock": true, "TryRLock": true}

// entryRace: every unknown exported method of the controller that needs no argument (only variadic ones at most) is
// called in a loop while four goroutines add n operators (one region each). Afterwards every operator must be running,
// or ended AND remembered under its region. Returns the number of operators for which that is false (0 when the
// controller has no unknown entry point - the unchanged tree).
func (w *world) entryRace(n int) int64 {
	ocv := reflect.ValueOf(w.oc)
	var unknown []reflect.Value
	for i := 0; i < ocv.NumMethod(); i++ {
		m := ocv.Type().Method(i)
		if knownEntryPoints[m.Name] {
			continue
		}
		mt := ocv.Method(i).Type()
		if mt.NumIn() == 0 || (mt.NumIn() == 1 && mt.IsVariadic()) {
			unknown = append(unknown, ocv.Method(i))
		}
	}
	if len(unknown) == 0 {
		return 0
	}
	var ops []*operator.Operator
	for i := 0; i < n; i++ {
		rid := uint64(5000 + i)
		meta := &metapb.Region{Id: rid, StartKey: []byte(fmt.Sprintf("z%05d", i)), EndKey: []byte(fmt.Sprintf("z%05d", i+1)),
			RegionEpoch: &metapb.RegionEpoch{ConfVer: 3, Version: 1},
			Peers: []*metapb.Peer{{Id: 3*rid + 1, StoreId: 1}, {Id: 3*rid + 2, StoreId: 2}, {Id: 3*rid + 3, StoreId: 3}}}
		r := core.NewRegionInfo(meta, meta.Peers[0])
		w.putRegion(r)
		ops = append(ops, operator.NewOperator("race", "verif", rid, r.GetRegionEpoch(), operator.OpLeader, operator.TransferLeader{FromStore: 1, ToStore: 2}))
	}
	stop := make(chan struct{})
	var wg sync.WaitGroup
	wg.Add(1)
	go func() {
		defer wg.Done()
		for {
			select {
			case <-stop:
				return
			default:
			}
			for _, m := range unknown {
				m.Call(nil)
			}
		}
	}()
	var ag sync.WaitGroup
	for g := 0; g < 4; g++ {
		ag.Add(1)
		go func(g int) {
			defer ag.Done()
			for i := g; i < n; i += 4 {
				w.oc.AddOperator(ops[i])
			}
		}(g)
	}
	ag.Wait()
	close(stop)
	wg.Wait()
	w.rec.Collect()
	lost := int64(0)
	for _, op := range ops {
		if w.oc.GetOperator(op.RegionID()) == op {
			continue
		}
		if op.Status() == operator.CREATED { // never admitted: not the property's business
			continue
		}
		st := w.oc.GetOperatorStatus(op.RegionID())
		if !operator.IsEndStatus(op.Status()) || st == nil || st.Op != op {
			lost++
		}
	}
	for _, op := range ops {
		w.oc.RemoveOperator(op)
		w.removeRegion(w.cl.GetRegion(op.RegionID()))
	}
	w.rec.Collect()
	return lost
}

func (w *world) putRegion(r *core.RegionInfo) {
	if w.rc != nil {
		w.bc.PutRegion(r)
	} else {
		w.tc.PutRegion(r)
	}
}

func (w *world) removeRegion(r *core.RegionInfo) {
	if w.rc != nil {
		w.bc.RemoveRegion(r)
	} else {
		w.tc.RemoveRegion(r)
	}
}

func (w *world) version(rid uint64) int64 { return int64(w.sims[rid].Meta.GetRegionEpoch().GetVersion()) }

func (w *world) mkStepW(s stepSpec, rngID int64, region *core.RegionInfo) operator.OpStep {
	if s.K == "hook-merge-passive" {
		if w.hook == nil {
			w.hook = &hookCtl{}
		}
		return hookStep{OpStep: mkStep(stepSpec{K: "merge-passive"}, rngID, region), ctl: w.hook}
	}
	return mkStep(s, rngID, region)
}

func unhook(s operator.OpStep) operator.OpStep {
	if h, ok := s.(hookStep); ok {
		return h.OpStep
	}
	return s
}

func mkStep(s stepSpec, rngID int64, region *core.RegionInfo) operator.OpStep {
	pl := func(xs [][2]uint64) []operator.PromoteLearner {
		out := []operator.PromoteLearner{}
		for _, x := range xs {
			out = append(out, operator.PromoteLearner{ToStore: x[0], PeerID: x[1]})
		}
		return out
	}
	dv := func(xs [][2]uint64) []operator.DemoteVoter {
		out := []operator.DemoteVoter{}
		for _, x := range xs {
			out = append(out, operator.DemoteVoter{ToStore: x[0], PeerID: x[1]})
		}
		return out
	}
	switch s.K {
	case "transfer":
		return operator.TransferLeader{FromStore: s.From, ToStore: s.Store}
	case "add-peer":
		return operator.AddPeer{ToStore: s.Store, PeerID: s.ID}
	case "add-learner":
		return operator.AddLearner{ToStore: s.Store, PeerID: s.ID}
	case "add-light-peer":
		return operator.AddLightPeer{ToStore: s.Store, PeerID: s.ID}
	case "add-light-learner":
		return operator.AddLightLearner{ToStore: s.Store, PeerID: s.ID}
	case "promote":
		return operator.PromoteLearner{ToStore: s.Store, PeerID: s.ID}
	case "demote":
		return operator.DemoteFollower{ToStore: s.Store, PeerID: s.ID}
	case "remove":
		return operator.RemovePeer{FromStore: s.Store, PeerID: s.ID}
	case "enter":
		return operator.ChangePeerV2Enter{PromoteLearners: pl(s.PL), DemoteVoters: dv(s.DV)}
	case "leave":
		return operator.ChangePeerV2Leave{PromoteLearners: pl(s.PL), DemoteVoters: dv(s.DV)}
	case "split":
		return operator.SplitRegion{StartKey: region.GetStartKey(), EndKey: region.GetEndKey(), Policy: pdpb.CheckPolicy_USEKEY, SplitKeys: [][]byte{[]byte("m")}}
	case "merge-passive":
		return operator.MergeRegion{FromRegion: &metapb.Region{Id: 999}, ToRegion: region.GetMeta(), IsPassive: true}
	}
	panic("bad step " + s.K)
}

type obs struct {
	Res     int64
	Sent    []*pdpb.RegionHeartbeatResponse
	Region  *core.RegionInfo
	RegVer  int64
	Deliver string // DAccepted DStale DRejected DNone
}

func (w *world) snapshot(o obs) (string, map[string]interface{}) {
	sent := make([]string, len(o.Sent))
	for i, m := range o.Sent {
		sent[i] = tikvsim.CoqMsg(m)
	}
	var running []string
	runJS := map[string]int{}
	type kv struct {
		rid uint64
		id  int
	}
	var rs []kv
	for _, op := range w.oc.GetOperators() {
		rs = append(rs, kv{op.RegionID(), w.opID[op]})
	}
	sort.Slice(rs, func(i, j int) bool { return rs[i].rid < rs[j].rid })
	for _, r := range rs {
		running = append(running, coqfmt.Pair(coqfmt.ZU(r.rid), coqfmt.Z(int64(r.id))))
		runJS[fmt.Sprint(r.rid)] = r.id
	}
	var sts []string
	stJS := []string{}
	for i, op := range w.ops {
		if op == nil {
			continue
		}
		name := strings.ToUpper(operator.OpStatusToString(op.Status()))
		sts = append(sts, coqfmt.Pair(coqfmt.Z(int64(i+1)), name))
		stJS = append(stJS, fmt.Sprintf("%d:%s", i+1, name))
	}
	var qs []string
	rids := append([]uint64{}, w.rids...)
	sort.Slice(rids, func(i, j int) bool { return rids[i] < rids[j] })
	for _, rid := range rids {
		if q := w.oc.GetOperatorStatus(rid); q != nil {
			qs = append(qs, coqfmt.Pair(coqfmt.ZU(rid), coqfmt.Pair(coqfmt.Z(int64(w.opID[q.Op])), coqfmt.Z(int64(q.Status)))))
		}
	}
	reg := "None"
	if o.Region != nil {
		reg = "(Some " + tikvsim.CoqRegion(o.Region, o.RegVer) + ")"
	}
	if o.Deliver == "" {
		o.Deliver = "DNone"
	}
	term := fmt.Sprintf("Obs %s %s %s %s %s %s %s", coqfmt.Z(o.Res), coqfmt.List(sent), coqfmt.List(running), coqfmt.List(sts), coqfmt.List(qs), reg, o.Deliver)
	return term, map[string]interface{}{"res": o.Res, "sent": sent, "running": runJS, "status": stJS, "region": reg, "deliver": o.Deliver}
}

func (w *world) collect() []*pdpb.RegionHeartbeatResponse {
	ms := w.rec.Collect()
	w.inbox = append(w.inbox, ms...)
	return ms
}

func (w *world) opsOf(ids []int) []*operator.Operator {
	var out []*operator.Operator
	for _, id := range ids {
		if id >= 1 && id <= len(w.ops) && w.ops[id-1] != nil {
			out = append(out, w.ops[id-1])
		}
	}
	return out
}

func foreignMsg(sim *tikvsim.Sim, e event, dropped *pdpb.RegionHeartbeatResponse) *pdpb.RegionHeartbeatResponse {
	find := func(st uint64) *metapb.Peer {
		for _, p := range sim.Meta.Peers {
			if p.StoreId == st {
				return p
			}
		}
		return nil
	}
	switch e.F {
	case "add-learner":
		return &pdpb.RegionHeartbeatResponse{ChangePeer: &pdpb.ChangePeer{ChangeType: eraftpb.ConfChangeType_AddLearnerNode,
			Peer: &metapb.Peer{Id: e.FID, StoreId: e.FStore, Role: metapb.PeerRole_Learner}}}
	case "remove":
		return &pdpb.RegionHeartbeatResponse{ChangePeer: &pdpb.ChangePeer{ChangeType: eraftpb.ConfChangeType_RemoveNode, Peer: find(e.FStore)}}
	case "promote":
		return &pdpb.RegionHeartbeatResponse{ChangePeer: &pdpb.ChangePeer{ChangeType: eraftpb.ConfChangeType_AddNode,
			Peer: &metapb.Peer{Id: find(e.FStore).GetId(), StoreId: e.FStore, Role: metapb.PeerRole_Voter}}}
	case "demote":
		return &pdpb.RegionHeartbeatResponse{ChangePeer: &pdpb.ChangePeer{ChangeType: eraftpb.ConfChangeType_AddLearnerNode,
			Peer: &metapb.Peer{Id: find(e.FStore).GetId(), StoreId: e.FStore, Role: metapb.PeerRole_Learner}}}
	case "transfer":
		return &pdpb.RegionHeartbeatResponse{TransferLeader: &pdpb.TransferLeader{Peer: find(e.FStore)}}
	case "split":
		return &pdpb.RegionHeartbeatResponse{SplitRegion: &pdpb.SplitRegion{}}
	case "leave":
		return &pdpb.RegionHeartbeatResponse{ChangePeerV2: &pdpb.ChangePeerV2{}}
	case "shadow":
		// somebody else issues exactly the command of the operator that was lost on the way (body only: no epoch, no target)
		if dropped == nil {
			return &pdpb.RegionHeartbeatResponse{TransferLeader: &pdpb.TransferLeader{Peer: sim.Leader}}
		}
		return &pdpb.RegionHeartbeatResponse{ChangePeer: dropped.ChangePeer, ChangePeerV2: dropped.ChangePeerV2, TransferLeader: dropped.TransferLeader,
			Merge: dropped.Merge, SplitRegion: dropped.SplitRegion}
	}
	panic("bad foreign " + e.F)
}

// exec runs one event on the real code; returns the Coq event term and the observation
func (w *world) exec(e event) (string, obs) {
	// a replayed history may name operators that were never built on this tree (the history was recorded on another
	// one): such references are dropped, an event left without operator is not part of the history
	exists := func(id int) bool { return id >= 1 && id <= len(w.ops) && w.ops[id-1] != nil }
	switch e.K {
	case "hb", "foreign":
		if w.sims[e.Rid] == nil { // the region was merged away: nobody reports or changes it any more
			if e.K == "hb" {
				return "EHeartbeat " + coqfmt.ZU(e.Rid), obs{Res: -1}
			}
			return "", obs{}
		}
	case "deliver":
		if w.sims[e.Rid] == nil {
			return "EDeliver " + coqfmt.ZU(e.Rid), obs{Res: -1}
		}
	}
	switch e.K {
	case "recordstore":
		return "ERecordStore " + coqfmt.Z(int64(e.ID)), obs{Res: recordStoreProbe(e.ID)}
	case "stalehb":
		// a delayed report of an older state of the region (strictly lower epoch than PD's cache) goes through the real
		// RaftCluster.HandleRegionHeartbeat: it is refused and must not reach the operator controller
		if w.rc == nil {
			return "", obs{}
		}
		h := w.history[e.Rid]
		cached := w.cl.GetRegion(e.Rid)
		if cached == nil || e.Stale <= 0 || e.Stale >= len(h) {
			return "", obs{}
		}
		old := h[len(h)-1-e.Stale]
		oe, ce := old.GetRegionEpoch(), cached.GetRegionEpoch()
		if !(oe.GetVersion() < ce.GetVersion() || oe.GetConfVer() < ce.GetConfVer()) || oe.GetVersion() > ce.GetVersion() || oe.GetConfVer() > ce.GetConfVer() {
			return "", obs{}
		}
		_ = w.rc.HandleRegionHeartbeat(old)
		return "EStaleReport " + coqfmt.ZU(e.Rid), obs{Res: -1, Sent: w.collect()}
	case "entryrace":
		return "EEntryRace " + coqfmt.Z(int64(e.ID)), obs{Res: w.entryRace(e.ID)}
	case "kvfault":
		if w.fkv != nil {
			w.fkv.fail = e.P == "on"
		}
		return "", obs{}
	case "break":
		w.rec.Break(e.FStore)
		return "EBreak " + coqfmt.ZU(e.FStore), obs{Res: -1}
	case "rebind":
		// everything the store's new stream receives on its own is part of the observation
		got := w.rec.Rebind(e.FStore)
		got = append(got, w.collect()...)
		return "ERebind " + coqfmt.ZU(e.FStore), obs{Res: -1, Sent: got}
	case "influence":
		w.oc.GetOpInfluence(w.cl)
		return "EInfluence", obs{Res: -1}
	case "vanish":
		sim := w.sims[e.Rid]
		if sim == nil {
			return "", obs{}
		}
		w.removeRegion(w.cl.GetRegion(e.Rid))
		delete(w.sims, e.Rid)
		return "EVanish " + coqfmt.ZU(e.Rid), obs{Res: -1}
	case "pollgone":
		// PushOperators examines the earliest entry of its queue first; with a single running operator whose region PD no
		// longer knows that entry is this operator's (entries of operators that left the running set are skipped)
		running := w.oc.GetOperators()
		if len(running) != 1 || running[0].RegionID() != e.Rid || w.cl.GetRegion(e.Rid) != nil {
			return "", obs{}
		}
		w.oc.PushOperators()
		return "EPollGone " + coqfmt.ZU(e.Rid), obs{Res: -1, Sent: w.collect()}
	case "add", "addw":
		var ids []int
		for _, id := range e.IDs {
			if exists(id) {
				ids = append(ids, id)
			}
		}
		if len(ids) == 0 {
			return "", obs{}
		}
		e.IDs = ids
	case "remove", "poke", "age", "slow":
		if !exists(e.ID) {
			return "", obs{}
		}
	}
	switch e.K {
	case "region":
		meta := &metapb.Region{Id: e.Rid, StartKey: []byte(fmt.Sprintf("k%02d", e.Rid)), EndKey: []byte(fmt.Sprintf("k%02d", e.Rid+1)),
			RegionEpoch: &metapb.RegionEpoch{ConfVer: e.ConfVer, Version: e.Version}}
		var leader *metapb.Peer
		for _, p := range e.Peers {
			mp := p.meta()
			meta.Peers = append(meta.Peers, mp)
			if p.Store == e.Leader {
				leader = mp
			}
		}
		r := core.NewRegionInfo(meta, leader)
		w.sims[e.Rid] = tikvsim.New(r)
		w.putRegion(r)
		w.history[e.Rid] = append(w.history[e.Rid], r)
		w.rids = append(w.rids, e.Rid)
		return fmt.Sprintf("ERegion %s %s", coqfmt.ZU(e.Rid), tikvsim.CoqRegion(r, int64(e.Version))), obs{Res: -1, Region: r, RegVer: int64(e.Version)}
	case "create":
		h := w.history[e.Rid]
		region := h[len(h)-1]
		if e.Stale > 0 && e.Stale < len(h) {
			region = h[len(h)-1-e.Stale]
		}
		desc := fmt.Sprintf("d%d", e.Desc)
		var op *operator.Operator
		var err error
		if len(e.Steps) > 0 {
			var steps []operator.OpStep
			kind := operator.OpKind(0)
			for _, s := range e.Steps {
				steps = append(steps, w.mkStepW(s, int64(region.GetRegionEpoch().GetVersion()), region))
				if strings.HasPrefix(s.K, "add") || s.K == "remove" {
					kind |= operator.OpRegion
				}
			}
			op = operator.NewOperator(desc, "verif", e.Rid, region.GetRegionEpoch(), kind, steps...)
		} else {
			peers := map[uint64]*metapb.Peer{}
			for _, p := range e.Target {
				peers[p.Store] = p.meta()
			}
			b := operator.NewBuilder(desc, w.cl, region, operator.SkipOriginJointStateCheck).SetPeers(peers)
			if e.TLeader != 0 {
				b = b.SetLeader(e.TLeader)
			}
			op, err = b.Build(0)
		}
		w.ops = append(w.ops, op)
		id := len(w.ops)
		if err != nil || op == nil {
			w.ops[id-1] = nil
			return "", obs{}
		}
		w.opID[op] = id
		switch e.Level {
		case 0:
			op.SetPriorityLevel(core.LowPriority)
		case 2:
			op.SetPriorityLevel(core.HighPriority)
		}
		steps := make([]string, op.Len())
		for i := range steps {
			steps[i] = tikvsim.CoqStep(unhook(op.Step(i)), int64(region.GetRegionEpoch().GetVersion()))
		}
		return fmt.Sprintf("ECreate %s %s %s %s %s %s %s %s", coqfmt.Z(int64(id)), coqfmt.ZU(e.Rid), coqfmt.ZU(op.RegionEpoch().GetConfVer()),
			coqfmt.ZU(op.RegionEpoch().GetVersion()), coqfmt.List(steps), coqfmt.Z(int64(op.GetPriorityLevel())),
			coqfmt.Bool(op.Kind()&operator.OpRegion != 0), coqfmt.Z(int64(e.Desc))), obs{Res: -1}
	case "add":
		ok := w.oc.AddOperator(w.opsOf(e.IDs)...)
		return "EAdd " + intList(e.IDs), obs{Res: b2i(ok), Sent: w.collect()}
	case "addw":
		n := w.oc.AddWaitingOperator(w.opsOf(e.IDs)...)
		return "EAddWaiting " + intList(e.IDs), obs{Res: int64(n), Sent: w.collect()}
	case "promote":
		w.oc.PromoteWaitingOperator()
		return "EPromote", obs{Res: -1, Sent: w.collect()}
	case "hb":
		sim := w.sims[e.Rid]
		r := sim.Region()
		w.history[e.Rid] = append(w.history[e.Rid], r)
		if w.rc != nil {
			// the real heartbeat path: processRegionHeartbeat (cache, storage) and then Dispatch
			_ = w.rc.HandleRegionHeartbeat(r)
		} else {
			w.tc.PutRegion(r)
			w.oc.Dispatch(r, schedule.DispatchFromHeartBeat)
		}
		return "EHeartbeat " + coqfmt.ZU(e.Rid), obs{Res: -1, Sent: w.collect(), Region: r, RegVer: w.version(e.Rid)}
	case "push":
		if r := w.cl.GetRegion(e.Rid); r != nil {
			w.oc.Dispatch(r, schedule.DispatchFromNotifierQueue)
		}
		return "EPush " + coqfmt.ZU(e.Rid), obs{Res: -1, Sent: w.collect()}
	case "remove":
		ok := w.oc.RemoveOperator(w.ops[e.ID-1])
		return "ERemove " + coqfmt.Z(int64(e.ID)), obs{Res: b2i(ok), Sent: w.collect()}
	case "deliver", "drop":
		idx := -1
		for i, m := range w.inbox {
			if m.GetRegionId() == e.Rid {
				idx = i
				break
			}
		}
		name := "EDeliver "
		if e.K == "drop" {
			name = "EDrop "
		}
		if idx < 0 {
			return name + coqfmt.ZU(e.Rid), obs{Res: -1}
		}
		m := w.inbox[idx]
		w.inbox = append(w.inbox[:idx:idx], w.inbox[idx+1:]...)
		if e.K == "drop" {
			w.dropped[e.Rid] = m
			return name + coqfmt.ZU(e.Rid), obs{Res: -1}
		}
		sim := w.sims[e.Rid]
		d := "DAccepted"
		if err := sim.CheckAddress(m); err != nil {
			d = "DStale"
		} else if err := sim.Apply(m); err != nil {
			d = "DRejected"
		}
		return name + coqfmt.ZU(e.Rid), obs{Res: -1, Region: sim.Region(), RegVer: w.version(e.Rid), Deliver: d}
	case "foreign":
		sim := w.sims[e.Rid]
		m := foreignMsg(sim, e, w.dropped[e.Rid])
		d := "DAccepted"
		if err := sim.Apply(m); err != nil {
			d = "DRejected"
		}
		return fmt.Sprintf("EForeign %s (%s)", coqfmt.ZU(e.Rid), tikvsim.CoqCmdBody(m)), obs{Res: -1, Region: sim.Region(), RegVer: w.version(e.Rid), Deliver: d}
	case "poke":
		op := w.ops[e.ID-1]
		res := int64(-1)
		switch e.P {
		case "start":
			res = b2i(op.Start())
		case "cancel":
			res = b2i(op.Cancel())
		case "replace":
			res = b2i(op.Replace())
		case "check-expired":
			res = b2i(op.CheckExpired())
		case "check-timeout":
			res = b2i(op.CheckTimeout())
		case "check-success":
			res = b2i(op.CheckSuccess())
		case "check":
			if r := w.cl.GetRegion(op.RegionID()); r != nil {
				res = b2i(op.Check(r) != nil)
			}
		default:
			panic("bad poke " + e.P)
		}
		return fmt.Sprintf("EPoke %s %s", coqfmt.Z(int64(e.ID)), pokeCoq[e.P]), obs{Res: res}
	case "age":
		operator.SetOperatorStatusReachTime(w.ops[e.ID-1], operator.CREATED, time.Now().Add(-time.Hour))
		return "EAge " + coqfmt.Z(int64(e.ID)), obs{Res: -1}
	case "slow":
		operator.SetOperatorStatusReachTime(w.ops[e.ID-1], operator.STARTED, time.Now().Add(-time.Hour))
		return "ESlow " + coqfmt.Z(int64(e.ID)), obs{Res: -1}
	}
	panic("bad event " + e.K)
}

var pokeCoq = map[string]string{"start": "PStart", "cancel": "PCancel", "replace": "PReplace", "check-expired": "PCheckExpired",
	"check-timeout": "PCheckTimeout", "check-success": "PCheckSuccess", "check": "PCheck"}
var pokeKinds = []string{"start", "cancel", "replace", "check-expired", "check-timeout", "check-success", "check"}

func genPoke(r *rng.R, id int) event {
	return event{K: "poke", ID: id, P: pokeKinds[r.Pick(18, 14, 12, 12, 12, 12, 20)]}
}

func b2i(b bool) int64 {
	if b {
		return 1
	}
	return 0
}

func intList(xs []int) string {
	out := make([]string, len(xs))
	for i, x := range xs {
		out[i] = coqfmt.Z(int64(x))
	}
	return coqfmt.List(out)
}

// ---------- generators ----------

func (w *world) pid(c *caseIn, store uint64) uint64 {
	if c.SameIDs {
		return store
	}
	w.nextPID += 7
	return w.nextPID
}

func genRegion(r *rng.R, w *world, rid uint64) event {
	for {
		var ps []peerSpec
		var voters []uint64
		for s := uint64(1); s <= nStores; s++ {
			switch r.Pick(45, 40, 15) {
			case 1:
				ps = append(ps, peerSpec{Store: s, ID: w.pid(w.c, s), Role: "voter"})
				voters = append(voters, s)
			case 2:
				ps = append(ps, peerSpec{Store: s, ID: w.pid(w.c, s), Role: "learner"})
			}
		}
		if len(voters) == 0 || len(ps) > 5 {
			continue
		}
		return event{K: "region", Rid: rid, Peers: ps, Leader: voters[r.Intn(len(voters))], ConfVer: uint64(2 + r.Intn(5)), Version: uint64(1 + r.Intn(4))}
	}
}

// a target for the builder, derived from the region the stores currently have
func genTarget(r *rng.R, sim *tikvsim.Sim) ([]peerSpec, uint64) {
	has := map[uint64]*metapb.Peer{}
	for _, p := range sim.Meta.Peers {
		has[p.StoreId] = p
	}
	sameID := r.Pct(50)
	for {
		var ps []peerSpec
		var voters []uint64
		for s := uint64(1); s <= nStores; s++ {
			k := 0
			if o, ok := has[s]; ok {
				learner := o.Role == metapb.PeerRole_Learner
				switch r.Pick(55, 20, 25) {
				case 0:
					k = 1
					if learner {
						k = 2
					}
				case 1:
					k = 2
					if learner {
						k = 1
					}
				}
			} else {
				k = r.Pick(70, 20, 10)
			}
			id := uint64(0)
			if o, ok := has[s]; ok && sameID {
				id = o.Id // what Builder.DemoteVoter / PromoteLearner put into the target: the peer keeps its id
			}
			switch k {
			case 1:
				ps = append(ps, peerSpec{Store: s, ID: id, Role: "voter"})
				voters = append(voters, s)
			case 2:
				ps = append(ps, peerSpec{Store: s, ID: id, Role: "learner"})
			}
		}
		if len(voters) == 0 {
			continue
		}
		tl := uint64(0)
		if r.Pct(50) {
			tl = voters[r.Intn(len(voters))]
		}
		return ps, tl
	}
}

func genSteps(r *rng.R, w *world, rid uint64) []stepSpec {
	sim := w.sims[rid]
	peers := sim.Meta.Peers
	anyPeer := func() *metapb.Peer { return peers[r.Intn(len(peers))] }
	free := func() uint64 {
		occ := map[uint64]bool{}
		for _, p := range peers {
			occ[p.StoreId] = true
		}
		for try := 0; try < 20; try++ {
			s := uint64(1 + r.Intn(nStores))
			if !occ[s] {
				return s
			}
		}
		return uint64(1 + r.Intn(nStores))
	}
	n := 1 + r.Intn(2)
	var out []stepSpec
	for i := 0; i < n; i++ {
		p := anyPeer()
		switch r.Pick(20, 12, 12, 8, 8, 10, 10, 10, 5, 5) {
		case 0:
			out = append(out, stepSpec{K: "transfer", From: sim.Leader.GetStoreId(), Store: p.StoreId})
		case 1:
			s := free()
			out = append(out, stepSpec{K: "add-peer", Store: s, ID: w.pid(w.c, s)})
		case 2:
			s := free()
			out = append(out, stepSpec{K: "add-learner", Store: s, ID: w.pid(w.c, s)})
		case 3:
			s := free()
			out = append(out, stepSpec{K: "add-light-peer", Store: s, ID: w.pid(w.c, s)})
		case 4:
			s := free()
			out = append(out, stepSpec{K: "add-light-learner", Store: s, ID: w.pid(w.c, s)})
		case 5:
			out = append(out, stepSpec{K: "promote", Store: p.StoreId, ID: p.Id})
		case 6:
			out = append(out, stepSpec{K: "demote", Store: p.StoreId, ID: p.Id})
		case 7:
			id := p.Id
			if r.Pct(30) {
				id = 0
			}
			out = append(out, stepSpec{K: "remove", Store: p.StoreId, ID: id})
		case 8:
			out = append(out, stepSpec{K: "split"})
		case 9:
			out = append(out, stepSpec{K: "merge-passive"})
		}
	}
	return out
}

// a foreign learner on a store without peer (always accepted outside a joint state)
func genForeignAddLearner(r *rng.R, w *world, rid uint64) event {
	occ := map[uint64]bool{}
	for _, q := range w.sims[rid].Meta.Peers {
		occ[q.StoreId] = true
	}
	s := uint64(1 + r.Intn(nStores))
	for try := 0; try < 40 && occ[s]; try++ {
		s = uint64(1 + r.Intn(nStores))
	}
	return event{K: "foreign", Rid: rid, F: "add-learner", FStore: s, FID: w.pid(w.c, s) + 500}
}

// move k >= 2 voters to free stores (with joint consensus: add learners, enter, leave, trailing removes)
func genMoveTarget(r *rng.R, sim *tikvsim.Sim) ([]peerSpec, uint64) {
	occ := map[uint64]bool{}
	var voters []uint64
	for _, p := range sim.Meta.Peers {
		occ[p.StoreId] = true
		if p.Role == metapb.PeerRole_Voter {
			voters = append(voters, p.StoreId)
		}
	}
	var free []uint64
	for s := uint64(1); s <= nStores; s++ {
		if !occ[s] {
			free = append(free, s)
		}
	}
	k := 2 + r.Intn(2)
	if k > len(voters) {
		k = len(voters)
	}
	if k > len(free) {
		k = len(free)
	}
	moved := map[uint64]bool{}
	for _, i := range r.Perm(len(voters))[:k] {
		moved[voters[i]] = true
	}
	var ps []peerSpec
	for _, p := range sim.Meta.Peers {
		if moved[p.StoreId] {
			continue
		}
		role := "voter"
		if p.Role == metapb.PeerRole_Learner {
			role = "learner"
		}
		ps = append(ps, peerSpec{Store: p.StoreId, ID: p.Id, Role: role})
	}
	for i := 0; i < k; i++ {
		ps = append(ps, peerSpec{Store: free[i], Role: "voter"})
	}
	return ps, 0
}

// a target that only demotes followers (and possibly adds a learner): with joint consensus the plan is
// [.. ChangePeerV2Enter [] dv; ChangePeerV2Leave [] dv]
func genDemoteTarget(r *rng.R, sim *tikvsim.Sim) ([]peerSpec, uint64) {
	var ps []peerSpec
	demoted := 0
	for _, p := range sim.Meta.Peers {
		role := "voter"
		if p.Role == metapb.PeerRole_Learner {
			role = "learner"
		} else if p.StoreId != sim.Leader.GetStoreId() && (demoted == 0 || r.Pct(60)) {
			role = "learner"
			demoted++
		}
		id := p.Id
		if r.Pct(50) {
			id = 0
		}
		ps = append(ps, peerSpec{Store: p.StoreId, ID: id, Role: role})
	}
	if demoted > 0 && r.Pct(50) {
		occ := map[uint64]bool{}
		for _, p := range sim.Meta.Peers {
			occ[p.StoreId] = true
		}
		for s := uint64(1); s <= nStores; s++ {
			if !occ[s] {
				ps = append(ps, peerSpec{Store: s, Role: "learner"})
				break
			}
		}
	}
	return ps, 0
}

func genForeign(r *rng.R, w *world, rid uint64) event {
	sim := w.sims[rid]
	peers := sim.Meta.Peers
	e := event{K: "foreign", Rid: rid}
	p := peers[r.Intn(len(peers))]
	switch r.Pick(25, 20, 12, 12, 15, 8, 8) {
	case 0:
		occ := map[uint64]bool{}
		for _, q := range peers {
			occ[q.StoreId] = true
		}
		s := uint64(1 + r.Intn(nStores))
		for try := 0; try < 20 && occ[s]; try++ {
			s = uint64(1 + r.Intn(nStores))
		}
		e.F, e.FStore, e.FID = "add-learner", s, w.pid(w.c, s)+500
	case 1:
		e.F, e.FStore = "remove", p.StoreId
	case 2:
		e.F, e.FStore = "promote", p.StoreId
	case 3:
		e.F, e.FStore = "demote", p.StoreId
	case 4:
		e.F, e.FStore = "transfer", p.StoreId
	case 5:
		e.F = "split"
	case 6:
		e.F = "leave"
	}
	return e
}

type caseOut struct {
	In    caseIn                   `json:"in"`
	Trace []map[string]interface{} `json:"trace"`
	coq   string
	nontr bool
	stats map[string]int
}

// runCase executes fixed events (replay / corpus) or generates them online.
func runCase(rec *tikvsim.Recorder, c *caseIn, r *rng.R, mode string, maxEvents int) caseOut {
	w := newWorld(c, rec)
	defer w.cancel()
	var evs, obsT []string
	out := caseOut{stats: map[string]int{}}
	started, accepted, ended := false, false, false
	record := func(e event, term string, o obs, keep bool) {
		if keep {
			c.Events = append(c.Events, e)
		}
		ot, js := w.snapshot(o)
		evs = append(evs, term)
		obsT = append(obsT, ot)
		js["event"] = term
		out.Trace = append(out.Trace, js)
		out.stats["ev:"+e.K]++
		if e.K == "foreign" {
			out.stats["foreign:"+e.F+":"+o.Deliver]++
		}
		if e.K == "poke" {
			out.stats[fmt.Sprintf("poke:%s:%d", e.P, o.Res)]++
		}
		if o.Deliver != "" && e.K == "deliver" {
			out.stats["deliver:"+o.Deliver]++
			if o.Deliver == "DAccepted" {
				accepted = true
			}
		}
		for _, m := range o.Sent {
			out.stats["sent:"+strings.Fields(tikvsim.CoqCmdBody(m))[0]]++
		}
		for _, op := range w.ops {
			if op == nil {
				continue
			}
			if op.Status() != operator.CREATED {
				started = true
			}
			if operator.IsEndStatus(op.Status()) {
				ended = true
			}
		}
	}
	do := func(e event) {
		switch e.K {
		case "wait": // real time passes (push intervals); replayed, not part of the history
			c.Events = append(c.Events, e)
			time.Sleep(time.Duration(e.ID) * time.Millisecond)
			return
		case "pushround":
			// ONE call of the real PushOperators with the operators of regions Rid and FStore due, in that order; while
			// the round is busy with the first region a heartbeat of the second one is processed (hookStep). For the
			// model the round is: push of the first region, the heartbeat, push of the second region.
			c.Events = append(c.Events, e)
			if w.hook == nil {
				return
			}
			a, b := e.Rid, e.FStore
			fired := false
			w.hook.count, w.hook.armed = 0, true
			w.hook.fire = func() {
				fired = true
				record(e, "EPush "+coqfmt.ZU(a), obs{Res: -1, Sent: w.collect()}, false)
				term, o := w.exec(event{K: "hb", Rid: b})
				record(event{K: "hb", Rid: b}, term, o, false)
			}
			w.oc.PushOperators()
			w.hook.armed = false
			rest := w.collect()
			if fired {
				record(e, "EPush "+coqfmt.ZU(b), obs{Res: -1, Sent: rest}, false)
			} else if len(rest) > 0 {
				record(e, "EPush "+coqfmt.ZU(a), obs{Res: -1, Sent: rest}, false)
			}
			out.stats[fmt.Sprintf("pushround:hook-fired:%v", fired)]++
			return
		}
		term, o := w.exec(e)
		if e.K == "kvfault" { // the environment of the implementation, invisible to the model: replayed, not part of the history
			c.Events = append(c.Events, e)
			out.stats["kvfault:"+e.P]++
			out.Trace = append(out.Trace, map[string]interface{}{"event": "(PD's meta storage: write fault " + e.P + ")"})
			return
		}
		if term == "" { // the builder refused to build: not an event of the history
			out.stats["create:refused"]++
			return
		}
		record(e, term, o, true)
	}
	if r == nil {
		fixed := c.Events
		c.Events = nil
		for _, e := range fixed {
			do(e)
		}
	} else {
		c.Events = nil
		nreg := 1
		if mode == "chaos" {
			nreg = 1 + r.Intn(3)
		}
		for i := 0; i < nreg; i++ {
			do(genRegion(r, w, uint64(10+i)))
		}
		pickRid := func() uint64 { return w.rids[r.Intn(len(w.rids))] }
		pending := func() []int { // created, never added
			var out []int
			for i, op := range w.ops {
				if op != nil && op.Status() == operator.CREATED {
					out = append(out, i+1)
				}
			}
			return out
		}
		anyOp := func() int {
			var ids []int
			for i, op := range w.ops {
				if op != nil {
					ids = append(ids, i+1)
				}
			}
			if len(ids) == 0 {
				return 0
			}
			return ids[r.Intn(len(ids))]
		}
		forceNormal := false
		create := func(rid uint64) {
			e := event{K: "create", Rid: rid, Level: r.Pick(8, 80, 12), Desc: 1 + r.Pick(75, 25)}
			if forceNormal {
				e.Level = 1
			}
			if mode == "shadow" && r.Pct(60) {
				e.Target, e.TLeader = genDemoteTarget(r, w.sims[rid])
			} else if mode == "lifecycle" && r.Pct(20) {
				e.Target, e.TLeader = genMoveTarget(r, w.sims[rid])
			} else if r.Pct(22) {
				e.Steps = genSteps(r, w, rid)
			} else {
				e.Target, e.TLeader = genTarget(r, w.sims[rid])
			}
			if r.Pct(8) {
				e.Stale = 1 + r.Intn(2)
			}
			do(e)
		}
		if mode == "lifecycle" || mode == "shadow" {
			shadow := mode == "shadow"
			rid := w.rids[0]
			viaWaiting := r.Pct(15)
			forceNormal = viaWaiting
			create(rid)
			forceNormal = false
			if len(w.ops) > 0 && w.ops[len(w.ops)-1] != nil {
				id := len(w.ops)
				if !viaWaiting {
					do(event{K: "add", IDs: []int{id}})
				} else {
					do(event{K: "addw", IDs: []int{id}})
				}
				foreignAt := -1
				if r.Pct(45) {
					foreignAt = r.Intn(8)
				}
				shadowAt := -1
				if shadow {
					shadowAt, foreignAt = r.Intn(4), -1
				}
				for round := 0; round < 14 && len(evs) < maxEvents; round++ {
					if round == foreignAt {
						do(genForeign(r, w, rid))
					}
					if round == shadowAt && len(w.inbox) > 0 {
						// the operator's command is lost; somebody else changes the region and then does what the command asked for
						do(event{K: "drop", Rid: rid})
						for len(w.inbox) > 0 {
							do(event{K: "drop", Rid: rid})
						}
						f := genForeign(r, w, rid)
						if r.Pct(70) {
							f = genForeignAddLearner(r, w, rid)
						}
						do(f)
						do(event{K: "foreign", Rid: rid, F: "shadow"})
					}
					for len(w.inbox) > 0 {
						if r.Pct(6) {
							do(event{K: "drop", Rid: rid})
						} else {
							do(event{K: "deliver", Rid: rid})
						}
					}
					switch r.Pick(78, 6, 4, 4, 4, 4) {
					case 0:
					case 1:
						do(event{K: "push", Rid: rid})
					case 2:
						do(event{K: "slow", ID: id})
					case 3:
						do(event{K: "remove", ID: id})
					case 4:
						create(rid)
						if n := len(w.ops); w.ops[n-1] != nil {
							do(event{K: "add", IDs: []int{n}})
						}
					case 5:
						do(event{K: "age", ID: id})
					}
					if r.Pct(8) {
						do(event{K: "influence"})
					}
					do(event{K: "hb", Rid: rid})
					if c.Raft && r.Pct(25) {
						do(event{K: "stalehb", Rid: rid, Stale: 1 + r.Intn(3)})
					}
					if len(w.oc.GetOperators()) == 0 && len(w.inbox) == 0 {
						break
					}
				}
				if r.Pct(15) { // the holder of the operator keeps calling its methods after it ended
					for k := 1 + r.Intn(3); k > 0; k-- {
						do(genPoke(r, id))
					}
				}
			}
		} else if mode == "vanish" {
			// the region is merged away while an operator runs on it; deadlines pass, schedulers ask for the influence,
			// the push loop finds the region gone
			rid := w.rids[0]
			create(rid)
			if n := len(w.ops); n > 0 && w.ops[n-1] != nil {
				id := n
				do(event{K: "add", IDs: []int{id}})
				for k := r.Intn(3); k > 0; k-- {
					for len(w.inbox) > 0 {
						do(event{K: "deliver", Rid: rid})
					}
					do(event{K: "hb", Rid: rid})
				}
				pre := []event{}
				if r.Pct(60) {
					pre = append(pre, event{K: "slow", ID: id})
				}
				if r.Pct(70) {
					pre = append(pre, event{K: "influence"})
				}
				if r.Pct(15) {
					pre = append(pre, genPoke(r, id))
				}
				if r.Pct(50) { // before or after the region disappears
					for _, e := range pre {
						do(e)
					}
					do(event{K: "vanish", Rid: rid})
				} else {
					do(event{K: "vanish", Rid: rid})
					for _, e := range pre {
						do(e)
					}
				}
				if r.Pct(30) {
					do(event{K: "push", Rid: rid})
				}
				do(event{K: "pollgone", Rid: rid})
				for k := r.Intn(3); k > 0; k-- {
					switch r.Pick(40, 30, 30) {
					case 0:
						do(genPoke(r, id))
					case 1:
						do(event{K: "influence"})
					case 2:
						do(event{K: "hb", Rid: rid})
					}
				}
			}
		} else if mode == "kvfault" {
			// the real heartbeat path of RaftCluster while PD's meta storage fails its writes: somebody else changes the
			// region, the heartbeats that report it find the storage broken, a push falls due inside the window
			rid := w.rids[0]
			create(rid)
			if n := len(w.ops); n > 0 && w.ops[n-1] != nil {
				id := n
				rounds := func(k int) {
					for ; k > 0; k-- {
						for len(w.inbox) > 0 {
							if r.Pct(15) {
								do(event{K: "drop", Rid: rid})
							} else {
								do(event{K: "deliver", Rid: rid})
							}
						}
						do(event{K: "hb", Rid: rid})
					}
				}
				do(event{K: "add", IDs: []int{id}})
				rounds(r.Intn(3))
				do(event{K: "kvfault", P: "on"})
				if r.Pct(50) {
					for len(w.inbox) > 0 {
						do(event{K: "drop", Rid: rid})
					}
				}
				for k := 1 + r.Intn(2); k > 0; k-- {
					switch r.Pick(60, 25, 15) {
					case 0:
						do(genForeignAddLearner(r, w, rid))
					case 1:
						do(genForeign(r, w, rid))
					case 2:
						var vs []uint64
						for _, p := range w.sims[rid].Meta.Peers {
							if p.Role == metapb.PeerRole_Voter && p.StoreId != w.sims[rid].Leader.GetStoreId() {
								vs = append(vs, p.StoreId)
							}
						}
						if len(vs) > 0 {
							do(event{K: "foreign", Rid: rid, F: "transfer", FStore: vs[r.Intn(len(vs))]})
						}
					}
				}
				for k := 1 + r.Intn(2); k > 0; k-- {
					do(event{K: "hb", Rid: rid})
					if r.Pct(70) {
						do(event{K: "push", Rid: rid})
					}
				}
				do(event{K: "kvfault", P: "off"})
				rounds(1 + r.Intn(2))
			}
		} else if mode == "rebind" {
			// a store's heartbeat stream breaks while commands are pushed for an operator; the region moves on (leader
			// transferred, configuration changed by somebody else, operator cancelled or removed); the store binds a new
			// stream. Whatever that stream receives is observed.
			rid := w.rids[0]
			create(rid)
			if n := len(w.ops); n > 0 && w.ops[n-1] != nil {
				id := n
				leaderStore := func() uint64 { return w.sims[rid].Leader.GetStoreId() }
				broke := leaderStore()
				rounds := func(k int) {
					for ; k > 0; k-- {
						for len(w.inbox) > 0 {
							do(event{K: "deliver", Rid: rid})
						}
						do(event{K: "hb", Rid: rid})
					}
				}
				if r.Pct(65) {
					do(event{K: "break", FStore: broke})
					do(event{K: "add", IDs: []int{id}})
				} else {
					do(event{K: "add", IDs: []int{id}})
					rounds(r.Intn(3))
					broke = leaderStore()
					do(event{K: "break", FStore: broke})
					do(event{K: "push", Rid: rid})
				}
				if r.Pct(30) {
					do(event{K: "push", Rid: rid})
				}
				// the region moves on
				for k := 1 + r.Intn(2); k > 0; k-- {
					switch r.Pick(45, 35, 20) {
					case 0:
						var vs []uint64
						for _, p := range w.sims[rid].Meta.Peers {
							if p.Role == metapb.PeerRole_Voter && p.StoreId != leaderStore() {
								vs = append(vs, p.StoreId)
							}
						}
						if len(vs) > 0 {
							do(event{K: "foreign", Rid: rid, F: "transfer", FStore: vs[r.Intn(len(vs))]})
						}
					case 1:
						do(genForeignAddLearner(r, w, rid))
					case 2:
						do(genForeign(r, w, rid))
					}
				}
				switch r.Pick(60, 20, 20) {
				case 0:
					rounds(1 + r.Intn(2))
				case 1:
					do(event{K: "remove", ID: id})
				case 2:
				}
				do(event{K: "rebind", FStore: broke})
				rounds(r.Intn(3))
			}
		} else if mode == "walk" {
			// walks over the status matrix of real Operators: direct method calls interleaved with controller calls
			rid := w.rids[0]
			for k := 1 + r.Intn(2); k > 0; k-- {
				create(rid)
			}
			n := 6 + r.Intn(10)
			for len(evs) < n+3 {
				id := anyOp()
				if id == 0 {
					break
				}
				switch r.Pick(55, 12, 10, 6, 6, 5, 6) {
				case 0:
					do(genPoke(r, id))
				case 1:
					do(event{K: "add", IDs: []int{id}})
				case 2:
					do(event{K: "hb", Rid: rid})
				case 3:
					do(event{K: "age", ID: id})
				case 4:
					do(event{K: "slow", ID: id})
				case 5:
					do(event{K: "remove", ID: id})
				case 6:
					for len(w.inbox) > 0 {
						do(event{K: "deliver", Rid: rid})
					}
				}
			}
		} else {
			n := 8 + r.Intn(maxEvents-8)
			for len(evs) < n {
				rid := pickRid()
				switch r.Pick(16, 14, 6, 2, 18, 14, 3, 5, 4, 8, 3, 3, 5, 3, 2, 3) {
				case 14:
					do(event{K: "break", FStore: uint64(1 + r.Intn(nStores))})
				case 15:
					do(event{K: "rebind", FStore: uint64(1 + r.Intn(nStores))})
				case 12:
					if id := anyOp(); id != 0 {
						do(genPoke(r, id))
					}
				case 13:
					do(event{K: "influence"})
				case 0:
					create(rid)
				case 1:
					if p := pending(); len(p) > 0 {
						ids := []int{p[r.Intn(len(p))]}
						if len(p) > 1 && r.Pct(15) {
							ids = append(ids, p[r.Intn(len(p))])
						}
						do(event{K: "add", IDs: ids})
					} else if id := anyOp(); id != 0 && r.Pct(30) {
						do(event{K: "add", IDs: []int{id}}) // malformed: an operator that is not CREATED any more
					}
				case 2:
					if p := pending(); len(p) > 0 {
						var ids []int
						for _, id := range p {
							if w.ops[id-1].GetPriorityLevel() == core.NormalPriority && len(ids) < 3 && r.Pct(70) {
								ids = append(ids, id)
							}
						}
						if len(ids) > 0 {
							do(event{K: "addw", IDs: ids})
						}
					}
				case 3:
					do(event{K: "promote"})
				case 4:
					do(event{K: "hb", Rid: rid})
				case 5:
					do(event{K: "deliver", Rid: rid})
				case 6:
					do(event{K: "drop", Rid: rid})
				case 7:
					do(event{K: "push", Rid: rid})
				case 8:
					if id := anyOp(); id != 0 {
						do(event{K: "remove", ID: id})
					}
				case 9:
					do(genForeign(r, w, rid))
				case 10:
					if id := anyOp(); id != 0 {
						do(event{K: "age", ID: id})
					}
				case 11:
					if id := anyOp(); id != 0 {
						do(event{K: "slow", ID: id})
					}
				}
			}
		}
	}
	out.In = *c
	out.coq = fmt.Sprintf("(%s%%Z,\n  %s,\n  %s)", fmt.Sprint(c.MaxWaiting), coqfmt.List(evs), coqfmt.List(obsT))
	out.nontr = started && accepted && ended
	return out
}

func main() {
	seed := flag.Uint64("seed", 1, "")
	n := flag.Int("n", 1500, "number of generated histories")
	out := flag.String("out", ".", "output directory")
	tier := flag.String("tier", "quick", "")
	corpus := flag.String("corpus", "", "json file with a list of cases, run first")
	replay := flag.String("replay", "", "json file with one case (or an evidence replay file): run and print the trace")
	flag.Parse()
	log.ReplaceGlobals(zap.NewNop(), nil)

	ctx, cancel := context.WithCancel(context.Background())
	defer cancel()
	var storeIDs []uint64
	for i := uint64(0); i <= nStores+2; i++ {
		storeIDs = append(storeIDs, i)
	}
	rec, err := tikvsim.NewRecorder(ctx, 7, storeIDs)
	if err != nil {
		fmt.Fprintln(os.Stderr, err)
		os.Exit(2)
	}
	R := res.New("C09", *seed, *tier)
	R.Rule = "histories of a real OperatorController on mockcluster (6 stores, 1-3 regions): operators from the real Builder (joint / non-joint, " +
		"peer ids distinct from store ids in 85 % of the cases) or from explicit steps of every kind, AddOperator / AddWaitingOperator / Promote / " +
		"Dispatch(heartbeat) / Dispatch(push) / RemoveOperator, commands executed (or dropped) by tikvsim, foreign changes (incl. the shadow scenario: " +
		"the operator's command is lost, somebody else changes the region and then issues that very command), direct calls of the Operator's " +
		"exported status methods (walks over the status matrix), GetOpInfluence, regions merged away under a running operator and the push loop's " +
		"region-disappeared branch (real PushOperators), heartbeat streams that break (Send fails) and stores that bind a new stream while the region " +
		"moves on (everything any stream receives is observed), the same through a real cluster.RaftCluster (HandleRegionHeartbeat = processRegionHeartbeat + " +
		"Dispatch, coordinator's controller) over a storage whose kv fails its writes while foreign changes are reported and pushes fall due, expiry and timeout by " +
		"back-dated reach times; non-trivial = some operator started, some command was applied and some operator ended; distinct by sha256 of the case text"
	cf := &coqfmt.CaseFile{Dir: *out, Prefix: "C09", PerFile: 100,
		Header: "From Coq Require Import String.\nFrom PDV Require Import lib.Base model.C08_Steps model.C09_OpCtl.\nLocal Open Scope string_scope.\nLocal Open Scope list_scope.\nLocal Open Scope Z_scope.\n",
		Type:   "Z * list ev * list obs",
		Footer: "Definition M := Eval vm_compute in map fst (mismatches cases).\nDefinition D := Eval vm_compute in hd_error (mismatches cases).\nDefinition V := Eval vm_compute in monitor_fails cases.\nPrint M. Print D. Print V.\n"}
	var all []caseOut
	emit := func(o caseOut) {
		for k, v := range o.stats {
			R.CountN(k, v)
		}
		R.Count("gen:" + o.In.Gen)
		mode := "joint"
		if !o.In.JointSupported {
			mode = "joint-unsupported"
		} else if !o.In.JointEnabled {
			mode = "joint-disabled"
		}
		R.Count("mode:" + mode)
		if o.In.SameIDs {
			R.Count("ids:peer-id=store-id")
		} else {
			R.Count("ids:distinct")
		}
		R.Case(o.coq, o.nontr)
		if o.nontr {
			R.Sample(o)
		}
		if err := cf.Add(o.coq); err != nil {
			panic(err)
		}
		all = append(all, o)
	}
	for _, f := range []string{*corpus, *replay} {
		if f == "" {
			continue
		}
		b, err := os.ReadFile(f)
		if err != nil {
			panic(err)
		}
		var l []caseIn
		if err := json.Unmarshal(b, &l); err != nil {
			var one struct {
				Replay json.RawMessage `json:"replay"`
			}
			var c caseIn
			if json.Unmarshal(b, &one) == nil && len(one.Replay) > 0 {
				var co struct {
					In caseIn `json:"in"`
				}
				if err := json.Unmarshal(one.Replay, &co); err != nil {
					panic(err)
				}
				c = co.In
			} else if err := json.Unmarshal(b, &c); err != nil {
				panic(err)
			}
			l = []caseIn{c}
		}
		for i := range l {
			if l[i].Scenario == "grpc-heartbeat" {
				if o, err := grpcHeartbeatCase(); err == nil {
					emit(o)
				}
				continue
			}
			l[i].Gen = "corpus"
			emit(runCase(rec, &l[i], nil, "", 0))
		}
	}
	if *replay != "" {
		for _, o := range all {
			for _, t := range o.Trace {
				b, _ := json.Marshal(t)
				fmt.Println(string(b))
			}
		}
	} else {
		t0 := time.Now()
		master := rng.New(*seed)
		for _, n := range []int{2000, 500} {
			c := &caseIn{MaxWaiting: 5, Gen: "record-store", Events: []event{{K: "recordstore", ID: n}}}
			emit(runCase(rec, c, nil, "", 0))
		}
		emit(runCase(rec, pushRoundCase(), nil, "", 0))
		if o, err := grpcHeartbeatCase(); err == nil {
			emit(o)
		} else {
			R.Notes = append(R.Notes, "grpc-heartbeat phase skipped, the real server did not come up: "+err.Error())
		}
		emit(runCase(rec, &caseIn{MaxWaiting: 5, Gen: "entry-race", Events: []event{{K: "entryrace", ID: 4000}}}, nil, "", 0))
		for k := 0; k < *n; k++ {
			r := master.Fork(uint64(k))
			c := &caseIn{MaxWaiting: 5, SameIDs: r.Pct(15)}
			if r.Pct(60) || c.SameIDs {
				c.AllocBase = 100 // the allocator never hands out an id a peer already has (peer ids are store ids 1..6 here)
			}
			switch r.Pick(55, 15, 30) {
			case 0:
				c.JointSupported, c.JointEnabled = true, true
			case 1:
				c.JointSupported, c.JointEnabled = true, false
			case 2:
				c.JointSupported, c.JointEnabled = false, true
			}
			if r.Pct(10) {
				c.MaxWaiting = 1 + r.Intn(2)
			}
			mode := "lifecycle"
			switch r.Pick(27, 32, 13, 9, 7, 6, 6) {
			case 6:
				mode = "kvfault"
				c.Raft = true
			case 5:
				mode = "rebind"
			case 4:
				mode = "vanish"
			case 3:
				mode = "walk"
			case 1:
				mode = "chaos"
			case 2:
				mode = "shadow"
				if r.Pct(70) {
					c.JointSupported, c.JointEnabled = true, true
				}
			}
			if r.Pct(15) {
				c.Raft = true // the same histories through RaftCluster.HandleRegionHeartbeat and the coordinator's controller
			}
			c.Gen = mode
			if c.Raft {
				c.Gen = mode + "/raftcluster"
			}
			emit(runCase(rec, c, r, mode, 40))
		}
		R.Notes = append(R.Notes, fmt.Sprintf("driver generated and executed %d histories in %.1fs", len(all), time.Since(t0).Seconds()))
	}
	if err := cf.Flush(); err != nil {
		panic(err)
	}
	R.CaseFiles = cf.Files
	b, _ := json.Marshal(all)
	os.WriteFile(path.Join(*out, "cases.json"), b, 0o644)
	if err := R.Write(path.Join(*out, "result.json")); err != nil {
		panic(err)
	}
}
