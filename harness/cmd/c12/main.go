// Driver for C12: runs the real placement.FitRegion / RegionFit.IsSatisfied / CompareRegionFit on
// generated (stores, rules, region A, region B) inputs and prints inputs and answers as Coq terms
// for model/C12_Fit.v.  Every random choice derives from rng.New(seed).Fork(case).
package main

import (
	"bytes"
	"context"
	"encoding/json"
	"net/http"
	"net/http/httptest"
	"flag"
	"fmt"
	"math"
	"os"
	"path"
	"sort"
	"strings"
	"time"

	"github.com/pingcap/kvproto/pkg/metapb"
	"github.com/pingcap/log"
	"github.com/tikv/pd/server/api"
	"github.com/tikv/pd/server/cluster"
	"github.com/tikv/pd/server/config"
	"github.com/tikv/pd/server/core"
	"github.com/tikv/pd/server/kv"
	"github.com/tikv/pd/server/schedule/placement"
	"go.uber.org/zap"

	"pdverif/internal/coqfmt"
	"pdverif/internal/kvx13"
	"pdverif/internal/res"
	"pdverif/internal/rng"
	"pdverif/internal/srv14"
)

// ---------- raw case (json, replayable) ----------
type storeJ struct {
	ID     uint64      `json:"id"`
	Labels [][2]string `json:"labels"`
	State  int         `json:"state,omitempty"` // metapb.StoreState: 0 Up, 1 Offline, 2 Tombstone (FitRegion must not look at it)
}
type consJ struct {
	Key    string   `json:"key"`
	Op     string   `json:"op"`
	Values []string `json:"values"`
}
type ruleJ struct {
	Role  string   `json:"role"`
	Count int      `json:"count"`
	Cons  []consJ  `json:"cons"`
	Locs  []string `json:"locs"`
}
type peerJ struct {
	ID    uint64 `json:"id"`
	Store uint64 `json:"store"`
	Role  int    `json:"role"` // metapb.PeerRole
}
type regionJ struct {
	Leader uint64  `json:"leader"` // peer id, 0 = no leader
	Peers  []peerJ `json:"peers"`
}
type caseJ struct {
	Stream string   `json:"stream"`
	Stores []storeJ `json:"stores"`
	Rules  []ruleJ  `json:"rules"`
	A      regionJ  `json:"a"`
	B      regionJ  `json:"b"`
	// manager stream: the rules are installed into a real RuleManager (SetRule g/r<i>, index i), the stores
	// into a real core.BasicCluster, and RuleManager.FitRegion is called; Rules is then what
	// GetRulesForApplyRegion serves (read back on every run)
	Manager     bool    `json:"manager,omitempty"`
	Install     []ruleJ `json:"install,omitempty"`
	DropDefault bool    `json:"drop_default,omitempty"`
	// manager stream, environment: while RuleManager.FitRegion(A) is called, another goroutine holds the
	// write lock of the core.BasicCluster for LockWaitMs milliseconds (a heartbeat / PutStore being
	// processed): the fit waits in GetStore / GetStores and must give the same answer afterwards
	LockWaitMs int `json:"lock_wait_ms,omitempty"`
	// with LockWaitMs: the fits of A and of B (same region id, same epoch, other peers / leader - what a
	// scheduler evaluates for a candidate move) are requested by two goroutines while the lock is held, so
	// that both calls are inside RuleManager.FitRegion at the same time; each must get the fit of ITS region
	Overlap bool `json:"overlap,omitempty"`
	// manager stream: after the rules are installed, rule g/r0 is deleted (FaultOp 1) or the whole group g
	// is (FaultOp 2) while the FaultAt-th storage write of that operation fails (not applied). Whatever the
	// manager answers, a second manager started on the same storage must then hand the region the same rules
	// as the first one does when the operation was acknowledged: two PDs fit one region against one rule list
	FaultOp int `json:"fault_op,omitempty"`
	FaultAt int `json:"fault_at,omitempty"`
	// cluster stream: the stores live in the RaftCluster of a real pd server. Puts is the history of
	// the stores (RaftCluster.PutStore = a store (re)joining with labels, merged into the ones it has, an
	// empty value drops the label; RaftCluster.UpdateStoreLabels with force = `store label --force`);
	// Stores is what the cluster reports afterwards (GetStores: id and GetLabels of every store, read back
	// on every run) and FitRegion gets the RaftCluster itself as its StoreSet
	Cluster bool   `json:"cluster,omitempty"`
	Puts    []putJ `json:"puts,omitempty"`
}
type putJ struct {
	ID     uint64      `json:"id"`
	Labels [][2]string `json:"labels"`
	Force  bool        `json:"force,omitempty"` // UpdateStoreLabels(id, labels, true) instead of PutStore
}

// ---------- the mock store set ----------
type storeSet struct {
	list []*core.StoreInfo
	byID map[uint64]*core.StoreInfo
}

func (s *storeSet) GetStores() []*core.StoreInfo       { return s.list }
func (s *storeSet) GetStore(id uint64) *core.StoreInfo { return s.byID[id] }

func mkStores(ss []storeJ) *storeSet {
	out := &storeSet{byID: map[uint64]*core.StoreInfo{}}
	for _, s := range ss {
		var ls []*metapb.StoreLabel
		for _, l := range s.Labels {
			ls = append(ls, &metapb.StoreLabel{Key: l[0], Value: l[1]})
		}
		si := core.NewStoreInfo(&metapb.Store{Id: s.ID, Labels: ls, State: metapb.StoreState(s.State)})
		out.list = append(out.list, si)
		if _, dup := out.byID[s.ID]; !dup {
			out.byID[s.ID] = si // first wins, as find_store in the model
		}
	}
	return out
}

func mkRegion(r regionJ) *core.RegionInfo {
	var ps []*metapb.Peer
	var leader *metapb.Peer
	for _, p := range r.Peers {
		mp := &metapb.Peer{Id: p.ID, StoreId: p.Store, Role: metapb.PeerRole(p.Role)}
		ps = append(ps, mp)
		if r.Leader != 0 && p.ID == r.Leader && leader == nil {
			leader = mp
		}
	}
	return core.NewRegionInfo(&metapb.Region{Id: 1, Peers: ps}, leader)
}

func mkRules(rs []ruleJ) []*placement.Rule {
	var out []*placement.Rule
	for i, r := range rs {
		pr := &placement.Rule{GroupID: "g", ID: fmt.Sprintf("r%d", i), Role: placement.PeerRoleType(r.Role), Count: r.Count, LocationLabels: r.Locs}
		for _, c := range r.Cons {
			pr.LabelConstraints = append(pr.LabelConstraints, placement.LabelConstraint{Key: c.Key, Op: placement.LabelConstraintOp(c.Op), Values: c.Values})
		}
		out = append(out, pr)
	}
	return out
}

// ---------- observations ----------
type fitObs struct {
	Fits  []*[3]interface{} // nil = nil RuleFit; else (peers, diff, score)
	Coq   string
	Sat   int // 1 true, 0 false, -1 panic
	Orph  int
	NPeer int
	Diff  int
	Score bool
}

func ids(ps []*metapb.Peer) string {
	xs := make([]string, len(ps))
	for i, p := range ps {
		xs[i] = coqfmt.ZU(p.GetId())
	}
	return coqfmt.List(xs)
}

func observe(R *res.Result, fit *placement.RegionFit) fitObs {
	var o fitObs
	var fs []string
	for _, rf := range fit.RuleFits {
		if rf == nil {
			fs = append(fs, "None")
			continue
		}
		sc := rf.IsolationScore
		if sc != math.Trunc(sc) || math.Abs(sc) >= 1<<53 {
			R.Notes = append(R.Notes, fmt.Sprintf("isolation score %v is not an exactly representable integer", sc))
		}
		if sc > 0 {
			o.Score = true
		}
		o.NPeer += len(rf.Peers)
		o.Diff += len(rf.PeersWithDifferentRole)
		fs = append(fs, "(Some ("+ids(rf.Peers)+", "+ids(rf.PeersWithDifferentRole)+", "+coqfmt.Z(int64(sc))+"))")
	}
	o.Orph = len(fit.OrphanPeers)
	sat := "None"
	o.Sat = -1
	func() {
		defer func() { _ = recover() }()
		if fit.IsSatisfied() {
			o.Sat, sat = 1, "(Some true)"
		} else {
			o.Sat, sat = 0, "(Some false)"
		}
	}()
	o.Coq = "(FitObs " + coqfmt.List(fs) + " " + ids(fit.OrphanPeers) + " " + sat + ")"
	return o
}

// ---------- Coq printing of the inputs ----------
func qs(s string) string { return "\"" + strings.ReplaceAll(s, "\"", "\"\"") + "\"" }
func qlist(xs []string) string {
	ys := make([]string, len(xs))
	for i, x := range xs {
		ys[i] = qs(x)
	}
	return coqfmt.List(ys)
}

var roleCoq = map[string]string{"voter": "Voter", "leader": "Leader", "follower": "Follower", "learner": "Learner"}
var opCoq = map[string]string{"in": "OpIn", "notIn": "OpNotIn", "exists": "OpExists", "notExists": "OpNotExists"}

func (c caseJ) coqInputs() string {
	var ss, rs []string
	for _, s := range c.Stores {
		var ls []string
		for _, l := range s.Labels {
			ls = append(ls, "("+qs(l[0])+", "+qs(l[1])+")")
		}
		ss = append(ss, "Store "+coqfmt.ZU(s.ID)+" "+coqfmt.List(ls))
	}
	for _, r := range c.Rules {
		role, ok := roleCoq[r.Role]
		if !ok {
			role = "BadRole"
		}
		var cs []string
		for _, k := range r.Cons {
			op, ok := opCoq[k.Op]
			if !ok {
				op = "OpBad"
			}
			cs = append(cs, "Constr "+qs(k.Key)+" "+op+" "+qlist(k.Values))
		}
		rs = append(rs, "Rule "+role+" "+coqfmt.Nat(r.Count)+" "+coqfmt.List(cs)+" "+qlist(r.Locs))
	}
	reg := func(r regionJ) string {
		var ps []string
		for _, p := range r.Peers {
			ps = append(ps, "Peer "+coqfmt.ZU(p.ID)+" "+coqfmt.ZU(p.Store)+" "+coqfmt.Bool(metapb.PeerRole(p.Role) == metapb.PeerRole_Learner))
		}
		return coqfmt.ZU(r.Leader) + " " + coqfmt.List(ps)
	}
	return coqfmt.List(ss) + "\n  " + coqfmt.List(rs) + "\n  " + reg(c.A) + "\n  " + reg(c.B)
}

// ---------- generation ----------
var keysLoc = []string{"zone", "rack", "host"}
var valsOf = map[string][]string{
	"zone": {"z1", "z2", "z3"}, "rack": {"r1", "r2"}, "host": {"h1", "h2", "h3", "h4"},
	"engine": {"tiflash", "tikv"}, "$dedicated": {"yes"}, "exclusive": {"a"}, "disk": {"ssd", "hdd"},
}
var allKeys = []string{"zone", "rack", "host", "engine", "$dedicated", "exclusive", "disk"}

func caseVariant(r *rng.R, s string, pct int) string {
	if r.Pct(pct) {
		return strings.ToUpper(s[:1]) + s[1:]
	}
	return s
}

func genStores(r *rng.R, malformed bool) []storeJ {
	n := 1 + r.Intn(7)
	var out []storeJ
	for i := 0; i < n; i++ {
		s := storeJ{ID: uint64(i + 1)}
		for _, k := range keysLoc {
			if r.Pct(85) {
				vs := valsOf[k]
				v := vs[r.Intn(len(vs))]
				if r.Pct(4) {
					v = ""
				}
				s.Labels = append(s.Labels, [2]string{caseVariant(r, k, 8), caseVariant(r, v+" ", 8)[:len(v)]})
			}
		}
		if r.Pct(18) {
			s.Labels = append(s.Labels, [2]string{"engine", valsOf["engine"][r.Intn(2)]})
		}
		if r.Pct(8) {
			s.Labels = append(s.Labels, [2]string{"$dedicated", "yes"})
		}
		if r.Pct(4) {
			s.Labels = append(s.Labels, [2]string{"exclusive", "a"})
		}
		if r.Pct(25) {
			s.Labels = append(s.Labels, [2]string{"disk", valsOf["disk"][r.Intn(2)]})
		}
		if r.Pct(5) && len(s.Labels) > 0 { // duplicated key with another value: the first one counts
			l := s.Labels[r.Intn(len(s.Labels))]
			vs := valsOf[strings.ToLower(l[0])]
			if vs != nil {
				s.Labels = append(s.Labels, [2]string{l[0], vs[r.Intn(len(vs))]})
			}
		}
		out = append(out, s)
	}
	// store states: the fit of a region does not depend on them (a peer on an Offline or Tombstone store still
	// counts for its rule until it is moved); 12%: every store is Offline / Tombstone, 18%: some are
	switch r.Pick(70, 12, 18) {
	case 1:
		for i := range out {
			out[i].State = 1 + r.Intn(2)
		}
	case 2:
		for i := range out {
			if r.Pct(45) {
				out[i].State = 1 + r.Intn(2)
			}
		}
	}
	return out
}

func genRules(r *rng.R, malformed bool) []ruleJ {
	n := 1 + r.Pick(25, 35, 25, 15)
	if malformed && r.Pct(10) {
		n = 0
	}
	var out []ruleJ
	for i := 0; i < n; i++ {
		ru := ruleJ{}
		switch r.Pick(50, 12, 15, 23) {
		case 0:
			ru.Role = "voter"
		case 1:
			ru.Role = "leader"
		case 2:
			ru.Role = "follower"
		case 3:
			ru.Role = "learner"
		}
		ru.Count = 1 + r.Pick(40, 35, 20, 5)
		if ru.Role == "leader" && !malformed {
			ru.Count = 1
		}
		if malformed {
			if r.Pct(10) {
				ru.Role = "witness" // not a role: matches loosely, never strictly
			}
			if r.Pct(10) {
				ru.Count = 0
			}
		}
		nc := r.Pick(45, 40, 15)
		for j := 0; j < nc; j++ {
			k := allKeys[r.Pick(30, 15, 10, 18, 10, 5, 12)]
			c := consJ{Key: k, Op: []string{"in", "notIn", "exists", "notExists"}[r.Pick(50, 20, 18, 12)]}
			vs := valsOf[k]
			nv := 1 + r.Intn(2)
			for q := 0; q < nv; q++ {
				c.Values = append(c.Values, vs[r.Intn(len(vs))])
			}
			// the empty string as a listed value ("zone=" split, hand-written
			// JSON): a store without the label reads as "", and must still
			// never match `in` and always match `notIn`.
			switch r.Pick(84, 8, 5, 3) {
			case 1:
				c.Values = append(c.Values, "")
			case 2:
				c.Values = append([]string{""}, c.Values...)
			case 3:
				c.Values = []string{""}
			}
			if c.Op == "exists" || c.Op == "notExists" {
				if r.Pct(70) {
					c.Values = nil
				}
			}
			if malformed && r.Pct(12) {
				c.Op = "In" // wrong case: not an operator
			}
			if r.Pct(5) {
				c.Key = caseVariant(r, c.Key, 100)
			}
			ru.Cons = append(ru.Cons, c)
		}
		nl := r.Pick(25, 25, 30, 20)
		ru.Locs = append(ru.Locs, keysLoc[:nl]...)
		if nl > 0 && r.Pct(6) {
			ru.Locs[0] = "Zone"
		}
		// location labels that are not a prefix of zone/rack/host: two rules of
		// one list then give the same pair of stores different isolation levels
		if r.Pct(15) {
			ru.Locs = [][]string{{"host"}, {"rack", "host"}, {"host", "zone"}, {"rack"}, {"zone", "host"}}[r.Intn(5)]
		}
		out = append(out, ru)
	}
	return out
}

func genRegion(r *rng.R, stores []storeJ, malformed bool) regionJ {
	n := 1 + r.Pick(8, 14, 28, 20, 18, 12)
	var reg regionJ
	usedID := map[uint64]bool{}
	perm := make([]int, len(stores))
	for i := range perm {
		perm[i] = i
	}
	for i := len(perm) - 1; i > 0; i-- {
		j := r.Intn(i + 1)
		perm[i], perm[j] = perm[j], perm[i]
	}
	for i := 0; i < n; i++ {
		var id uint64
		for {
			id = uint64(1 + r.Intn(40))
			if !usedID[id] {
				usedID[id] = true
				break
			}
		}
		st := stores[perm[i%len(perm)]].ID // distinct stores while there are enough, then shared
		if malformed && r.Pct(12) {
			st = 99 // no such store: GetStore returns nil
		}
		role := []int{0, 1, 2, 3}[r.Pick(72, 22, 3, 3)]
		reg.Peers = append(reg.Peers, peerJ{ID: id, Store: st, Role: role})
	}
	pickLeader(r, &reg, malformed)
	return reg
}

func pickLeader(r *rng.R, reg *regionJ, malformed bool) {
	var voters []uint64
	for _, p := range reg.Peers {
		if p.Role != 1 {
			voters = append(voters, p.ID)
		}
	}
	reg.Leader = 0
	switch {
	case malformed && r.Pct(15):
		reg.Leader = reg.Peers[r.Intn(len(reg.Peers))].ID // possibly a learner
	case r.Pct(6) || len(voters) == 0:
		// no leader known
	default:
		reg.Leader = voters[r.Intn(len(voters))]
	}
}

// region B: the kind of neighbour the checkers compare with (one peer moved / re-roled / added / removed)
func mutate(r *rng.R, a regionJ, stores []storeJ, malformed bool) regionJ {
	b := regionJ{Leader: a.Leader, Peers: append([]peerJ(nil), a.Peers...)}
	switch r.Pick(35, 20, 15, 15, 15) {
	case 0:
		i := r.Intn(len(b.Peers))
		b.Peers[i].Store = stores[r.Intn(len(stores))].ID
	case 1:
		i := r.Intn(len(b.Peers))
		b.Peers[i].Role = 1 - (b.Peers[i].Role & 1)
		if b.Peers[i].Role == 1 && b.Leader == b.Peers[i].ID {
			pickLeader(r, &b, malformed)
		}
	case 2:
		if len(b.Peers) > 1 {
			i := r.Intn(len(b.Peers))
			gone := b.Peers[i].ID
			b.Peers = append(b.Peers[:i], b.Peers[i+1:]...)
			if b.Leader == gone {
				pickLeader(r, &b, malformed)
			}
		}
	case 3:
		if len(b.Peers) < 6 {
			used := map[uint64]bool{}
			for _, p := range b.Peers {
				used[p.ID] = true
			}
			id := uint64(41)
			for used[id] {
				id++
			}
			b.Peers = append(b.Peers, peerJ{ID: id, Store: stores[r.Intn(len(stores))].ID, Role: r.Pick(75, 25)})
		}
	case 4:
		return genRegion(r, stores, malformed)
	}
	return b
}

// fitting stream: the rule list is written for region A (counts = voters / learners present, constraints
// every store satisfies), so that satisfied fits and ties between equally good assignments are frequent
func genFitting(r *rng.R) caseJ {
	c := caseJ{Stream: "fitting"}
	n := 3 + r.Intn(4)
	for i := 0; i < n; i++ {
		c.Stores = append(c.Stores, storeJ{ID: uint64(i + 1), Labels: [][2]string{
			{"zone", valsOf["zone"][r.Intn(3)]}, {"host", fmt.Sprintf("h%d", i+1)}}})
	}
	c.A = genRegion(r, c.Stores, false)
	voters, learners := 0, 0
	for i := range c.A.Peers {
		if c.A.Peers[i].Role >= 2 {
			c.A.Peers[i].Role = 0
		}
		if c.A.Peers[i].Role == 1 {
			learners++
		} else {
			voters++
		}
	}
	locs := keysLoc[:0:0]
	if r.Pct(70) {
		locs = []string{"zone", "host"}
	}
	var anyCons []consJ
	if r.Pct(30) {
		anyCons = []consJ{{Key: "zone", Op: "exists"}}
	}
	switch {
	case voters >= 2 && r.Pct(45):
		c.Rules = append(c.Rules, ruleJ{Role: "leader", Count: 1, Cons: anyCons}, ruleJ{Role: "follower", Count: voters - 1, Locs: locs})
	case voters >= 2 && r.Pct(40):
		k := 1 + r.Intn(voters-1)
		c.Rules = append(c.Rules, ruleJ{Role: "voter", Count: k, Locs: locs}, ruleJ{Role: "voter", Count: voters - k, Cons: anyCons, Locs: locs})
	case voters >= 1:
		c.Rules = append(c.Rules, ruleJ{Role: "voter", Count: voters, Cons: anyCons, Locs: locs})
	}
	if learners > 0 {
		c.Rules = append(c.Rules, ruleJ{Role: "learner", Count: learners, Locs: locs})
	}
	if len(c.Rules) == 0 {
		c.Rules = append(c.Rules, ruleJ{Role: "voter", Count: 1})
	}
	c.B = mutate(r, c.A, c.Stores, false)
	return c
}

// manager stream: the same inputs, but through RuleManager.FitRegion with the stores cached in a real
// core.BasicCluster and the rules served by a real RuleManager (after adjustRule, override and the default rule)
func genManager(r *rng.R) caseJ {
	c := genFitting(r)
	if r.Pct(50) {
		c = caseJ{Stores: genStores(r, false), Rules: genRules(r, false)}
		c.A = genRegion(r, c.Stores, false)
		c.B = mutate(r, c.A, c.Stores, false)
	}
	c.Stream, c.Manager, c.Install, c.Rules = "manager", true, c.Rules, nil
	c.DropDefault = r.Pct(60)
	if r.Pct(40) { // a storage failure while rules are being deleted
		c.FaultOp, c.FaultAt = 1+r.Intn(2), 1+r.Pick(60, 25, 15)
	}
	return c
}

// the manager stream with a writer holding the cluster lock while the fit starts
func genLockWait(r *rng.R) caseJ {
	c := genManager(r)
	c.Stream, c.LockWaitMs = "lockwait", 60+r.Intn(30)
	c.Overlap = r.Pct(50)
	return c
}

func genCase(r *rng.R) caseJ {
	if r.Pct(22) {
		return genFitting(r)
	}
	if r.Pct(12) {
		return genManager(r)
	}
	malformed := r.Pct(12)
	c := caseJ{Stream: "valid"}
	if malformed {
		c.Stream = "malformed"
	}
	c.Stores = genStores(r, malformed)
	c.Rules = genRules(r, malformed)
	c.A = genRegion(r, c.Stores, malformed)
	c.B = mutate(r, c.A, c.Stores, malformed)
	return c
}

// exhaustive stream: <= 3 rules x <= 4 peers x 2 label levels over a fixed 4-store layout,
// enumerated by a mixed-radix counter (index k)
func exhaustiveCase(k uint64) (caseJ, bool) {
	stores := []storeJ{
		{ID: 1, Labels: [][2]string{{"zone", "z1"}, {"host", "h1"}}},
		{ID: 2, Labels: [][2]string{{"zone", "z1"}, {"host", "h2"}}},
		{ID: 3, Labels: [][2]string{{"zone", "z2"}, {"host", "h3"}}},
		{ID: 4, Labels: [][2]string{{"zone", "z2"}, {"host", "h3"}, {"engine", "tiflash"}}},
	}
	ruleShapes := []ruleJ{
		{Role: "voter", Count: 1, Locs: []string{"zone", "host"}},
		{Role: "voter", Count: 2, Locs: []string{"zone", "host"}},
		{Role: "leader", Count: 1, Cons: []consJ{{Key: "zone", Op: "in", Values: []string{"z1"}}}},
		{Role: "follower", Count: 2, Locs: []string{"zone"}},
		{Role: "learner", Count: 1, Cons: []consJ{{Key: "engine", Op: "in", Values: []string{"tiflash"}}}},
		{Role: "voter", Count: 2, Cons: []consJ{{Key: "zone", Op: "notIn", Values: []string{"z1"}}}, Locs: []string{"host"}},
	}
	next := func(n uint64) uint64 { d := k % n; k /= n; return d }
	c := caseJ{Stream: "grid", Stores: stores}
	nr := 1 + int(next(3))
	for i := 0; i < nr; i++ {
		c.Rules = append(c.Rules, ruleShapes[next(uint64(len(ruleShapes)))])
	}
	np := 1 + int(next(4))
	for i := 0; i < np; i++ {
		st := 1 + next(4)
		role := int(next(2))
		c.A.Peers = append(c.A.Peers, peerJ{ID: uint64(10 - i), Store: st, Role: role})
	}
	li := next(uint64(np) + 1)
	if li > 0 {
		c.A.Leader = c.A.Peers[li-1].ID
	}
	// B: A with the first peer moved to the next store
	c.B = regionJ{Leader: c.A.Leader, Peers: append([]peerJ(nil), c.A.Peers...)}
	c.B.Peers[0].Store = c.B.Peers[0].Store%4 + 1
	return c, k == 0
}

// ---------- running one case ----------
type outcome struct {
	coq        string
	nontrivial bool
	a, b       fitObs
	ab, ba     int
}

// managerSetup installs the case into a real RuleManager / BasicCluster and reads the served rules back.
// set by managerSetup when the fault phase of a case finds two managers disagreeing; reported by run
var faultViolation string

func managerSetup(c *caseJ) (*placement.RuleManager, *core.BasicCluster) {
	faultViolation = ""
	bc := core.NewBasicCluster()
	seen := map[uint64]bool{}
	for _, s := range c.Stores {
		if seen[s.ID] {
			continue
		}
		seen[s.ID] = true
		var ls []*metapb.StoreLabel
		for _, l := range s.Labels {
			ls = append(ls, &metapb.StoreLabel{Key: l[0], Value: l[1]})
		}
		bc.PutStore(core.NewStoreInfo(&metapb.Store{Id: s.ID, Labels: ls, State: metapb.StoreState(s.State)}))
	}
	fkv := kvx13.NewOn(kv.NewMemoryKV())
	storage := core.NewStorage(fkv)
	m := placement.NewRuleManager(storage, nil)
	if err := m.Initialize(3, []string{"zone", "host"}); err != nil {
		panic(err)
	}
	for i, r := range c.Install {
		pr := mkRules([]ruleJ{r})[0]
		pr.GroupID, pr.ID, pr.Index = "g", fmt.Sprintf("r%d", i), i
		_ = m.SetRule(pr) // invalid contents are rejected by the manager
	}
	if c.DropDefault {
		_ = m.DeleteRule("pd", "default") // rejected when nothing valid would be left
	}
	if c.FaultOp != 0 {
		fkv.Plan(c.FaultAt, kvx13.FailBefore)
		var err error
		if c.FaultOp == 1 {
			err = m.DeleteRule("g", "r0")
		} else {
			err = m.DeleteGroupBundle("g", false)
		}
		writes := fkv.Take()
		rulesJSON := func(x *placement.RuleManager) string {
			b, _ := json.Marshal(x.GetRulesForApplyRegion(mkRegion(c.A)))
			return string(b)
		}
		m2 := placement.NewRuleManager(storage, nil)
		if err != nil {
			// refused or failed and said so: the client retries; nothing is promised about the storage meanwhile (C13)
		} else if err2 := m2.Initialize(3, []string{"zone", "host"}); err2 != nil {
			faultViolation = fmt.Sprintf("after %s with write %d of %d failing (answer: %v) a second manager cannot start on the storage: %v", []string{"", "DeleteRule(g,r0)", "DeleteGroupBundle(g)"}[c.FaultOp], c.FaultAt, len(writes), err, err2)
		} else if a, b := rulesJSON(m), rulesJSON(m2); a != b {
			faultViolation = fmt.Sprintf("after %s with write %d of %d failing (answer: %v) the manager fits the region against %s, a second manager on the same storage against %s", []string{"", "DeleteRule(g,r0)", "DeleteGroupBundle(g)"}[c.FaultOp], c.FaultAt, len(writes), err, a, b)
		}
	}
	c.Rules = nil
	for _, pr := range m.GetRulesForApplyRegion(mkRegion(c.A)) {
		rj := ruleJ{Role: string(pr.Role), Count: pr.Count, Locs: pr.LocationLabels}
		for _, k := range pr.LabelConstraints {
			rj.Cons = append(rj.Cons, consJ{Key: k.Key, Op: string(k.Op), Values: k.Values})
		}
		c.Rules = append(c.Rules, rj)
	}
	return m, bc
}

// ---------- the cluster stream: stores behind the RaftCluster of a real pd server ----------
var theSrv *srv14.Srv
var theRC *cluster.RaftCluster

const clusterStores = 7 // store ids 1..7 (1 is the bootstrap store)

func mkLabels(ls [][2]string) []*metapb.StoreLabel {
	out := []*metapb.StoreLabel{}
	for _, l := range ls {
		out = append(out, &metapb.StoreLabel{Key: l[0], Value: l[1]})
	}
	return out
}

func clusterSetup(c *caseJ) *cluster.RaftCluster {
	if theSrv == nil {
		x, err := srv14.Start(func(cfg *config.Config) { cfg.LeaderLease = 60 })
		if err != nil {
			panic(err)
		}
		if err := x.Bootstrap(&metapb.Store{Id: 1, Address: "s1", Version: "4.0.0"}); err != nil {
			panic(err)
		}
		theSrv, theRC = x, x.S.GetRaftCluster()
	}
	for _, p := range c.Puts {
		var err error
		if p.Force && theRC.GetStore(p.ID) != nil {
			err = theRC.UpdateStoreLabels(p.ID, mkLabels(p.Labels), true)
		} else {
			err = theRC.PutStore(&metapb.Store{Id: p.ID, Address: fmt.Sprintf("s%d", p.ID), Version: "4.0.0", Labels: mkLabels(p.Labels)})
		}
		if err != nil {
			panic(fmt.Sprintf("cluster stream: put %+v: %v", p, err))
		}
	}
	// what the cluster says its stores are (the labels of the store records)
	c.Stores = nil
	for _, s := range theRC.GetStores() {
		sj := storeJ{ID: s.GetID(), State: int(s.GetState())}
		for _, l := range s.GetLabels() {
			sj.Labels = append(sj.Labels, [2]string{l.GetKey(), l.GetValue()})
		}
		c.Stores = append(c.Stores, sj)
	}
	sort.Slice(c.Stores, func(i, j int) bool { return c.Stores[i].ID < c.Stores[j].ID })
	return theRC
}

var clusterKeys = []string{"zone", "rack", "host", "engine", "disk"}

func genClusterLabels(r *rng.R) [][2]string {
	var ls [][2]string
	for i, k := range clusterKeys {
		if r.Pct([]int{85, 50, 75, 15, 25}[i]) {
			vs := valsOf[k]
			ls = append(ls, [2]string{k, vs[r.Intn(len(vs))]})
		}
	}
	return ls
}

// every store is first set to known labels (joined, then forced), then some stores come back with other
// labels / get labels changed or dropped by the operator; rules are written against the final labels
func genCluster(r *rng.R) caseJ {
	c := caseJ{Stream: "cluster", Cluster: true}
	for id := uint64(1); id <= clusterStores; id++ {
		ls := genClusterLabels(r)
		c.Puts = append(c.Puts, putJ{ID: id, Labels: ls}, putJ{ID: id, Labels: ls, Force: true})
	}
	n := 1 + r.Pick(25, 35, 25, 15)
	for i := 0; i < n; i++ {
		id := 1 + uint64(r.Intn(clusterStores))
		p := putJ{ID: id, Force: r.Pct(35)}
		if p.Force {
			p.Labels = genClusterLabels(r)
		} else {
			// merged: the given keys are overwritten, an empty value drops the label
			for _, k := range clusterKeys[:3] {
				switch r.Pick(45, 40, 15) {
				case 1:
					vs := valsOf[k]
					p.Labels = append(p.Labels, [2]string{k, vs[r.Intn(len(vs))]})
				case 2:
					p.Labels = append(p.Labels, [2]string{k, ""})
				}
			}
		}
		c.Puts = append(c.Puts, p)
	}
	stores := make([]storeJ, 0, clusterStores)
	for id := uint64(1); id <= clusterStores; id++ {
		stores = append(stores, storeJ{ID: id})
	}
	c.Rules = genRules(r, false)
	c.A = genRegion(r, stores, false)
	c.B = mutate(r, c.A, stores, false)
	return c
}

// ---------- the HTTP layer: rule updates through the real router, judged by the fits of the real cluster ----------
// Stores as in the cluster stream. A rule with a label constraint is set through POST /config/rule; then an
// update of that rule is REFUSED (count 0, other constraint values): RaftCluster.FitRegion must answer as
// before; then an update that changes only the constraint is ACCEPTED: a second RuleManager started on the
// storage must fit the region as the leader's does.
func apiFit(R *res.Result, r *rng.R, tag string) {
	c := genCluster(r)
	rc := clusterSetup(&c)
	h, _, err := api.NewHandler(context.Background(), theSrv.S)
	if err != nil {
		panic(err)
	}
	m := rc.GetRuleManager()
	var steps []map[string]interface{}
	post := func(body map[string]interface{}) int {
		b, _ := json.Marshal(body)
		rec := httptest.NewRecorder()
		h.ServeHTTP(rec, httptest.NewRequest("POST", "/pd/api/v1/config/rule", bytes.NewReader(b)))
		steps = append(steps, map[string]interface{}{"post": body, "code": rec.Code})
		return rec.Code
	}
	zones := map[string]bool{}
	for _, st := range c.Stores {
		for _, l := range st.Labels {
			if l[0] == "zone" {
				zones[l[1]] = true
			}
		}
	}
	var zs []string
	for _, z := range valsOf["zone"] {
		if zones[z] {
			zs = append(zs, z)
		}
	}
	if len(zs) == 0 {
		R.Count("apifit:no-zone")
		return
	}
	rule := func(count int, op, zone string) map[string]interface{} {
		return map[string]interface{}{"group_id": "g", "id": "r1", "role": "voter", "count": count, "start_key": "", "end_key": "",
			"label_constraints": []map[string]interface{}{{"key": "zone", "op": op, "values": []string{zone}}}, "location_labels": []string{"host"}}
	}
	fitOf := func(x *placement.RuleManager) string { return observe(R, x.FitRegion(rc, mkRegion(c.A))).Coq }
	replay := func() interface{} {
		return map[string]interface{}{"stream": "apifit", "puts": c.Puts, "a": c.A, "steps": steps}
	}
	defer func() { _ = m.DeleteRule("g", "r1") }()
	z0 := zs[r.Intn(len(zs))]
	if post(rule(1+r.Intn(3), "in", z0)) != http.StatusOK {
		R.Count("apifit:first-rule-refused")
		return
	}
	before := fitOf(m)
	other := []string{"z7", "z8", zs[r.Intn(len(zs))]}[r.Intn(3)]
	if code := post(rule(0, []string{"in", "notIn"}[r.Intn(2)], other)); code == http.StatusOK {
		R.Count("apifit:invalid-accepted")
	} else if after := fitOf(m); after != before {
		R.Violate("C12:refused-rule-update-changed-the-fit", fmt.Sprintf("%s: POST /config/rule answered %d; RuleManager.FitRegion before: %s after: %s", tag, code, before, after), replay())
	}
	z1 := zs[r.Intn(len(zs))]
	op1 := []string{"in", "notIn"}[r.Intn(2)]
	if op1 == "notIn" && len(zs) == 1 && z1 == zs[0] {
		op1 = "in"
	}
	if code := post(rule(1+r.Intn(3), op1, z1)); code != http.StatusOK {
		R.Count(fmt.Sprintf("apifit:update-refused-%d", code))
		return
	}
	m2 := placement.NewRuleManager(theSrv.S.GetStorage(), rc)
	if err := m2.Initialize(3, nil); err != nil {
		R.Violate("C12:two-managers-fit-against-different-rules", fmt.Sprintf("%s: a second manager cannot start after an accepted POST /config/rule: %v", tag, err), replay())
	} else if a, b := fitOf(m), fitOf(m2); a != b {
		R.Violate("C12:two-managers-fit-against-different-rules", fmt.Sprintf("%s: after an accepted POST /config/rule the leader fits the region as %s, a manager started on the storage as %s", tag, a, b), replay())
	}
	R.Count("stream:apifit")
}

func run(R *res.Result, c *caseJ) outcome {
	ss := mkStores(c.Stores)
	var mgr *placement.RuleManager
	var bc *core.BasicCluster
	if c.Manager {
		mgr, bc = managerSetup(c)
		if faultViolation != "" {
			R.Violate("C12:two-managers-fit-against-different-rules", faultViolation, c)
		}
	}
	var rc *cluster.RaftCluster
	if c.Cluster {
		rc = clusterSetup(c)
	}
	rules := mkRules(c.Rules)
	first := true
	fit := func(r regionJ) (f *placement.RegionFit) {
		defer func() {
			if e := recover(); e != nil {
				R.Violate("C12:fit-region-panicked", fmt.Sprintf("placement.FitRegion panicked: %v", e), c)
				f = &placement.RegionFit{}
			}
		}()
		if mgr != nil {
			if c.LockWaitMs > 0 && first {
				first = false
				held := make(chan struct{})
				go func() {
					bc.Lock()
					close(held)
					time.Sleep(time.Duration(c.LockWaitMs) * time.Millisecond)
					bc.Unlock()
				}()
				<-held
			}
			return mgr.FitRegion(bc, mkRegion(r))
		}
		if rc != nil {
			return placement.FitRegion(rc, mkRegion(r), rules)
		}
		return placement.FitRegion(ss, mkRegion(r), rules)
	}
	var fa, fb *placement.RegionFit
	if mgr != nil && c.LockWaitMs > 0 && c.Overlap {
		first = false
		ca, cb := make(chan *placement.RegionFit, 1), make(chan *placement.RegionFit, 1)
		bc.Lock()
		go func() { ca <- fit(c.A) }()
		time.Sleep(time.Duration(c.LockWaitMs/3) * time.Millisecond)
		go func() { cb <- fit(c.B) }()
		time.Sleep(time.Duration(c.LockWaitMs*2/3) * time.Millisecond)
		bc.Unlock()
		fa, fb = <-ca, <-cb
	} else {
		fa, fb = fit(c.A), fit(c.B)
	}
	oa, ob := observe(R, fa), observe(R, fb)
	ab, ba := 0, 0
	func() {
		defer func() {
			if e := recover(); e != nil {
				R.Violate("C12:compare-region-fit-panicked", fmt.Sprintf("placement.CompareRegionFit panicked: %v", e), c)
			}
		}()
		ab, ba = placement.CompareRegionFit(fa, fb), placement.CompareRegionFit(fb, fa)
	}()
	txt := "Case " + c.coqInputs() + "\n  " + oa.Coq + "\n  " + ob.Coq + " " + coqfmt.Z(int64(ab)) + " " + coqfmt.Z(int64(ba))
	nt := len(c.Rules) >= 2 && oa.NPeer > 0 && (oa.Orph > 0 || oa.Diff > 0 || oa.Score)
	return outcome{"(" + txt + ")", nt, oa, ob, ab, ba}
}

// ---------- probes outside the modelled domain: what the real code does there (recorded as notes) ----------
// fixedCases are run on every invocation: the empty string listed as a value of
// an in / notIn constraint, with stores that lack the label (they read as "").
// Documented: a missing label never matches `in` and always matches `notIn`.
func fixedCases() []caseJ {
	stores := []storeJ{
		{ID: 1, Labels: [][2]string{{"zone", "z1"}, {"host", "h1"}}},
		{ID: 2, Labels: [][2]string{{"host", "h2"}}},
		{ID: 3, Labels: [][2]string{{"zone", "z2"}, {"host", "h3"}}},
		{ID: 4, Labels: nil},
	}
	reg := regionJ{Leader: 1, Peers: []peerJ{{ID: 1, Store: 1}, {ID: 2, Store: 2}, {ID: 3, Store: 3}, {ID: 4, Store: 4}}}
	var out []caseJ
	for _, op := range []string{"in", "notIn"} {
		for _, vals := range [][]string{{""}, {"z1", ""}, {"", "z2"}} {
			out = append(out, caseJ{Stream: "fixed", Stores: stores, A: reg, B: reg,
				Rules: []ruleJ{{Role: "voter", Count: 3, Cons: []consJ{{Key: "zone", Op: op, Values: vals}}, Locs: []string{"zone"}}}})
		}
	}
	// two rules with different location labels over the same peers (voters by
	// zone, learners by host): each pair of stores is scored once per rule
	st2 := []storeJ{
		{ID: 1, Labels: [][2]string{{"zone", "z1"}, {"host", "h1"}}},
		{ID: 2, Labels: [][2]string{{"zone", "z1"}, {"host", "h1"}}},
		{ID: 3, Labels: [][2]string{{"zone", "z1"}, {"host", "h2"}}},
		{ID: 4, Labels: [][2]string{{"zone", "z1"}, {"host", "h3"}}},
		{ID: 5, Labels: [][2]string{{"zone", "z2"}, {"host", "h4"}}},
		{ID: 6, Labels: [][2]string{{"zone", "z3"}, {"host", "h5"}}},
	}
	reg2 := regionJ{Leader: 4, Peers: []peerJ{{ID: 4, Store: 4}, {ID: 5, Store: 5}, {ID: 6, Store: 6},
		{ID: 1, Store: 1, Role: 1}, {ID: 2, Store: 2, Role: 1}, {ID: 3, Store: 3, Role: 1}}}
	out = append(out, caseJ{Stream: "fixed", Stores: st2, A: reg2, B: reg2, Rules: []ruleJ{
		{Role: "voter", Count: 3, Locs: []string{"zone"}},
		{Role: "learner", Count: 2, Locs: []string{"host"}}}})
	out = append(out, caseJ{Stream: "fixed", Stores: st2, A: reg2, B: reg2, Rules: []ruleJ{
		{Role: "voter", Count: 2, Locs: []string{"zone"}},
		{Role: "voter", Count: 2, Locs: []string{"host"}},
		{Role: "learner", Count: 2, Locs: []string{"zone", "host"}}}})
	return out
}

func probes(R *res.Result) {
	stores := []storeJ{{ID: 1, Labels: [][2]string{{"zone", "z1"}}}, {ID: 2, Labels: [][2]string{{"zone", "z2"}}}}
	reg := regionJ{Leader: 1, Peers: []peerJ{{ID: 1, Store: 1}, {ID: 2, Store: 2}}}
	// (1) negative Count (rejected by adjustRule: a RuleManager never serves it)
	func() {
		fit := placement.FitRegion(mkStores(stores), mkRegion(reg), mkRules([]ruleJ{{Role: "voter", Count: -1}}))
		nilFit := len(fit.RuleFits) == 1 && fit.RuleFits[0] == nil
		panicked := false
		func() {
			defer func() { panicked = recover() != nil }()
			fit.IsSatisfied()
		}()
		R.Count(fmt.Sprintf("probe:negative-count:nil-rulefit=%v,orphans=%d,is-satisfied-panics=%v", nilFit, len(fit.OrphanPeers), panicked))
		R.Notes = append(R.Notes, fmt.Sprintf("probe negative Count (-1): RuleFits[0]==nil %v, OrphanPeers %d of 2 peers, IsSatisfied panics %v — excluded by adjustRule (obligation count_guard_present)", nilFit, len(fit.OrphanPeers), panicked))
	}()
	// (2) two peers with the same id: sort.Slice may leave them in either order; the answer is a valid, optimal fit of that order
	func() {
		dup := regionJ{Leader: 7, Peers: []peerJ{{ID: 7, Store: 1}, {ID: 7, Store: 2, Role: 1}, {ID: 3, Store: 2}}}
		fit := placement.FitRegion(mkStores(stores), mkRegion(dup), mkRules([]ruleJ{{Role: "voter", Count: 2, Locs: []string{"zone"}}}))
		n := 0
		for _, rf := range fit.RuleFits {
			n += len(rf.Peers)
		}
		R.Count(fmt.Sprintf("probe:duplicate-peer-id:placed=%d,orphans=%d", n, len(fit.OrphanPeers)))
	}()
	// (3) 9 location-label levels: 100^8 > 2^53, the float64 sum drops the lowest level
	func() {
		lv := func(vals ...string) [][2]string {
			var out [][2]string
			for i, v := range vals {
				out = append(out, [2]string{fmt.Sprintf("l%d", i), v})
			}
			return out
		}
		var locs []string
		for i := 0; i < 9; i++ {
			locs = append(locs, fmt.Sprintf("l%d", i))
		}
		st := []storeJ{
			{ID: 1, Labels: lv("a", "x", "x", "x", "x", "x", "x", "x", "p")},
			{ID: 2, Labels: lv("b", "x", "x", "x", "x", "x", "x", "x", "p")},
			{ID: 3, Labels: lv("a", "x", "x", "x", "x", "x", "x", "x", "p")}, // same place as store 1
			{ID: 4, Labels: lv("a", "x", "x", "x", "x", "x", "x", "x", "q")}, // differs from store 1 at the lowest level
		}
		rg := regionJ{Leader: 1, Peers: []peerJ{{ID: 1, Store: 1}, {ID: 2, Store: 2}, {ID: 3, Store: 3}, {ID: 4, Store: 4}}}
		fit := placement.FitRegion(mkStores(st), mkRegion(rg), mkRules([]ruleJ{{Role: "voter", Count: 3, Locs: locs}}))
		var got []uint64
		for _, p := range fit.RuleFits[0].Peers {
			got = append(got, p.GetId())
		}
		R.Count(fmt.Sprintf("probe:nine-label-levels:chosen=%v,score=%.0f", got, fit.RuleFits[0].IsolationScore))
		R.Notes = append(R.Notes, fmt.Sprintf("probe 9 location labels: FitRegion chose peers %v with float score %.0f; exact scores: {1,2,3} = 2*100^8, {1,2,4} = 2*100^8+1 (+1 for the pair 1/4 at the lowest level) — beyond 2^53 the low level is lost (bound: C12_isolation_score_exact_in_float64)", got, fit.RuleFits[0].IsolationScore))
	}()
}

func main() {
	seed := flag.Uint64("seed", 1, "")
	n := flag.Int("n", 2000, "number of generated cases")
	nex := flag.Int("grid", 0, "number of cases of the exhaustive stream (0 = none, -1 = all)")
	out := flag.String("out", ".", "output directory")
	tier := flag.String("tier", "quick", "")
	nlock := flag.Int("lockwait", 0, "number of manager cases run while a writer holds the cluster lock (60..90 ms each)")
	napifit := flag.Int("apifit", 0, "number of runs of the HTTP-layer class (rule updates through the real router, judged by RaftCluster fits)")
	ncluster := flag.Int("cluster", 0, "number of cases whose stores live in a real pd server's RaftCluster")
	corpus := flag.String("corpus", "", "json file: list of raw cases run first")
	replay := flag.String("replay", "", "json file: one raw case (or an evidence replay file) to run and print")
	flag.Parse()
	log.ReplaceGlobals(zap.NewNop(), nil)

	R := res.New("C12", *seed, *tier)
	R.Rule = "inputs = (1..7 labelled stores, 0..4 rules with role/count/label constraints/location labels, region A of 1..6 peers, " +
		"neighbour region B); streams: lockwait (-lockwait: manager cases with the BasicCluster write lock held by another goroutine while the fit starts), cluster (-cluster: stores put and relabelled through RaftCluster.PutStore / UpdateStoreLabels of a real pd server, FitRegion on the RaftCluster), fitting 22% (rules written for region A), manager 9% (RuleManager.FitRegion on a real RuleManager + core.BasicCluster), of the rest valid 88% / malformed 12% (missing store, unknown role or operator, count 0, no rule, learner leader) " +
		"plus the systematic grid stream (<= 3 rules x <= 4 peers x 2 label levels on a fixed 4-store layout, strided by the seed); non-trivial = at least 2 rules, some peer placed in a rule, and an orphan or a " +
		"role mismatch or a positive isolation score; distinct by sha256 of the canonical Coq text of inputs and answers"
	cf := &coqfmt.CaseFile{Dir: *out, Prefix: "C12", PerFile: 250,
		Header: "From Coq Require Import String.\nFrom PDV Require Import lib.Base model.C12_Fit.\nLocal Open Scope string_scope.\nLocal Open Scope Z_scope.\n",
		Type:   "case",
		Footer: "Definition M := Eval vm_compute in map fst (mismatches cases).\nDefinition D := Eval vm_compute in first_detail cases.\nDefinition V := Eval vm_compute in monitor_fails cases.\nPrint M. Print D. Print V.\n"}

	probes(R)
	var all []caseJ
	emit := func(c caseJ) outcome {
		o := run(R, &c)
		R.Count("stream:" + c.Stream)
		R.Count(fmt.Sprintf("rules:%d", len(c.Rules)))
		R.Count(fmt.Sprintf("peersA:%d", len(c.A.Peers)))
		R.Count(fmt.Sprintf("stores:%d", len(c.Stores)))
		notUp := 0
		for _, st := range c.Stores {
			if st.State != 0 {
				notUp++
			}
		}
		switch {
		case notUp == 0:
			R.Count("store-states:all-up")
		case notUp == len(c.Stores):
			R.Count("store-states:none-up")
		default:
			R.Count("store-states:mixed")
		}
		for _, r := range c.Rules {
			R.Count("role:" + r.Role)
			for _, k := range r.Cons {
				R.Count("op:" + k.Op)
			}
			R.Count(fmt.Sprintf("locs:%d", len(r.Locs)))
		}
		R.Count(fmt.Sprintf("satisfiedA:%d", o.a.Sat))
		R.Count(fmt.Sprintf("orphansA:%d", o.a.Orph))
		R.Count(fmt.Sprintf("role-mismatchesA:%d", o.a.Diff))
		R.Count(fmt.Sprintf("cmpAB:%d", o.ab))
		if o.a.Score {
			R.Count("scoreA>0")
		}
		if c.A.Leader == 0 {
			R.Count("no-leader")
		}
		R.Case(o.coq, o.nontrivial)
		R.Sample(c)
		if err := cf.Add(o.coq); err != nil {
			panic(err)
		}
		all = append(all, c)
		return o
	}

	load := func(f string) []caseJ {
		b, err := os.ReadFile(f)
		if err != nil {
			panic(err)
		}
		var l []caseJ
		if json.Unmarshal(b, &l) == nil {
			return l
		}
		var one struct {
			Replay *caseJ `json:"replay"`
		}
		if json.Unmarshal(b, &one) == nil && one.Replay != nil && one.Replay.Stores != nil {
			return []caseJ{*one.Replay}
		}
		var c caseJ
		if err := json.Unmarshal(b, &c); err != nil {
			panic(err)
		}
		return []caseJ{c}
	}
	if *corpus != "" {
		for _, c := range load(*corpus) {
			c.Stream = "corpus"
			emit(c)
		}
	}
	if *replay != "" {
		for _, c := range load(*replay) {
			o := emit(c)
			fmt.Println(o.coq)
		}
	} else {
		for _, c := range fixedCases() {
			emit(c)
		}
		master := rng.New(*seed)
		for k := 0; k < *n; k++ {
			emit(genCase(master.Fork(uint64(k))))
		}
		for k := 0; k < *nlock; k++ {
			emit(genLockWait(master.Fork(uint64(1000000 + k))))
		}
		for k := 0; k < *ncluster; k++ {
			emit(genCluster(master.Fork(uint64(2000000 + k))))
		}
		for k := 0; k < *napifit; k++ {
			apiFit(R, master.Fork(uint64(3000000+k)), fmt.Sprintf("seed %d apifit run %d", *seed, k))
		}
		for k := uint64(0); *nex != 0 && (*nex < 0 || k < uint64(*nex)); k++ {
			// the exhaustive stream is visited in a seed-dependent stride so that successive quick runs cover different parts
			c, _ := exhaustiveCase(k*2654435761 + *seed)
			emit(c)
		}
	}
	if err := cf.Flush(); err != nil {
		panic(err)
	}
	R.CaseFiles = cf.Files
	keys := make([]string, 0, len(R.Histogram))
	for k := range R.Histogram {
		keys = append(keys, k)
	}
	sort.Strings(keys)
	b, _ := json.Marshal(all)
	os.WriteFile(path.Join(*out, "cases.json"), b, 0o644)
	if err := R.Write(path.Join(*out, "result.json")); err != nil {
		panic(err)
	}
}
