// Driver for C17. Runs the REAL core.Storage over memKV / embedded etcd (both behind a byte-budget
// kv.Base wrapper that makes LoadRange fail on large pages) and the REAL core.RegionStorage (leveldb,
// with its write-back batch), and prints (ops, observations) as Coq terms for model/C17_Storage.v.
package main

import (
	"bytes"
	"context"
	"encoding/binary"
	"encoding/json"
	"flag"
	"fmt"
	"math"
	"net/http/httptest"
	"os"
	"path"
	"path/filepath"
	"sort"
	"strconv"
	"strings"
	"sync"
	"time"

	"github.com/gogo/protobuf/proto"
	"github.com/pingcap/kvproto/pkg/metapb"
	"github.com/pingcap/log"
	"github.com/tikv/pd/pkg/encryption"
	"github.com/tikv/pd/server/api"
	"github.com/tikv/pd/server/core"
	"github.com/tikv/pd/server/election"
	"github.com/tikv/pd/server/encryptionkm"
	"github.com/tikv/pd/server/kv"
	"go.uber.org/zap"

	"github.com/pingcap/kvproto/pkg/pdpb"

	"pdverif/internal/coqfmt"
	"pdverif/internal/etcdx"
	"pdverif/internal/pdcluster"
	"pdverif/internal/res"
	"pdverif/internal/rng"
)

type RV struct {
	Start, End, ConfVer, Version uint64
	Pad                          int // number of filler peers (large values); not part of the model, only of the size
}

type Op struct {
	K      string   // savestore delstore saveweight loadstores saveregion delregion flush switch crash reopen budget loadregions loadonce loadcache
	ID     uint64   `json:",omitempty"`
	P      int64    `json:",omitempty"` // payload / budget (-1 = none) / switch flag
	LW     int64    `json:",omitempty"`
	RW     int64    `json:",omitempty"`
	V      *RV      `json:",omitempty"`
	Sz     int      `json:",omitempty"` // marshalled size, filled when run
	Ap     bool     `json:",omitempty"` // fault ops: the write was applied although the call returned an error; crashinflush: the batch was written
	Stg    int      `json:",omitempty"` // saveweightf: 0 = the leader-weight write fails, 1 = the region-weight write
	Tmo    bool     `json:",omitempty"` // budget: the injected LoadRange failures look like time-outs ("context deadline exceeded") instead of "too large"
	GoViol string   `json:",omitempty"` // set by the driver: what a Go-side check of this very step found (reported by checkGo)
	Cached []string `json:",omitempty"` // loadwarm: the warm cache before the load (filled when run)
	Par    int      `json:",omitempty"` // flush only: run it in its own goroutine and overlap the next Par ops with it
}

type Case struct {
	Backend string // mem | etcd
	Ops     []Op
	Obs     []string `json:",omitempty"`
}

// ---- keys ----
func keyOf(k uint64) []byte {
	if k == 0 {
		return nil
	}
	b := make([]byte, 8)
	binary.BigEndian.PutUint64(b, k)
	return b
}
func keyNum(b []byte) uint64 {
	if len(b) == 0 {
		return 0
	}
	return binary.BigEndian.Uint64(b[:8])
}

// one shared slice of filler peers: big values without big memory (the regions only point to it)
var fillerPeers []*metapb.Peer

func filler(n int) []*metapb.Peer {
	for len(fillerPeers) < n {
		i := len(fillerPeers)
		fillerPeers = append(fillerPeers, &metapb.Peer{Id: uint64(1)<<40 + uint64(i), StoreId: uint64(1)<<30 + uint64(i)})
	}
	return fillerPeers[:n]
}

func (v RV) region(id uint64) *metapb.Region {
	r := &metapb.Region{Id: id, StartKey: keyOf(v.Start), EndKey: keyOf(v.End),
		RegionEpoch: &metapb.RegionEpoch{ConfVer: v.ConfVer, Version: v.Version}}
	r.Peers = filler(v.Pad)
	return r
}
func coqRV(m *metapb.Region, size int) string {
	return fmt.Sprintf("RV %s %s %s %s %s", coqfmt.ZU(keyNum(m.GetStartKey())), coqfmt.ZU(keyNum(m.GetEndKey())),
		coqfmt.ZU(m.GetRegionEpoch().GetConfVer()), coqfmt.ZU(m.GetRegionEpoch().GetVersion()), coqfmt.Z(int64(size)))
}
func coqItem(m *metapb.Region) string {
	return "(" + coqfmt.ZU(m.GetId()) + ", " + coqRV(m, proto.Size(m)) + ")"
}

func (o Op) coq() string {
	switch o.K {
	case "savestore":
		return fmt.Sprintf("OSaveStore %s %s", coqfmt.ZU(o.ID), coqfmt.Z(o.P))
	case "delstore":
		return "ODeleteStore " + coqfmt.ZU(o.ID)
	case "saveweight":
		return fmt.Sprintf("OSaveWeight %s %s %s", coqfmt.ZU(o.ID), coqfmt.Z(o.LW), coqfmt.Z(o.RW))
	case "loadstores":
		return "OLoadStores"
	case "saveregion", "leadersave":
		return fmt.Sprintf("OSaveRegion %s (%s)", coqfmt.ZU(o.ID), coqRV(o.V.region(o.ID), o.Sz))
	case "delregion":
		return "ODeleteRegion " + coqfmt.ZU(o.ID)
	case "flush":
		return "OFlush"
	case "flushfail":
		return "OFlushF"
	case "switch":
		return "OSwitch " + coqfmt.Bool(o.P != 0)
	case "crash":
		return "OCrash"
	case "reopen", "cancelclose":
		return "OReopen" // cancelclose: the parent context is cancelled BEFORE Close (the order of pd-server's main on SIGTERM)
	case "budget":
		if o.P < 0 {
			return "OBudget None"
		}
		return "OBudget (Some " + coqfmt.Z(o.P) + ")"
	case "savestoref":
		return fmt.Sprintf("OSaveStoreF %s %s %s", coqfmt.ZU(o.ID), coqfmt.Z(o.P), coqfmt.Bool(o.Ap))
	case "delstoref":
		return fmt.Sprintf("ODeleteStoreF %s %s", coqfmt.ZU(o.ID), coqfmt.Bool(o.Ap))
	case "saveweightf":
		return fmt.Sprintf("OSaveWeightF %s %s %s %d%%nat %s", coqfmt.ZU(o.ID), coqfmt.Z(o.LW), coqfmt.Z(o.RW), o.Stg, coqfmt.Bool(o.Ap))
	case "saveregionf":
		return fmt.Sprintf("OSaveRegionF %s (%s) %s", coqfmt.ZU(o.ID), coqRV(o.V.region(o.ID), o.Sz), coqfmt.Bool(o.Ap))
	case "delregionf":
		return fmt.Sprintf("ODeleteRegionF %s %s", coqfmt.ZU(o.ID), coqfmt.Bool(o.Ap))
	case "tick":
		return "OTick"
	case "crashinflush":
		return "OCrashInFlush " + coqfmt.Bool(o.Ap)
	case "loadregions":
		return "OLoadRegions"
	case "loadonce":
		return "OLoadOnce"
	case "loadoncecache":
		return "OLoadOnceIntoCache"
	case "loadwarm":
		return "OLoadWarm " + coqfmt.List(o.Cached)
	case "loadoncebad":
		return "OLoadOnceCorrupt " + coqfmt.ZU(o.ID)
	case "loadoncepair":
		return "OLoadOnce; OLoadOnce" // two overlapping callers; sequentially equivalent on correct code
	case "loadcache":
		return "OLoadIntoCache"
	}
	panic("bad op " + o.K)
}

// ---- the byte-budget wrapper around Storage.Base ----
type budgetKV struct {
	kv.Base
	budget int64 // < 0: none
	tmo    bool  // the failure is reported as an expired deadline (a slow store) instead of a too large page
	calls  int
	failed int
	// write faults: the armed-th next Save/Remove returns an error, after having been applied or not
	armed int
	after bool
}

func (b *budgetKV) fault(apply func() error) (bool, error) {
	if b.armed == 0 {
		return false, nil
	}
	b.armed--
	if b.armed > 0 {
		return false, nil
	}
	if b.after {
		if err := apply(); err != nil {
			return true, err
		}
	}
	return true, fmt.Errorf("injected write fault (applied: %v)", b.after)
}

func (b *budgetKV) Save(k, v string) error {
	if hit, err := b.fault(func() error { return b.Base.Save(k, v) }); hit {
		return err
	}
	return b.Base.Save(k, v)
}

func (b *budgetKV) Remove(k string) error {
	if hit, err := b.fault(func() error { return b.Base.Remove(k) }); hit {
		return err
	}
	return b.Base.Remove(k)
}

func (b *budgetKV) LoadRange(key, endKey string, limit int) ([]string, []string, error) {
	ks, vs, err := b.Base.LoadRange(key, endKey, limit)
	if err != nil {
		return ks, vs, err
	}
	b.calls++
	if b.budget >= 0 && strings.HasPrefix(key, "raft/r/") {
		var n int64
		for _, v := range vs {
			n += int64(len(v))
		}
		if n > b.budget {
			b.failed++
			if b.tmo {
				return nil, nil, fmt.Errorf("injected: page of %d bytes took too long: %w", n, context.DeadlineExceeded)
			}
			return nil, nil, fmt.Errorf("injected: page of %d bytes exceeds the budget %d", n, b.budget)
		}
	}
	return ks, vs, nil
}

type world struct {
	base   *budgetKV
	dir    string
	rs     *core.RegionStorage
	st     *core.Storage
	cancel context.CancelFunc
	useRS  bool
	// mirrors Storage.regionLoaded only to tell "skipped" from "loaded nothing"; reset with the Storage object
	loadedOnce bool
	// the process's own BasicCluster (warm cache): filled by the start-up load, updated by "synced" saves; reset with the process
	bc           *core.BasicCluster
	maxCallbacks int // 3 x everything ever saved + 10
}

func (w *world) openRS() {
	ctx, cancel := context.WithCancel(context.Background())
	rs, err := core.NewRegionStorage(ctx, filepath.Join(w.dir, "region-meta"), nil)
	if err != nil {
		panic(err)
	}
	w.rs, w.cancel = rs, cancel
	w.st = core.NewStorage(w.base, core.WithRegionStorage(rs))
	if w.useRS {
		w.st.SwitchToRegionStorage()
	}
}

type storeRec struct {
	found  bool
	lw, rw float64
}

// storeRec: what a full load of the stores returns for one id right now (no LoadRange budget, no fault)
func (w *world) storeRec(id uint64) storeRec {
	b, a := w.base.budget, w.base.armed
	w.base.budget, w.base.armed = -1, 0
	defer func() { w.base.budget, w.base.armed = b, a }()
	var out storeRec
	if err := w.st.LoadStores(func(s *core.StoreInfo) {
		if s.GetID() == id {
			out = storeRec{true, s.GetLeaderWeight(), s.GetRegionWeight()}
		}
	}); err != nil {
		panic(err)
	}
	return out
}

func status(err error) string {
	if err != nil {
		return "RFailed"
	}
	return "RDone"
}

func dump(b kv.Base) []string {
	_, vs, err := b.LoadRange("raft/r/", "raft/r0", 0)
	if err != nil {
		panic(err)
	}
	out := make([]string, len(vs))
	for i, v := range vs {
		m := &metapb.Region{}
		if err := m.Unmarshal([]byte(v)); err != nil {
			panic(err)
		}
		out[i] = coqItem(m)
	}
	return out
}

// endless aborts a load whose callback count exceeds anything a terminating scan can produce
type endless struct{}

func (w *world) guard(n *int) {
	*n++
	if *n > w.maxCallbacks {
		panic(endless{})
	}
}

// guarded runs a load; an endless scan is reported as RDiverged instead of hanging the driver
func guarded(load func() error) (st string) {
	defer func() {
		if r := recover(); r != nil {
			if _, ok := r.(endless); ok {
				st = "RDiverged"
				return
			}
			panic(r)
		}
	}()
	return status(load())
}

func (w *world) exec(o *Op) string {
	switch o.K {
	case "savestore":
		if err := w.st.SaveStore(&metapb.Store{Id: o.ID, Address: "p" + strconv.FormatInt(o.P, 10)}); err != nil {
			panic(err)
		}
	case "delstore":
		if err := w.st.DeleteStore(&metapb.Store{Id: o.ID}); err != nil {
			panic(err)
		}
	case "saveweight":
		if err := w.st.SaveStoreWeight(o.ID, float64(o.LW)/1000, float64(o.RW)/1000); err != nil {
			panic(err)
		}
	case "loadstores":
		var xs []string
		n := 0
		st := guarded(func() error {
			return w.st.LoadStores(func(s *core.StoreInfo) {
				w.guard(&n)
				p, _ := strconv.ParseInt(strings.TrimPrefix(s.GetMeta().GetAddress(), "p"), 10, 64)
				xs = append(xs, fmt.Sprintf("(%s, %s, %s, %s)", coqfmt.ZU(s.GetID()), coqfmt.Z(p),
					coqfmt.Z(int64(math.Round(s.GetLeaderWeight()*1000))), coqfmt.Z(int64(math.Round(s.GetRegionWeight()*1000)))))
			})
		})
		return "BStores " + st + " " + coqfmt.List(xs)
	case "saveregion":
		r := o.V.region(o.ID)
		o.Sz = proto.Size(r)
		if w.bc != nil { // the way the sync client applies a region: cache first, then storage
			w.bc.CheckAndPutRegion(core.NewRegionInfo(r, nil))
		}
		if err := w.st.SaveRegion(r); err != nil {
			panic(err)
		}
	case "leadersave":
		// another member (the leader) saves into the shared direct backend: this member's cache does not see it
		r := o.V.region(o.ID)
		o.Sz = proto.Size(r)
		if err := w.st.SaveRegion(r); err != nil {
			panic(err)
		}
	case "delregion":
		if err := w.st.DeleteRegion(&metapb.Region{Id: o.ID}); err != nil {
			panic(err)
		}
	case "flush":
		if err := w.st.Flush(); err != nil {
			panic(err)
		}
	case "flushfail":
		// a transient failure of the leveldb write: the handle is closed for the duration of one Flush (the store is away for
		// a moment) and brought back by the hook; Flush must report the error and keep the batch
		if err := w.rs.LeveldbKV.Close(); err != nil {
			panic(err)
		}
		ferr := w.st.Flush()
		if err := core.VerifReopenLeveldb(w.rs, filepath.Join(w.dir, "region-meta")); err != nil {
			panic(err)
		}
		if ferr != nil {
			return "BErr"
		}
		return "BUnit"
	case "switch":
		w.useRS = o.P != 0
		if w.useRS {
			w.st.SwitchToRegionStorage()
		} else {
			w.st.SwitchToDefaultStorage()
		}
	case "crash":
		// the process dies: nothing is flushed; leveldb is closed underneath the RegionStorage
		w.cancel()
		if err := w.rs.LeveldbKV.Close(); err != nil {
			panic(err)
		}
		w.openRS()
	case "reopen":
		if err := w.st.Close(); err != nil {
			panic(err)
		}
		w.cancel()
		w.openRS()
	case "cancelclose":
		w.cancel()
		if err := w.st.Close(); err != nil {
			panic(err)
		}
		w.openRS()
	case "budget":
		w.base.budget, w.base.tmo = o.P, o.Tmo
	case "savestoref", "delstoref", "saveweightf", "saveregionf", "delregionf":
		// a DeleteStore whose removal of the record fails WITHOUT having been applied has not deleted the store: a full load
		// must return it as before, weights included (the weight keys DeleteStore removed first have to be put back)
		var before storeRec
		if o.K == "delstoref" && !o.Ap {
			before = w.storeRec(o.ID)
		}
		w.base.armed, w.base.after = 1, o.Ap
		var err error
		switch o.K {
		case "savestoref":
			err = w.st.SaveStore(&metapb.Store{Id: o.ID, Address: "p" + strconv.FormatInt(o.P, 10)})
		case "delstoref":
			w.base.armed = 3 // DeleteStore removes the two weight keys first; the record itself is its third Remove
			err = w.st.DeleteStore(&metapb.Store{Id: o.ID})
		case "saveweightf":
			w.base.armed = 1 + o.Stg
			err = w.st.SaveStoreWeight(o.ID, float64(o.LW)/1000, float64(o.RW)/1000)
		case "saveregionf":
			r := o.V.region(o.ID)
			o.Sz = proto.Size(r)
			if w.bc != nil { // a heartbeat updates the cache first; the save that follows fails ("not fatal", logged only)
				w.bc.CheckAndPutRegion(core.NewRegionInfo(r, nil))
			}
			err = w.st.SaveRegion(r)
		case "delregionf":
			err = w.st.DeleteRegion(&metapb.Region{Id: o.ID})
		}
		w.base.armed = 0 // region-storage mode: the call did not touch Storage.Base
		if o.K == "delstoref" && !o.Ap && err != nil && before.found {
			if after := w.storeRec(o.ID); after != before {
				o.GoViol = fmt.Sprintf("store %d saved with leader weight %v region weight %v; DeleteStore returned an error (the removal of the record failed and was not applied: the store is not deleted); a full load now returns it: %v, leader weight %v region weight %v",
					o.ID, before.lw, before.rw, after.found, after.lw, after.rw)
			}
		}
		if err != nil {
			return "BErr"
		}
		return "BUnit"
	case "loadoncebad":
		// the stored value of region o.ID is made unreadable for the duration of one LoadRegionsOnce
		var store kv.Base = w.base.Base
		if w.useRS {
			store = w.rs.LeveldbKV
		}
		key := fmt.Sprintf("raft/r/%020d", o.ID)
		old, err := store.Load(key)
		if err != nil {
			panic(err)
		}
		if old != "" {
			if err := store.Save(key, "\xff\xff\xff\xff not a region"); err != nil {
				panic(err)
			}
		}
		var xs []string
		called := false
		was := w.loadedOnce
		lerr := w.st.LoadRegionsOnce(func(r *core.RegionInfo) []*core.RegionInfo {
			called = true
			xs = append(xs, coqItem(r.GetMeta()))
			return nil
		})
		if old != "" {
			if err := store.Save(key, old); err != nil {
				panic(err)
			}
		}
		if w.useRS && was && !called && lerr == nil {
			return "BSkipped"
		}
		if w.useRS && lerr == nil {
			w.loadedOnce = true
		}
		return "BRegions " + status(lerr) + " " + coqfmt.List(xs)
	case "loadoncepair":
		// two overlapping callers of LoadRegionsOnce: A is parked inside its load (its callback blocks after the first
		// region); B is started meanwhile. The real code makes B wait on Storage.mu until A has finished.
		parked, release := make(chan struct{}), make(chan struct{})
		var xsA, xsB []string
		nA := 0
		wasA := w.loadedOnce
		doneA, doneB := make(chan error, 1), make(chan error, 1)
		go func() {
			doneA <- w.st.LoadRegionsOnce(func(r *core.RegionInfo) []*core.RegionInfo {
				xsA = append(xsA, coqItem(r.GetMeta()))
				nA++
				if nA == 1 {
					close(parked)
					<-release
				}
				return nil
			})
		}()
		obsOf := func(was bool, n int, err error, xs []string) string {
			if w.useRS && was && n == 0 && err == nil {
				return "BSkipped"
			}
			return "BRegions " + status(err) + " " + coqfmt.List(xs)
		}
		select {
		case errA := <-doneA: // nothing to park on (no regions, or already loaded): plain sequential calls
			if w.useRS && errA == nil {
				w.loadedOnce = true
			}
			a := obsOf(wasA, nA, errA, xsA)
			wasB := w.loadedOnce
			nB := 0
			errB := w.st.LoadRegionsOnce(func(r *core.RegionInfo) []*core.RegionInfo {
				nB++
				xsB = append(xsB, coqItem(r.GetMeta()))
				return nil
			})
			return a + "; " + obsOf(wasB, nB, errB, xsB)
		case <-parked:
		}
		nB := 0
		go func() {
			doneB <- w.st.LoadRegionsOnce(func(r *core.RegionInfo) []*core.RegionInfo {
				nB++
				xsB = append(xsB, coqItem(r.GetMeta()))
				return nil
			})
		}()
		early := false
		var errB error
		select {
		case errB = <-doneB:
			early = true // B came back while A had delivered a single region
		case <-time.After(150 * time.Millisecond): // B waits for A: the correct outcome
		}
		close(release)
		errA := <-doneA
		if !early {
			errB = <-doneB
		}
		if w.useRS && errA == nil {
			w.loadedOnce = true
		}
		a := obsOf(wasA, nA, errA, xsA)
		if early && nB == 0 && errB == nil {
			return a + "; BEarly"
		}
		return a + "; " + obsOf(true, nB, errB, xsB)
	case "tick":
		// the real timed flush: dirtyFlushTick = 1 s, 3 s after the last save
		time.Sleep(4400 * time.Millisecond)
	case "crashinflush":
		if o.Ap {
			if err := w.st.Flush(); err != nil {
				panic(err)
			}
		}
		w.cancel()
		if err := w.rs.LeveldbKV.Close(); err != nil {
			panic(err)
		}
		w.openRS()
	case "loadregions", "loadonce":
		var xs []string
		called := false
		n := 0
		cb := func(r *core.RegionInfo) []*core.RegionInfo {
			w.guard(&n)
			called = true
			xs = append(xs, coqItem(r.GetMeta()))
			return nil
		}
		var err error
		if o.K == "loadregions" {
			if st := guarded(func() error { return w.st.LoadRegions(cb) }); st != "RDone" {
				return "BRegions " + st + " " + coqfmt.List(xs)
			}
		} else {
			if w.useRS {
				was := w.loadedOnce
				err = w.st.LoadRegionsOnce(cb)
				if was && !called && err == nil {
					return "BSkipped"
				}
				if err == nil {
					w.loadedOnce = true
				}
			} else {
				err = w.st.LoadRegionsOnce(cb)
			}
		}
		return "BRegions " + status(err) + " " + coqfmt.List(xs)
	case "loadwarm":
		// a member that is elected again without a restart: LoadClusterInfo reloads from storage over its warm cluster, with
		// the callback the cluster passes (CheckAndPutLoadedRegion where the tree has it, CheckAndPutRegion before that fix)
		if w.bc == nil {
			w.bc = core.NewBasicCluster()
		}
		bc := w.bc
		before := bc.GetRegions()
		sort.Slice(before, func(i, j int) bool { return before[i].GetID() < before[j].GetID() })
		o.Cached = nil
		for _, r := range before {
			o.Cached = append(o.Cached, coqItem(r.GetMeta()))
		}
		type loadedPutter interface {
			CheckAndPutLoadedRegion(*core.RegionInfo, func(*metapb.Region) error) []*core.RegionInfo
		}
		put := bc.CheckAndPutRegion
		if lp, ok := interface{}(bc).(loadedPutter); ok {
			put = func(r *core.RegionInfo) []*core.RegionInfo { return lp.CheckAndPutLoadedRegion(r, w.st.SaveRegion) }
		}
		var xs []string
		n := 0
		st := guarded(func() error {
			return w.st.LoadRegions(func(r *core.RegionInfo) []*core.RegionInfo {
				w.guard(&n)
				xs = append(xs, coqItem(r.GetMeta()))
				return put(r)
			})
		})
		rs := bc.GetRegions()
		sort.Slice(rs, func(i, j int) bool { return rs[i].GetID() < rs[j].GetID() })
		cs := make([]string, len(rs))
		for i, r := range rs {
			cs[i] = coqItem(r.GetMeta())
		}
		return fmt.Sprintf("BCache %s %s\n   %s\n   %s", st, coqfmt.List(xs), coqfmt.List(cs), coqfmt.List(dump(w.base.Base)))
	case "loadoncecache":
		// the start-up load of this process: LoadRegionsOnce(CheckAndPutRegion) on its own cluster; the cluster stays (warm)
		if w.bc == nil {
			w.bc = core.NewBasicCluster()
		}
		bc := w.bc
		var xs []string
		n := 0
		was := w.loadedOnce
		var lerr error
		st := guarded(func() error {
			lerr = w.st.LoadRegionsOnce(func(r *core.RegionInfo) []*core.RegionInfo {
				w.guard(&n)
				xs = append(xs, coqItem(r.GetMeta()))
				return bc.CheckAndPutRegion(r)
			})
			return lerr
		})
		if w.useRS && was && n == 0 && lerr == nil {
			return "BSkipped"
		}
		if w.useRS && lerr == nil {
			w.loadedOnce = true
		}
		rs := bc.GetRegions()
		sort.Slice(rs, func(i, j int) bool { return rs[i].GetID() < rs[j].GetID() })
		cs := make([]string, len(rs))
		for i, r := range rs {
			cs[i] = coqItem(r.GetMeta())
		}
		var after []string
		if w.useRS {
			after = dump(w.rs.LeveldbKV)
		} else {
			after = dump(w.base.Base)
		}
		return fmt.Sprintf("BCache %s %s\n   %s\n   %s", st, coqfmt.List(xs), coqfmt.List(cs), coqfmt.List(after))
	case "loadcache":
		bc := core.NewBasicCluster()
		var xs []string
		n := 0
		st := guarded(func() error {
			return w.st.LoadRegions(func(r *core.RegionInfo) []*core.RegionInfo {
				w.guard(&n)
				xs = append(xs, coqItem(r.GetMeta()))
				return bc.CheckAndPutRegion(r)
			})
		})
		rs := bc.GetRegions()
		sort.Slice(rs, func(i, j int) bool { return rs[i].GetID() < rs[j].GetID() })
		cs := make([]string, len(rs))
		for i, r := range rs {
			cs[i] = coqItem(r.GetMeta())
		}
		var after []string
		if w.useRS {
			after = dump(w.rs.LeveldbKV)
		} else {
			after = dump(w.base.Base)
		}
		return fmt.Sprintf("BCache %s %s\n   %s\n   %s", st, coqfmt.List(xs), coqfmt.List(cs), coqfmt.List(after))
	default:
		panic("bad op " + o.K)
	}
	return "BUnit"
}

func (w *world) resetLoaded() { w.loadedOnce = false; w.bc = nil }

var etcdSrv *etcdx.Etcd
var etcdRoot int

func runCase(c Case) Case {
	dir, err := os.MkdirTemp("", "c17-")
	if err != nil {
		panic(err)
	}
	defer os.RemoveAll(dir)
	var inner kv.Base
	if c.Backend == "etcd" {
		cli, _, err := etcdSrv.NewClient()
		if err != nil {
			panic(err)
		}
		defer cli.Close()
		etcdRoot++
		inner = kv.NewEtcdKVBase(cli, fmt.Sprintf("/c17/%d", etcdRoot))
	} else {
		inner = kv.NewMemoryKV()
	}
	w := &world{base: &budgetKV{Base: inner, budget: -1}, dir: dir, maxCallbacks: 3*len(c.Ops) + 10}
	w.openRS()
	out := Case{Backend: c.Backend}
	for i := 0; i < len(c.Ops); i++ {
		o := c.Ops[i]
		if o.K == "crash" || o.K == "reopen" || o.K == "crashinflush" || o.K == "cancelclose" {
			w.resetLoaded()
		}
		if o.K == "flush" && o.Par > 0 {
			// overlapping operations: the flush runs in its own goroutine; a moment later (it has taken the mutex and
			// is marshalling a large batch by then) the next Par ops are issued from this goroutine. The real code
			// holds RegionStorage.mu across the whole flush, so they simply wait for it: the history is equivalent to
			// the sequential one that is recorded here, whichever goroutine wins the start.
			done := make(chan string, 1)
			go func() { fl := o; done <- w.exec(&fl) }()
			time.Sleep(4 * time.Millisecond)
			var obs []string
			var ops []Op
			for j := 1; j <= o.Par && i+j < len(c.Ops); j++ {
				p := c.Ops[i+j]
				obs = append(obs, w.exec(&p))
				ops = append(ops, p)
			}
			out.Ops = append(out.Ops, o)
			out.Obs = append(out.Obs, <-done)
			out.Ops = append(out.Ops, ops...)
			out.Obs = append(out.Obs, obs...)
			i += len(ops)
			continue
		}
		ob := w.exec(&o)
		out.Ops = append(out.Ops, o)
		out.Obs = append(out.Obs, ob)
	}
	w.st.Close()
	w.cancel()
	return out
}

func (c Case) coq() string {
	ops := make([]string, len(c.Ops))
	for i, o := range c.Ops {
		ops[i] = o.coq()
	}
	return "(" + coqfmt.List(ops) + ",\n  " + coqfmt.List(c.Obs) + ")"
}

// ------------------------------------------------------------------------------------------------
// generators
// ------------------------------------------------------------------------------------------------
var counts = []int{0, 1, 2, 50, 99, 100, 101, 150, 199, 200, 201, 250, 300, 399, 400, 401}

func genIDs(r *rng.R, n int) []uint64 {
	seen := map[uint64]bool{}
	var ids []uint64
	add := func(x uint64) {
		if !seen[x] {
			seen[x] = true
			ids = append(ids, x)
		}
	}
	switch r.Intn(5) {
	case 0: // dense from 1
		for i := 0; i < n; i++ {
			add(uint64(i + 1))
		}
	case 1: // dense from 0
		for i := 0; i < n; i++ {
			add(uint64(i))
		}
	case 2: // sparse over the whole range
		for len(ids) < n {
			add(r.U64())
		}
	case 3: // top of the range, possibly including 2^64-1
		top := uint64(math.MaxUint64)
		if r.Pct(50) {
			top--
		}
		for i := 0; i < n; i++ {
			add(top - uint64(i)*uint64(1+r.Intn(3)))
		}
	default: // clusters
		for len(ids) < n {
			b := r.U64() >> uint(r.Intn(60))
			for j := 0; j < 1+r.Intn(40) && len(ids) < n; j++ {
				add(b + uint64(j))
			}
		}
	}
	// save order is not id order
	for i := len(ids) - 1; i > 0; i-- {
		j := r.Intn(i + 1)
		ids[i], ids[j] = ids[j], ids[i]
	}
	return ids
}

func genStores(r *rng.R, k int) Case {
	c := Case{Backend: "mem"}
	if r.Pct(25) {
		c.Backend = "etcd"
	}
	n := counts[k%len(counts)]
	// every second case weights every store: more than 50 (and more than 100) weighted stores inside one page of 100
	weightAll := k%2 == 1
	if weightAll {
		n = []int{51, 60, 100, 130, 99, 101, 250}[(k/2)%7]
		if (k/2)%2 == 1 {
			c.Backend = "etcd"
		} else {
			c.Backend = "mem"
		}
	}
	ids := genIDs(r, n)
	faulty := r.Pct(40)
	for _, id := range ids {
		if faulty && r.Pct(8) {
			c.Ops = append(c.Ops, Op{K: "savestoref", ID: id, P: int64(5000 + r.Intn(1000)), Ap: r.Bool()})
		}
		c.Ops = append(c.Ops, Op{K: "savestore", ID: id, P: int64(r.Intn(1000))})
		if faulty && r.Pct(6) {
			c.Ops = append(c.Ops, Op{K: []string{"savestoref", "delstoref"}[r.Intn(2)], ID: id, P: int64(7000 + r.Intn(1000)), Ap: r.Bool()})
		}
		if faulty && r.Pct(6) {
			c.Ops = append(c.Ops, Op{K: "saveweightf", ID: id, LW: int64(r.Intn(5000)), RW: int64(r.Intn(5000)), Stg: r.Intn(2), Ap: r.Bool()})
		}
		if weightAll || r.Pct(30) {
			lw, rw := int64(1+r.Intn(5000)), int64(1+r.Intn(5000))
			switch r.Intn(6) {
			case 0: // more significant digits than a float32 holds
				lw = int64(100000000 + r.Intn(900000000))
			case 1: // integers above 2^24
				rw = (16777217 + int64(r.Intn(1000000))) * 1000
			case 2:
				lw, rw = int64(r.U64()>>24), int64(r.U64()>>30)
			}
			c.Ops = append(c.Ops, Op{K: "saveweight", ID: id, LW: lw, RW: rw})
			if faulty && r.Pct(10) { // the delete of a store WITH weights fails at its third write
				c.Ops = append(c.Ops, Op{K: "delstoref", ID: id, Ap: r.Pct(30)})
			}
		}
	}
	c.Ops = append(c.Ops, Op{K: "loadstores"})
	for _, id := range ids {
		switch r.Intn(10) {
		case 0:
			c.Ops = append(c.Ops, Op{K: "delstore", ID: id})
		case 1:
			c.Ops = append(c.Ops, Op{K: "savestore", ID: id, P: int64(1000 + r.Intn(1000))})
		}
	}
	if r.Pct(30) {
		c.Ops = append(c.Ops, Op{K: "savestore", ID: math.MaxUint64 - 1, P: 7})
	}
	c.Ops = append(c.Ops, Op{K: "loadstores"})
	return c
}

func genRV(r *rng.R, space uint64, bigKeys bool) *RV {
	a := uint64(r.Intn(int(space)))
	b := a + 1 + uint64(r.Intn(int(space/4)+1))
	if r.Pct(8) {
		b = 0
	}
	v := &RV{Start: a, End: b, ConfVer: uint64(1 + r.Intn(4)), Version: uint64(1 + r.Intn(5))}
	if bigKeys && r.Pct(40) {
		v.Pad = 5 + r.Intn(120)
	}
	return v
}

// partition (disjoint) values: nothing is pruned, every saved region must come back
func genDisjoint(r *rng.R, i int, bigKeys bool) *RV {
	v := &RV{Start: uint64(i) * 10, End: uint64(i+1) * 10, ConfVer: uint64(1 + r.Intn(4)), Version: uint64(1 + r.Intn(5))}
	if bigKeys && r.Pct(40) {
		v.Pad = 5 + r.Intn(120)
	}
	return v
}

func genRegions(r *rng.R, k int) Case {
	c := Case{Backend: "mem"}
	if k%4 == 3 {
		c.Backend = "etcd"
	}
	rsMode := k%3 == 1
	n := counts[(k/3)%len(counts)]
	if c.Backend == "etcd" && n > 250 {
		n = 250
	}
	big := r.Pct(35)
	overlap := r.Pct(45)
	ids := genIDs(r, n)
	if rsMode {
		c.Ops = append(c.Ops, Op{K: "switch", P: 1})
	}
	var saved []uint64
	for i, id := range ids {
		var v *RV
		if overlap {
			v = genRV(r, 60, big)
		} else {
			v = genDisjoint(r, i, big)
		}
		c.Ops = append(c.Ops, Op{K: "saveregion", ID: id, V: v})
		saved = append(saved, id)
		if !rsMode && !overlap && r.Pct(4) {
			if r.Bool() {
				v2 := *v
				v2.ConfVer += 20
				c.Ops = append(c.Ops, Op{K: "saveregionf", ID: id, V: &v2, Ap: r.Bool()})
			} else {
				c.Ops = append(c.Ops, Op{K: "delregionf", ID: id, Ap: r.Bool()})
			}
		}
		if r.Pct(6) && len(saved) > 0 {
			c.Ops = append(c.Ops, Op{K: "delregion", ID: saved[r.Intn(len(saved))]})
		}
		if rsMode && r.Pct(2) {
			c.Ops = append(c.Ops, Op{K: "flushfail"})
		}
		if rsMode && r.Pct(2) {
			c.Ops = append(c.Ops, Op{K: []string{"flush", "crash", "reopen", "cancelclose"}[r.Intn(4)]})
		}
	}
	// region-storage mode: regions that are both flushed and pending, some of them deleted before the next flush
	if rsMode && len(saved) > 0 && r.Pct(70) {
		c.Ops = append(c.Ops, Op{K: "flush"})
		var again []uint64
		for k := 0; k < 1+r.Intn(8); k++ {
			id := saved[r.Intn(len(saved))]
			var v *RV
			if overlap {
				v = genRV(r, 60, big)
			} else {
				j := 0
				for j = range ids {
					if ids[j] == id {
						break
					}
				}
				v = genDisjoint(r, j, big)
				v.ConfVer += 10
			}
			c.Ops = append(c.Ops, Op{K: "saveregion", ID: id, V: v})
			again = append(again, id)
		}
		for _, id := range again {
			if r.Pct(50) {
				c.Ops = append(c.Ops, Op{K: "delregion", ID: id})
			}
		}
		if r.Pct(30) {
			c.Ops = append(c.Ops, Op{K: "loadcache"}) // prunes while some regions are flushed and pending
		}
	}
	// a byte budget that forces the limit down (direct backends only)
	if !rsMode && r.Pct(70) {
		per := int64(30)
		if big {
			per = 700
		}
		mult := []int64{40, 110, 160, 320, 700, 3000}[r.Intn(6)]
		c.Ops = append(c.Ops, Op{K: "budget", P: per * mult, Tmo: r.Bool()})
	}
	if rsMode && r.Pct(40) {
		c.Ops = append(c.Ops, Op{K: "flushfail"})
	}
	if rsMode && r.Pct(85) {
		c.Ops = append(c.Ops, Op{K: []string{"flush", "flush", "cancelclose", "reopen"}[r.Intn(4)]})
	}
	c.Ops = append(c.Ops, Op{K: []string{"loadregions", "loadonce", "loadregions"}[r.Intn(3)]})
	if !rsMode && !overlap && len(saved) > 0 && r.Pct(50) {
		// the member keeps its cluster over two leadership terms: start-up load, heartbeats whose saves succeed, fail
		// unapplied or fail applied, then the reload of the next term over the warm cache
		c.Ops = append(c.Ops, Op{K: "budget", P: -1}, Op{K: "loadoncecache"})
		for k := 0; k < 1+r.Intn(6); k++ {
			id := saved[r.Intn(len(saved))]
			j := 0
			for j = range ids {
				if ids[j] == id {
					break
				}
			}
			v := genDisjoint(r, j, big)
			v.ConfVer += 40 + uint64(k)
			switch r.Intn(3) {
			case 0:
				c.Ops = append(c.Ops, Op{K: "saveregion", ID: id, V: v})
			default:
				c.Ops = append(c.Ops, Op{K: "saveregionf", ID: id, V: v, Ap: r.Pct(30)})
			}
		}
		if r.Pct(60) {
			// another member led in between and its saves never reached this member's cache: two neighbouring regions
			// moved their common border (split + merge), the one with the smaller id grew into the range of the other.
			// Both records are newer than anything cached; the cached version of the larger id is pushed out by the
			// record of the smaller id before its own record is reached.
			slot := map[uint64]int{}
			for j, id := range ids {
				slot[id] = j
			}
			isSaved := map[uint64]bool{}
			for _, id := range saved {
				isSaved[id] = true
			}
			var pairs [][2]int
			for j := 0; j+1 < len(ids); j++ {
				if isSaved[ids[j]] && isSaved[ids[j+1]] {
					pairs = append(pairs, [2]int{j, j + 1})
				}
			}
			for k := 0; k < 1+r.Intn(3) && len(pairs) > 0; k++ {
				pi := r.Intn(len(pairs))
				pr := pairs[pi]
				// neighbouring pairs share a region: drop them as well
				var rest [][2]int
				for _, q := range pairs {
					if q[1] < pr[0] || q[0] > pr[1] {
						rest = append(rest, q)
					}
				}
				pairs = rest
				lo, hi := uint64(pr[0])*10, uint64(pr[1]+1)*10
				ver := uint64(10 + k)
				left, right := ids[pr[0]], ids[pr[1]]
				if left < right { // the left region has the smaller id: it grows to the right
					c.Ops = append(c.Ops, Op{K: "leadersave", ID: left, V: &RV{Start: lo, End: lo + 15, ConfVer: 100, Version: ver}},
						Op{K: "leadersave", ID: right, V: &RV{Start: lo + 15, End: hi, ConfVer: 100, Version: ver}})
				} else {
					c.Ops = append(c.Ops, Op{K: "leadersave", ID: right, V: &RV{Start: lo + 5, End: hi, ConfVer: 100, Version: ver}},
						Op{K: "leadersave", ID: left, V: &RV{Start: lo, End: lo + 5, ConfVer: 100, Version: ver}})
				}
			}
		}
		c.Ops = append(c.Ops, Op{K: "loadwarm"}, Op{K: "loadregions"})
	}
	if rsMode {
		switch r.Intn(4) {
		case 0:
			c.Ops = append(c.Ops, Op{K: "loadonce"})
		case 1:
			if len(saved) > 0 {
				c.Ops = append(c.Ops, Op{K: "reopen"}, Op{K: "loadoncebad", ID: saved[r.Intn(len(saved))]}, Op{K: "loadonce"}, Op{K: "loadonce"})
			}
		case 2:
			c.Ops = append(c.Ops, Op{K: "reopen"}, Op{K: "loadoncepair"}, Op{K: "loadonce"})
		default:
			c.Ops = append(c.Ops, Op{K: "loadonce"}, Op{K: "loadoncepair"})
		}
		if !overlap && len(saved) > 0 && r.Pct(50) {
			// restart, start-up load into the process's cache, newer versions through the "syncer" (pending), the campaign
			// selects the region storage again and calls LoadRegionsOnce again, flush, restart
			c.Ops = append(c.Ops, Op{K: "flush"}, Op{K: "reopen"}, Op{K: "loadoncecache"})
			for k := 0; k < 1+r.Intn(5); k++ {
				id := saved[r.Intn(len(saved))]
				j := 0
				for j = range ids {
					if ids[j] == id {
						break
					}
				}
				v := genDisjoint(r, j, big)
				v.ConfVer += 30
				c.Ops = append(c.Ops, Op{K: "saveregion", ID: id, V: v})
			}
			c.Ops = append(c.Ops, Op{K: "switch", P: 1}, Op{K: "loadoncecache"}, Op{K: "flush"}, Op{K: "reopen"}, Op{K: "loadregions"})
		}
	}
	// delete some, overwrite some, then prune into a cache and load again
	for _, id := range saved {
		if r.Pct(5) {
			c.Ops = append(c.Ops, Op{K: "delregion", ID: id})
		}
	}
	if rsMode && r.Pct(85) {
		c.Ops = append(c.Ops, Op{K: "flush"})
	}
	c.Ops = append(c.Ops, Op{K: "loadcache"})
	c.Ops = append(c.Ops, Op{K: "loadregions"})
	if rsMode && r.Pct(30) {
		c.Ops = append(c.Ops, Op{K: "switch", P: 0}, Op{K: "loadregions"})
	}
	return c
}

// raceCase: a flush of a batch whose marshalling takes a long time (40 regions pointing to 60000 filler peers each)
// overlapped with (del) a DeleteRegion of one small region of that batch, or (!del) a newer save of it and a
// second flush. Afterwards the big regions are overwritten by small ones so that the final load stays cheap.
func raceCase(del bool) Case {
	c := Case{Backend: "mem"}
	c.Ops = append(c.Ops, Op{K: "switch", P: 1})
	const target = 10000
	for i := 0; i < 40; i++ {
		c.Ops = append(c.Ops, Op{K: "saveregion", ID: uint64(100 + i), V: &RV{Start: uint64(i+1) * 10, End: uint64(i+2) * 10, ConfVer: 1, Version: 1, Pad: 60000}})
	}
	c.Ops = append(c.Ops, Op{K: "saveregion", ID: target, V: &RV{Start: 5000, End: 5010, ConfVer: 1, Version: 1}})
	if del {
		c.Ops = append(c.Ops, Op{K: "flush", Par: 1}, Op{K: "delregion", ID: target})
	} else {
		c.Ops = append(c.Ops, Op{K: "flush", Par: 2}, Op{K: "saveregion", ID: target, V: &RV{Start: 5000, End: 5010, ConfVer: 2, Version: 1}}, Op{K: "flush"})
	}
	for i := 0; i < 40; i++ {
		c.Ops = append(c.Ops, Op{K: "saveregion", ID: uint64(100 + i), V: &RV{Start: uint64(i+1) * 10, End: uint64(i+2) * 10, ConfVer: 1, Version: 1}})
	}
	c.Ops = append(c.Ops, Op{K: "flush"}, Op{K: "loadregions"}, Op{K: "reopen"}, Op{K: "loadregions"})
	return c
}

// fixed replays
func fixedCases() []Case {
	top := uint64(math.MaxUint64)
	one := &RV{Start: 1, End: 2, ConfVer: 1, Version: 1}
	two := &RV{Start: 2, End: 3, ConfVer: 1, Version: 1}
	// the uint64 boundary of loadRegions: 312 regions ending at id 2^64-1 and a budget that lets pages of 156..311
	// items through, so the limit settles at 156 and the second (full) page ends at the maximum id: nextID wraps to 0
	wrap := Case{Backend: "mem"}
	for i := 0; i < 312; i++ {
		wrap.Ops = append(wrap.Ops, Op{K: "saveregion", ID: top - 311 + uint64(i), V: &RV{Start: uint64(i+1) * 10, End: uint64(i+2) * 10, ConfVer: 1, Version: 1}})
	}
	wrap.Ops = append(wrap.Ops, Op{K: "budget", P: int64(200 * proto.Size(wrap.Ops[0].V.region(wrap.Ops[0].ID)))}, Op{K: "loadregions"}, Op{K: "loadcache"})
	// a region that is both flushed and pending when it is deleted / pruned must be gone from leveldb too
	v1 := &RV{Start: 10, End: 30, ConfVer: 1, Version: 1}
	v1b := &RV{Start: 10, End: 30, ConfVer: 2, Version: 1}
	v2 := &RV{Start: 20, End: 40, ConfVer: 1, Version: 2}
	delBoth := Case{Backend: "mem", Ops: []Op{{K: "switch", P: 1}, {K: "saveregion", ID: 4, V: v1}, {K: "saveregion", ID: 9, V: &RV{Start: 50, End: 60, ConfVer: 1, Version: 1}},
		{K: "flush"}, {K: "saveregion", ID: 4, V: v1b}, {K: "delregion", ID: 4}, {K: "reopen"}, {K: "loadregions"}}}
	pruneBoth := Case{Backend: "mem", Ops: []Op{{K: "switch", P: 1}, {K: "saveregion", ID: 1, V: v1}, {K: "saveregion", ID: 2, V: v2},
		{K: "flush"}, {K: "saveregion", ID: 1, V: v1}, {K: "loadcache"}, {K: "flush"}, {K: "loadregions"}}}
	// the real timed background flush (no explicit Flush), then a crash: the saves are durable
	tick := Case{Backend: "mem", Ops: []Op{{K: "switch", P: 1}, {K: "saveregion", ID: 3, V: v1}, {K: "saveregion", ID: 8, V: &RV{Start: 50, End: 60, ConfVer: 1, Version: 1}},
		{K: "tick"}, {K: "crash"}, {K: "loadregions"}}}
	// a crash inside a flush: all of the batch or nothing of it
	cif := func(written bool) Case {
		return Case{Backend: "mem", Ops: []Op{{K: "switch", P: 1}, {K: "saveregion", ID: 3, V: v1}, {K: "flush"}, {K: "saveregion", ID: 3, V: v1b},
			{K: "saveregion", ID: 8, V: &RV{Start: 50, End: 60, ConfVer: 1, Version: 1}}, {K: "crashinflush", Ap: written}, {K: "loadregions"}}}
	}
	// errored writes on Storage.Base, applied or not
	faults := Case{Backend: "etcd", Ops: []Op{{K: "savestore", ID: 1, P: 1}, {K: "savestoref", ID: 1, P: 2, Ap: true}, {K: "savestoref", ID: 2, P: 3, Ap: false},
		{K: "saveweightf", ID: 1, LW: 2000, RW: 3000, Stg: 1, Ap: false}, {K: "loadstores"}, {K: "delstoref", ID: 1, Ap: true}, {K: "loadstores"},
		{K: "saveregion", ID: 5, V: v1}, {K: "saveregionf", ID: 5, V: v1b, Ap: true}, {K: "delregionf", ID: 5, Ap: false}, {K: "loadregions"}}}
	// LoadRegionsOnce: a first load that fails half-way must not set the once-flag; overlapping callers
	six := func() []Op {
		var ops []Op
		for i := 1; i <= 6; i++ {
			ops = append(ops, Op{K: "saveregion", ID: uint64(i * 7), V: &RV{Start: uint64(i) * 10, End: uint64(i+1) * 10, ConfVer: 1, Version: 1}})
		}
		return ops
	}
	onceRetry := Case{Backend: "mem", Ops: append(append([]Op{{K: "switch", P: 1}}, six()...), Op{K: "flush"}, Op{K: "loadoncebad", ID: 28}, Op{K: "loadonce"}, Op{K: "loadonce"})}
	oncePair := Case{Backend: "mem", Ops: append(append([]Op{{K: "switch", P: 1}}, six()...), Op{K: "flush"}, Op{K: "loadoncepair"}, Op{K: "loadonce"})}
	// shutdown order of pd-server: cancel the context, then Close — the pending batch must still be written
	cancelClose := Case{Backend: "mem", Ops: append(append([]Op{{K: "switch", P: 1}}, six()...), Op{K: "cancelclose"}, Op{K: "loadregions"})}
	// a former follower is elected: it has loaded its region storage once, received a newer version of a region through
	// the syncer (still pending), and SwitchToRegionStorage is called again by the campaign; then flush, restart, load
	handOver := Case{Backend: "mem", Ops: []Op{{K: "switch", P: 1}, {K: "saveregion", ID: 4, V: v1}, {K: "saveregion", ID: 9, V: &RV{Start: 50, End: 60, ConfVer: 1, Version: 1}},
		{K: "flush"}, {K: "reopen"}, {K: "loadoncecache"}, {K: "saveregion", ID: 4, V: v1b}, {K: "switch", P: 1}, {K: "loadoncecache"},
		{K: "flush"}, {K: "reopen"}, {K: "loadregions"}}}
	// the audit's history: the etcd save of a newer epoch fails (the cache keeps it), the member is elected again and reloads
	// over its warm cache: the record must be brought up to date, not deleted
	reelected := Case{Backend: "etcd", Ops: []Op{{K: "saveregion", ID: 1, V: &RV{Start: 0, End: 100, ConfVer: 5, Version: 5}}, {K: "saveregion", ID: 2, V: &RV{Start: 100, End: 0, ConfVer: 5, Version: 5}},
		{K: "loadoncecache"}, {K: "saveregionf", ID: 1, V: &RV{Start: 0, End: 100, ConfVer: 6, Version: 5}, Ap: false}, {K: "loadwarm"}, {K: "loadregions"}}}
	// a transient failure of the leveldb write under a flush: the error is reported, the batch is kept, the next flush writes it
	flushFault := Case{Backend: "mem", Ops: append(append([]Op{{K: "switch", P: 1}}, six()...), Op{K: "flushfail"}, Op{K: "flush"}, Op{K: "reopen"}, Op{K: "loadregions"})}
	// store weights that float32 cannot hold: more than 7 significant digits, an integer above 2^24
	precise := Case{Backend: "mem", Ops: []Op{{K: "savestore", ID: 1, P: 1}, {K: "saveweight", ID: 1, LW: 123456789, RW: 16777217000},
		{K: "savestore", ID: 2, P: 2}, {K: "saveweight", ID: 2, LW: 1099511627775, RW: 1}, {K: "loadstores"}}}
	// a follower whose cache lags behind the shared store is elected: region 5 had been split into 1 and 5 (the old leader saved
	// both halves, the change never reached this member); the load over the warm cache must not lose the record of the new 5
	lagging := Case{Backend: "etcd", Ops: []Op{{K: "saveregion", ID: 5, V: &RV{Start: 10, End: 40, ConfVer: 1, Version: 5}}, {K: "loadoncecache"}, {K: "leadersave", ID: 1, V: &RV{Start: 10, End: 20, ConfVer: 1, Version: 6}},
		{K: "leadersave", ID: 5, V: &RV{Start: 20, End: 40, ConfVer: 1, Version: 6}}, {K: "loadwarm"}, {K: "loadregions"}}}
	slowStore := Case{Backend: "mem"}
	for i := 0; i < 400; i++ {
		slowStore.Ops = append(slowStore.Ops, Op{K: "saveregion", ID: uint64(i*3 + 1), V: &RV{Start: uint64(i+1) * 10, End: uint64(i+2) * 10, ConfVer: 1, Version: 1}})
	}
	slowStore.Ops = append(slowStore.Ops, Op{K: "budget", P: int64(200 * proto.Size(slowStore.Ops[0].V.region(1))), Tmo: true}, Op{K: "loadregions"}, Op{K: "loadcache"})
	// a store with weights whose deletion fails at the removal of the record (not applied): it is not deleted, weights stay
	delWeighted := Case{Backend: "mem", Ops: []Op{{K: "savestore", ID: 7, P: 1}, {K: "saveweight", ID: 7, LW: 2500, RW: 3500}, {K: "savestore", ID: 9, P: 2},
		{K: "delstoref", ID: 7, Ap: false}, {K: "loadstores"}, {K: "delstoref", ID: 7, Ap: true}, {K: "loadstores"}}}
	return []Case{
		slowStore, lagging, delWeighted, wrap, delBoth, pruneBoth, onceRetry, oncePair, cancelClose, handOver, reelected, flushFault, precise, tick, cif(true), cif(false), faults, raceCase(true), raceCase(false), raceCase(true), raceCase(false),
		// S9 on the stores namespace and on the regions namespace
		{Backend: "mem", Ops: []Op{{K: "savestore", ID: 1, P: 1}, {K: "savestore", ID: top, P: 2}, {K: "loadstores"}}},
		{Backend: "mem", Ops: []Op{{K: "saveregion", ID: 1, V: one}, {K: "saveregion", ID: top, V: two}, {K: "loadregions"}}},
		// S10: save (buffered), delete, flush -> still loaded
		{Backend: "mem", Ops: []Op{{K: "switch", P: 1}, {K: "saveregion", ID: 5, V: one}, {K: "delregion", ID: 5}, {K: "flush"}, {K: "loadregions"}}},
	}
}

func main() {
	seed := flag.Uint64("seed", 1, "")
	n := flag.Int("n", 60, "number of generated region cases")
	nstores := flag.Int("nstores", 32, "number of generated store cases")
	nbig := flag.Int("nbig", 1, "number of cases above the 10000-item page")
	out := flag.String("out", ".", "output directory")
	tier := flag.String("tier", "quick", "")
	corpus := flag.String("corpus", "", "json file of cases run first")
	replay := flag.String("replay", "", "json file with one case, a list of cases, or an evidence/replays file")
	flag.Parse()
	log.ReplaceGlobals(zap.NewNop(), nil)

	var err error
	etcdSrv, err = etcdx.Start()
	if err != nil {
		fmt.Fprintln(os.Stderr, "etcd:", err)
		os.Exit(2)
	}
	defer etcdSrv.Close()

	R := res.New("C17", *seed, *tier)
	R.Rule = "real core.Storage over memKV / embedded etcd behind a byte-budget LoadRange wrapper and real core.RegionStorage (leveldb + write-back batch): " +
		"store sets and region sets of 0,1,2,50,99,100,101,150,199,200,201,250,300,399,400,401 items (plus one of 10050) with dense / sparse / clustered / top-of-range ids " +
		"(including 2^64-1), weights, deletes and overwrites, large keys, budgets that force the adaptive limit to every value of its chain, flush / crash / reopen between batches, " +
		"pruning loads into an empty BasicCluster with overlapping regions; non-trivial = at least two pages or one pruned region or one batch flush; distinct by sha256 of the case text"
	cf := &coqfmt.CaseFile{Dir: *out, Prefix: "C17", PerFile: 8,
		Header: "From Coq Require Import String.\nFrom PDV Require Import lib.Base lib.C17_Map model.C17_Storage.\nOpen Scope string_scope.\nLocal Open Scope Z_scope.\n",
		Type:   "list op * list obs",
		Footer: "Definition M := Eval vm_compute in map fst (mismatches cases).\nDefinition D := Eval vm_compute in hd_error (mismatches cases).\nDefinition V := Eval vm_compute in monitor_fails cases.\nPrint M. Print D. Print V.\n"}

	var all []Case
	emit := func(c Case) {
		saves, loads := 0, 0
		for _, o := range c.Ops {
			R.Count("op:" + o.K)
			if o.K == "saveregion" || o.K == "savestore" {
				saves++
			}
			if strings.HasPrefix(o.K, "load") {
				loads++
			}
		}
		R.Count("backend:" + c.Backend)
		R.Count(fmt.Sprintf("items<=%d", bucket(saves)))
		txt := c.coq()
		R.Case(txt, saves >= 100 && loads > 0)
		if saves <= 6 {
			R.Sample(slim(c))
		}
		if err := cf.Add(txt); err != nil {
			panic(err)
		}
		all = append(all, slim(c))
		checkGo(R, c)
	}
	for _, f := range []string{*corpus, *replay} {
		if f == "" {
			continue
		}
		b, err := os.ReadFile(f)
		if err != nil {
			panic(err)
		}
		var l []Case
		var one Case
		var ev struct{ Replay json.RawMessage }
		if json.Unmarshal(b, &l) != nil {
			if json.Unmarshal(b, &ev) == nil && len(ev.Replay) > 0 {
				b = ev.Replay
			}
			if err := json.Unmarshal(b, &one); err != nil {
				panic(err)
			}
			l = []Case{one}
		}
		for _, c := range l {
			emit(runCase(c))
		}
	}
	joinProbe := func() {}
	if *replay != "" {
		for _, c := range all {
			for i := range c.Ops {
				ob := ""
				if i < len(c.Obs) {
					ob = c.Obs[i]
				}
				if len(ob) > 400 {
					ob = ob[:400] + " …"
				}
				fmt.Printf("%-60s -> %s\n", c.Ops[i].coq(), ob)
			}
		}
		for _, v := range R.Violations {
			fmt.Println("VIOLATES", v.Sig, "-", v.Desc)
		}
	} else {
		master := rng.New(*seed)
		{
			// more keys than any page constant of the loaders (10000) only in the thorough tier; the quick tier stays
			// above etcd-side and loader-side constants up to 5000
			nkeys := 5200
			if *tier == "thorough" {
				nkeys = 10300
			}
			cli, _, err := etcdSrv.NewClient()
			if err != nil {
				panic(err)
			}
			rangeContract(R, "etcd", kv.NewEtcdKVBase(cli, "/c17contract"), nkeys)
			cli.Close()
			rangeContract(R, "mem", kv.NewMemoryKV(), nkeys)
			dir, _ := os.MkdirTemp("", "c17-contract-")
			if ldb, err := kv.NewLeveldbKV(dir); err == nil {
				rangeContract(R, "leveldb", ldb, nkeys)
				ldb.Close()
			}
			os.RemoveAll(dir)
		}
		// the two-member probe takes ~20 s of mostly waiting (cluster start, election, close): side by side with the cases
		probeR := res.New("C17", *seed, *tier)
		probeDone := make(chan struct{})
		go func() { defer close(probeDone); encryptedRecordsProbe(probeR, *seed); followerBackendProbe(probeR) }()
		joinProbe = func() {
			<-probeDone
			for _, v := range probeR.Violations {
				R.Violate(v.Sig, v.Desc, v.Replay)
			}
			R.Notes = append(R.Notes, probeR.Notes...)
			R.Count("probe:follower-backend")
			R.Count("probe:encrypted-records")
		}
		for _, c := range fixedCases() {
			emit(runCase(c))
		}
		for k := 0; k < *nstores; k++ {
			emit(runCase(genStores(master.Fork(uint64(500000+k)), k)))
		}
		for k := 0; k < *n; k++ {
			emit(runCase(genRegions(master.Fork(uint64(k)), k)))
		}
		if *tier == "thorough" {
			// more regions in the etcd backend than any page size an etcd-side cap could plausibly have
			r := master.Fork(950000)
			c := Case{Backend: "etcd"}
			for i := 0; i < 4300; i++ {
				c.Ops = append(c.Ops, Op{K: "saveregion", ID: uint64(i)*5 + 2, V: genDisjoint(r, i, false)})
			}
			c.Ops = append(c.Ops, Op{K: "loadregions"}, Op{K: "loadcache"})
			emit(runCase(c))
		}
		for k := 0; k < *nbig; k++ {
			r := master.Fork(uint64(900000 + k))
			c := Case{Backend: "mem"}
			for i := 0; i < 10050+k*1000; i++ { // a 20000-item list literal overflows coqc's parser stack
				c.Ops = append(c.Ops, Op{K: "saveregion", ID: uint64(i)*3 + 1, V: genDisjoint(r, i, false)})
			}
			c.Ops = append(c.Ops, Op{K: "loadregions"})
			emit(runCase(c))
		}
	}
	joinProbe()
	if err := cf.Flush(); err != nil {
		panic(err)
	}
	R.CaseFiles = cf.Files
	b, _ := json.Marshal(all)
	os.WriteFile(path.Join(*out, "cases.json"), b, 0o644)
	if err := R.Write(path.Join(*out, "result.json")); err != nil {
		panic(err)
	}
}

// rangeContract: kv.Base.LoadRange(start, end, limit) must return min(limit, available) keys in key order (limit 0 = all),
// also for limits above every constant the loaders use — loadRegions treats a page shorter than its limit as the end of the data.
func rangeContract(R *res.Result, name string, b kv.Base, n int) {
	var wg sync.WaitGroup
	sem := make(chan struct{}, 32)
	for i := 0; i < n; i++ {
		wg.Add(1)
		sem <- struct{}{}
		go func(i int) {
			defer wg.Done()
			defer func() { <-sem }()
			if err := b.Save(fmt.Sprintf("contract/%020d", i), "v"); err != nil {
				panic(err)
			}
		}(i)
	}
	wg.Wait()
	for _, limit := range []int{1, 99, 100, 1000, 4095, 4096, 4097, 5000, 10000, 10001, 0} {
		keys, _, err := b.LoadRange("contract/", "contract0", limit)
		if err != nil {
			panic(err)
		}
		want := n
		if limit > 0 && limit < n {
			want = limit
		}
		R.Count("contract:" + name)
		if len(keys) != want || !sort.StringsAreSorted(keys) {
			R.Violate("C17:kv:loadrange-contract",
				fmt.Sprintf("%s backend: LoadRange with limit %d over %d stored keys returned %d keys (expected %d, in key order): a loader that asks for a page of that size takes the short page for the end of the data",
					name, limit, n, len(keys), want), map[string]interface{}{"probe": "loadrange-contract", "backend": name, "keys": n, "limit": limit})
			return
		}
	}
}

// followerBackendProbe: two REAL PD members. The one whose first role is follower receives regions through the region syncer
// and saves them with its own Storage; after a Flush they must be loadable from the region backend its configuration names
// (use-region-storage, true by default) — that is where it will load from when it restarts or is elected.
// encryptedRecordsProbe: encryption at rest. Member A (data-encryption-method aes128-ctr) leads and saves regions through
// the real Storage with both region backends; it reads them back. Then member B, which has no encryption configured, is
// elected over the same etcd: as the leader it switches the current key of the shared key dictionary off and keeps the
// old data keys (KeyManager.SetLeadership) - exactly so that the old records stay readable. Whether a record has to be
// decrypted is a property of the record. B's full load, its single-region read and its pruning load must return every
// region as it was saved, with either backend.
func encryptedRecordsProbe(R *res.Result, seed uint64) {
	R.Count("probe:encrypted-records")
	cli, _, err := etcdSrv.NewClient()
	if err != nil {
		R.Notes = append(R.Notes, "encrypted-records probe skipped: "+err.Error())
		return
	}
	defer cli.Close()
	dir, err := os.MkdirTemp("", "c17enc")
	if err != nil {
		panic(err)
	}
	defer os.RemoveAll(dir)
	keyFile := filepath.Join(dir, "key")
	if err := os.WriteFile(keyFile, []byte("8fd7e3e917c170d92f3e51a981dd7bc8fba11f3df7d8df994842f6e86f69b530"), 0o600); err != nil {
		panic(err)
	}
	member := func(name string, cfg *encryption.Config) (*encryptionkm.KeyManager, *election.Leadership, error) {
		if err := cfg.Adjust(); err != nil {
			return nil, nil, err
		}
		km, err := encryptionkm.NewKeyManager(cli, cfg)
		if err != nil {
			return nil, nil, err
		}
		l := election.NewLeadership(cli, "/c17enc/leader", name)
		if err := l.Campaign(600, name); err != nil {
			return nil, nil, err
		}
		if err := km.SetLeadership(l); err != nil {
			return nil, nil, err
		}
		return km, l, nil
	}
	kmA, leadA, err := member("A", &encryption.Config{DataEncryptionMethod: "aes128-ctr",
		MasterKey: encryption.MasterKeyConfig{Type: "file", MasterKeyFileConfig: encryption.MasterKeyFileConfig{FilePath: keyFile}}})
	if err != nil {
		R.Notes = append(R.Notes, "encrypted-records probe skipped: member A: "+err.Error())
		return
	}
	if _, k, err := kmA.GetCurrentKey(); err != nil || k == nil {
		R.Notes = append(R.Notes, "encrypted-records probe skipped: member A has no data key")
		return
	}
	r := rng.New(seed ^ 0xe7c4)
	const n = 40
	want := map[uint64]*metapb.Region{}
	for i := 0; i < n; i++ {
		id := uint64(i)*7 + 3
		want[id] = &metapb.Region{Id: id, StartKey: []byte(fmt.Sprintf("t_%05d", i*10)), EndKey: []byte(fmt.Sprintf("t_%05d", (i+1)*10)),
			RegionEpoch: &metapb.RegionEpoch{ConfVer: uint64(1 + r.Intn(4)), Version: uint64(1 + r.Intn(5))},
			Peers:       []*metapb.Peer{{Id: id + 1000, StoreId: 1}, {Id: id + 2000, StoreId: 2}}}
	}
	type backend struct {
		name  string
		base  kv.Base
		rsDir string
		useRS bool
	}
	backends := []backend{{"direct", kv.NewMemoryKV(), filepath.Join(dir, "rm0"), false}, {"region-storage", kv.NewMemoryKV(), filepath.Join(dir, "rm1"), true}}
	open := func(b backend, km *encryptionkm.KeyManager) (*core.Storage, func()) {
		ctx, cancel := context.WithCancel(context.Background())
		rs, err := core.NewRegionStorage(ctx, b.rsDir, km)
		if err != nil {
			panic(err)
		}
		st := core.NewStorage(b.base, core.WithRegionStorage(rs), core.WithEncryptionKeyManager(km))
		if b.useRS {
			st.SwitchToRegionStorage()
		}
		return st, func() { cancel(); st.Close() }
	}
	same := func(a, b *metapb.Region) bool {
		return a != nil && b != nil && bytes.Equal(a.GetStartKey(), b.GetStartKey()) && bytes.Equal(a.GetEndKey(), b.GetEndKey()) &&
			a.GetRegionEpoch().GetConfVer() == b.GetRegionEpoch().GetConfVer() && a.GetRegionEpoch().GetVersion() == b.GetRegionEpoch().GetVersion() &&
			len(a.GetPeers()) == len(b.GetPeers()) && b.GetEncryptionMeta() == nil
	}
	check := func(who string, b backend, st *core.Storage) {
		seen := map[uint64]int{}
		bad, first := 0, ""
		bc := core.NewBasicCluster()
		deleted := 0
		err := st.LoadRegions(func(ri *core.RegionInfo) []*core.RegionInfo {
			seen[ri.GetID()]++
			if !same(want[ri.GetID()], ri.GetMeta()) {
				bad++
				if first == "" {
					first = fmt.Sprintf("region %d saved as [%q, %q) is loaded as [%q, %q), encryption meta still set: %v", ri.GetID(),
						want[ri.GetID()].GetStartKey(), want[ri.GetID()].GetEndKey(), ri.GetStartKey(), ri.GetEndKey(), ri.GetMeta().GetEncryptionMeta() != nil)
				}
			}
			return nil
		})
		replay := map[string]interface{}{"probe": "encrypted-records", "backend": b.name, "loader": who, "regions": n}
		if err != nil {
			R.Violate("C17:load:encrypted-records-fail-to-load", fmt.Sprintf("%s backend, %s: %d regions saved under aes128-ctr, the full load fails: %v", b.name, who, n, err), replay)
			return
		}
		missing, twice := 0, 0
		for id := range want {
			if seen[id] == 0 {
				missing++
			} else if seen[id] > 1 {
				twice++
			}
		}
		if bad > 0 || missing > 0 || twice > 0 {
			R.Violate("C17:load:encrypted-record-not-returned-as-saved",
				fmt.Sprintf("%s backend, %s: %d regions saved under aes128-ctr; the full load returned %d regions that differ from what was saved (%d missing, %d twice); %s", b.name, who, n, bad, missing, twice, first), replay)
			return
		}
		got := &metapb.Region{}
		id := uint64(3*7 + 3)
		if ok, err := st.LoadRegion(id, got); err != nil || !ok || !same(want[id], got) {
			R.Violate("C17:load:encrypted-record-not-returned-as-saved",
				fmt.Sprintf("%s backend, %s: LoadRegion(%d) -> ok=%v err=%v [%q, %q), saved [%q, %q)", b.name, who, id, ok, err, got.GetStartKey(), got.GetEndKey(), want[id].GetStartKey(), want[id].GetEndKey()), replay)
			return
		}
		// the pruning load: nothing overlaps, so nothing may be deleted and the cache must hold every saved region
		err = st.LoadRegions(func(ri *core.RegionInfo) []*core.RegionInfo {
			ov := bc.CheckAndPutRegion(ri)
			deleted += len(ov)
			return ov
		})
		if err != nil || deleted > 0 || bc.GetRegionCount() != n {
			R.Violate("C17:prune:storage-differs-from-cache",
				fmt.Sprintf("%s backend, %s: pruning load of %d disjoint regions saved under aes128-ctr: err=%v, %d records deleted, %d regions cached", b.name, who, n, err, deleted, bc.GetRegionCount()), replay)
		}
	}
	for _, b := range backends {
		st, closeSt := open(b, kmA)
		for _, reg := range want {
			if err := st.SaveRegion(proto.Clone(reg).(*metapb.Region)); err != nil {
				panic(err)
			}
		}
		if err := st.Flush(); err != nil {
			panic(err)
		}
		check("member A (encryption on, wrote the records)", b, st)
		closeSt()
	}
	// A steps down; B (no [security.encryption] section) is elected and takes the key dictionary over
	leadA.Reset()
	kmB, leadB, err := member("B", &encryption.Config{})
	if err != nil {
		R.Notes = append(R.Notes, "encrypted-records probe: member B: "+err.Error())
		return
	}
	defer leadB.Reset()
	if _, k, _ := kmB.GetCurrentKey(); k != nil {
		R.Notes = append(R.Notes, "encrypted-records probe: member B still has a current key (the hand-over did not switch encryption off)")
	}
	for _, b := range backends {
		st, closeSt := open(b, kmB)
		check("member B (no encryption configured, elected after A)", b, st)
		closeSt()
	}
}

// storeWeightAPI: the saving seen from the API that does it. POST /store/{id}/weight through the real router of the leader;
// every request that is answered 200 must be what a full load of the stores returns afterwards (LoadStores: the next
// leader election / restart) and what the serving member shows - also for the legal weight 0 ("take all leaders off").
func storeWeightAPI(R *res.Result, l *pdcluster.Node) {
	R.Count("probe:store-weight-api")
	h, _, err := api.NewHandler(context.Background(), l.S)
	if err != nil {
		R.Notes = append(R.Notes, "store-weight-api skipped: "+err.Error())
		return
	}
	type req struct {
		body           string
		leader, region float64
	}
	reqs := []req{{`{"leader": 2.5, "region": 3}`, 2.5, 3}, {`{"leader": 0, "region": 1.5}`, 0, 1.5}, {`{"leader": 1.25, "region": 0}`, 1.25, 0},
		{`{"leader": 4, "region": 0.5}`, 4, 0.5}, {`{"leader": 0, "region": 0}`, 0, 0}, {`{"region": 7, "leader": 123456.789}`, 123456.789, 7}}
	for _, q := range reqs {
		rw := httptest.NewRecorder()
		h.ServeHTTP(rw, httptest.NewRequest("POST", "/pd/api/v1/store/1/weight", strings.NewReader(q.body)))
		if rw.Code != 200 {
			R.Count(fmt.Sprintf("probe:store-weight-api:answered-%d", rw.Code))
			continue // a refusal is not a save
		}
		var lw, rw2 float64
		found := false
		if err := l.S.GetStorage().LoadStores(func(s *core.StoreInfo) {
			if s.GetID() == 1 {
				found, lw, rw2 = true, s.GetLeaderWeight(), s.GetRegionWeight()
			}
		}); err != nil {
			R.Notes = append(R.Notes, "store-weight-api: LoadStores: "+err.Error())
			return
		}
		served := l.S.GetRaftCluster().GetStore(1)
		if !found || lw != q.leader || rw2 != q.region || served == nil || served.GetLeaderWeight() != q.leader || served.GetRegionWeight() != q.region {
			sl, sr := -1.0, -1.0
			if served != nil {
				sl, sr = served.GetLeaderWeight(), served.GetRegionWeight()
			}
			R.Violate("C17:load:store-weight-differs",
				fmt.Sprintf("POST /store/1/weight %s answered 200; a full load of the stores returns store 1 (found: %v) with leader weight %v region weight %v, the serving member shows %v / %v; saved was %v / %v",
					q.body, found, lw, rw2, sl, sr, q.leader, q.region),
				map[string]interface{}{"probe": "store-weight-api", "body": q.body})
			return
		}
	}
}

func followerBackendProbe(R *res.Result) {
	R.Count("probe:follower-backend")
	c, err := pdcluster.Start(2, nil)
	if err != nil {
		R.Notes = append(R.Notes, "follower-backend probe skipped: "+err.Error())
		return
	}
	defer c.Close()
	l := c.WaitLeader(60 * time.Second)
	if l == nil {
		R.Notes = append(R.Notes, "follower-backend probe skipped: no PD leader after 60 s")
		return
	}
	var f *pdcluster.Node
	for _, x := range c.Nodes {
		if x != l {
			f = x
		}
	}
	ctx, cancel := context.WithTimeout(context.Background(), 20*time.Second)
	defer cancel()
	peer := &metapb.Peer{Id: 3, StoreId: 1}
	if _, err := l.S.Bootstrap(ctx, &pdpb.BootstrapRequest{Header: &pdpb.RequestHeader{ClusterId: l.S.ClusterID()},
		Store:  &metapb.Store{Id: 1, Address: "mock://tikv-1", Version: "5.0.0"},
		Region: &metapb.Region{Id: 2, Peers: []*metapb.Peer{peer}, RegionEpoch: &metapb.RegionEpoch{ConfVer: 1, Version: 1}}}); err != nil {
		R.Notes = append(R.Notes, "follower-backend probe skipped: bootstrap: "+err.Error())
		return
	}
	rc := l.S.GetRaftCluster()
	deadline := time.Now().Add(10 * time.Second)
	for rc == nil && time.Now().Before(deadline) {
		time.Sleep(10 * time.Millisecond)
		rc = l.S.GetRaftCluster()
	}
	if rc == nil {
		R.Notes = append(R.Notes, "follower-backend probe skipped: no raft cluster on the leader")
		return
	}
	storeWeightAPI(R, l)
	const n = 30
	want := map[uint64]bool{}
	for i := 0; i < n; i++ {
		id := uint64(100 + i)
		m := &metapb.Region{Id: id, StartKey: keyOf(uint64(i) * 10), EndKey: keyOf(uint64(i+1) * 10), RegionEpoch: &metapb.RegionEpoch{ConfVer: 1, Version: 2},
			Peers: []*metapb.Peer{{Id: id*10 + 1, StoreId: 1}}}
		if i == n-1 {
			m.EndKey = nil
		}
		if err := rc.HandleRegionHeartbeat(core.NewRegionInfo(m, m.Peers[0])); err != nil {
			R.Notes = append(R.Notes, "follower-backend probe: heartbeat: "+err.Error())
		}
		want[id] = true
	}
	// the follower has them in its cache once the syncer has delivered them
	deadline = time.Now().Add(15 * time.Second)
	got := 0
	for time.Now().Before(deadline) {
		got = 0
		for id := range want {
			if f.S.GetBasicCluster().GetRegion(id) != nil {
				got++
			}
		}
		if got == n {
			break
		}
		time.Sleep(20 * time.Millisecond)
	}
	if got != n {
		R.Notes = append(R.Notes, fmt.Sprintf("follower-backend probe: only %d of %d regions reached the follower's cache through the syncer", got, n))
		return
	}
	time.Sleep(100 * time.Millisecond) // the SaveRegion of the last synced region
	st := f.S.GetStorage()
	if err := st.Flush(); err != nil {
		panic(err)
	}
	// what campaignLeader / a restart of this member would do before it loads: select the backend the configuration names
	useRS := f.S.GetPersistOptions().IsUseRegionStorage()
	if useRS {
		st.SwitchToRegionStorage()
	} else {
		st.SwitchToDefaultStorage()
	}
	loaded := map[uint64]bool{}
	if err := st.LoadRegions(func(r *core.RegionInfo) []*core.RegionInfo { loaded[r.GetID()] = true; return nil }); err != nil {
		panic(err)
	}
	missing := 0
	for id := range want {
		if !loaded[id] {
			missing++
		}
	}
	if missing > 0 {
		R.Violate("C17:member:synced-regions-not-in-configured-backend",
			fmt.Sprintf("two real members: the follower (its first role) saved %d regions received through the region syncer, Flush returned, and %d of them cannot be loaded from the backend its configuration names (use-region-storage=%v): it kept writing to the other backend",
				n, missing, useRS), map[string]interface{}{"probe": "follower-backend", "regions": n, "missing": missing, "use_region_storage": useRS})
	}
}

func bucket(n int) int {
	for _, b := range []int{0, 10, 100, 200, 500, 1000, 20000} {
		if n <= b {
			return b
		}
	}
	return 1 << 30
}

func slim(c Case) Case {
	if len(c.Ops) > 600 {
		// keep replay files small: the generator parameters are in the seed; the op list is what matters
		c.Obs = nil
	}
	return c
}

// checkGo: the two known boundary defects and plain losses are also recognised on the Go side, from the ops and the
// observations alone (the same judgement the Coq monitor makes).
func checkGo(R *res.Result, c Case) {
	top := uint64(math.MaxUint64)
	wantStores := map[uint64]bool{}
	wantRegions := map[uint64]bool{}
	deleted := map[uint64]bool{} // id -> its save was still unflushed when it was deleted
	isDeleted := map[uint64]bool{}
	pending := map[uint64]bool{} // region-storage mode: saved since the last explicit flush
	unsure := map[uint64]bool{}  // an errored write touched this id
	rs, dirty, known := false, false, true
	for i, o := range c.Ops {
		ob := c.Obs[i]
		if o.GoViol != "" {
			R.Violate("C17:load:store-weight-differs", o.GoViol, Case{Backend: c.Backend, Ops: c.Ops[:i+1]})
		}
		switch o.K {
		case "savestore":
			wantStores[o.ID] = true
		case "delstore":
			delete(wantStores, o.ID)
		case "saveregion", "leadersave":
			wantRegions[o.ID] = true
			delete(deleted, o.ID)
			delete(isDeleted, o.ID)
			if rs {
				dirty = true
				pending[o.ID] = true
			}
		case "saveregionf", "delregionf":
			if ob == "BErr" { // outcome unknown: this id is no longer judged here (the Coq monitor resolves it at the next load)
				unsure[o.ID] = true
			} else if o.K == "saveregionf" {
				wantRegions[o.ID] = true
				delete(isDeleted, o.ID)
			} else {
				delete(wantRegions, o.ID)
				isDeleted[o.ID] = true
				deleted[o.ID] = pending[o.ID]
			}
		case "tick":
			dirty = false
			pending = map[uint64]bool{}
		case "crashinflush":
			dirty, known = false, false
			pending = map[uint64]bool{}
		case "delregion":
			delete(wantRegions, o.ID)
			isDeleted[o.ID] = true
			deleted[o.ID] = pending[o.ID]
		case "switch":
			if (o.P != 0) != rs && len(wantRegions) > 0 {
				known = false
			}
			rs = o.P != 0
		case "flushfail":
			// nothing is promised: the batch must be kept (the Coq monitor judges the loads after the next successful flush)
		case "flush", "reopen", "cancelclose":
			dirty = false
			pending = map[uint64]bool{}
		case "crash":
			dirty, known = false, false
			pending = map[uint64]bool{}
		case "loadstores":
			if strings.HasPrefix(ob, "BStores RDiverged") {
				R.Violate("C17:load:endless-scan", "LoadStores does not terminate (the callback was invoked more than 3x the number of saved items)", slim(c))
			}
			if wantStores[top] && strings.HasPrefix(ob, "BStores RDone") && !strings.Contains(ob, "("+coqfmt.ZU(top)+",") {
				R.Violate("C17:load:max-id-never-loaded", fmt.Sprintf("a store with id 2^64-1 was saved and not deleted; LoadStores returned %d stores without it", strings.Count(ob, "(")), slim(c))
			}
		case "loadoncepair":
			if strings.Contains(ob, "BEarly") {
				R.Violate("C17:load-once:returned-before-first-load-finished",
					"two overlapping LoadRegionsOnce callers: the second returned nil without delivering anything while the first had delivered a single region", slim(c))
			}
		case "loadwarm":
			known = false // judged by the Coq monitor (cache vs storage); what is wanted is resynchronised at the next load
		case "loadregions", "loadonce", "loadcache", "loadoncecache":
			if strings.Contains(ob, " RDiverged ") {
				R.Violate("C17:load:endless-scan", "the region load does not terminate (the callback was invoked more than 3x the number of saved items)", slim(c))
			}
			if ob == "BSkipped" || !strings.Contains(ob, " RDone ") || dirty || !known {
				if strings.Contains(ob, " RDone ") && !dirty {
					known = true
					wantRegions = map[uint64]bool{}
					for _, id := range loadedIDs(ob) {
						wantRegions[id] = true
					}
				}
				continue
			}
			got := map[uint64]bool{}
			for _, id := range loadedIDs(ob) {
				got[id] = true
			}
			if wantRegions[top] && !got[top] {
				R.Violate("C17:load:max-id-never-loaded", "a region with id 2^64-1 was saved and not deleted; the load did not return it", slim(c))
			}
			for id := range got {
				if !wantRegions[id] && isDeleted[id] && !unsure[id] {
					if deleted[id] {
						R.Violate("C17:region-storage:deleted-region-still-loaded",
							fmt.Sprintf("region storage: region %d was saved (buffered), deleted, then Flush returned; the load still returns it", id), slim(c))
					} else {
						R.Violate("C17:load:deleted-region-still-loaded",
							fmt.Sprintf("region %d was deleted (no save of it was pending) and is still returned by the load", id), slim(c))
					}
				}
			}
			if o.K == "loadcache" || o.K == "loadoncecache" {
				wantRegions = got // pruned: resynchronise below from the dump is left to the Coq monitor
				known = false
			}
		}
	}
}

// ids of the first list of a BRegions / BCache observation
func loadedIDs(ob string) []uint64 {
	i := strings.Index(ob, "[")
	if i < 0 {
		return nil
	}
	depth, j := 0, i
	for ; j < len(ob); j++ {
		if ob[j] == '[' {
			depth++
		} else if ob[j] == ']' {
			depth--
			if depth == 0 {
				break
			}
		}
	}
	var ids []uint64
	for _, part := range strings.Split(ob[i+1:j], "; ") {
		part = strings.TrimPrefix(part, "(")
		k := strings.Index(part, "%Z")
		if k <= 0 {
			continue
		}
		v, err := strconv.ParseUint(part[:k], 10, 64)
		if err == nil {
			ids = append(ids, v)
		}
	}
	return ids
}
