(* C08 — executable model of server/schedule/operator/builder.go (+ the Create*Operator helpers of
   create_operator.go as fixed call sequences, + CreateLeaveJointStateOperator), and the property
   monitor plan_check.  Definitions only; proofs in proof/C08_*.v.

   Maps indexed by store id (peersMap) are association lists kept sorted by store id, so that
   IDs() (sorted iteration) is just the list order.  The cluster is a list of per-store facts read
   back from the real StoreInfo by the driver: exists (= is in the list), IsUp, "leader target
   allowed" (StoreStateFilter{TransferLeader}.Target && placement-rule match, abstracted, see
   DESIGN.md section 3), and the location-label vector.
   The order of peerPlan's alternatives, of the six plan preference functions, of the five leader
   preference functions and the roles rejected by allowLeader come from gen/Gen_C08.v. *)
From Coq Require Import String.
From PDV Require Import lib.Base gen.Gen_C08 model.C08_Steps.
Local Open Scope Z_scope.

(* ---------- peersMap ---------- *)
Definition pmap := list peer.

Fixpoint pm_set (m : pmap) (p : peer) : pmap :=
  match m with
  | [] => [p]
  | q :: r => if pstore p <? pstore q then p :: m
              else if pstore p =? pstore q then p :: r
              else q :: pm_set r p
  end.
Definition pm_get (m : pmap) (st : Z) : option peer := find (on_store st) m.
Definition pm_del (m : pmap) (st : Z) : pmap := filter (fun q => negb (on_store st q)) m.
Definition pm_ids (m : pmap) : list Z := map pstore m.
Definition pm_of_list (l : list peer) : pmap := fold_left pm_set l [].
Definition pm_len (m : pmap) : Z := Z.of_nat (length m).

(* ---------- cluster ---------- *)
Record store_info := Store { s_id : Z; s_up : bool; s_leader_ok : bool; s_labels : list Z }.

Record cluster := Cluster {
  stores : list store_info;
  joint_supported : bool;         (* IsFeatureSupported(JointConsensus) *)
  joint_enabled : bool;           (* GetOpts().IsUseJointConsensus() *)
  n_location_labels : nat         (* len(GetLocationLabels()) *)
}.

Definition get_store (c : cluster) (st : Z) : option store_info := find (fun s => s_id s =? st) (stores c).

(* labelMatch *)
Fixpoint label_match_from (i : Z) (n : nat) (a b : list Z) : Z :=
  match n with
  | O => i
  | S n' =>
      let x := match a with v :: _ => v | [] => 0 end in
      let y := match b with v :: _ => v | [] => 0 end in
      if x =? y then label_match_from (i + 1) n' (tl a) (tl b) else i
  end.
Definition label_match (c : cluster) (x y : Z) : Z :=
  match get_store c x, get_store c y with
  | Some sx, Some sy => label_match_from 0 (n_location_labels c) (s_labels sx) (s_labels sy)
  | _, _ => 0
  end.

(* ---------- expected roles (placement.PeerRoleType) ---------- *)
Inductive xrole := XLeader | XFollower | XVoter | XLearner.
Definition xrole_eqb (a b : xrole) : bool :=
  match a, b with XLeader, XLeader | XFollower, XFollower | XVoter, XVoter | XLearner, XLearner => true | _, _ => false end.
Definition meta_role (x : xrole) : role := match x with XLearner => Learner | _ => Voter end.
Definition xroles := list (Z * xrole).
Definition xr_get (m : xroles) (st : Z) : option xrole :=
  match find (fun e => fst e =? st) m with Some e => Some (snd e) | None => None end.

(* ---------- builder state ---------- *)
Record bstate := BState {
  b_cluster : cluster;
  b_origin : pmap; b_origin_leader : Z; b_unhealthy : list Z;
  b_target : pmap; b_tleader : Z; b_roles : xroles;
  b_allow_demote : bool; b_use_joint : bool; b_light : bool; b_force : bool;
  b_cur : pmap; b_cur_leader : Z;
  b_add : pmap; b_remove : pmap; b_promote : pmap; b_demote : pmap;
  b_steps : list step;                 (* in order *)
  b_addstep : list (Z * Z);            (* peerAddStep *)
  b_kleader : bool; b_kregion : bool   (* OpLeader / OpRegion bits added by the builder *)
}.

Definition addstep_of (b : bstate) (st : Z) : Z :=
  match find (fun e => fst e =? st) (b_addstep b) with Some e => snd e | None => 0 end.
Definition nsteps (b : bstate) : Z := Z.of_nat (length (b_steps b)).

(* field updates *)
Definition upd_exec (b : bstate) cur curl add rem pro dem steps addstep kl kr : bstate :=
  BState (b_cluster b) (b_origin b) (b_origin_leader b) (b_unhealthy b) (b_target b) (b_tleader b) (b_roles b)
         (b_allow_demote b) (b_use_joint b) (b_light b) (b_force b)
         cur curl add rem pro dem steps addstep kl kr.
Definition set_tleader (b : bstate) (t : Z) : bstate :=
  BState (b_cluster b) (b_origin b) (b_origin_leader b) (b_unhealthy b) (b_target b) t (b_roles b)
         (b_allow_demote b) (b_use_joint b) (b_light b) (b_force b)
         (b_cur b) (b_cur_leader b) (b_add b) (b_remove b) (b_promote b) (b_demote b) (b_steps b) (b_addstep b)
         (b_kleader b) (b_kregion b).
Definition set_force (b : bstate) (f : bool) : bstate :=
  BState (b_cluster b) (b_origin b) (b_origin_leader b) (b_unhealthy b) (b_target b) (b_tleader b) (b_roles b)
         (b_allow_demote b) (b_use_joint b) (b_light b) f
         (b_cur b) (b_cur_leader b) (b_add b) (b_remove b) (b_promote b) (b_demote b) (b_steps b) (b_addstep b)
         (b_kleader b) (b_kregion b).
Definition set_origin_leader (b : bstate) (l : Z) : bstate :=
  BState (b_cluster b) (b_origin b) l (b_unhealthy b) (b_target b) (b_tleader b) (b_roles b)
         (b_allow_demote b) (b_use_joint b) (b_light b) (b_force b)
         (b_cur b) (b_cur_leader b) (b_add b) (b_remove b) (b_promote b) (b_demote b) (b_steps b) (b_addstep b)
         (b_kleader b) (b_kregion b).
Definition set_kinds (b : bstate) (kl kr : bool) : bstate :=
  upd_exec b (b_cur b) (b_cur_leader b) (b_add b) (b_remove b) (b_promote b) (b_demote b) (b_steps b) (b_addstep b) kl kr.
Definition set_pending (b : bstate) add rem pro dem : bstate :=
  upd_exec b (b_cur b) (b_cur_leader b) add rem pro dem (b_steps b) (b_addstep b) (b_kleader b) (b_kregion b).

(* ---------- allowLeader ---------- *)
Local Open Scope string_scope.
Local Open Scope list_scope.
Local Open Scope Z_scope.
Definition role_name (r : role) : string :=
  match r with Voter => "PeerRole_Voter" | Learner => "PeerRole_Learner"
             | Incoming => "PeerRole_IncomingVoter" | Demoting => "PeerRole_DemotingVoter" end.
Definition in_names (n : string) (l : list string) : bool := existsb (String.eqb n) l.

Definition allow_leader (b : bstate) (p : peer) (ignore_limit : bool) : bool :=
  if in_names (role_name (prole p)) Gen_C08.no_leader_roles then false
  else if pstore p =? b_cur_leader b then true
  else match get_store (b_cluster b) (pstore p) with
       | None => false
       | Some s => if ignore_limit then true else s_leader_ok s
       end.
Definition allow_leader_o (b : bstate) (o : option peer) (ignore_limit : bool) : bool :=
  (* a nil *metapb.Peer: role Voter, store 0 *)
  match o with Some p => allow_leader b p ignore_limit | None => allow_leader b (Peer 0 0 Voter) ignore_limit end.

(* ---------- exec* ---------- *)
Definition exec_transfer (b : bstate) (to : Z) : bstate :=
  upd_exec b (b_cur b) to (b_add b) (b_remove b) (b_promote b) (b_demote b)
           (b_steps b ++ [TransferLeader (b_cur_leader b) to]) (b_addstep b) (b_kleader b) (b_kregion b).

Definition exec_promote (b : bstate) (p : peer) : bstate :=
  upd_exec b (pm_set (b_cur b) p) (b_cur_leader b) (b_add b) (b_remove b) (pm_del (b_promote b) (pstore p)) (b_demote b)
           (b_steps b ++ [PromoteLearner (pstore p) (pid p)]) (b_addstep b) (b_kleader b) (b_kregion b).

Definition exec_demote (b : bstate) (p : peer) : bstate :=
  upd_exec b (pm_set (b_cur b) p) (b_cur_leader b) (b_add b) (b_remove b) (b_promote b) (pm_del (b_demote b) (pstore p))
           (b_steps b ++ [DemoteFollower (pstore p) (pid p)]) (b_addstep b) (b_kleader b) (b_kregion b).

Definition set_addstep (m : list (Z * Z)) (st v : Z) : list (Z * Z) :=
  (st, v) :: filter (fun e => negb (fst e =? st)) m.

Definition exec_add (b : bstate) (p : peer) : bstate :=
  let s1 := if b_light b then AddLightLearner (pstore p) (pid p) else AddLearner (pstore p) (pid p) in
  let ss := if is_learner p then [s1] else [s1; PromoteLearner (pstore p) (pid p)] in
  let steps := b_steps b ++ ss in
  upd_exec b (pm_set (b_cur b) p) (b_cur_leader b) (pm_del (b_add b) (pstore p)) (b_remove b) (b_promote b) (b_demote b)
           steps (set_addstep (b_addstep b) (pstore p) (Z.of_nat (length steps))) (b_kleader b) (b_kregion b).

Definition exec_remove (b : bstate) (p : peer) : bstate :=
  upd_exec b (pm_del (b_cur b) (pstore p)) (b_cur_leader b) (b_add b) (pm_del (b_remove b) (pstore p)) (b_promote b) (b_demote b)
           (b_steps b ++ [RemovePeer (pstore p) (pid p)]) (b_addstep b) (b_kleader b) (b_kregion b).

Definition pairs_of (m : pmap) : list (Z * Z) := map (fun p => (pstore p, pid p)) m.

Definition exec_change_v2 (b : bstate) (need_enter need_transfer : bool) : bstate :=
  let pl := pairs_of (b_promote b) in
  let dv := pairs_of (b_demote b) in
  let cur := fold_left pm_set (b_demote b) (fold_left pm_set (b_promote b) (b_cur b)) in
  let b1 := upd_exec b cur (b_cur_leader b) (b_add b) (b_remove b) [] []
                     (if need_enter then b_steps b ++ [ChangePeerV2Enter pl dv] else b_steps b)
                     (b_addstep b) (b_kleader b) (b_kregion b) in
  let b2 := if need_transfer && negb (b_origin_leader b1 =? b_tleader b1) then exec_transfer b1 (b_tleader b1) else b1 in
  upd_exec b2 (b_cur b2) (b_cur_leader b2) (b_add b2) (b_remove b2) (b_promote b2) (b_demote b2)
           (b_steps b2 ++ [ChangePeerV2Leave pl dv]) (b_addstep b2) (b_kleader b2) (b_kregion b2).

(* ---------- setTargetLeaderIfNotExist ---------- *)
Definition lp_leader_role (b : bstate) (st : Z) : Z :=
  match xr_get (b_roles b) st with Some XLeader => 1 | _ => 0 end.
Definition lp_up_store (b : bstate) (st : Z) : Z :=
  match get_store (b_cluster b) st with Some s => b2z (s_up s) | None => 0 end.
Definition lp_current (b : bstate) (st : Z) : Z := b2z (st =? b_cur_leader b).
Definition lp_keep_voter (b : bstate) (st : Z) : Z := b2z (negb (is_some (pm_get (b_promote b) st))).
Definition lp_old_peer (b : bstate) (st : Z) : Z := - addstep_of b st.

Definition leader_pref_of (n : string) : bstate -> Z -> Z :=
  if String.eqb n "preferLeaderRoleAsLeader" then lp_leader_role
  else if String.eqb n "preferUpStoreAsLeader" then lp_up_store
  else if String.eqb n "preferCurrentLeader" then lp_current
  else if String.eqb n "preferKeepVoterAsLeader" then lp_keep_voter
  else if String.eqb n "preferOldPeerAsLeader" then lp_old_peer
  else fun _ _ => 0.

(* `best < next` -> take next; `best > next` -> keep; equal -> next function *)
Fixpoint better_leader (b : bstate) (fs : list string) (best next : Z) : bool :=
  match fs with
  | [] => false
  | f :: r => let x := leader_pref_of f b best in
              let y := leader_pref_of f b next in
              if x <? y then true else if y <? x then false else better_leader b r best next
  end.

Definition pick_target_leader (b : bstate) : Z :=
  fold_left (fun best st =>
    match pm_get (b_target b) st with
    | None => best
    | Some p =>
        if negb (allow_leader b p (b_force b)) then best
        else if match xr_get (b_roles b) st with Some XFollower => true | _ => false end then best
        else if best =? 0 then st
        else if better_leader b Gen_C08.leader_prefs best st then st else best
    end) (pm_ids (b_target b)) 0.

Definition set_target_leader_if_not_exist (b : bstate) : bstate :=
  if negb (b_tleader b =? 0) then b else set_tleader b (pick_target_leader b).

(* ---------- joint path ---------- *)
Definition joint_add_one (b : bstate) (p : peer) : bstate :=
  let b1 := if negb (is_learner p)
            then let b' := exec_add b (Peer (pstore p) (pid p) Learner) in
                 set_pending b' (b_add b') (b_remove b') (pm_set (b_promote b') p) (b_demote b')
            else exec_add b p in
  set_kinds b1 (b_kleader b1) true.

Definition joint_demote_removed (b : bstate) : bstate :=
  fold_left (fun b' p => if negb (is_learner p)
                         then set_pending b' (b_add b') (b_remove b') (b_promote b')
                                          (pm_set (b_demote b') (Peer (pstore p) (pid p) Learner))
                         else b') (b_remove b) b.

Definition joint_remove_all (b : bstate) : bstate :=
  fold_left (fun b' p => let b1 := exec_remove b' p in set_kinds b1 (b_kleader b1) true) (b_remove b) b.

(* None = "no valid leader" *)
Definition build_joint (b0 : bstate) : option bstate :=
  let b1 := fold_left joint_add_one (b_add b0) b0 in
  let b2 := set_target_leader_if_not_exist b1 in
  if b_tleader b2 =? 0 then None
  else
    let b3 := joint_demote_removed b2 in
    let tl := b_tleader b3 in
    let ol := b_origin_leader b3 in
    let b4 :=
      if match pm_get (b_origin b3) tl with Some p => negb (is_learner p) | None => false end then
        let b' := if negb (ol =? tl) then set_kinds (exec_transfer b3 tl) true (b_kregion b3) else b3 in
        exec_change_v2 b' true false
      else if (ol =? 0) || match pm_get (b_target b3) ol with Some p => negb (is_learner p) | None => false end then
        let b' := exec_change_v2 b3 true false in
        if negb (ol =? tl) then set_kinds (exec_transfer b' tl) true (b_kregion b') else b'
      else
        let b' := exec_change_v2 b3 true true in set_kinds b' true (b_kregion b') in
    Some (joint_remove_all b4).

(* ---------- non-joint path: stepPlan ---------- *)
Record splan := SPlan { lba : Z; lbr : Z; p_add : option peer; p_remove : option peer;
                        p_promote : option peer; p_demote : option peer }.
Definition empty_plan := SPlan 0 0 None None None None.
Definition plan_is_empty (p : splan) : bool :=
  negb (is_some (p_promote p)) && negb (is_some (p_demote p)) && negb (is_some (p_add p)) && negb (is_some (p_remove p)).
Definition with_lba (p : splan) (l : Z) := SPlan l (lbr p) (p_add p) (p_remove p) (p_promote p) (p_demote p).
Definition with_lbr (p : splan) (l : Z) := SPlan (lba p) l (p_add p) (p_remove p) (p_promote p) (p_demote p).

Definition olearner (o : option peer) : bool := role_eqb (orole o) Learner.

(* preference functions *)
Definition pp_replace_by_nearest (b : bstate) (p : splan) : Z :=
  if is_some (p_add p) && is_some (p_remove p) then
    let m := label_match (b_cluster b) (ostore (p_add p)) (ostore (p_remove p)) in
    if is_some (p_promote p) then
      let m2 := label_match (b_cluster b) (ostore (p_promote p)) (ostore (p_add p)) in
      if m2 <? m then m2 else m
    else if is_some (p_demote p) then
      let m2 := label_match (b_cluster b) (ostore (p_demote p)) (ostore (p_remove p)) in
      if m2 <? m then m2 else m
    else m
  else 0.
Definition pp_up_store (b : bstate) (p : splan) : Z :=
  if is_some (p_add p) then
    match get_store (b_cluster b) (lba p) with Some s => b2z (s_up s) | None => 0 end
  else 1.
Definition pp_old_peer (b : bstate) (p : splan) : Z :=
  let ret := - addstep_of b (lba p) in
  if is_some (p_add p) && (ostore (p_add p) =? lbr p) then ret - (nsteps b + 1)
  else ret - addstep_of b (lbr p).
Definition pp_add_or_promote_target (b : bstate) (p : splan) : Z :=
  if b_tleader b =? 0 then 0
  else b2z ((is_some (p_add p) && negb (olearner (p_add p)) && (ostore (p_add p) =? b_tleader b))
            || (is_some (p_promote p) && (ostore (p_promote p) =? b_tleader b))).
Definition pp_target_leader (b : bstate) (p : splan) : Z :=
  b2z ((b_tleader b =? 0)
       || (negb (lbr p =? 0) && (lbr p =? b_tleader b))
       || ((lbr p =? 0) && (lba p =? b_tleader b))).
Definition pp_less_transfer (b : bstate) (p : splan) : Z :=
  if (lba p =? 0) || (lba p =? b_cur_leader b)
  then 2 + b2z ((lbr p =? 0) || (lbr p =? b_cur_leader b))
  else b2z ((lbr p =? 0) || (lbr p =? lba p)).

Definition plan_pref_of (n : string) : bstate -> splan -> Z :=
  if String.eqb n "planPreferReplaceByNearest" then pp_replace_by_nearest
  else if String.eqb n "planPreferUpStoreAsLeader" then pp_up_store
  else if String.eqb n "planPreferOldPeerAsLeader" then pp_old_peer
  else if String.eqb n "planPreferAddOrPromoteTargetLeader" then pp_add_or_promote_target
  else if String.eqb n "planPreferTargetLeader" then pp_target_leader
  else if String.eqb n "planPreferLessLeaderTransfer" then pp_less_transfer
  else fun _ _ => 0.

Fixpoint compare_by (b : bstate) (fs : list string) (best next : splan) : splan :=
  match fs with
  | [] => best
  | f :: r => let x := plan_pref_of f b best in
              let y := plan_pref_of f b next in
              if y <? x then best else if x <? y then next else compare_by b r best next
  end.
Definition compare_plan (b : bstate) (best next : splan) : splan :=
  if plan_is_empty best then next else compare_by b Gen_C08.plan_prefs best next.

(* allowLeaderAfter: allowLeader for the moment at which the plan has already moved the leader to store l - the store
   that leads NOW is exempt from the store checks only while it keeps the leadership *)
Definition with_leader (b : bstate) (l : Z) : bstate :=
  upd_exec b (b_cur b) l (b_add b) (b_remove b) (b_promote b) (b_demote b) (b_steps b) (b_addstep b) (b_kleader b) (b_kregion b).
Definition allow_leader_after (b : bstate) (o : option peer) (l : Z) : bool := allow_leader_o (with_leader b l) o false.

Definition plan_replace_leaders (b : bstate) (best next : splan) : splan :=
  fold_left (fun best la =>
    if negb (allow_leader_o b (pm_get (b_cur b) la) false) then best
    else
      let next := with_lba next la in
      let best1 := fold_left (fun best lr =>
                     if negb (lr =? ostore (p_demote next)) && negb (lr =? ostore (p_remove next))
                        && allow_leader_after b (pm_get (b_cur b) lr) la
                     then compare_plan b best (with_lbr next lr) else best) (pm_ids (b_cur b)) best in
      let best2 := if is_some (p_promote next)
                      && negb (ostore (p_promote next) =? ostore (p_demote next))
                      && negb (ostore (p_promote next) =? ostore (p_remove next))
                      && allow_leader_after b (p_promote next) la
                   then compare_plan b best1 (with_lbr next (ostore (p_promote next))) else best1 in
      if is_some (p_add next)
         && negb (ostore (p_add next) =? ostore (p_demote next))
         && negb (ostore (p_add next) =? ostore (p_remove next))
         && allow_leader_after b (p_add next) la
      then compare_plan b best2 (with_lbr next (ostore (p_add next))) else best2)
    (pm_ids (b_cur b)) best.

Definition cur_free (b : bstate) (st : Z) : bool := negb (is_some (pm_get (b_cur b) st)).
(* one add and one remove are all that is pending *)
Definition single_replace (b : bstate) : bool :=
  Nat.eqb (length (b_add b)) 1 && Nat.eqb (length (b_remove b)) 1 && Nat.eqb (length (b_promote b)) 0 && Nat.eqb (length (b_demote b)) 0.

Definition plan_replace (b : bstate) : splan :=
  (* promote learner + demote voter *)
  let best1 := fold_left (fun best d => fold_left (fun best p =>
                  plan_replace_leaders b best (SPlan 0 0 None None (Some p) (Some d))) (b_promote b) best)
                (b_demote b) empty_plan in
  (* add voter + demote voter *)
  let best1' := fold_left (fun best d => fold_left (fun best a =>
                  if negb (is_learner a)
                  then plan_replace_leaders b best (SPlan 0 0 (Some a) None None (Some d)) else best) (b_add b) best)
                (b_demote b) best1 in
  (* add voter + remove voter OR add learner + remove learner - or any add + remove when they are all that is pending;
     the store of the new peer must be free *)
  let best2 := fold_left (fun best a => fold_left (fun best r =>
                  if (Bool.eqb (is_learner r) (is_learner a) || single_replace b) && cur_free b (pstore a)
                  then plan_replace_leaders b best (SPlan 0 0 (Some a) (Some r) None None) else best) (b_remove b) best)
                (b_add b) best1' in
  (* add learner + promote learner + remove voter *)
  let best3 := fold_left (fun best p => fold_left (fun best a =>
                  if is_learner a then
                    fold_left (fun best r =>
                      if negb (is_learner r) && cur_free b (pstore a)
                      then plan_replace_leaders b best (SPlan 0 0 (Some a) (Some r) (Some p) None) else best) (b_remove b) best
                  else best) (b_add b) best)
                (b_promote b) best2 in
  (* add voter + demote voter + remove learner   (j != k compares the store ids) *)
  fold_left (fun best d => fold_left (fun best r =>
      if is_learner r then
        fold_left (fun best a =>
          if negb (is_learner a) && negb (pstore r =? pstore a)
          then plan_replace_leaders b best (SPlan 0 0 (Some a) (Some r) None (Some d)) else best) (b_add b) best
      else best) (b_remove b) best)
    (b_demote b) best3.

Definition plan_promote_peer (b : bstate) : splan :=
  match b_promote b with p :: _ => SPlan 0 0 None None (Some p) None | [] => empty_plan end.

Definition plan_demote_peer (b : bstate) : splan :=
  fold_left (fun best d => fold_left (fun best l =>
      if allow_leader_o b (pm_get (b_cur b) l) false && negb (l =? pstore d)
      then compare_plan b best (SPlan 0 l None None None (Some d)) else best) (pm_ids (b_cur b)) best)
    (b_demote b) empty_plan.

Definition plan_remove_peer (b : bstate) : splan :=
  fold_left (fun best r => fold_left (fun best l =>
      if allow_leader_o b (pm_get (b_cur b) l) false && negb (l =? pstore r)
      then compare_plan b best (SPlan 0 l None (Some r) None None) else best) (pm_ids (b_cur b)) best)
    (b_remove b) empty_plan.

Definition plan_add_peer (b : bstate) : splan :=
  fold_left (fun best a =>
      if negb (cur_free b (pstore a)) then best      (* occupied until the old peer is removed *)
      else fold_left (fun best l =>
             if allow_leader_o b (pm_get (b_cur b) l) false
             then compare_plan b best (SPlan l 0 (Some a) None None None) else best) (pm_ids (b_cur b)) best)
    (b_add b) empty_plan.

Definition plan_fn_of (n : string) : bstate -> splan :=
  if String.eqb n "planReplace" then plan_replace
  else if String.eqb n "planPromotePeer" then plan_promote_peer
  else if String.eqb n "planDemotePeer" then plan_demote_peer
  else if String.eqb n "planRemovePeer" then plan_remove_peer
  else if String.eqb n "planAddPeer" then plan_add_peer
  else fun _ => empty_plan.

Fixpoint first_plan (b : bstate) (fs : list string) : splan :=
  match fs with
  | [] => empty_plan
  | f :: r => let p := plan_fn_of f b in if plan_is_empty p then first_plan b r else p
  end.
Definition peer_plan (b : bstate) : splan := first_plan b Gen_C08.plan_order.

Definition pending (b : bstate) : nat :=
  (length (b_add b) + length (b_remove b) + length (b_promote b) + length (b_demote b))%nat.

Definition apply_plan (b : bstate) (p : splan) : bstate :=
  let b1 := if negb (lba p =? 0) && negb (lba p =? b_cur_leader b)
            then set_kinds (exec_transfer b (lba p)) true (b_kregion b) else b in
  let b2 := match p_add p with Some a => let x := exec_add b1 a in set_kinds x (b_kleader x) true | None => b1 end in
  let b3 := match p_promote p with Some x => exec_promote b2 x | None => b2 end in
  let b4 := if negb (lbr p =? 0) && negb (lbr p =? b_cur_leader b3)
            then set_kinds (exec_transfer b3 (lbr p)) true (b_kregion b3) else b3 in
  let b5 := match p_demote p with Some x => exec_demote b4 x | None => b4 end in
  match p_remove p with Some x => let y := exec_remove b5 x in set_kinds y (b_kleader y) true | None => b5 end.

Inductive bres := BOk (b : bstate) | BErr | BFuel.

(* the `for len(toAdd) > 0 || ...` loop; every non-empty plan removes at least one pending entry, so
   fuel = number of pending entries suffices; running out of fuel is reported, never hidden *)
Fixpoint nonjoint_loop (fuel : nat) (b : bstate) : bres :=
  if Nat.eqb (pending b) 0 then BOk b
  else match fuel with
       | O => BFuel
       | S f => let p := peer_plan b in
                if plan_is_empty p then BErr else nonjoint_loop f (apply_plan b p)
       end.

Definition build_nonjoint (b0 : bstate) : bres :=
  match nonjoint_loop (pending b0) b0 with
  | BOk b1 =>
      let b2 := set_target_leader_if_not_exist b1 in
      let b3 := if negb (b_tleader b2 =? 0) && negb (b_cur_leader b2 =? b_tleader b2)
                   && is_some (pm_get (b_cur b2) (b_tleader b2))
                then set_kinds (exec_transfer b2 (b_tleader b2)) true (b_kregion b2) else b2 in
      match b_steps b3 with [] => BErr | _ => BOk b3 end
  | r => r
  end.

(* ---------- prepareBuild ---------- *)
Definition alloc_of (alloc : list (Z * Z)) (st : Z) : Z :=
  match find (fun e => fst e =? st) alloc with Some e => snd e | None => 0 end.

(* alloc: the peer ids the cluster's id allocator handed out, per target store (witness read back
   from the implementation's plan; the order of allocation follows Go map iteration) *)
Definition prepare_build (b : bstate) (alloc : list (Z * Z)) : option bstate :=
  let voters := countb (fun p => negb (is_learner p)) (b_target b) in
  if voters =? 0 then None
  else
    let step_o (acc : pmap * pmap * pmap) (o : peer) : pmap * pmap * pmap :=
      let '(rem, pro, dem) := acc in
      match pm_get (b_target b) (pstore o) with
      | None => (pm_set rem o, pro, dem)
      | Some n0 =>
          let n := if negb (pid o =? pid n0) then Peer (pstore o) (pid o) (prole n0) else n0 in
          if is_learner o then (if negb (is_learner n) then (rem, pm_set pro n, dem) else acc)
          else if is_learner n then
                 (if b_allow_demote b then (rem, pro, pm_set dem n) else (pm_set rem o, pro, dem))
               else acc
      end in
    let '(rem, pro, dem) := fold_left step_o (b_origin b) ([], [], []) in
    let add := fold_left (fun add n =>
                 let o := pm_get (b_origin b) (pstore n) in
                 if negb (is_some o) || (negb (b_allow_demote b) && negb (olearner o) && is_learner n)
                 then pm_set add (if (pid n =? 0) || is_some o then Peer (pstore n) (alloc_of alloc (pstore n)) (prole n) else n)
                 else add) (b_target b) [] in
    let tl := match pm_get (b_target b) (b_tleader b) with
              | Some p => if is_learner p then 0 else b_tleader b
              | None => 0 end in
    let b1 := BState (b_cluster b) (b_origin b) (b_origin_leader b) (b_unhealthy b) (b_target b) tl (b_roles b)
                     (b_allow_demote b) (b_use_joint b) (b_light b) (b_force b)
                     (b_origin b) (b_origin_leader b) add rem pro dem [] [] (b_kleader b) (b_kregion b) in
    if negb (tl =? 0) && negb (allow_leader_o b1 (pm_get (b_target b1) tl) (b_force b1)) then None
    else
      let uj := if (pending b1 <=? 1)%nat then false else b_use_joint b1 in
      Some (BState (b_cluster b1) (b_origin b1) (b_origin_leader b1) (b_unhealthy b1) (b_target b1) (b_tleader b1) (b_roles b1)
                   (b_allow_demote b1) uj (b_light b1) (b_force b1)
                   (b_cur b1) (b_cur_leader b1) (b_add b1) (b_remove b1) (b_promote b1) (b_demote b1) [] []
                   (b_kleader b1) (b_kregion b1)).

(* ---------- the API: NewBuilder + recorded calls + Build ---------- *)
Inductive bop :=
| OAddPeer (p : peer)
| ORemovePeer (st : Z)
| OPromoteLearner (st : Z)
| ODemoteVoter (st : Z)
| OSetLeader (st : Z)
| OSetPeers (ps : list peer)
| OSetExpectedRoles (rs : xroles)
| OLightWeight
| OForceTargetLeader.

Record binput := BInput {
  i_cluster : cluster;
  i_region : region;                 (* origin: peers in the order of the region meta, leader store *)
  i_unhealthy : list Z;              (* stores of pending / down peers *)
  i_skip_joint_check : bool;
  i_ops : list bop;
  i_alloc : list (Z * Z)
}.

Definition memz (x : Z) (l : list Z) : bool := existsb (Z.eqb x) l.

Definition new_builder (i : binput) : option bstate :=
  let r := i_region i in
  if existsb (fun p => pstore p =? 0) (peers r) then None
  else
    let origin := pm_of_list (peers r) in
    if negb (is_some (pm_get origin (leader r))) then None
    else if negb (i_skip_joint_check i) && is_in_joint r then None
    else
      let c := i_cluster i in
      Some (BState c origin (leader r) (i_unhealthy i) origin 0 []
                   (joint_supported c) (joint_supported c && joint_enabled c) false false
                   [] 0 [] [] [] [] [] [] false false).

Definition set_target (b : bstate) (t : pmap) (tl : Z) (rs : xroles) (light force : bool) : bstate :=
  BState (b_cluster b) (b_origin b) (b_origin_leader b) (b_unhealthy b) t tl rs
         (b_allow_demote b) (b_use_joint b) light force
         (b_cur b) (b_cur_leader b) (b_add b) (b_remove b) (b_promote b) (b_demote b) (b_steps b) (b_addstep b)
         (b_kleader b) (b_kregion b).

Definition api_op (b : bstate) (o : bop) : option bstate :=
  let t := b_target b in
  let keep t' tl := Some (set_target b t' tl (b_roles b) (b_light b) (b_force b)) in
  match o with
  | OAddPeer p =>
      if (pstore p =? 0) || in_joint p || is_some (pm_get t (pstore p)) then None
      else keep (pm_set t p) (b_tleader b)
  | ORemovePeer st =>
      if negb (is_some (pm_get t st)) || (b_tleader b =? st) then None
      else keep (pm_del t st) (b_tleader b)
  | OPromoteLearner st =>
      match pm_get t st with
      | None => None
      | Some p => if negb (is_learner p) || memz st (b_unhealthy b) then None
                  else keep (pm_set t (Peer (pstore p) (pid p) Voter)) (b_tleader b)
      end
  | ODemoteVoter st =>
      match pm_get t st with
      | None => None
      | Some p => if is_learner p then None else keep (pm_set t (Peer (pstore p) (pid p) Learner)) (b_tleader b)
      end
  | OSetLeader st =>
      match pm_get t st with
      | None => None
      | Some p => if is_learner p || memz st (b_unhealthy b) then None else keep t st
      end
  | OSetPeers ps =>
      if existsb (fun p => (pstore p =? 0) || in_joint p) ps then None
      else let t' := pm_of_list ps in
           keep t' (if is_some (pm_get t' (b_tleader b)) then b_tleader b else 0)
  | OSetExpectedRoles rs =>
      let leaders := filter (fun e => xrole_eqb (snd e) XLeader) rs in
      let voters := filter (fun e => xrole_eqb (snd e) XVoter) rs in
      if (1 <? Z.of_nat (length leaders)) then None
      else
        let tl0 := b_tleader b in
        let tl := match leaders with
                  | e :: _ => fst e
                  | [] => match xr_get rs tl0 with
                          | Some XFollower | Some XLearner => 0
                          | _ => tl0
                          end
                  end in
        if Nat.eqb (length leaders + length voters) 0 then None
        else Some (set_target b t tl rs (b_light b) (b_force b))
  | OLightWeight => Some (set_target b t (b_tleader b) (b_roles b) true (b_force b))
  | OForceTargetLeader => Some (set_target b t (b_tleader b) (b_roles b) (b_light b) true)
  end.

Fixpoint api_ops (b : bstate) (os : list bop) : option bstate :=
  match os with
  | [] => Some b
  | o :: r => match api_op b o with Some b' => api_ops b' r | None => None end
  end.

(* what Build returns, projected *)
Inductive bout :=
| Built (steps : list step) (kind_leader kind_region : bool)
| BuildErr
| BuildFuel.

Definition build (i : binput) : bout :=
  match new_builder i with
  | None => BuildErr
  | Some b0 =>
      match api_ops b0 (i_ops i) with
      | None => BuildErr
      | Some b1 =>
          match prepare_build b1 (i_alloc i) with
          | None => BuildErr
          | Some b2 =>
              if b_use_joint b2 then
                match build_joint b2 with
                | Some b3 => Built (b_steps b3) (b_kleader b3) (b_kregion b3)
                | None => BuildErr
                end
              else
                match build_nonjoint b2 with
                | BOk b3 => Built (b_steps b3) (b_kleader b3) (b_kregion b3)
                | BErr => BuildErr
                | BFuel => BuildFuel
                end
          end
      end
  end.

(* the prepared state of a build, for classification of the input (monitor signatures, theorems) *)
Definition prepared (i : binput) : option bstate :=
  match new_builder i with
  | None => None
  | Some b0 => match api_ops b0 (i_ops i) with
               | None => None
               | Some b1 => prepare_build b1 (i_alloc i)
               end
  end.

(* ---------- CreateLeaveJointStateOperator ---------- *)
Definition leave_joint_op (c : cluster) (r : region) : bout :=
  match new_builder (BInput c r [] true [] []) with
  | None => BuildErr
  | Some b0 =>
      if negb (is_in_joint r) then BuildErr
      else
        let pro := fold_left (fun m o => if role_eqb (prole o) Incoming then pm_set m o else m) (b_origin b0) [] in
        let dem := fold_left (fun m o => if role_eqb (prole o) Demoting then pm_set m o else m) (b_origin b0) [] in
        let mk curl := BState (b_cluster b0) (b_origin b0) (b_origin_leader b0) (b_unhealthy b0) (b_target b0) 0 []
                         (b_allow_demote b0) (b_use_joint b0) false false
                         (b_origin b0) curl [] [] pro dem [] [] false false in
        (* allowLeader(leader, true) runs before currentLeaderStoreID is initialised (still 0) *)
        let tl := match pm_get (b_origin b0) (b_origin_leader b0) with
                  | Some l => if allow_leader (mk 0) l true then b_origin_leader b0 else 0
                  | None => 0 end in
        let b1 := mk (b_origin_leader b0) in
        let b2 := set_target_leader_if_not_exist (set_tleader b1 tl) in
        let b3 := if b_tleader b2 =? 0 then set_target_leader_if_not_exist (set_force b2 true) else b2 in
        let b4 := if b_tleader b3 =? 0 then set_origin_leader b3 0
                  else if negb (b_origin_leader b3 =? b_tleader b3) then set_kinds b3 true false else b3 in
        let b5 := exec_change_v2 b4 false true in
        Built (b_steps b5) (b_kleader b5) (b_kregion b5)
  end.

(* =====================================================================================
   The property as a checker over an executed plan.
   ===================================================================================== *)

(* requested placement: (store, role) of every target peer; peer ids of kept peers stay those of the origin *)
Definition placement (ps : list peer) : list (Z * role) := map (fun p => (pstore p, prole p)) ps.
Definition pl_eqb (a b : Z * role) : bool := (fst a =? fst b) && role_eqb (snd a) (snd b).
Definition same_placement (a b : list (Z * role)) : bool :=
  forallb (fun x => existsb (pl_eqb x) b) a && forallb (fun x => existsb (pl_eqb x) a) b.

Record goal := Goal {
  g_target : list (Z * role);       (* requested peers and roles *)
  g_leader : Z;                     (* requested leader store, 0 = any voter *)
  g_min_voters : Z                  (* min (voters origin) (voters target) *)
}.

(* one transition r -> r' caused by step s *)
Definition leader_kept (r r' : region) : bool :=
  (leader r =? 0) ||
  match get_store_peer r' (leader r) with
  | Some p => negb (is_learner p)
  | None => false
  end.

Definition leader_to_valid (r r' : region) : bool :=
  (leader r' =? leader r) ||
  match get_store_peer r (leader r') with
  | Some p => match prole p with Voter | Incoming => true | _ => false end
  | None => false
  end.

Definition trans_violation (g : goal) (r r' : region) : option string :=
  if negb (leader_kept r r') then Some "leader-removed-or-demoted"
  else if negb (leader_to_valid r r') then Some "leader-to-learner-demoting-or-absent"
  else if negb (nodup_stores (peers r')) then Some "two-peers-on-one-store"
  else if (voters_old (peers r') <? g_min_voters g) || (voters_new (peers r') <? g_min_voters g) then Some "voters-below-min"
  else None.

Definition final_violation (g : goal) (r : region) : option string :=
  if negb (same_placement (placement (peers r)) (g_target g)) then Some "final-peers-differ"
  else if negb (g_leader g =? 0) && negb (leader r =? g_leader g) then Some "final-leader-differs"
  else if negb (match get_store_peer r (leader r) with Some p => new_voter p | None => false end)
       then Some "final-leader-not-voter"
  else None.

Definition sapp (a b : string) : string := String.append a b.

(* executes the plan the way the controller + stores would, returns the first violated clause *)
Fixpoint plan_check (g : goal) (r : region) (ss : list step) : option string :=
  match ss with
  | [] => final_violation g r
  | s :: rest =>
      match exec_step r s with
      | RSkip => plan_check g r rest
      | RUnsafe _ => Some (sapp "check-safety-fails:" (step_name s))
      | RNoCmd => Some (sapp "stuck-nothing-sent:" (step_name s))
      | RRejected _ => Some (sapp "store-rejects:" (step_name s))
      | RDone _ r' =>
          match trans_violation g r r' with
          | Some v => Some (sapp v (sapp ":" (step_name s)))
          | None => if negb (is_finish r' s) then Some (sapp "not-finished-after-apply:" (step_name s))
                    else plan_check g r' rest
          end
      end
  end.

Definition plan_ok (g : goal) (r : region) (ss : list step) : bool := negb (is_some (plan_check g r ss)).

Definition goal_of (b : bstate) : goal :=
  Goal (placement (b_target b)) (b_tleader b)
       (Z.min (Z.min (voters_old (b_origin b)) (voters_new (b_origin b)))
              (Z.min (voters_old (b_target b)) (voters_new (b_target b)))).

(* classes of inputs, used in signatures and as hypotheses of the theorems *)
Definition overlap_add_remove (b : bstate) : bool :=
  existsb (fun a => is_some (pm_get (b_remove b) (pstore a))) (b_add b).

(* demotions and voter additions both pending outside the joint path: peerPlan has no replace
   alternative pairing them and tries demotions before additions *)
Definition demote_and_add_voter (b : bstate) : bool :=
  negb (Nat.eqb (length (b_demote b)) 0) && existsb (fun a => negb (is_learner a)) (b_add b).

Definition path_class (b : bstate) : string :=
  if b_use_joint b then "joint"
  else if overlap_add_remove b then "nonjoint-demote-split"
  else if demote_and_add_voter b then "nonjoint-demote-and-add-voter"
  else "nonjoint".

(* =====================================================================================
   Correspondence: what the driver records per case, and how it is compared.
   ===================================================================================== *)

(* one executed step as observed on the implementation (real step methods on real RegionInfo, the
   command really sent by SendScheduleCommand, applied by harness/internal/tikvsim) *)
Record tobs := TObs {
  t_safe_raw : bool;         (* CheckSafety == nil on the region before, evaluated unconditionally *)
  t_fin_before : bool;       (* IsFinish before anything is sent *)
  t_safe : bool;             (* CheckSafety == nil   (true when not evaluated) *)
  t_cmd : option cmd;        (* what was put on the wire *)
  t_accepted : bool;         (* the store applied it *)
  t_cvc : Z;                 (* ConfVerChanged on the region afterwards *)
  t_prev_cvc : list Z;       (* ConfVerChanged of every EARLIER step of the plan on the region afterwards *)
  t_fin_after : bool;        (* IsFinish afterwards *)
  t_region : region          (* the region afterwards *)
}.

Definition obs_after (done : list step) (r0 r : region) (s : step) (fb sf : bool) (c : option cmd) (acc : bool) : tobs :=
  TObs (safe r0 s) fb sf c acc (conf_ver_changed r s) (map (conf_ver_changed r) done) (is_finish r s) r.

(* every step is attempted in turn, also after a failure (the monitor stops at the first failure,
   the trace comparison does not) *)
Fixpoint trace_from (done : list step) (r : region) (ss : list step) : list tobs :=
  match ss with
  | [] => []
  | s :: rest =>
      match exec_step r s with
      | RSkip => obs_after done r r s true true None false :: trace_from (done ++ [s]) r rest
      | RUnsafe _ => obs_after done r r s false false None false :: trace_from (done ++ [s]) r rest
      | RNoCmd => obs_after done r r s false true None false :: trace_from (done ++ [s]) r rest
      | RRejected c => obs_after done r r s false true (Some c) false :: trace_from (done ++ [s]) r rest
      | RDone c r' => obs_after done r r' s false true (Some c) true :: trace_from (done ++ [s]) r' rest
      end
  end.
Definition trace_of (r : region) (ss : list step) : list tobs := trace_from [] r ss.

Definition zz_eqb (a b : Z * Z) : bool := (fst a =? fst b) && (snd a =? snd b).

Definition step_eqb (a b : step) : bool :=
  match a, b with
  | TransferLeader f t, TransferLeader f' t' => (f =? f') && (t =? t')
  | AddPeer s i, AddPeer s' i' | AddLearner s i, AddLearner s' i'
  | AddLightPeer s i, AddLightPeer s' i' | AddLightLearner s i, AddLightLearner s' i'
  | PromoteLearner s i, PromoteLearner s' i' | DemoteFollower s i, DemoteFollower s' i'
  | RemovePeer s i, RemovePeer s' i' => (s =? s') && (i =? i')
  | ChangePeerV2Enter p d, ChangePeerV2Enter p' d' | ChangePeerV2Leave p d, ChangePeerV2Leave p' d' =>
      list_eqb zz_eqb p p' && list_eqb zz_eqb d d'
  | MergeRegion p t, MergeRegion p' t' => Bool.eqb p p' && (t =? t')
  | SplitRegion f, SplitRegion f' => f =? f'
  | _, _ => false
  end.

Definition region_eqb (a b : region) : bool :=
  list_eqb peer_eqb (peers a) (peers b) && (leader a =? leader b) && (conf_ver a =? conf_ver b) && (rng a =? rng b).

Definition cmd_eqb (a b : cmd) : bool :=
  match a, b with
  | CTransferLeader p, CTransferLeader q => opt_eqb peer_eqb p q
  | CChangePeer t p, CChangePeer u q => change_type_eqb t u && opt_eqb peer_eqb p q
  | CChangePeerV2 l, CChangePeerV2 m =>
      list_eqb (fun x y => change_type_eqb (fst x) (fst y) && peer_eqb (snd x) (snd y)) l m
  | CMerge, CMerge | CSplit, CSplit => true
  | _, _ => false
  end.

Definition tobs_eqb (a b : tobs) : bool :=
  Bool.eqb (t_safe_raw a) (t_safe_raw b) && Bool.eqb (t_fin_before a) (t_fin_before b) && Bool.eqb (t_safe a) (t_safe b)
  && opt_eqb cmd_eqb (t_cmd a) (t_cmd b) && Bool.eqb (t_accepted a) (t_accepted b)
  && (t_cvc a =? t_cvc b) && list_eqb Z.eqb (t_prev_cvc a) (t_prev_cvc b)
  && Bool.eqb (t_fin_after a) (t_fin_after b) && region_eqb (t_region a) (t_region b).

Definition bout_eqb (a b : bout) : bool :=
  match a, b with
  | Built s kl kr, Built s' kl' kr' => list_eqb step_eqb s s' && Bool.eqb kl kl' && Bool.eqb kr kr'
  | BuildErr, BuildErr | BuildFuel, BuildFuel => true
  | _, _ => false
  end.

(* The executor layer over a plan (real OperatorController: AddOperator, then Dispatch on every heartbeat; commands are
   applied or lost, and leadership may move between heartbeats without any change of the epoch).  One observation per call:
   the region the call saw, the commands it put on the wire, whether the operator is in the running set afterwards. *)
Record xobs := XObs { x_hb : bool; x_region : region; x_sent : list cmd; x_running : bool }.

Fixpoint skip_finished (r : region) (l : list step) : list step :=
  match l with
  | s :: t => if is_finish r s then skip_finished r t else l
  | [] => []
  end.

(* what the executor does on a plan while the region changes only through the plan's own commands and leader moves:
   Operator.Check passes over finished steps (never back); on a heartbeat the step whose turn it is must pass CheckSafety
   on the region as reported NOW, otherwise the operator is cancelled; else its command goes out *)
Fixpoint exec_model (rem : list step) (alive : bool) (xs : list xobs) : list (list cmd * bool) :=
  match xs with
  | [] => []
  | x :: xr =>
      if negb alive then ([], false) :: exec_model rem false xr
      else
        let r := x_region x in
        match skip_finished r rem with
        | [] => if x_hb x then ([], false) :: exec_model [] false xr else ([], true) :: exec_model [] true xr
        | s :: t =>
            if x_hb x && negb (safe r s) then ([], false) :: exec_model (s :: t) false xr
            else ((match cmd_of_step r s with Some c => if leader r =? 0 then [] else [c] | None => [] end), true)
                 :: exec_model (s :: t) true xr
        end
  end.

Fixpoint exec_monitor (rem : list step) (xs : list xobs) : option string :=
  match xs with
  | [] => None
  | x :: xr =>
      let r := x_region x in
      match skip_finished r rem with
      | [] => None
      | s :: t =>
          let bad := x_hb x && nodup_stores (peers r) && step_ids_nonzero s && negb (spec_safe r s) in
          if bad && negb (Nat.eqb (length (x_sent x)) 0)
          then Some (sapp "C08:exec:command-sent-for-unsafe-step:" (step_name s))
          else if bad && x_running x
          then Some (sapp "C08:exec:unsafe-step-keeps-operator-running:" (step_name s))
          else if x_running x then exec_monitor (s :: t) xr else None
      end
  end.

(* which stores may receive a leader, by the state the case put the store in: only a store that is up - heartbeating, not
   offline, not busy, not evicted, not tombstone, and not excluded by any reject-leader label property; a store that was
   silent beyond the thresholds and has merely registered again is still down / disconnected *)
Definition state_accepts_leader (state : string) : bool := String.eqb state "up".

Inductive ccase :=
| CRule (state : string) (real : bool)                                (* StoreStateFilter{TransferLeader}.Target on a store in that state *)
| CServed (r : region) (ss : list step) (tr : list tobs)              (* an operator PD built through its RPC layer, run on the region as PD has it *)
| CExec (r : region) (ss : list step) (xs : list xobs)                (* a plan run by the real OperatorController *)
| CBuild (i : binput) (out : bout) (tr : list tobs)                   (* NewBuilder ... Build *)
| CLeave (c : cluster) (r : region) (out : bout) (tr : list tobs)     (* CreateLeaveJointStateOperator *)
| CProbe (r : region) (ss : list step) (tr : list tobs)               (* arbitrary steps on an arbitrary region: step.go only *)
| CPend (r : region) (pend : list Z) (ss : list step) (fins : list bool). (* IsFinish of each step on r with pending peers *)

Definition case_region (c : ccase) : region := match c with CBuild i _ _ => i_region i | CLeave _ r _ _ | CProbe r _ _ | CPend r _ _ _ | CExec r _ _ | CServed r _ _ => r | CRule _ _ => Region [] 0 0 0 end.
Definition case_out (c : ccase) : bout := match c with CBuild _ o _ | CLeave _ _ o _ => o | CProbe _ ss _ | CServed _ ss _ => Built ss false false | CPend _ _ _ _ | CExec _ _ _ | CRule _ _ => BuildErr end.
Definition case_trace (c : ccase) : list tobs := match c with CBuild _ _ t | CLeave _ _ _ t | CProbe _ _ t | CServed _ _ t => t | CPend _ _ _ _ | CExec _ _ _ | CRule _ _ => [] end.
Definition model_out (c : ccase) : bout :=
  match c with CBuild i _ _ => build i | CLeave cl r _ _ => leave_joint_op cl r | CProbe _ ss _ | CServed _ ss _ => Built ss false false | CPend _ _ _ _ | CExec _ _ _ | CRule _ _ => BuildErr end.

(* None = model and implementation agree *)
Definition check_case (c : ccase) : option (string * bout * list (nat * option tobs * option tobs)) :=
  match c with
  | CPend r pend ss fins =>
      if list_eqb Bool.eqb (map (is_finish_p pend r) ss) fins then None
      else Some ("IsFinish with pending peers differs (model steps shown)", Built ss false false, [])
  | CRule _ _ => None      (* judged by the monitor *)
  | CExec r ss xs =>
      if list_eqb (fun a b => list_eqb cmd_eqb (fst a) (fst b) && Bool.eqb (snd a) (snd b))
                  (exec_model ss true xs) (map (fun x => (x_sent x, x_running x)) xs) then None
      else Some ("the operator controller's handling of the plan differs (plan shown)", Built ss false false, [])
  | _ =>
  if negb (bout_eqb (model_out c) (case_out c)) then Some ("plan differs (model plan shown)", model_out c, [])
  else match case_out c with
       | Built ss _ _ =>
           match diff_at tobs_eqb 0 (trace_of (case_region c) ss) (case_trace c) with
           | [] => None
           | d => Some ("execution trace differs at step (model, implementation)", BuildErr, d)
           end
       | _ => None
       end
  end.

Fixpoint mismatches_from (n : nat) (cs : list ccase) :=
  match cs with
  | [] => []
  | c :: r => match check_case c with
              | None => mismatches_from (S n) r
              | Some d => (n, d) :: mismatches_from (S n) r
              end
  end.
Definition mismatches := mismatches_from 0.

(* goal of a leave-joint operator: every incoming voter a voter, every demoting voter a learner *)
Definition leave_goal (r : region) : goal :=
  Goal (placement (map leave_role (peers r))) 0 (Z.min (voters_old (peers r)) (voters_new (peers r))).

(* a violating plan that is not the plan the model of the unchanged builder produces is a different
   defect than the listed ones: it gets its own signature *)
Definition unlike_model (c : ccase) : string :=
  if bout_eqb (model_out c) (case_out c) then "" else ":plan-unlike-model".

(* Step-level monitor: the implementation's CheckSafety / IsFinish answers (recorded by the driver on the region before
   and after every step) against what the property asks of them (spec_safe / spec_done of model/C08_Steps.v).
   rb = the region before the step, as the implementation had it. *)
Fixpoint step_monitor (rb : region) (ss : list step) (tr : list tobs) : option string :=
  match ss, tr with
  | s :: sr, t :: trr =>
      let wf := nodup_stores (peers rb) && step_ids_nonzero s in
      if wf && t_safe_raw t && negb (spec_safe rb s)
      then Some (sapp "C08:step:unsafe-step-passes-check-safety:" (step_name s))
      else if wf && t_fin_before t && negb (spec_done rb s)
      then Some (sapp "C08:step:finished-without-effect:" (step_name s))
      else if nodup_stores (peers (t_region t)) && step_ids_nonzero s && t_fin_after t && negb (spec_done (t_region t) s)
      then Some (sapp "C08:step:finished-without-effect:" (step_name s))
      else step_monitor (t_region t) sr trr
  | _, _ => None
  end.

(* Builder plans never lower what an earlier step counts in ConfVerChanged (else checkStaleOperator cancels the operator
   on its own steps, C09): the implementation's counts of all earlier steps after every step, against the counts those
   steps had one step before.  before = counts of steps 0..k-1 after step k-1. *)
Fixpoint first_drop (k : nat) (before after : list Z) : option nat :=
  match before, after with
  | b :: br, a :: ar => if a <? b then Some k else first_drop (S k) br ar
  | _, _ => None
  end.
Fixpoint count_monitor (ss_all : list step) (before : list Z) (tr : list tobs) : option string :=
  match tr with
  | [] => None
  | t :: trr =>
      match first_drop 0 before (t_prev_cvc t) with
      | Some k => Some (sapp "C08:step:earlier-step-count-dropped:"
                             (match nth_error ss_all k with Some s => step_name s | None => "?" end))
      | None => count_monitor ss_all (t_prev_cvc t ++ [t_cvc t]) trr
      end
  end.

(* The builder's own rule for leader targets, read off a plan: outside the forced-leader variant every TransferLeader step
   goes to a store the cluster knows and that accepts leaders (allowLeader's store checks; s_leader_ok abstracts
   StoreStateFilter{TransferLeader} + the reject-leader label property) - also when the store led the region before the plan
   moved the leader away.  Exempt: the leader the caller asked for when it is where the leader already was. *)
Definition store_takes_leader (cl : cluster) (st : Z) : bool :=
  match get_store cl st with Some s => s_leader_ok s | None => false end.
Definition leader_stores_ok (cl : cluster) (origin_leader asked : Z) (force : bool) (ss : list step) : bool :=
  force || forallb (fun s => match s with
                             | TransferLeader _ t => store_takes_leader cl t || ((t =? asked) && (t =? origin_leader))
                             | _ => true end) ss.

(* Monitor: the property evaluated on the plan the IMPLEMENTATION produced. *)
Definition plan_monitor (c : ccase) : option string :=
  match c with
  | CBuild i (Built ss _ _) _ =>
      match prepared i with
      | Some b => match plan_check (goal_of b) (i_region i) ss with
                  | Some v => Some (sapp "C08:" (sapp (path_class b) (sapp ":" (sapp v (unlike_model c)))))
                  | None =>
                      if leader_stores_ok (b_cluster b) (leader (i_region i)) (b_tleader b) (b_force b) ss then None
                      else Some (sapp "C08:" (sapp (path_class b) (sapp ":leader-to-store-that-rejects-leaders:TransferLeader" (unlike_model c))))
                  end
      | None =>
          (* the model refuses to build (e.g. "target leader is not allowed") but the implementation produced a plan:
             judged against what the recorded calls asked for *)
          let judge (j : binput) :=
            match new_builder j with
            | Some b0 => match api_ops b0 (i_ops j) with
                         | Some b1 => match plan_check (goal_of b1) (i_region j) ss with
                                      | Some v => Some (Some (sapp "C08:refused-by-model:" (sapp v (unlike_model c))))
                                      | None => Some None
                                      end
                         | None => Some None
                         end
            | None => None
            end in
          match judge i with
          | Some v => v
          | None =>
              (* NewBuilder itself refuses (the origin is in a joint state and the caller does not skip that check), yet the
                 implementation built a plan: judged as if the check had been skipped *)
              match judge (BInput (i_cluster i) (i_region i) (i_unhealthy i) true (i_ops i) (i_alloc i)) with
              | Some v => v
              | None => None
              end
          end
      end
  | CLeave _ r (Built ss _ _) _ =>
      match plan_check (leave_goal r) r ss with
      | Some v => Some (sapp "C08:leave-joint:" (sapp v (unlike_model c)))
      | None => None
      end
  | _ => None
  end.

(* an add step whose peer is still pending must not count as finished (the next step could otherwise rely on a peer
   that has no data yet); nor may any step be finished whose effect is not there *)
Fixpoint pend_monitor (r : region) (pend : list Z) (ss : list step) (fins : list bool) : option string :=
  match ss, fins with
  | s :: sr, f :: fr =>
      let waits := match s with
                   | AddPeer _ id | AddLearner _ id | AddLightPeer _ id | AddLightLearner _ id => existsb (Z.eqb id) pend
                   | _ => false end in
      if f && waits then Some (sapp "C08:step:finished-while-peer-pending:" (step_name s))
      else if f && nodup_stores (peers r) && step_ids_nonzero s && negb (spec_done r s)
      then Some (sapp "C08:step:finished-without-effect:" (step_name s))
      else pend_monitor r pend sr fr
  | _, _ => None
  end.

Definition monitor (c : ccase) : option string :=
  match c with CPend r pend ss fins => pend_monitor r pend ss fins | CExec r ss xs => exec_monitor ss xs
  | CServed r ss tr =>
      (* an operator PD built itself, for a region it knows: every step's precondition holds when its turn comes *)
      let fix first_unsafe (ss : list step) (tr : list tobs) : option string :=
        match ss, tr with
        | s :: sr, t :: trr => if negb (t_fin_before t) && negb (t_safe t)
                               then Some (sapp "C08:served-plan:check-safety-fails:" (step_name s))
                               else first_unsafe sr trr
        | _, _ => None
        end in
      match first_unsafe ss tr with
      | Some v => Some v
      | None => step_monitor r ss tr
      end
  | CRule state real =>
      if Bool.eqb real (state_accepts_leader state) then None
      else Some (sapp "C08:leader-target-rule:" (sapp state (if real then "-store-accepted" else "-store-refused")))
  | _ =>
  match plan_monitor c with
  | Some v => Some v
  | None => match case_out c with
            | Built ss _ _ =>
                match step_monitor (case_region c) ss (case_trace c) with
                | Some v => Some v
                | None => match c with
                          | CProbe _ _ _ => None          (* arbitrary steps may undo each other *)
                          | _ => count_monitor ss [] (case_trace c)
                          end
                end
            | _ => None
            end
  end end.

Fixpoint monitor_fails_from (n : nat) (cs : list ccase) : list (nat * string) :=
  match cs with
  | [] => []
  | c :: r => match monitor c with
              | None => monitor_fails_from (S n) r
              | Some sg => (n, sg) :: monitor_fails_from (S n) r
              end
  end.
Definition monitor_fails := monitor_fails_from 0.
