(* C13 — model of core.Storage.LoadRangeByPrefix over kv.Base.LoadRange (the restart path of
   RuleManager: LoadRules / LoadRuleGroups).  Keys are byte strings; `keys` is the ascending key list
   of the store.  Definitions only.
     LoadRange(key, endKey, limit) : the first `limit` keys k with key <= k < endKey (limit 0 = all)
     LoadRangeByPrefix             : nextKey := prefix; loop { page := LoadRange(nextKey, endKey, limit);
                                     emit page; if len(page) < limit return; nextKey = last(page) + "\x00" }
   The Go loop has no bound; the model's fuel is an observation: None = the loop would not terminate. *)
From PDV Require Import lib.Base lib.C12_Order lib.C13_Map gen.Gen_C13 model.C13_Rules.
Local Open Scope list_scope.

Definition in_range (lo hi k : key) : bool := negb (key_ltb k lo) && key_ltb k hi.

Definition load_range (lo hi : key) (limit : nat) (keys : list key) : list key :=
  let l := filter (in_range lo hi) keys in
  match limit with O => l | _ => firstn limit l end.

(* keys[len(keys)-1] + "\x00"   (Gen_C13.load_next_key) *)
Definition next_key (last : key) : key := last ++ [0%N].

Fixpoint last_key (l : list key) : option key :=
  match l with [] => None | [x] => Some x | _ :: r => last_key r end.

Fixpoint paged (fuel limit : nat) (lo hi : key) (keys : list key) : option (list key) :=
  match fuel with
  | O => None
  | S f =>
      let page := load_range lo hi limit keys in
      if (length page <? limit)%nat then Some page
      else match last_key page with
           | None => None                                   (* an empty page that is not short: limit = 0 *)
           | Some l => option_map (app page) (paged f limit (next_key l) hi keys)
           end
  end.

(* clientv3.GetPrefixRangeEnd: the prefix with its last byte below 0xff incremented (and what follows cut) *)
Fixpoint prefix_end_rev (r : list N) : list N :=
  match r with
  | [] => []                                                 (* all 0xff: "\x00" = no upper bound in etcd; not used by PD's prefixes *)
  | b :: t => if (b <? 255)%N then (b + 1)%N :: t else prefix_end_rev t
  end.
Definition prefix_end (p : key) : key := rev (prefix_end_rev (rev p)).

Definition page_limit : nat := Z.to_nat Gen_C13.minKVRangeLimit.

Definition load_range_by_prefix (prefix : key) (keys : list key) : option (list key) :=
  paged (S (length keys)) page_limit prefix (prefix_end prefix) keys.
