(* C12 — executable model of server/schedule/placement/fit.go (+ label_constraint.go, the two
   StoreInfo helpers GetLabelValue / CompareLocation, checkRule).  Definitions only.

   (a) fit_imp  : transcription of fitRule / enumPeers / compareBest / updateOrphanPeers.
       - best-so-far vector: `w.bestFit.RuleFits[index:]` is the list `rbs` the function works on
         (fitRule(index) reads and writes no entry below `index`); each entry is zipped with its rule.
       - `fitPeer.selected` flags: the list `sel` of indices of the peers whose flag is set.  The flag
         of p is set before the recursive call and cleared after it, so it is passed down, not threaded.
       - orphans: threaded (`orph`).
   (b) fit_spec : rule by rule, all k-subsets of the remaining candidates in enumeration order,
       first lexicographic maximum.
   Labels are ASCII strings; EqualFold is ASCII case folding (the driver only generates ASCII).
   Isolation score in Z (exact in float64 for <= 7 label levels and <= 6 peers). *)
From Coq Require Import String Ascii.
From PDV Require Import lib.Base lib.C12_Order gen.Gen_C12.
Local Open Scope list_scope.
Local Open Scope Z_scope.

(* ---------- inputs ---------- *)
Inductive role := Voter | Leader | Follower | Learner | BadRole.
Inductive cop := OpIn | OpNotIn | OpExists | OpNotExists | OpBad.
Record constr := Constr { ckey : string; cop_of : cop; cvals : list string }.
Record rule := Rule { rrole : role; rcount : nat; rcons : list constr; rlocs : list string }.
Record store := Store { sid : Z; slabels : list (string * string) }.
Record peer := Peer { pid : Z; pstore : Z; plearner : bool }.

(* a fitPeer: position in the sorted peer slice, the peer, its resolved store, isLeader *)
Record fpeer := FPeer { fidx : nat; fpid : Z; flearner : bool; fleader : bool; fstore : option store }.

Record rulefit := RF { rf_peers : list fpeer; rf_diff : list fpeer; rf_score : Z }.

(* ---------- strings ---------- *)
Definition lower_ascii (c : ascii) : ascii :=
  let n := N_of_ascii c in
  if (65 <=? n)%N && (n <=? 90)%N then ascii_of_N (n + 32) else c.
Fixpoint lower (s : string) : string :=
  match s with EmptyString => EmptyString | String c r => String (lower_ascii c) (lower r) end.
Definition fold_eqb (a b : string) : bool := String.eqb (lower a) (lower b).   (* strings.EqualFold, ASCII *)
Definition is_empty (s : string) : bool := match s with EmptyString => true | _ => false end.
Definition mem_str (x : string) (l : list string) : bool := existsb (String.eqb x) l.

(* StoreInfo.GetLabelValue *)
Fixpoint get_label_value (labels : list (string * string)) (key : string) : string :=
  match labels with
  | [] => EmptyString
  | (k, v) :: r => if fold_eqb k key then v else get_label_value r key
  end.

(* LabelConstraint.MatchStore *)
Definition match_store (c : constr) (s : store) : bool :=
  let label := get_label_value (slabels s) (ckey c) in
  match cop_of c with
  | OpIn => negb (is_empty label) && mem_str label (cvals c)
  | OpNotIn => is_empty label || negb (mem_str label (cvals c))
  | OpExists => negb (is_empty label)
  | OpNotExists => is_empty label
  | OpBad => false
  end.

Definition is_exclusive_label (key : string) : bool :=
  String.prefix exclusive_prefix key || mem_str key legacy_exclusive_labels.

(* MatchLabelConstraints *)
Definition match_label_constraints (s : option store) (cs : list constr) : bool :=
  match s with
  | None => false
  | Some s =>
      forallb (fun l => negb (is_exclusive_label (fst l) && negb (existsb (fun c => String.eqb (ckey c) (fst l)) cs)))
              (slabels s)
      && forallb (fun c => match_store c s) cs
  end.

Definition check_rule (r : rule) (stores : list store) : bool :=
  existsb (fun s => match_label_constraints (Some s) (rcons r)) stores.

(* fitPeer.matchRoleStrict / matchRoleLoose *)
Definition match_role_strict (p : fpeer) (r : role) : bool :=
  match r with
  | Voter => negb (flearner p)
  | Leader => fleader p
  | Follower => negb (flearner p) && negb (fleader p)
  | Learner => flearner p
  | BadRole => false
  end.
Definition match_role_loose (p : fpeer) (r : role) : bool :=
  match r with Learner => flearner p | _ => true end.

(* StoreInfo.CompareLocation: Some i = first differing level, None = -1 *)
Fixpoint compare_location_from (i : nat) (l1 l2 : list (string * string)) (labels : list string) : option nat :=
  match labels with
  | [] => None
  | key :: r =>
      let v1 := get_label_value l1 key in
      let v2 := get_label_value l2 key in
      if negb (is_empty v1) && negb (is_empty v2) && negb (fold_eqb v1 v2) then Some i
      else compare_location_from (S i) l1 l2 r
  end.
Definition labels_of (s : option store) : list (string * string) :=
  match s with Some s => slabels s | None => [] end.
Definition compare_location (p1 p2 : fpeer) (labels : list string) : option nat :=
  compare_location_from 0 (labels_of (fstore p1)) (labels_of (fstore p2)) labels.

Definition pair_score (p1 p2 : fpeer) (labels : list string) : Z :=
  match compare_location p1 p2 labels with
  | Some i => replicaBaseScore ^ (Z.of_nat (length labels) - Z.of_nat i - 1)
  | None => 0
  end.
Fixpoint score_pairs (peers : list fpeer) (labels : list string) : Z :=
  match peers with
  | [] => 0
  | p1 :: r => fold_left (fun acc p2 => acc + pair_score p1 p2 labels) r 0 + score_pairs r labels
  end.
Definition isolation_score (peers : list fpeer) (labels : list string) : Z :=
  match labels with
  | [] => 0
  | _ => if (length peers <=? 1)%nat then 0 else score_pairs peers labels
  end.

Definition new_rule_fit (r : rule) (sel : list fpeer) : rulefit :=
  RF sel (filter (fun p => negb (match_role_strict p (rrole r))) sel) (isolation_score sel (rlocs r)).

(* compareRuleFit: Gt = 1, Eq = 0, Lt = -1.  Order of the tests = Gen_C12.rule_fit_order. *)
Definition lex := lexc.   (* lib/C12_Order: first component decides unless Eq *)
Definition compare_rule_fit (a b : rulefit) : comparison :=
  lex (Nat.compare (length (rf_peers a)) (length (rf_peers b)))
      (lex (Nat.compare (length (rf_diff b)) (length (rf_diff a)))
           (Z.compare (rf_score a) (rf_score b))).

(* lexicographic comparison of two fit vectors (the order the search maximises); lists of
   different length never meet in the search: shorter = smaller keeps it a total preorder *)
Definition lexcmp : list rulefit -> list rulefit -> comparison := lexlist compare_rule_fit.

(* CompareRegionFit as written: common prefix of the rule fits, then fewer orphans *)
Fixpoint compare_prefix (a b : list rulefit) : comparison :=
  match a, b with
  | x :: a', y :: b' => lex (compare_rule_fit x y) (compare_prefix a' b')
  | _, _ => Eq
  end.
Definition compare_region_fit (a b : list rulefit * list fpeer) : comparison :=
  lex (compare_prefix (fst a) (fst b)) (Nat.compare (length (snd b)) (length (snd a))).

(* RuleFit.IsSatisfied / RegionFit.IsSatisfied *)
Definition rule_satisfied (r : rule) (f : rulefit) : bool :=
  Nat.eqb (length (rf_peers f)) (rcount r) && Nat.eqb (length (rf_diff f)) 0.
Fixpoint all_satisfied (rules : list rule) (fits : list rulefit) : bool :=
  match rules, fits with
  | r :: rs, f :: fs => rule_satisfied r f && all_satisfied rs fs
  | _, _ => true
  end.
Definition is_satisfied (rules : list rule) (fit : list rulefit * list fpeer) : bool :=
  match fst fit with
  | [] => false
  | _ => all_satisfied rules (fst fit) && Nat.eqb (length (snd fit)) 0
  end.

(* ---------- newFitWorker ---------- *)
(* sort.Slice by id; among peers of equal id any order may come out of the unstable sort: this insertion
   keeps the order of the input, and a list that is already sorted is left as it is (proof/C12:
   sort_peers_sorted), so every possible outcome is `sort_peers` of some arrangement of the peers *)
Fixpoint insert_peer (p : peer) (l : list peer) : list peer :=
  match l with
  | [] => [p]
  | q :: r => if pid q <? pid p then q :: insert_peer p r else p :: l
  end.
Definition sort_peers (l : list peer) : list peer := fold_right insert_peer [] l.
Definition find_store (stores : list store) (id : Z) : option store :=
  find (fun s => sid s =? id) stores.
Fixpoint mk_fpeers_from (n : nat) (stores : list store) (leader : Z) (l : list peer) : list fpeer :=
  match l with
  | [] => []
  | p :: r => FPeer n (pid p) (plearner p) (leader =? pid p) (find_store stores (pstore p))
              :: mk_fpeers_from (S n) stores leader r
  end.
Definition mk_fpeers (stores : list store) (leader : Z) (peers : list peer) : list fpeer :=
  mk_fpeers_from 0 stores leader (sort_peers peers).

(* ---------- the search ---------- *)
Fixpoint mem_nat (x : nat) (l : list nat) : bool :=
  match l with [] => false | y :: r => Nat.eqb x y || mem_nat x r end.

Definition cand_ok (r : rule) (p : fpeer) : bool :=
  match_label_constraints (fstore p) (rcons r) && match_role_loose p (rrole r).

Section Search.
  Variables (stores : list store) (peers : list fpeer).

  Definition unselected (sel : list nat) : list fpeer :=
    filter (fun p => negb (mem_nat (fidx p) sel)) peers.

  Definition candidates_imp (r : rule) (sel : list nat) : list fpeer :=
    if check_rule r stores
    then filter (fun p => cand_ok r p && negb (mem_nat (fidx p) sel)) peers
    else [].

  Definition bstate := (list (option rulefit) * list fpeer * bool)%type.

  (* RuleFits[index] and RuleFits[index+1:]; the vector always has one entry per remaining rule
     (proof/C12: fit_rule_length), so the default is never used *)
  Definition split_best (bs : list (option rulefit)) : option rulefit * list (option rulefit) :=
    match bs with [] => (None, []) | b :: bt => (b, bt) end.

  (* compareBest for rule r; rest_fit = fitRule(index+1), rest_is_nil = (index+1 == len(w.rules)) *)
  Definition compare_best (r : rule) (rest_fit : list (option rulefit) -> list fpeer -> list nat -> bstate)
             (rest_is_nil : bool) (selected : list fpeer)
             (bs : list (option rulefit)) (orph : list fpeer) (sel : list nat) : bstate :=
    let rf := new_rule_fit r selected in
    let '(b, bt) := split_best bs in
    let cmp := match b with Some best => compare_rule_fit rf best | None => Gt end in
    match cmp with
    | Gt =>
        let '(bt', orph', _) := rest_fit (map (fun _ => None) bt) orph sel in
        let orph'' := if rest_is_nil then unselected sel else orph' in     (* updateOrphanPeers(index+1) *)
        (Some rf :: bt', orph'', true)
    | Eq =>
        let '(bt', orph', better) := rest_fit bt orph sel in
        if better then (Some rf :: bt', orph', true) else (b :: bt', orph', false)
    | Lt => (bs, orph, false)
    end.

  Definition is_nil {A} (l : list A) : bool := match l with [] => true | _ => false end.

  (* enumPeers: `loop cs selected` is the for-loop over `candidates = cs` with the given prefix *)
  Section Enum.
    Variables (count : nat) (cb : list fpeer -> list (option rulefit) -> list fpeer -> list nat -> bstate).
    Fixpoint enum_loop (cs : list fpeer) (selected : list fpeer)
             (bs : list (option rulefit)) (orph : list fpeer) (sel : list nat) {struct cs} : bstate :=
      match cs with
      | [] => (bs, orph, false)
      | p :: cs' =>
          let selected' := selected ++ [p] in
          let sel' := fidx p :: sel in                                  (* p.selected = true *)
          let '(bs1, orph1, b1) :=
            if Nat.eqb (length selected') count then cb selected' bs orph sel'
            else enum_loop cs' selected' bs orph sel' in
          let '(bs2, orph2, b2) := enum_loop cs' selected bs1 orph1 sel in   (* p.selected = false *)
          (bs2, orph2, b1 || b2)
      end.
    Definition enum_peers (cs : list fpeer) (bs : list (option rulefit)) (orph : list fpeer) (sel : list nat) : bstate :=
      if Nat.eqb 0 count then cb [] bs orph sel else enum_loop cs [] bs orph sel.
  End Enum.

  Fixpoint fit_rule (rules : list rule) (bs : list (option rulefit)) (orph : list fpeer) (sel : list nat)
           {struct rules} : bstate :=
    match rules with
    | [] => (bs, orph, false)
    | r :: rest =>
        let cands := candidates_imp r sel in
        let count := Nat.min (rcount r) (length cands) in
        enum_peers count (compare_best r (fit_rule rest) (is_nil rest)) cands bs orph sel
    end.

  (* run: fitRule(0); updateOrphanPeers(0) *)
  Definition fit_imp (rules : list rule) : list (option rulefit) * list fpeer :=
    let '(bs, orph, _) := fit_rule rules (map (fun _ => None) rules) [] [] in
    (bs, if is_nil rules then unselected [] else orph).

  (* ---------- specification ---------- *)
  Fixpoint subsets {A} (k : nat) (l : list A) : list (list A) :=
    match k with
    | O => [[]]
    | S k' => match l with
              | [] => []
              | x :: r => map (cons x) (subsets k' r) ++ subsets k r
              end
    end.

  Definition candidates (r : rule) (sel : list nat) : list fpeer :=
    filter (fun p => cand_ok r p && negb (mem_nat (fidx p) sel)) peers.

  Definition sel_with (sub : list fpeer) (sel : list nat) : list nat := rev (map fidx sub) ++ sel.

  Definition fitres := (list rulefit * list fpeer)%type.
  Definition cmp_res (a b : fitres) : comparison := lexcmp (fst a) (fst b).
  (* first maximum: replaced only on strict improvement (keep_better x acc = x iff x > acc);
     the list is never empty (proof/C12: subsets_nonempty) *)
  Definition first_max (xs : list fitres) : fitres :=
    match xs with [] => ([], []) | x :: r => fold_left (keep_better cmp_res) r x end.

  Fixpoint fit_spec (rules : list rule) (sel : list nat) : fitres :=
    match rules with
    | [] => ([], unselected sel)
    | r :: rest =>
        let cands := candidates r sel in
        let k := Nat.min (rcount r) (length cands) in
        first_max (map (fun sub => let '(t, o) := fit_spec rest (sel_with sub sel) in (new_rule_fit r sub :: t, o))
                       (subsets k cands))
    end.
End Search.

(* ---------- valid assignments, enumerated (the brute-force oracle of the monitor) ---------- *)
Fixpoint fits_of (rules : list rule) (A : list (list fpeer)) : list rulefit :=
  match rules, A with
  | r :: rest, sub :: A' => new_rule_fit r sub :: fits_of rest A'
  | _, _ => []
  end.
Fixpoint final_sel (sel : list nat) (A : list (list fpeer)) : list nat :=
  match A with [] => sel | sub :: A' => final_sel (sel_with sub sel) A' end.

Fixpoint sublists {A} (l : list A) : list (list A) :=
  match l with
  | [] => [[]]
  | x :: r => map (cons x) (sublists r) ++ sublists r
  end.
(* every assignment that takes, rule by rule, at most Count of the peers that are still free, satisfy the label
   constraints and can be converted to the role *)
Fixpoint all_valid (peers : list fpeer) (rules : list rule) (sel : list nat) : list (list (list fpeer)) :=
  match rules with
  | [] => [[]]
  | r :: rest =>
      flat_map (fun sub => map (cons sub) (all_valid peers rest (sel_with sub sel)))
               (filter (fun s => (length s <=? rcount r)%nat) (sublists (candidates peers r sel)))
  end.
Definition not_worse_than_any (peers : list fpeer) (rules : list rule) (fit : list rulefit * list fpeer) : bool :=
  forallb (fun A => match compare_region_fit fit (fits_of rules A, unselected peers (final_sel [] A)) with
                    | Lt => false | _ => true end)
          (all_valid peers rules []).

(* ---------- FitRegion on plain inputs ---------- *)
Definition fit_region (stores : list store) (leader : Z) (peers : list peer) (rules : list rule)
  : list (option rulefit) * list fpeer :=
  fit_imp stores (mk_fpeers stores leader peers) rules.
Definition fit_region_spec (stores : list store) (leader : Z) (peers : list peer) (rules : list rule) : list rulefit * list fpeer :=
  fit_spec (mk_fpeers stores leader peers) rules [].

(* ================= correspondence: observations ================= *)
Record fitobs := FitObs {
  o_fits : list (option (list Z * list Z * Z));   (* per rule: peer ids, ids with different role, isolation score; None = nil *)
  o_orph : list Z;
  o_sat  : option bool                             (* None = IsSatisfied panicked on a nil RuleFit *)
}.

Record case := Case {
  c_stores : list store; c_rules : list rule;
  c_la : Z; c_pa : list peer;                      (* region A: leader peer id (0 = none), peers *)
  c_lb : Z; c_pb : list peer;                      (* region B *)
  c_oa : fitobs; c_ob : fitobs;                    (* what FitRegion / IsSatisfied returned *)
  c_ab : Z; c_ba : Z                               (* CompareRegionFit(a,b), CompareRegionFit(b,a) *)
}.

Definition rf_obs (f : rulefit) : list Z * list Z * Z :=
  (map fpid (rf_peers f), map fpid (rf_diff f), rf_score f).

Fixpoint all_some {A} (l : list (option A)) : option (list A) :=
  match l with
  | [] => Some []
  | Some x :: r => match all_some r with Some r' => Some (x :: r') | None => None end
  | None :: _ => None
  end.

Definition model_fit (stores : list store) (rules : list rule) (leader : Z) (peers : list peer)
  : list (option rulefit) * list fpeer := fit_region stores leader peers rules.

Definition model_fitobs (stores : list store) (rules : list rule) (leader : Z) (peers : list peer) : fitobs :=
  let '(bs, orph) := model_fit stores rules leader peers in
  FitObs (map (option_map rf_obs) bs) (map fpid orph)
         (match all_some bs with Some fits => Some (is_satisfied rules (fits, orph)) | None => None end).

Definition cmpZ (c : comparison) : Z := match c with Gt => 1 | Eq => 0 | Lt => -1 end.

Definition model_cmp (stores : list store) (rules : list rule) (la : Z) (pa : list peer) (lb : Z) (pb : list peer) : option Z :=
  let '(ba, oa) := model_fit stores rules la pa in
  let '(bb, ob) := model_fit stores rules lb pb in
  match all_some ba, all_some bb with
  | Some fa, Some fb => Some (cmpZ (compare_region_fit (fa, oa) (fb, ob)))
  | _, _ => None
  end.

Definition listZ_eqb := list_eqb Z.eqb.
Definition triple_eqb (a b : list Z * list Z * Z) : bool :=
  let '(p1, d1, s1) := a in let '(p2, d2, s2) := b in listZ_eqb p1 p2 && listZ_eqb d1 d2 && (s1 =? s2).
Definition fitobs_eqb (a b : fitobs) : bool :=
  list_eqb (opt_eqb triple_eqb) (o_fits a) (o_fits b) && listZ_eqb (o_orph a) (o_orph b)
  && opt_eqb Bool.eqb (o_sat a) (o_sat b).

Local Open Scope string_scope.
Local Open Scope list_scope.
Definition check_case (c : case) : list string :=
  (if fitobs_eqb (model_fitobs (c_stores c) (c_rules c) (c_la c) (c_pa c)) (c_oa c) then [] else ["fit-A"]) ++
  (if fitobs_eqb (model_fitobs (c_stores c) (c_rules c) (c_lb c) (c_pb c)) (c_ob c) then [] else ["fit-B"]) ++
  (if opt_eqb Z.eqb (model_cmp (c_stores c) (c_rules c) (c_la c) (c_pa c) (c_lb c) (c_pb c)) (Some (c_ab c)) then [] else ["cmp-AB"]) ++
  (if opt_eqb Z.eqb (model_cmp (c_stores c) (c_rules c) (c_lb c) (c_pb c) (c_la c) (c_pa c)) (Some (c_ba c)) then [] else ["cmp-BA"]).

Fixpoint mismatches_from (n : nat) (cs : list case) : list (nat * list string) :=
  match cs with
  | [] => []
  | c :: r => match check_case c with
              | [] => mismatches_from (S n) r
              | d => (n, d) :: mismatches_from (S n) r
              end
  end.
Definition mismatches := mismatches_from 0.
(* what the model expects for one case (shown for the first mismatch) *)
Definition expected (c : case) :=
  (model_fitobs (c_stores c) (c_rules c) (c_la c) (c_pa c), model_fitobs (c_stores c) (c_rules c) (c_lb c) (c_pb c),
   model_cmp (c_stores c) (c_rules c) (c_la c) (c_pa c) (c_lb c) (c_pb c)).
Definition first_detail (cs : list case) :=
  match mismatches cs with
  | (n, d) :: _ => Some (n, d, option_map expected (nth_error cs n))
  | [] => None
  end.

(* ================= monitor: the property evaluated on the implementation's own answer ================= *)
Fixpoint insertZ (x : Z) (l : list Z) : list Z :=
  match l with [] => [x] | y :: r => if (x <=? y)%Z then x :: l else y :: insertZ x r end.
Definition sortZ (l : list Z) : list Z := fold_right insertZ [] l.

Definition resolve (fps : list fpeer) (id : Z) : option fpeer := find (fun p => (fpid p =? id)%Z) fps.
Definition resolve_all (fps : list fpeer) (ids : list Z) : option (list fpeer) := all_some (map (resolve fps) ids).

(* one rule against what the implementation put into it *)
Definition monitor_rule (r : rule) (ps : list fpeer) (diff : list Z) (score : Z) : option string :=
  if existsb (fun p => negb (match_label_constraints (fstore p) (rcons r))) ps then Some "C12:peer-violates-label-constraints"
  else if existsb (fun p => negb (match_role_loose p (rrole r))) ps then Some "C12:peer-role-not-convertible"
  else if (rcount r <? length ps)%nat then Some "C12:rule-overfilled"
  else if negb (listZ_eqb (sortZ diff) (sortZ (map fpid (filter (fun p => negb (match_role_strict p (rrole r))) ps))))
       then Some "C12:role-mismatch-list-wrong"
  else if negb (score =? isolation_score ps (rlocs r))%Z then Some "C12:isolation-score-wrong"
  else None.

Fixpoint monitor_rules (fps : list fpeer) (rules : list rule) (fits : list (list Z * list Z * Z))
  : string + list rulefit :=
  match rules, fits with
  | [], [] => inr []
  | r :: rs, (ids, diff, score) :: fs =>
      match resolve_all fps ids with
      | None => inl "C12:unknown-peer-in-rule-fit"
      | Some ps =>
          match monitor_rule r ps diff score with
          | Some sg => inl sg
          | None =>
              match monitor_rules fps rs fs with
              | inl e => inl e
              | inr rest => inr (RF ps (filter (fun p => negb (match_role_strict p (rrole r))) ps) score :: rest)
              end
          end
      end
  | _, _ => inl "C12:rule-fit-count-differs-from-rule-count"
  end.

(* "satisfied" as the statement defines it: every rule filled with matching roles, no orphan *)
Fixpoint stated_satisfied (rules : list rule) (fits : list rulefit) : bool :=
  match rules, fits with
  | r :: rs, f :: fs =>
      Nat.eqb (length (rf_peers f)) (rcount r) && forallb (fun p => match_role_strict p (rrole r)) (rf_peers f)
      && stated_satisfied rs fs
  | _, _ => true
  end.

(* returns the signature of the first violated clause, and the rebuilt fit for the comparison monitor *)
Definition monitor_fit (stores : list store) (rules : list rule) (leader : Z) (peers : list peer) (o : fitobs)
  : option string * option (list rulefit * list fpeer) :=
  let fps := mk_fpeers stores leader peers in
  match all_some (o_fits o) with
  | None => (Some "C12:rule-fit-missing", None)
  | Some fits =>
      match monitor_rules fps rules fits with
      | inl sg => (Some sg, None)
      | inr rfs =>
          match resolve_all fps (o_orph o) with
          | None => (Some "C12:unknown-peer-in-orphans", None)
          | Some orph =>
              let all_ids := concat (map (fun f => map fpid (rf_peers f)) rfs) ++ o_orph o in
              if negb (listZ_eqb (sortZ all_ids) (sortZ (map pid peers)))
              then (Some "C12:peer-lost-or-duplicated", None)
              else
                let sp := fit_spec fps rules [] in
                match lexcmp (fst sp) rfs with
                | Gt => (Some "C12:not-optimal", Some (rfs, orph))
                | _ =>
                    (* independent of fit_spec: against every valid assignment, for small inputs *)
                    if (length peers <=? 5)%nat && (length rules <=? 3)%nat && negb (not_worse_than_any fps rules (rfs, orph))
                    then (Some "C12:some-valid-assignment-is-better", Some (rfs, orph)) else
                    if (length (snd sp) <? length orph)%nat then (Some "C12:more-orphans-than-necessary", Some (rfs, orph))
                    else
                      let want := negb (is_nil rules) && stated_satisfied rules rfs && is_nil orph in
                      match o_sat o with
                      | Some s => if Bool.eqb s want then (None, Some (rfs, orph))
                                  else (Some "C12:satisfied-flag-wrong", Some (rfs, orph))
                      | None => (Some "C12:is-satisfied-panicked", Some (rfs, orph))
                      end
                end
          end
      end
  end.

Definition monitor (c : case) : option string :=
  let '(ma, fa) := monitor_fit (c_stores c) (c_rules c) (c_la c) (c_pa c) (c_oa c) in
  let '(mb, fb) := monitor_fit (c_stores c) (c_rules c) (c_lb c) (c_pb c) (c_ob c) in
  match ma, mb with
  | Some sg, _ => Some sg
  | _, Some sg => Some sg
  | None, None =>
      match fa, fb with
      | Some a, Some b =>
          if negb (c_ab c =? cmpZ (compare_region_fit a b))%Z then Some "C12:compare-region-fit-wrong-order"
          else if negb (c_ba c =? - c_ab c)%Z then Some "C12:compare-region-fit-not-antisymmetric"
          else None
      | _, _ => None
      end
  end.

Fixpoint monitor_fails_from (n : nat) (cs : list case) : list (nat * string) :=
  match cs with
  | [] => []
  | c :: r => match monitor c with
              | None => monitor_fails_from (S n) r
              | Some sg => (n, sg) :: monitor_fails_from (S n) r
              end
  end.
Definition monitor_fails := monitor_fails_from 0.
