(* C08 / C09 — region state, operator steps and the store simulator.
   Definitions only (proofs: proof/C08_StepsProof.v).

   Three layers, kept apart exactly as in the real system:
   1. PD side, transcribed from server/schedule/operator/step.go:
        check_safety / is_finish / conf_ver_changed per step kind (nil-peer getters included:
        GetId() of a nil peer is 0, GetRole() of a nil peer is Voter),
      and from OperatorController.SendScheduleCommand: cmd_of_step (what is put on the wire).
   2. TiKV side (ENVIRONMENT MODEL, stated in DESIGN.md 5/C08; the same rules are implemented in Go in
      harness/internal/tikvsim): apply_cmd.
        simple change        : conf_ver + 1, rejected while the region is in a joint state,
                               rejected if it removes or demotes the current leader
        ChangePeerV2 k>=1    : enter joint (Learner->Incoming, Voter->Demoting), conf_ver + k, rejected in joint state
        ChangePeerV2 k=0     : leave joint (Incoming->Voter, Demoting->Learner), conf_ver + #joint peers,
                               rejected when not in joint state or when the leader is a demoting voter
        transfer leader      : rejected if the target is absent or a learner
   3. exec_step = what one heartbeat round does with the operator's current step. *)
From Coq Require Import String.
From PDV Require Import lib.Base gen.Gen_C08.
Local Open Scope Z_scope.

Inductive role := Voter | Learner | Incoming | Demoting.

Definition role_eqb (a b : role) : bool :=
  match a, b with
  | Voter, Voter | Learner, Learner | Incoming, Incoming | Demoting, Demoting => true
  | _, _ => false
  end.

Record peer := Peer { pstore : Z; pid : Z; prole : role }.

Definition peer_eqb (a b : peer) : bool :=
  (pstore a =? pstore b) && (pid a =? pid b) && role_eqb (prole a) (prole b).

(* leader = store id of the leader peer, 0 = no leader.  rng = abstract identity of the key range
   (changed by split / merge; only the passive-merge and split steps look at it). *)
Record region := Region { peers : list peer; leader : Z; conf_ver : Z; rng : Z }.

Definition set_peers (r : region) (ps : list peer) (dv : Z) : region :=
  Region ps (leader r) (conf_ver r + dv) (rng r).
Definition set_leader (r : region) (l : Z) : region := Region (peers r) l (conf_ver r) (rng r).

(* ---------- getters of core.RegionInfo ---------- *)
Definition is_learner (p : peer) : bool := role_eqb (prole p) Learner.
Definition on_store (st : Z) (p : peer) : bool := pstore p =? st.

Definition get_store_peer (r : region) (st : Z) : option peer := find (on_store st) (peers r).
Definition get_store_voter (r : region) (st : Z) : option peer :=
  find (on_store st) (filter (fun p => negb (is_learner p)) (peers r)).
Definition get_store_learner (r : region) (st : Z) : option peer :=
  find (on_store st) (filter is_learner (peers r)).

(* protobuf getters on a possibly-nil peer *)
Definition oid (o : option peer) : Z := match o with Some p => pid p | None => 0 end.
Definition orole (o : option peer) : role := match o with Some p => prole p | None => Voter end.
Definition ostore (o : option peer) : Z := match o with Some p => pstore p | None => 0 end.
Definition is_some {A} (o : option A) : bool := match o with Some _ => true | None => false end.

Definition leader_id (r : region) : Z :=
  if leader r =? 0 then 0 else oid (get_store_peer r (leader r)).

Definition in_joint (p : peer) : bool :=
  match prole p with Incoming | Demoting => true | _ => false end.
Definition count_joint (r : region) : Z := Z.of_nat (length (filter in_joint (peers r))).
Definition is_in_joint (r : region) : bool := existsb in_joint (peers r).

Definition is_voter_or_incoming (o : option peer) : bool :=
  match o with Some p => match prole p with Voter | Incoming => true | _ => false end | None => false end.
Definition is_learner_or_demoting (o : option peer) : bool :=
  match o with Some p => match prole p with Learner | Demoting => true | _ => false end | None => false end.

(* ---------- steps (operator/step.go) ---------- *)
Inductive step :=
| TransferLeader (from to : Z)
| AddPeer (st id : Z)
| AddLearner (st id : Z)
| AddLightPeer (st id : Z)
| AddLightLearner (st id : Z)
| PromoteLearner (st id : Z)
| DemoteFollower (st id : Z)
| RemovePeer (st id : Z)
| ChangePeerV2Enter (pl dv : list (Z * Z))      (* (store, peer id) *)
| ChangePeerV2Leave (pl dv : list (Z * Z))
| MergeRegion (passive : bool) (to_rng : Z)
| SplitRegion (from_rng : Z).

Definition b2z (b : bool) : Z := if b then 1 else 0.

(* DemoteVoter.ConfVerChanged / IsFinish *)
Definition dv_changed (r : region) (d : Z * Z) : bool := oid (get_store_learner r (fst d)) =? snd d.
Definition dv_finished (r : region) (d : Z * Z) : bool :=
  match get_store_learner r (fst d) with Some p => pid p =? snd d | None => false end.

(* The expression that ChangePeerV2Leave.ConfVerChanged hands to GetStorePeer (local names canonicalised by the
   translator: each#v(cpl.DemoteVoters) is the loop variable over the step's demotions).  Before the repair the code
   passed the PEER id where a store id is expected (S2); the model mirrors whatever the source says. *)
Definition leave_lookup_key (d : Z * Z) : Z :=
  if String.eqb Gen_C08.leave_cvc_lookup_arg "each#v(cpl.DemoteVoters).ToStore"%string then fst d else snd d.

Definition conf_ver_changed (r : region) (s : step) : Z :=
  match s with
  | TransferLeader _ _ => 0
  | AddPeer st id | AddLightPeer st id | PromoteLearner st id => b2z (oid (get_store_voter r st) =? id)
  | AddLearner st id | AddLightLearner st id => b2z (oid (get_store_peer r st) =? id)
  | DemoteFollower st id => b2z (oid (get_store_learner r st) =? id)
  | RemovePeer st id =>
      let cur := oid (get_store_peer r st) in
      b2z ((cur =? 0) || (negb (id =? 0) && negb (cur =? id)))
  | ChangePeerV2Enter pl dv =>
      if forallb (fun x => let p := get_store_voter r (fst x) in (oid p =? snd x) && is_voter_or_incoming p) pl
         && forallb (fun x => let p := get_store_voter r (fst x) in
                              negb (is_some p && (negb (oid p =? snd x) || negb (is_learner_or_demoting p)))) dv
      then Z.of_nat (length pl + length dv) else 0
  | ChangePeerV2Leave pl dv =>
      if forallb (fun x => let p := get_store_voter r (fst x) in (oid p =? snd x) && role_eqb (orole p) Voter) pl
         && forallb (fun x => negb (is_some (get_store_peer r (leave_lookup_key x)) && negb (dv_changed r x))) dv
      then Z.of_nat (length pl + length dv) else 0
  | MergeRegion _ _ | SplitRegion _ => 0
  end.

(* no pending peers in the model: GetPendingVoter / GetPendingLearner are nil *)
Definition is_finish (r : region) (s : step) : bool :=
  match s with
  | TransferLeader _ to => leader r =? to
  | AddPeer st id | AddLightPeer st id =>
      match get_store_voter r st with Some p => pid p =? id | None => false end
  | AddLearner st id | AddLightLearner st id =>
      match get_store_learner r st with Some p => pid p =? id | None => false end
  | PromoteLearner st id =>
      match get_store_voter r st with Some p => pid p =? id | None => false end
  | DemoteFollower st id =>
      match get_store_learner r st with Some p => pid p =? id | None => false end
  | RemovePeer st _ => negb (is_some (get_store_peer r st))
  | ChangePeerV2Enter pl dv =>
      forallb (fun x => let p := get_store_voter r (fst x) in (oid p =? snd x) && role_eqb (orole p) Incoming) pl
      && forallb (fun x => let p := get_store_voter r (fst x) in (oid p =? snd x) && role_eqb (orole p) Demoting) dv
  | ChangePeerV2Leave pl dv =>
      forallb (fun x => let p := get_store_voter r (fst x) in (oid p =? snd x) && role_eqb (orole p) Voter) pl
      && forallb (dv_finished r) dv
      && negb (is_in_joint r)
  | MergeRegion passive to_rng => passive && negb (rng r =? to_rng)
  | SplitRegion from_rng => negb (rng r =? from_rng)
  end.

(* Pending peers (a peer that has not caught up with the snapshot yet, reported in the heartbeat): only IsFinish of the four
   add steps looks at them - the step is finished once its peer is there AND no longer pending.  pend = ids of the
   pending peers.  (CheckSafety, ConfVerChanged and the command sent do not take them as input.) *)
Definition is_finish_p (pend : list Z) (r : region) (s : step) : bool :=
  is_finish r s &&
  match s with
  | AddPeer _ id | AddLearner _ id | AddLightPeer _ id | AddLightLearner _ id => negb (existsb (Z.eqb id) pend)
  | _ => true
  end.

(* CheckSafety: None = nil error, Some reason = the error *)
Local Open Scope string_scope.
Local Open Scope list_scope.
Local Open Scope Z_scope.

(* the role switches of ChangePeerV2Enter/Leave.CheckSafety: returns (error, inJoint, notInJoint) *)
Inductive jcls := JErr (e : string) | JIn | JOut.

Definition enter_promote_cls (ro : role) : jcls :=
  match ro with Learner => JOut | Incoming => JIn | Voter => JErr "peer already is a voter"
              | Demoting => JErr "cannot promote a demoting voter" end.
Definition enter_demote_cls (ro : role) : jcls :=
  match ro with Voter => JOut | Demoting => JIn | Learner => JErr "peer already is a learner"
              | Incoming => JErr "cannot demote a incoming voter" end.
Definition leave_promote_cls (ro : role) : jcls :=
  match ro with Voter => JOut | Incoming => JIn | Learner => JErr "peer is still a learner"
              | Demoting => JErr "cannot promote a demoting voter" end.
Definition leave_demote_cls (ro : role) : jcls :=
  match ro with Learner => JOut | Demoting => JIn | Voter => JErr "peer is still a voter"
              | Incoming => JErr "cannot demote a incoming voter" end.

(* one loop of CheckSafety over (store, id) pairs; acc = (inJoint, notInJoint, demoteLeader) *)
Fixpoint scan_pairs (r : region) (cls : role -> jcls) (track_leader : bool) (l : list (Z * Z))
         (acc : bool * bool * bool) : string + (bool * bool * bool) :=
  match l with
  | [] => inr acc
  | x :: rest =>
      let p := get_store_peer r (fst x) in
      if negb (oid p =? snd x) then inl "peer does not exist"
      else match cls (orole p) with
           | JErr e => inl e
           | JIn => let '(ij, nj, dl) := acc in
                    scan_pairs r cls track_leader rest
                      (true, nj, dl || (track_leader && (ostore p =? leader r)))
           | JOut => let '(ij, nj, dl) := acc in scan_pairs r cls track_leader rest (ij, true, dl)
           end
  end.

Definition joint_verdict (r : region) (n : nat) (acc : bool * bool * bool) : option string :=
  let '(ij, nj, dl) := acc in
  let count := count_joint r in
  if nj && ij then Some "non-atomic joint consensus"
  else if nj && negb (count =? 0) then Some "some other peers are in joint state, when the region is in joint state"
  else if ij && negb (count =? Z.of_nat n) then Some "some other peers are in joint state, when the region is not in joint state"
  else if dl then Some "cannot demote leader peer"
  else None.

Definition check_safety (r : region) (s : step) : option string :=
  match s with
  | TransferLeader _ to =>
      match get_store_peer r to with
      | None => Some "peer does not existed"
      | Some p => if is_learner p then Some "peer already is a learner" else None
      end
  | AddPeer st id | AddLightPeer st id =>
      match get_store_peer r st with
      | Some p => if negb (pid p =? id) then Some "peer has already existed in store" else None
      | None => None
      end
  | AddLearner st id | AddLightLearner st id =>
      match get_store_peer r st with
      | None => None
      | Some p => if negb (pid p =? id) then Some "peer has already existed in store"
                  else if negb (is_learner p) then Some "peer already is a voter" else None
      end
  | PromoteLearner st id =>
      if negb (oid (get_store_peer r st) =? id) then Some "peer does not exist" else None
  | DemoteFollower st id =>
      let p := get_store_peer r st in
      if negb (oid p =? id) then Some "peer does not exist"
      else if oid p =? leader_id r then Some "cannot demote leader peer" else None
  | RemovePeer st _ => if st =? leader r then Some "cannot remove leader peer" else None
  | ChangePeerV2Enter pl dv =>
      match scan_pairs r enter_promote_cls false pl (false, false, false) with
      | inl e => Some e
      | inr acc => match scan_pairs r enter_demote_cls false dv acc with
                   | inl e => Some e
                   | inr acc' => joint_verdict r (length pl + length dv) acc'
                   end
      end
  | ChangePeerV2Leave pl dv =>
      match scan_pairs r leave_promote_cls false pl (false, false, false) with
      | inl e => Some e
      | inr acc => match scan_pairs r leave_demote_cls true dv acc with
                   | inl e => Some e
                   | inr acc' => joint_verdict r (length pl + length dv) acc'
                   end
      end
  | MergeRegion _ _ | SplitRegion _ => None
  end.

Definition safe (r : region) (s : step) : bool := negb (is_some (check_safety r s)).

(* ---------- what the property asks of CheckSafety and IsFinish, stated on the region alone ----------
   (the monitor of the step probes evaluates the IMPLEMENTATION's answers against these; proof/C08_StepSpec.v shows
   that the transcribed check_safety / is_finish imply them) *)
Definition pair_ids_nonzero (l : list (Z * Z)) : bool := forallb (fun x => negb (snd x =? 0)) l.
Definition step_ids_nonzero (s : step) : bool :=
  match s with
  | AddPeer _ id | AddLearner _ id | AddLightPeer _ id | AddLightLearner _ id
  | PromoteLearner _ id | DemoteFollower _ id => negb (id =? 0)
  | ChangePeerV2Enter pl dv | ChangePeerV2Leave pl dv => pair_ids_nonzero pl && pair_ids_nonzero dv
  | _ => true
  end.

(* the peer (store, id) exists and its role satisfies ok *)
Definition entry_is (r : region) (ok : role -> bool) (x : Z * Z) : bool :=
  match get_store_peer r (fst x) with Some p => (pid p =? snd x) && ok (prole p) | None => false end.
Definition is_role (a : role) (b : role) : bool := role_eqb a b.
Definition one_of (a b : role) (x : role) : bool := role_eqb a x || role_eqb b x.

(* a step may be started only if ... *)
Definition spec_safe (r : region) (s : step) : bool :=
  match s with
  | TransferLeader _ to =>                       (* leadership goes to a present peer that is not a learner *)
      match get_store_peer r to with Some p => negb (is_learner p) | None => false end
  | AddPeer st id | AddLightPeer st id =>        (* the store is free, or already holds this very peer *)
      match get_store_peer r st with Some p => pid p =? id | None => true end
  | AddLearner st id | AddLightLearner st id =>  (* ... as a learner *)
      match get_store_peer r st with Some p => (pid p =? id) && is_learner p | None => true end
  | PromoteLearner st id => entry_is r (fun _ => true) (st, id)
  | DemoteFollower st id =>                      (* the peer exists and is not on the leader's store *)
      entry_is r (fun _ => true) (st, id) && negb ((st =? leader r) && negb (leader r =? 0))
  | RemovePeer st _ => negb (st =? leader r)     (* never the leader *)
  | ChangePeerV2Enter pl dv =>
      (* every entry exists; either nothing of it happened and the region is in no joint state, or all of it
         happened and the region's joint peers are exactly these *)
      forallb (entry_is r (one_of Learner Incoming)) pl && forallb (entry_is r (one_of Voter Demoting)) dv
      && (match pl, dv with [], [] => true | _, _ => false end
          || (forallb (entry_is r (is_role Learner)) pl && forallb (entry_is r (is_role Voter)) dv && (count_joint r =? 0))
          || (forallb (entry_is r (is_role Incoming)) pl && forallb (entry_is r (is_role Demoting)) dv
              && (count_joint r =? Z.of_nat (length pl + length dv))))
  | ChangePeerV2Leave pl dv =>
      (* ... and leaving never demotes the leader *)
      forallb (entry_is r (one_of Voter Incoming)) pl && forallb (entry_is r (one_of Learner Demoting)) dv
      && (match pl, dv with [], [] => true | _, _ => false end
          || (forallb (entry_is r (is_role Voter)) pl && forallb (entry_is r (is_role Learner)) dv && (count_joint r =? 0))
          || (forallb (entry_is r (is_role Incoming)) pl && forallb (entry_is r (is_role Demoting)) dv
              && (count_joint r =? Z.of_nat (length pl + length dv))
              && forallb (fun x => negb (fst x =? leader r)) dv))
  | MergeRegion _ _ | SplitRegion _ => true
  end.

(* a step counts as finished only if its effect is there *)
Definition spec_done (r : region) (s : step) : bool :=
  match s with
  | TransferLeader _ to => leader r =? to
  | AddPeer st id | AddLightPeer st id | PromoteLearner st id => entry_is r (fun ro => negb (role_eqb ro Learner)) (st, id)
  | AddLearner st id | AddLightLearner st id | DemoteFollower st id => entry_is r (is_role Learner) (st, id)
  | RemovePeer st _ => negb (is_some (get_store_peer r st))
  | ChangePeerV2Enter pl dv => forallb (entry_is r (is_role Incoming)) pl && forallb (entry_is r (is_role Demoting)) dv
  | ChangePeerV2Leave pl dv =>
      forallb (entry_is r (is_role Voter)) pl && forallb (entry_is r (is_role Learner)) dv && negb (is_in_joint r)
  | MergeRegion _ _ | SplitRegion _ => true
  end.

(* ---------- commands (OperatorController.SendScheduleCommand) ---------- *)
Inductive change_type := AddNode | AddLearnerNode | RemoveNode.
Definition change_type_eqb (a b : change_type) : bool :=
  match a, b with AddNode, AddNode | AddLearnerNode, AddLearnerNode | RemoveNode, RemoveNode => true | _, _ => false end.

Inductive cmd :=
| CTransferLeader (p : option peer)
| CChangePeer (t : change_type) (p : option peer)
| CChangePeerV2 (changes : list (change_type * peer))
| CMerge
| CSplit.

Definition add_node (id st : Z) := CChangePeer AddNode (Some (Peer st id Voter)).
Definition add_learner_node (id st : Z) := CChangePeer AddLearnerNode (Some (Peer st id Learner)).

Definition v2_request (pl dv : list (Z * Z)) : list (change_type * peer) :=
  map (fun x => (AddNode, Peer (fst x) (snd x) Voter)) pl
  ++ map (fun x => (AddLearnerNode, Peer (fst x) (snd x) Learner)) dv.

(* None = nothing is sent for this step in this state *)
Definition cmd_of_step (r : region) (s : step) : option cmd :=
  match s with
  | TransferLeader _ to => Some (CTransferLeader (get_store_peer r to))
  | AddPeer st id | AddLightPeer st id =>
      if is_some (get_store_peer r st) then None else Some (add_node id st)
  | AddLearner st id | AddLightLearner st id =>
      if is_some (get_store_peer r st) then None else Some (add_learner_node id st)
  | PromoteLearner st id => Some (add_node id st)
  | DemoteFollower st id => Some (add_learner_node id st)
  | RemovePeer st _ => Some (CChangePeer RemoveNode (get_store_peer r st))
  | ChangePeerV2Enter pl dv => Some (CChangePeerV2 (v2_request pl dv))
  | ChangePeerV2Leave _ _ => Some (CChangePeerV2 [])
  | MergeRegion passive _ => if passive then None else Some CMerge
  | SplitRegion _ => Some CSplit
  end.

(* ---------- TiKV: applying a command (environment model) ---------- *)
Definition replace_peer (ps : list peer) (st : Z) (p : peer) : list peer :=
  map (fun q => if on_store st q then p else q) ps.
Definition remove_store (ps : list peer) (st : Z) : list peer :=
  filter (fun q => negb (on_store st q)) ps.

(* one change inside a simple (joint = false) or enter-joint (joint = true) configuration change.
   None = TiKV rejects the whole command. *)
Definition apply_change (joint : bool) (ldr : Z) (ps : list peer) (c : change_type * peer) : option (list peer) :=
  let '(t, p) := c in
  let st := pstore p in
  match find (on_store st) ps, t with
  | None, AddNode => Some (ps ++ [Peer st (pid p) (if joint then Incoming else Voter)])
  | None, AddLearnerNode => Some (ps ++ [Peer st (pid p) Learner])
  | None, RemoveNode => None                                     (* remove missing peer *)
  | Some e, AddNode =>
      if negb (pid e =? pid p) then None                         (* another peer on that store *)
      else match prole e with
           | Learner => Some (replace_peer ps st (Peer st (pid e) (if joint then Incoming else Voter)))
           | _ => None                                           (* already the requested role / joint *)
           end
  | Some e, AddLearnerNode =>
      if negb (pid e =? pid p) then None
      else match prole e with
           | Voter => if negb joint && (st =? ldr) then None    (* ignore demote leader *)
                      else Some (replace_peer ps st (Peer st (pid e) (if joint then Demoting else Learner)))
           | _ => None
           end
  | Some e, RemoveNode =>
      if negb (peer_eqb e p) then None                           (* ignore remove unmatched peer *)
      else if st =? ldr then None                                (* ignore remove leader *)
      else if joint && role_eqb (prole e) Voter then None        (* can't remove voter directly *)
      else Some (remove_store ps st)
  end.

Fixpoint apply_changes (joint : bool) (ldr : Z) (ps : list peer) (cs : list (change_type * peer)) : option (list peer) :=
  match cs with
  | [] => Some ps
  | c :: rest => match apply_change joint ldr ps c with
                 | Some ps' => apply_changes joint ldr ps' rest
                 | None => None
                 end
  end.

Definition leave_role (p : peer) : peer :=
  match prole p with
  | Incoming => Peer (pstore p) (pid p) Voter
  | Demoting => Peer (pstore p) (pid p) Learner
  | _ => p
  end.

Definition apply_cmd (r : region) (c : cmd) : option region :=
  match c with
  | CTransferLeader None => None
  | CTransferLeader (Some p) =>
      match get_store_peer r (pstore p) with
      | Some q => if negb (pid q =? pid p) || is_learner q then None
                  else Some (set_leader r (pstore p))
      | None => None
      end
  | CChangePeer _ None => None
  | CChangePeer t (Some p) =>
      if is_in_joint r then None
      else match apply_change false (leader r) (peers r) (t, p) with
           | Some ps => Some (set_peers r ps 1)
           | None => None
           end
  | CChangePeerV2 [] =>
      if negb (is_in_joint r) then None                         (* can't leave a non-joint config *)
      else if role_eqb (orole (get_store_peer r (leader r))) Demoting && is_some (get_store_peer r (leader r))
           then None                                            (* ignore leave joint command that demoting leader *)
      else Some (set_peers r (map leave_role (peers r)) (count_joint r))
  | CChangePeerV2 cs =>
      if is_in_joint r then None
      else match apply_changes true (leader r) (peers r) cs with
           | Some ps => Some (set_peers r ps (Z.of_nat (length cs)))
           | None => None
           end
  | CMerge | CSplit => Some (Region (peers r) (leader r) (conf_ver r) (rng r + 1))
  end.

(* ---------- one heartbeat round for the operator's current step ---------- *)
Inductive round :=
| RSkip                       (* IsFinish already true: the operator moves on, nothing is sent *)
| RUnsafe (e : string)        (* CheckSafety fails: the operator would be cancelled as stale *)
| RNoCmd                      (* not finished, nothing to send *)
| RRejected (c : cmd)         (* the store refuses the command *)
| RDone (c : cmd) (r' : region).

Definition exec_step (r : region) (s : step) : round :=
  if is_finish r s then RSkip
  else match check_safety r s with
       | Some e => RUnsafe e
       | None => match cmd_of_step r s with
                 | None => RNoCmd
                 | Some c => match apply_cmd r c with
                             | None => RRejected c
                             | Some r' => RDone c r'
                             end
                 end
       end.

(* ---------- counting ---------- *)
Definition countb {A} (f : A -> bool) (l : list A) : Z := Z.of_nat (length (filter f l)).
(* voters of the outgoing (old) and of the incoming (new) configuration; equal outside a joint state *)
Definition old_voter (p : peer) : bool := match prole p with Voter | Demoting => true | _ => false end.
Definition new_voter (p : peer) : bool := match prole p with Voter | Incoming => true | _ => false end.
Definition voters_old (ps : list peer) : Z := countb old_voter ps.
Definition voters_new (ps : list peer) : Z := countb new_voter ps.

Fixpoint nodup_stores (ps : list peer) : bool :=
  match ps with
  | [] => true
  | p :: rest => negb (existsb (on_store (pstore p)) rest) && nodup_stores rest
  end.

Definition step_name (s : step) : string :=
  match s with
  | TransferLeader _ _ => "TransferLeader" | AddPeer _ _ => "AddPeer" | AddLearner _ _ => "AddLearner"
  | AddLightPeer _ _ => "AddLightPeer" | AddLightLearner _ _ => "AddLightLearner"
  | PromoteLearner _ _ => "PromoteLearner" | DemoteFollower _ _ => "DemoteFollower"
  | RemovePeer _ _ => "RemovePeer" | ChangePeerV2Enter _ _ => "ChangePeerV2Enter"
  | ChangePeerV2Leave _ _ => "ChangePeerV2Leave" | MergeRegion _ _ => "MergeRegion" | SplitRegion _ => "SplitRegion"
  end.
