(* C07 / L0 — the specification of pkg/btree as an ordered, duplicate-free list.
   Definitions only.  `ltb` is the Item.Less of the Go package; two items with neither
   less than the other are "the same key" (the tree holds at most one of them).
   Every exported operation of pkg/btree that server/core uses has its list counterpart:

     ReplaceOrInsert  l0_insert        Delete        l0_delete
     AscendGreaterOrEqual l0_ascend_ge DescendLessOrEqual l0_descend_le   (the callback's early
                                                                            stop = a prefix taken by the caller)
     GetWithIndex     l0_get_with_index   GetAt      l0_get_at            Len  length

   pkg/btree itself is transcribed in model/C07_BTree.v (a Gallina B-tree); proof/C07_BTreeSim.v proves that it
   refines L0 for every degree >= 2 and every strict weak order; the driver compares both with the real package
   (degrees 2,3,4 and Gen_C07.defaultBTreeDegree; observations and node shapes). *)
From Coq Require Import List ZArith Bool.
Import ListNotations.

Section L0.
  Context {A : Type} (ltb : A -> A -> bool).

  Fixpoint l0_insert (a : A) (l : list A) : list A * option A :=
    match l with
    | [] => ([a], None)
    | x :: r =>
        if ltb a x then (a :: x :: r, None)
        else if ltb x a then let '(r', o) := l0_insert a r in (x :: r', o)
        else (a :: r, Some x)
    end.

  Fixpoint l0_delete (a : A) (l : list A) : list A * option A :=
    match l with
    | [] => ([], None)
    | x :: r =>
        if ltb x a then let '(r', o) := l0_delete a r in (x :: r', o)
        else if ltb a x then (x :: r, None)
        else (r, Some x)
    end.

  Fixpoint l0_get (a : A) (l : list A) : option A :=
    match l with
    | [] => None
    | x :: r => if ltb x a then l0_get a r else if ltb a x then None else Some x
    end.

  (* items >= pivot, ascending *)
  Fixpoint l0_ascend_ge (p : A) (l : list A) : list A :=
    match l with
    | [] => []
    | x :: r => if ltb x p then l0_ascend_ge p r else x :: r
    end.

  (* items <= pivot, descending (nearest first) *)
  Fixpoint l0_descend_le_acc (p : A) (l acc : list A) : list A :=
    match l with
    | [] => acc
    | x :: r => if ltb p x then acc else l0_descend_le_acc p r (x :: acc)
    end.
  Definition l0_descend_le (p : A) (l : list A) : list A := l0_descend_le_acc p l [].

  (* (item equal to the key if present, number of items < key) *)
  Fixpoint l0_rank (a : A) (l : list A) : nat :=
    match l with
    | [] => 0
    | x :: r => if ltb x a then S (l0_rank a r) else 0
    end.
  Definition l0_get_with_index (a : A) (l : list A) : option A * nat := (l0_get a l, l0_rank a l).

  Definition l0_get_at (k : Z) (l : list A) : option A :=
    if (k <? 0)%Z then None else nth_error l (Z.to_nat k).

  Definition l0_delete_min (l : list A) : list A * option A :=
    match l with [] => ([], None) | x :: r => (r, Some x) end.
  Definition l0_delete_max (l : list A) : list A * option A :=
    match rev l with [] => ([], None) | x :: r => (rev r, Some x) end.
End L0.

(* ------------------------------------------------------------------------------------ *)
(* Correspondence (a): pkg/btree with Int items against L0 over Z. *)
Local Open Scope Z_scope.

Inductive bop :=
| BIns (x : Z) | BDel (x : Z) | BDelMin | BDelMax
| BGet (x : Z) | BGetIdx (x : Z) | BGetAt (k : Z)
| BAsc (x : Z) (limit : Z)      (* AscendGreaterOrEqual x, stop after `limit` items *)
| BDesc (x : Z) (limit : Z)     (* DescendLessOrEqual x, stop after `limit` items *)
| BLen | BMin | BMax
| BRanks.                       (* for every k in [0,Len): GetAt k ; and GetWithIndex of each *)

Inductive bobs :=
| BoItem (o : option Z)
| BoIdx (o : option Z) (i : Z)
| BoList (l : list Z)
| BoNum (n : Z)
| BoRanks (items : list Z) (idx : list Z).

Definition zl := list Z.

Definition bt_step (l : zl) (o : bop) : zl * bobs :=
  match o with
  | BIns x => let '(l', r) := l0_insert Z.ltb x l in (l', BoItem r)
  | BDel x => let '(l', r) := l0_delete Z.ltb x l in (l', BoItem r)
  | BDelMin => let '(l', r) := l0_delete_min l in (l', BoItem r)
  | BDelMax => let '(l', r) := l0_delete_max l in (l', BoItem r)
  | BGet x => (l, BoItem (l0_get Z.ltb x l))
  | BGetIdx x => let '(r, i) := l0_get_with_index Z.ltb x l in (l, BoIdx r (Z.of_nat i))
  | BGetAt k => (l, BoItem (l0_get_at k l))
  | BAsc x lim => (l, BoList (firstn (Z.to_nat lim) (l0_ascend_ge Z.ltb x l)))
  | BDesc x lim => (l, BoList (firstn (Z.to_nat lim) (l0_descend_le Z.ltb x l)))
  | BLen => (l, BoNum (Z.of_nat (length l)))
  | BMin => (l, BoItem (hd_error l))
  | BMax => (l, BoItem (hd_error (rev l)))
  | BRanks => (l, BoRanks l (map (fun x => Z.of_nat (l0_rank Z.ltb x l)) l))
  end.

Fixpoint bt_run (l : zl) (ops : list bop) : list bobs :=
  match ops with
  | [] => []
  | o :: r => let '(l', b) := bt_step l o in b :: bt_run l' r
  end.

Definition optZ_eqb (a b : option Z) : bool :=
  match a, b with Some x, Some y => x =? y | None, None => true | _, _ => false end.
Fixpoint zlist_eqb (a b : list Z) : bool :=
  match a, b with
  | [], [] => true
  | x :: a', y :: b' => (x =? y) && zlist_eqb a' b'
  | _, _ => false
  end.

Definition bobs_eqb (a b : bobs) : bool :=
  match a, b with
  | BoItem x, BoItem y => optZ_eqb x y
  | BoIdx x i, BoIdx y j => optZ_eqb x y && (i =? j)
  | BoList x, BoList y => zlist_eqb x y
  | BoNum x, BoNum y => x =? y
  | BoRanks x i, BoRanks y j => zlist_eqb x y && zlist_eqb i j
  | _, _ => false
  end.

(* Monitor for the btree itself (the property on the implementation's own trace): the items
   reported by a BRanks sweep are strictly increasing, GetWithIndex of the k-th item is k. *)
Fixpoint strictly_incr (l : list Z) : bool :=
  match l with
  | x :: ((y :: _) as r) => (x <? y) && strictly_incr r
  | _ => true
  end.
Fixpoint iota_from (n : Z) (l : list Z) : bool :=
  match l with [] => true | x :: r => (x =? n) && iota_from (n + 1) r end.
