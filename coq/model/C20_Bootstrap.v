(* C20 — executable model of cluster bootstrap and cluster-id initialisation
     server/grpc_service.go : Bootstrap, IsBootstrapped, validateRequest
     server/server.go       : bootstrapCluster, initClusterID, GetRaftCluster
     server/util.go         : checkBootstrapRequest, initOrGetClusterID
   Definitions only; proofs live in proof/C20_BootstrapProof.v.

   A Bootstrap request is three labels: LBegin (validateRequest, the rc == nil test,
   checkBootstrapRequest — all in memory), LTxn (the one etcd transaction, guarded by
   CreateRevision(cluster root) = 0, with its storage outcome), LStart (only the winner: SaveRegion,
   Flush, cluster.Start, answer).  A member initialising the cluster id is LMemGet (initClusterID's
   Get) and LMemTxn (initOrGetClusterID's create-if-absent-else-get transaction).  Any number of
   request threads and members interleave freely; LReload / LStop are what a leader change does to
   the raft cluster of the serving member. *)
From Coq Require Import String.
From PDV Require Import lib.Base lib.Skel gen.Gen_C20.
Local Open Scope Z_scope.

(* ---------- payload, projected to what checkBootstrapRequest and the four puts read ---------- *)
Record peer := Peer { p_id : Z; p_store : Z }.
Record region := Region { r_id : Z; r_start_empty : bool; r_end_empty : bool; r_peers : list peer }.
Record payload := Payload { pl_store : option Z; pl_region : option region }.

Inductive invalid := NoStore | ZeroStoreId | NoRegion | KeyRange | ZeroRegionId | PeerCount | PeerStore | ZeroPeerId.

(* checkBootstrapRequest, clause by clause in source order (Gen_C20.bootstrap_checks) *)
Definition check_req (p : payload) : option invalid :=
  match pl_store p with
  | None => Some NoStore
  | Some sid =>
      if sid =? 0 then Some ZeroStoreId else
      match pl_region p with
      | None => Some NoRegion
      | Some r =>
          if negb (r_start_empty r) || negb (r_end_empty r) then Some KeyRange
          else if r_id r =? 0 then Some ZeroRegionId
          else match r_peers r with
               | [pe] => if negb (p_store pe =? sid) then Some PeerStore
                         else if p_id pe =? 0 then Some ZeroPeerId else None
               | _ => Some PeerCount
               end
      end
  end.

Definition store_of (p : payload) : Z := match pl_store p with Some s => s | None => 0 end.
Definition region_of (p : payload) : Z := match pl_region p with Some r => r_id r | None => 0 end.

(* ---------- etcd ---------- *)
Fixpoint put_id (k : Z) (w : nat) (l : list (Z * nat)) : list (Z * nat) :=
  match l with
  | [] => [(k, w)]
  | (k', w') :: r => if k <? k' then (k, w) :: l else if k =? k' then (k, w) :: r else (k', w') :: put_id k w r
  end.

Record etcd := Etcd {
  root    : option nat;          (* <root>/raft (cluster meta): the request that wrote it *)
  btime   : option nat;          (* raft/status/raft_bootstrap_time *)
  stores  : list (Z * nat);      (* raft/s/<store id> -> writer, in key order *)
  regions : list (Z * nat);      (* raft/r/<region id> -> writer *)
  cid     : option Z             (* /pd/cluster_id *)
}.

Inductive outcome := Ok | ErrNotApplied | ErrApplied.

Inductive pc := PAfterRc (n : nat) (p : payload) | PWon (n : nat) (p : payload).

Record state := State {
  e       : etcd;
  scid    : Z;                       (* the serving member's s.clusterID *)
  running : bool;                    (* s.cluster.IsRunning() *)
  thr     : nat -> option pc;
  nreq    : nat;                     (* requests are numbered in order of their LBegin *)
  reqs    : list (nat * payload);    (* ghost: request number -> payload *)
  applied : list nat;                (* ghost: requests whose transaction was applied in etcd *)
  acked   : list nat;                (* ghost: requests answered OK *)
  done_ok : list nat;                (* ghost: requests whose transaction returned without a storage error *)
  mpend   : nat -> bool;             (* members between their Get and their Txn *)
  mids    : nat -> option Z          (* cluster id a member ended up with *)
}.

Definition e0 : etcd := Etcd None None [] [] None.
Definition init (c : Z) : state := State e0 c false (fun _ => None) 0 [] [] [] [] (fun _ => false) (fun _ => None).

Inductive label :=
| LBegin (t : nat) (hid : Z) (p : payload)   (* validateRequest(header id); rc := GetRaftCluster(); checkBootstrapRequest *)
| LTxn (t : nat) (o : outcome)               (* If(CreateRevision(root) = 0).Then(4 puts).Commit() *)
| LStart (t : nat)                           (* winner: SaveRegion, Flush, cluster.Start; answer OK *)
| LStartFail (t : nat)                       (* winner: cluster.Start fails (a storage error while it loads what the transaction wrote;
                                                a failing SaveRegion/Flush is only logged): the answer is an error although the
                                                record is stored; the cluster is not running on this member until the next reload *)
| LReload                                    (* leader change: stopRaftCluster ; createRaftCluster *)
| LStop                                      (* step down / close: stopRaftCluster *)
| LMemGet (m : nat)                          (* initClusterID: Get(/pd/cluster_id) *)
| LMemTxn (m : nat) (c : Z) (o : outcome).   (* initOrGetClusterID with the random candidate c *)

Definition is_some {A} (o : option A) : bool := match o with Some _ => true | None => false end.

Definition set_thr (s : state) (t : nat) (x : option pc) : nat -> option pc :=
  fun j => if Nat.eqb j t then x else thr s j.

(* the four puts of the bootstrap transaction, by request n with payload p *)
Definition boot_puts (n : nat) (p : payload) (x : etcd) : etcd :=
  Etcd (Some n) (Some n) (put_id (store_of p) n (stores x)) (put_id (region_of p) n (regions x)) (cid x).

Definition step (s : state) (l : label) : option state :=
  match l with
  | LBegin t hid p =>
      match thr s t with
      | Some _ => None
      | None =>
          if negb (hid =? scid s) then Some s                       (* mismatch cluster id: refused *)
          else if running s then Some s                             (* ALREADY_BOOTSTRAPPED *)
          else match check_req p with
               | Some _ => Some s                                   (* invalid payload: error *)
               | None =>
                   Some (State (e s) (scid s) (running s) (set_thr s t (Some (PAfterRc (nreq s) p)))
                               (S (nreq s)) ((nreq s, p) :: reqs s) (applied s) (acked s) (done_ok s) (mpend s) (mids s))
               end
      end
  | LTxn t o =>
      match thr s t with
      | Some (PAfterRc n p) =>
          let free := negb (is_some (root (e s))) in                (* CreateRevision(root) = 0 *)
          let app := match o with ErrNotApplied => false | _ => free end in
          let e' := if app then boot_puts n p (e s) else e s in
          let applied' := if app then n :: applied s else applied s in
          let won := match o with Ok => free | _ => false end in
          let done' := match o with Ok => n :: done_ok s | _ => done_ok s end in
          Some (State e' (scid s) (running s) (set_thr s t (if won then Some (PWon n p) else None))
                      (nreq s) (reqs s) applied' (acked s) done' (mpend s) (mids s))
      | _ => None
      end
  | LStart t =>
      match thr s t with
      | Some (PWon n p) =>
          Some (State (e s) (scid s) true (set_thr s t None) (nreq s) (reqs s) (applied s) (n :: acked s) (done_ok s) (mpend s) (mids s))
      | _ => None
      end
  | LStartFail t =>
      match thr s t with
      | Some (PWon n p) =>
          Some (State (e s) (scid s) (running s) (set_thr s t None) (nreq s) (reqs s) (applied s) (acked s) (done_ok s) (mpend s) (mids s))
      | _ => None
      end
  | LReload =>
      Some (State (e s) (scid s) (is_some (root (e s))) (thr s) (nreq s) (reqs s) (applied s) (acked s) (done_ok s) (mpend s) (mids s))
  | LStop =>
      Some (State (e s) (scid s) false (thr s) (nreq s) (reqs s) (applied s) (acked s) (done_ok s) (mpend s) (mids s))
  | LMemGet m =>
      if mpend s m then None
      else match cid (e s) with
           | Some v => Some (State (e s) (scid s) (running s) (thr s) (nreq s) (reqs s) (applied s) (acked s) (done_ok s) (mpend s)
                                   (fun j => if Nat.eqb j m then Some v else mids s j))
           | None => Some (State (e s) (scid s) (running s) (thr s) (nreq s) (reqs s) (applied s) (acked s) (done_ok s)
                                 (fun j => if Nat.eqb j m then true else mpend s j) (mids s))
           end
  | LMemTxn m c o =>
      if negb (mpend s m) then None
      else
        let free := negb (is_some (cid (e s))) in                   (* CreateRevision(key) = 0 *)
        let app := match o with ErrNotApplied => false | _ => free end in
        let e' := if app then Etcd (root (e s)) (btime (e s)) (stores (e s)) (regions (e s)) (Some c) else e s in
        let got := match o with Ok => cid e' | _ => None end in     (* Then: the candidate; Else(OpGet): the stored one *)
        Some (State e' (scid s) (running s) (thr s) (nreq s) (reqs s) (applied s) (acked s) (done_ok s)
                    (fun j => if Nat.eqb j m then false else mpend s j)
                    (fun j => if Nat.eqb j m then (match got with Some v => Some v | None => mids s j end) else mids s j))
  end.

(* ---------- the start-up identity check (etcdutil.CheckClusterID, run by startEtcd on every member) ----------
   The peers listed in initial-cluster are asked one after the other for the id of the etcd cluster they belong to:
   None = the peer did not answer (skipped: it may not be up yet), Some id = its answer. The first answer that differs
   from the member's own id refuses the start-up; nothing else ends the walk (skeleton obligations
   skel_CheckClusterID_ok / check_cluster_id_flow_ok). *)
Fixpoint startup_check (local : Z) (answers : list (option Z)) : bool :=
  match answers with
  | [] => true
  | None :: r => startup_check local r
  | Some id :: r => if id =? local then startup_check local r else false
  end.

(* ---------- operation-level wrapper used by the correspondence check ---------- *)
Inductive op :=
| OBoot (t : nat) (h : option Z) (p : payload)   (* complete Bootstrap call; h = the request header: None = no header
                                                   message at all, Some id = header carrying cluster id `id` *)
| OBegin (t : nat) (h : option Z) (p : payload)  (* Bootstrap whose transaction is parked *)
| OFinish (t : nat) (o : outcome)             (* release it with this storage outcome; includes the winner's start *)
| OFinishStartFail (t : nat)                  (* release it (Ok); if it wins, its cluster.Start fails on a storage error *)
| OCommit (t : nat)                           (* the parked transaction is sent and decided by etcd (LTxn t Ok); if it wins, etcd's
                                                 answer is held on its way back: the request stays between LTxn and LStart
                                                 (OFinish t then lets it go on); if it loses it is answered at once *)
| OFinishSlow (t : nat) (ms : Z)              (* release it; etcd takes ms milliseconds over the transaction and applies it then,
                                                 whether or not the caller still waits. Below request_timeout_ms this is the
                                                 Ok outcome: the request waits for etcd's answer *)
| OServed                                     (* the ids of the regions the leader's running raft cluster serves *)
| OIsBoot
| OReload
| OStop
| OMemInit (m : nat)                          (* complete initClusterID *)
| OMemBegin (m : nat)                         (* initClusterID whose transaction is parked *)
| OMemFinish (m : nat) (o : outcome)
| OCall (name : string) (h : option Z)        (* handler `name` called with an otherwise empty request and header h *)
| OStream (name : string) (hs : list (option Z))
| OPutConfig (body : option (Z * Z))         (* PutClusterConfig, correct header; body = None: no cluster message at all,
                                                Some (id, max_peer_count): the metapb.Cluster it carries (unset fields are 0) *)
| OGetConfig.                                (* GetClusterConfig *)  (* ONE stream of the streaming handler `name` carrying the messages with headers hs *)

Inductive obs :=
| BOk | BAlready | BInvalid (k : invalid) | BConflict | BEtcdErr | BMismatch | BStartErr | BInvalidCfg
| BStarted | BBool (b : bool) | BUnit
| BId (k : nat)            (* cluster id, renamed by order of first appearance *)
| BAccepted | BNotBoot | BBad
| BStream (answers : list obs)
| BRegions (l : list Z)
| BCfg (own_id : bool) (max_peers : Z).   (* the cluster meta served: does it carry the cluster's id; its max_peer_count *)   (* per message of a stream, until the handler returned *)

(* what the driver reads from etcd after every operation *)
Record view := View { v_root : bool; v_time : bool; v_stores : list Z; v_regions : list Z; v_cid : option nat;
                      v_rstore : list Z (* region ids in the region storage, from which regions are loaded at a restart *) }.

(* run state: model state, next candidate number, ids seen so far (for renaming) *)
Record rstate := R { rs : state; next_c : Z; seen : list Z; cfg : Z (* max_peer_count of the stored cluster meta *);
                     rst : list Z (* region storage: the winner saves its region there after its transaction *) }.

Fixpoint index_of (x : Z) (l : list Z) (n : nat) : option nat :=
  match l with [] => None | y :: r => if x =? y then Some n else index_of x r (S n) end.
Definition rename (sn : list Z) (v : Z) : list Z * nat :=
  match index_of v sn 0 with Some k => (sn, k) | None => (app sn [v], List.length sn) end.

(* RequestHeader.GetClusterId(): protobuf getters are nil-safe, a request without header carries id 0 *)
Definition hid_of (h : option Z) : Z := match h with Some z => z | None => 0 end.

Definition the_cid : Z := 7.    (* the serving member's cluster id in the wrapper; requests carry 7 or something else *)
Definition default_max_peers : Z := 3.   (* config default max-replicas, written by bootstrapCluster *)
Definition rinit : rstate := R (init the_cid) 100 [] default_max_peers [].

Definition exempt (h : string) : bool :=
  existsb (String.eqb h) ["GetMembers"; "SyncMaxTS"; "GetDCLocationInfo"].

(* ---------- streaming handlers: the caller is validated for EVERY message of a stream ----------
   Tso, RegionHeartbeat and SyncRegions run a receive loop; the cluster id check sits inside the loop, unconditionally
   (skeleton obligations stream_checks_every_message in the proofs).  A message that is refused ends the stream (the
   handler returns the error).  After an accepted message the handler goes on receiving (the driver sends well-formed
   heartbeats of the bootstrapped store on a RegionHeartbeat stream); without a running cluster RegionHeartbeat answers
   NOT_BOOTSTRAPPED and ends. *)
Fixpoint stream_run (name : string) (running : bool) (cid : Z) (hs : list (option Z)) : list obs :=
  match hs with
  | [] => []
  | h :: r =>
      if String.eqb name "RegionHeartbeat" && negb running then [BNotBoot]
      else if negb (hid_of h =? cid) then [BMismatch]
      else BAccepted :: stream_run name running cid r
  end.

Definition boot_begin (s : state) (t : nat) (hid : Z) (p : payload) : option (state * obs) :=
  match thr s t with
  | Some _ => None
  | None =>
      match step s (LBegin t hid p) with
      | None => None
      | Some s1 =>
          Some (s1, if negb (hid =? scid s) then BMismatch
                    else if running s then BAlready
                    else match check_req p with Some k => BInvalid k | None => BStarted end)
      end
  end.

Definition boot_finish (s : state) (t : nat) (o : outcome) : option (state * obs) :=
  match thr s t with
  | Some (PAfterRc _ _) =>
      match step s (LTxn t o) with
      | None => None
      | Some s1 =>
          match o with
          | Ok => match thr s1 t with
                  | Some (PWon _ _) => match step s1 (LStart t) with Some s2 => Some (s2, BOk) | None => None end
                  | _ => Some (s1, BConflict)
                  end
          | _ => Some (s1, BEtcdErr)
          end
      end
  | Some (PWon _ _) =>                      (* its transaction was decided by OCommit: the held answer arrives *)
      match step s (LStart t) with Some s2 => Some (s2, BOk) | None => None end
  | _ => None
  end.

(* how long a bootstrap transaction waits for etcd (kv.requestTimeout, pinned by request_timeout_matches_code) *)
Definition request_timeout_ms : Z := 10000.

Definition boot_commit (s : state) (t : nat) : option (state * obs) :=
  match thr s t with
  | Some (PAfterRc _ _) =>
      match step s (LTxn t Ok) with
      | None => None
      | Some s1 => Some (s1, match thr s1 t with Some (PWon _ _) => BStarted | _ => BConflict end)
      end
  | _ => None
  end.

Definition boot_finish_startfail (s : state) (t : nat) : option (state * obs) :=
  match thr s t with
  | Some (PAfterRc _ _) =>
      match step s (LTxn t Ok) with
      | None => None
      | Some s1 =>
          match thr s1 t with
          | Some (PWon _ _) => match step s1 (LStartFail t) with Some s2 => Some (s2, BStartErr) | None => None end
          | _ => Some (s1, BConflict)
          end
      end
  | _ => None
  end.

Definition mem_finish (r : rstate) (m : nat) (o : outcome) : rstate * obs :=
  let s := rs r in
  match step s (LMemTxn m (next_c r) o) with
  | None => (r, BBad)
  | Some s1 =>
      match o with
      | Ok => match mids s1 m with
              | Some v => let '(sn, k) := rename (seen r) v in (R s1 (next_c r + 1) sn (cfg r) (rst r), BId k)
              | None => (R s1 (next_c r + 1) (seen r) (cfg r) (rst r), BBad)
              end
      | _ => (R s1 (next_c r + 1) (seen r) (cfg r) (rst r), BEtcdErr)
      end
  end.

(* a bootstrap transaction that gets applied writes the cluster meta with the default max_peer_count *)
Definition lift (r : rstate) (x : option (state * obs)) : rstate * obs :=
  match x with
  | Some (s, b) =>
      (R s (next_c r) (seen r) (if negb (is_some (root (e (rs r)))) && is_some (root (e s)) then default_max_peers else cfg r)
         (* the request that won its transaction (answered OK, or an error from cluster.Start) has saved its region *)
         (match b with
          | BOk | BStartErr => match root (e s) with
                               | Some w => match find (fun x => Nat.eqb (fst x) w) (reqs s) with
                                           | Some (_, p) => [region_of p]
                                           | None => rst r
                                           end
                               | None => rst r
                               end
          | _ => rst r
          end), b)
  | None => (r, BBad)
  end.

(* RaftCluster.PutConfig: the body must carry the cluster's id (a missing body or field reads as 0) *)
Definition put_config (c : Z) (body : option (Z * Z)) : option Z :=
  match body with
  | Some (id, mp) => if id =? c then Some mp else None
  | None => None
  end.

Definition run_op1 (r : rstate) (o : op) : rstate * obs :=
  let s := rs r in
  match o with
  | OBegin t h p => lift r (boot_begin s t (hid_of h) p)
  | OBoot t h p =>
      match boot_begin s t (hid_of h) p with
      | Some (s1, BStarted) => lift r (boot_finish s1 t Ok)
      | x => lift r x
      end
  | OFinish t oc => lift r (boot_finish s t oc)
  | OFinishStartFail t => lift r (boot_finish_startfail s t)
  | OCommit t => lift r (boot_commit s t)
  | OFinishSlow t ms => lift r (boot_finish s t (if ms <? request_timeout_ms then Ok else ErrApplied))
  (* a running cluster has loaded its regions from the region storage (at its start, right after the winner saved its
     region there; or at a reload) *)
  | OServed => (r, if running s then BRegions (rst r) else BNotBoot)
  | OIsBoot => (r, BBool (running s))
  | OReload => lift r (match step s LReload with Some s1 => Some (s1, BUnit) | None => None end)
  | OStop => lift r (match step s LStop with Some s1 => Some (s1, BUnit) | None => None end)
  | OMemBegin m | OMemInit m =>
      match step s (LMemGet m) with
      | None => (r, BBad)
      | Some s1 =>
          if mpend s1 m then
            match o with
            | OMemBegin _ => (R s1 (next_c r) (seen r) (cfg r) (rst r), BStarted)
            | _ => mem_finish (R s1 (next_c r) (seen r) (cfg r) (rst r)) m Ok
            end
          else match mids s1 m with
               | Some v => let '(sn, k) := rename (seen r) v in (R s1 (next_c r) sn (cfg r) (rst r), BId k)
               | None => (r, BBad)
               end
      end
  | OMemFinish m oc => mem_finish r m oc
  | OStream name hs => (r, BStream (stream_run name (running s) (scid s) hs))
  | OPutConfig body =>
      if negb (running s) then (r, BNotBoot)
      else match put_config (scid s) body with
           | Some mp => (R s (next_c r) (seen r) mp (rst r), BUnit)
           | None => (r, BInvalidCfg)
           end
  | OGetConfig => (r, if running s then BCfg true (cfg r) else BNotBoot)
  | OCall name h =>
      (r, if exempt name then BAccepted
          else if String.eqb name "RegionHeartbeat" && negb (running s) then BNotBoot  (* answers NOT_BOOTSTRAPPED before it validates *)
          else if hid_of h =? scid s then BAccepted                                   (* got past the validation *)
          else BMismatch)
  end.

Definition view_of (r : rstate) : view :=
  let x := e (rs r) in
  View (is_some (root x)) (is_some (btime x)) (map fst (stores x)) (map fst (regions x))
       (match cid x with Some v => index_of v (seen r) 0 | None => None end) (rst r).

(* the cluster id in the view is renamed like the observations; a stored id nobody has returned yet
   (ErrApplied) is introduced into the renaming by the view itself *)
Definition run_op (r : rstate) (o : op) : rstate * (obs * view) :=
  let '(r1, b) := run_op1 r o in
  let r2 := match cid (e (rs r1)) with
            | Some v => R (rs r1) (next_c r1) (fst (rename (seen r1) v)) (cfg r1) (rst r1)
            | None => r1
            end in
  (r2, (b, view_of r2)).

(* ---------- equality of observations ---------- *)
Definition invalid_eqb (a b : invalid) : bool :=
  match a, b with
  | NoStore, NoStore | ZeroStoreId, ZeroStoreId | NoRegion, NoRegion | KeyRange, KeyRange
  | ZeroRegionId, ZeroRegionId | PeerCount, PeerCount | PeerStore, PeerStore | ZeroPeerId, ZeroPeerId => true
  | _, _ => false
  end.
Fixpoint obs_eqb (a b : obs) : bool :=
  match a, b with
  | BOk, BOk | BAlready, BAlready | BConflict, BConflict | BEtcdErr, BEtcdErr | BMismatch, BMismatch | BStartErr, BStartErr | BInvalidCfg, BInvalidCfg
  | BStarted, BStarted | BUnit, BUnit | BAccepted, BAccepted | BNotBoot, BNotBoot | BBad, BBad => true
  | BInvalid x, BInvalid y => invalid_eqb x y
  | BBool x, BBool y => Bool.eqb x y
  | BId x, BId y => Nat.eqb x y
  | BCfg a x, BCfg b y => Bool.eqb a b && (x =? y)
  | BRegions x, BRegions y => list_eqb Z.eqb x y
  | BStream x, BStream y =>
      (fix go (l1 l2 : list obs) : bool :=
         match l1, l2 with
         | [], [] => true
         | u :: r1, v :: r2 => obs_eqb u v && go r1 r2
         | _, _ => false
         end) x y
  | _, _ => false
  end.
Definition view_eqb (a b : view) : bool :=
  Bool.eqb (v_root a) (v_root b) && Bool.eqb (v_time a) (v_time b)
  && list_eqb Z.eqb (v_stores a) (v_stores b) && list_eqb Z.eqb (v_regions a) (v_regions b)
  && opt_eqb Nat.eqb (v_cid a) (v_cid b) && list_eqb Z.eqb (v_rstore a) (v_rstore b).
Definition ov_eqb (a b : obs * view) : bool := obs_eqb (fst a) (fst b) && view_eqb (snd a) (snd b).

Definition case := (list op * list (obs * view))%type.
Definition model_obs (ops : list op) : list (obs * view) := run run_op rinit ops.
Definition check_case (c : case) := diff_at ov_eqb 0 (model_obs (fst c)) (snd c).

Fixpoint mismatches_from (n : nat) (cs : list case) :=
  match cs with
  | [] => []
  | c :: r => match check_case c with
              | [] => mismatches_from (S n) r
              | d => (n, d) :: mismatches_from (S n) r
              end
  end.
Definition mismatches := mismatches_from 0.

(* ---------- monitor: the property evaluated on an implementation trace ---------- *)
Local Open Scope string_scope.

Definition view_same (a b : view) : bool := view_eqb a b.
Definition records_same (a b : view) : bool :=
  Bool.eqb (v_root a) (v_root b) && Bool.eqb (v_time a) (v_time b)
  && list_eqb Z.eqb (v_stores a) (v_stores b) && list_eqb Z.eqb (v_regions a) (v_regions b).

(* the header of a request that must be refused: Some h when the op carries a header whose id is not the cluster's
   (and the handler is not one of the three exempt ones) *)
Definition foreign_hdr (o : op) : option (option Z) :=
  match o with
  | OBoot _ h _ | OBegin _ h _ => if (hid_of h =? the_cid)%Z then None else Some h
  | OCall name h => if exempt name || (hid_of h =? the_cid)%Z then None else Some h
  | _ => None
  end.

Definition payload_of_op (o : op) : option payload :=
  match o with OBoot _ _ p | OBegin _ _ p => Some p | _ => None end.

(* walk the trace: oks = payloads of the requests answered OK; pend = payloads of parked requests *)
Fixpoint mon (must_run : bool) (prev : view) (oks : list payload) (pend : list (nat * payload)) (ids : list nat)
             (ops : list op) (obl : list (obs * view)) : option string :=
  match ops, obl with
  | o :: r, (b, v) :: br =>
      let pend1 := match o, b with
                   | OBegin t _ p, BStarted => (t, p) :: pend
                   | OFinish t _, _ | OFinishStartFail t, _ | OFinishSlow t _, _ => filter (fun x => negb (Nat.eqb (fst x) t)) pend
                   | OCommit t, BStarted => pend
                   | OCommit t, _ => filter (fun x => negb (Nat.eqb (fst x) t)) pend
                   | _, _ => pend
                   end in
      let won := match o, b with
                 | OBoot _ _ p, BOk => Some p
                 | OFinish t _, BOk | OFinishSlow t _, BOk => match find (fun x => Nat.eqb (fst x) t) pend with Some x => Some (snd x) | None => None end
                 | _, _ => None
                 end in
      let oks1 := match won with Some p => p :: oks | None => oks end in
      let ids1 := match b with BId k => k :: ids | _ => ids end in
      (* after a reload a cluster whose record is stored is running again, until it is stopped *)
      let must1 := match o with
                   | OReload => v_root v
                   | OStop => false
                   | _ => must_run || match b with BOk => true | _ => false end
                   end in
      (* 0. one identity: the cluster meta that is stored and served carries the cluster's id, whatever PutClusterConfig
            is sent; a stored record means the cluster comes up again after a reload *)
      if match o, b with
         | OPutConfig body, BUnit => negb (is_some (put_config the_cid body))
         | _, _ => false
         end then Some "C20:cluster-config-with-foreign-id-accepted"
      else if match b with BCfg false _ => true | _ => false end then Some "C20:cluster-identity-overwritten"
      else if match o, b with
              | OIsBoot, BBool false | OGetConfig, BNotBoot | OPutConfig _, BNotBoot => must_run
              | _, _ => false
              end then Some "C20:bootstrap-state-lost-after-reload"
      (* 1. at most one request is answered OK *)
      else if (1 <? Z.of_nat (List.length oks1))%Z then Some "C20:bootstrapped-twice"
      (* 2. what is stored comes from the one acknowledged request *)
      else if match oks1 with
              | [p] => negb (v_root v && v_time v && list_eqb Z.eqb (v_stores v) [store_of p] && list_eqb Z.eqb (v_regions v) [region_of p])
              | _ => false
              end then Some "C20:stored-records-not-from-the-acknowledged-request"
      else if (1 <? Z.of_nat (List.length (v_stores v)))%Z || (1 <? Z.of_nat (List.length (v_regions v)))%Z
      then Some "C20:stored-records-from-several-requests"
      (* 2a. the leader serves what the acknowledged request bootstrapped: its first region; and a raft cluster only runs
             after an acknowledged bootstrap or a reload that found the record - a refused request never starts it *)
      else if match o, b, oks1 with
              | OServed, BRegions l, [p] => negb (existsb (Z.eqb (region_of p)) l)
              | _, _, _ => false
              end then Some "C20:acknowledged-bootstrap-region-not-served"
      else if match o, b with
              | OServed, BRegions _ | OIsBoot, BBool true => negb must_run
              | _, _ => false
              end then Some "C20:raft-cluster-running-without-acknowledged-bootstrap"
      (* 2a'. a request whose transaction etcd commits within the time a request waits for it is answered by the
              transaction's outcome, not with a storage error *)
      else if match o, b with
              | OFinishSlow _ ms, BEtcdErr => (ms <? request_timeout_ms)%Z
              | _, _ => false
              end then Some "C20:bootstrap-gave-up-on-a-transaction-etcd-was-committing"
      (* 2b. the region storage (what a restart loads) only holds the region of the stored record: never the region of a
             request that was refused *)
      else if negb (forallb (fun x => existsb (Z.eqb x) (v_regions v)) (v_rstore v))
      then Some "C20:region-storage-holds-region-of-a-refused-request"
      (* 2c. a Bootstrap that is answered with an error other than a storage / start failure has not bootstrapped the cluster *)
      else if match o, b with
              | OBoot _ _ _, BBad | OFinish _ _, BBad | OFinishStartFail _, BBad => negb (records_same prev v)
              | _, _ => false
              end then Some "C20:bootstrap-answered-error-but-bootstrapped"
      (* 3. a refused request changes nothing *)
      else if match b with
              | BAlready | BInvalid _ | BConflict | BMismatch => negb (records_same prev v)
              | _ => false
              end then Some "C20:refused-request-changed-stored-records"
      (* 3b. a malformed request is never accepted; a valid one is not refused for "conflict" while nothing is stored *)
      else if match payload_of_op o, b with
              | Some p, BOk | Some p, BStarted => is_some (check_req p)
              | _, _ => false
              end then Some "C20:malformed-request-accepted"
      else if match o, b with
              | OBoot _ _ _, BConflict | OFinish _ Ok, BConflict => negb (v_root prev)
              | _, _ => false
              end then Some "C20:bootstrap-refused-although-nothing-is-stored"
      (* 3c. on an open stream every message is validated: one with a foreign or absent header is refused whatever preceded it *)
      else if match o, b with
              | OStream _ hs, BStream bs =>
                  (fix bad (l1 : list (option Z)) (l2 : list obs) : bool :=
                     match l1, l2 with
                     | h :: r1, x :: r2 =>
                         (negb (hid_of h =? the_cid)%Z && negb (match x with BMismatch | BNotBoot => true | _ => false end)) || bad r1 r2
                     | _, _ => false
                     end) hs bs
              | _, _ => false
              end then Some "C20:stream:foreign-or-headerless-message-accepted"
      (* 4. a request that carries a different cluster id - a wrong one, 0, or no header at all - does not get past
            the validation: whatever it is answered, it is the mismatch refusal (RegionHeartbeat without a running
            cluster: NOT_BOOTSTRAPPED) *)
      else if match foreign_hdr o, b with
              | Some _, BMismatch | Some _, BNotBoot | Some _, BBad => false
              | Some None, _ => true
              | _, _ => false
              end then Some "C20:headerless-request-accepted"
      else if match foreign_hdr o, b with
              | Some _, BMismatch | Some _, BNotBoot | Some _, BBad => false
              | Some (Some _), _ => true
              | _, _ => false
              end then Some "C20:mismatched-cluster-id-accepted"
      (* 5. members agree on one cluster id, and it never changes *)
      else if existsb (fun k => negb (Nat.eqb k 0)) ids1 then Some "C20:members-disagree-on-cluster-id"
      else if match v_cid prev, v_cid v with Some a, Some c => negb (Nat.eqb a c) | Some _, None => true | _, _ => false end
      then Some "C20:cluster-id-changed"
      else if match o, b with OMemInit _, BEtcdErr | OMemInit _, BBad | OMemFinish _ Ok, BEtcdErr | OMemFinish _ Ok, BBad => true | _, _ => false end
      then Some "C20:cluster-id-init-failed-without-fault"
      else mon must1 v oks1 pend1 ids1 r br
  | _, _ => None
  end.

Definition monitor (c : case) : option string :=
  mon false (View false false [] [] None []) [] [] [] (fst c) (snd c).

Fixpoint monitor_fails_from (n : nat) (cs : list case) : list (nat * string) :=
  match cs with
  | [] => []
  | c :: r => match monitor c with
              | None => monitor_fails_from (S n) r
              | Some sg => (n, sg) :: monitor_fails_from (S n) r
              end
  end.
Definition monitor_fails := monitor_fails_from 0.
