(* C05 — operation-level wrapper for the correspondence check: calls of the real API run to completion
   (the driver issues them one at a time), so a Global request executes all its labels in a row.
   The physical offset of the estimate (time.Since(lastUpdateTime) + 2*RTT) is not observable: the
   wrapper accepts the implementation's answer if SOME offset in 0..dmax explains it (set-valued spec)
   and continues from that state. *)
From Coq Require Import ZArith List Bool String.
From PDV Require Import lib.Base gen.Gen_C05 model.C05_TsoGlobal.
Import ListNotations.
Local Open Scope Z_scope.

Inductive op :=
| OLocal (d : nat) (c : Z)
| OGlobal (c : Z) (dmax : nat) (oP oL : Z)       (* with the implementation's answer (0,0 = error) *)
| OSet (w : who) (p l : Z)                        (* SetTSO on an allocator *)
| OMem.

Inductive obs := BTs (P L : Z) | BErr | BOk | BMems (g : ts) (ls : list ts) | BBad.

Definition stepd (s : state) (l : label) : state := match step s l with Some s2 => s2 | None => s end.

Fixpoint drain (fuel : nat) (s : state) : state :=
  match fuel with
  | O => s
  | S f =>
      match req s with
      | None => s
      | Some r =>
          let l := match ph r with
                   | PCheck _ (_ :: _) _ => LGRead
                   | PCheck _ [] _ => LGDecide
                   | PCheckW _ (_ :: _) | PSet _ (_ :: _) => LGWrite
                   | PCheckW _ [] | PSet _ [] => LGNextPass
                   | PPersist => LGPersist
                   | PDone => LGRespond
                   end in
          drain f (stepd s l)
      end
  end.

Definition global_with (s : state) (c : Z) (delta : Z) : state * obs :=
  match step s (LGBegin c delta) with
  | Some s1 =>
      match req s1 with
      | None => (s1, BErr)                                            (* logical overflow at the estimate *)
      | Some _ =>
          let s2 := drain (20 + 8 * nloc s) s1 in
          match grants s2 with
          | g :: _ => (s2, BTs (gP g) (differentiate (gL g) (bits s) 0))
          | [] => (s2, BBad)
          end
      end
  | None => (s, BBad)
  end.

Definition obs_eqb (a b : obs) : bool :=
  match a, b with
  | BTs p l, BTs p2 l2 => (p =? p2) && (l =? l2)
  | BErr, BErr | BOk, BOk | BBad, BBad => true
  | BMems g ls, BMems g2 ls2 => ts_eqb g g2 && list_eqb ts_eqb ls ls2
  | _, _ => false
  end.

Fixpoint try_deltas (s : state) (c : Z) (want : obs) (ds : list Z) : option (state * obs) :=
  match ds with
  | [] => None
  | d :: r => let '(s1, b) := global_with s c d in
              if obs_eqb b want then Some (s1, b) else try_deltas s c want r
  end.

Definition run_op (s : state) (o : op) : state * obs :=
  match o with
  | OLocal d c =>
      match step s (LLocalGen d c) with
      | Some s1 => match grants s1 with
                   | g :: _ => (s1, BTs (gP g) (differentiate (gL g) (bits s) (Z.of_nat d + 1)))
                   | [] => (s1, BBad)
                   end
      | None => (s, BErr)
      end
  | OGlobal c dmax oP oL =>
      let want := if (oP =? 0) && (oL =? 0) then BErr else BTs oP oL in
      (* the most likely offset first: the one that makes the estimate's physical part the answer's *)
      match try_deltas s c want (Z.max 0 (oP - fst (gmem s)) :: map Z.of_nat (seq 0 (S dmax))) with
      | Some r => r
      | None => global_with s c 0
      end
  | OSet w p l =>
      let cur := match w with WGlobal => gmem s | WLocal d => lmem s d end in
      if ts_ltb cur (p, l) then
        match w with
        | WGlobal => (State (nloc s) (bits s) (p, l) (lmem s) (req s) (grants s) (clock s), BOk)
        | WLocal d => (State (nloc s) (bits s) (gmem s) (upd_f (lmem s) d (p, l)) (req s) (grants s) (clock s), BOk)
        end
      else (s, BErr)
  | OMem => (s, BMems (gmem s) (map (lmem s) (locals s)))
  end.

(* a case: number of dcs, bits, initial memories, ops, observations *)
Definition tcase := (nat * Z * ts * list ts * list op * list obs)%type.

Definition model_obs (c : tcase) : list obs :=
  let '(n, b, g0, l0, ops, _) := c in
  run run_op (init n b g0 (fun d => nth d l0 (0, 0))) ops.

Definition check_case (c : tcase) := let '(_, _, _, _, _, got) := c in diff_at obs_eqb 0 (model_obs c) got.

Fixpoint mismatches_from (n : nat) (cs : list tcase) :=
  match cs with
  | [] => []
  | c :: r => match check_case c with
              | [] => mismatches_from (S n) r
              | d => (n, d) :: mismatches_from (S n) r
              end
  end.
Definition mismatches := mismatches_from 0.

(* ---- monitor on implementation traces (sequential calls: answer order = real-time order) ----
   every answer is greater than every earlier answer of a DIFFERENT kind of allocator pair the property
   orders (global after local, local after global, global after global), and no two answers are equal *)
Local Open Scope string_scope.
Local Open Scope Z_scope.

Definition first_of (b : Z) (P L c : Z) : ts := (P, L - Z.shiftl (c - 1) b).

Fixpoint mon (b : Z) (seen : list (bool * ts)) (ops : list op) (obs_l : list obs) : option string :=
  match ops, obs_l with
  | o :: r, BTs P L :: br =>
      let '(isg, c) := match o with OGlobal c _ _ _ => (true, c) | OLocal _ c => (false, c) | _ => (false, 1) end in
      let f := first_of b P L c in
      if existsb (fun x => ts_eqb (snd x) (P, L)) seen then Some "C05:equal-timestamps"
      else if existsb (fun x => (fst x || isg) && ts_leb f (snd x)) seen then
        Some (if isg then "C05:global-not-above-earlier-timestamp" else "C05:local-not-above-earlier-global")
      else mon b ((isg, (P, L)) :: seen) r br
  | _ :: r, _ :: br => mon b seen r br
  | _, _ => None
  end.

Definition monitor (c : tcase) : option string := let '(_, b, _, _, ops, got) := c in mon b [] ops got.

Fixpoint monitor_fails_from (n : nat) (cs : list tcase) : list (nat * string) :=
  match cs with
  | [] => []
  | c :: r => match monitor c with
              | None => monitor_fails_from (S n) r
              | Some sg => (n, sg) :: monitor_fails_from (S n) r
              end
  end.
Definition monitor_fails := monitor_fails_from 0.

(* CalSuffixBits against the float implementation: (maxSuffix, implementation's answer) pairs *)
Definition bits_mismatches (l : list (Z * Z)) : list (Z * Z) :=
  filter (fun p => negb (cal_suffix_bits (fst p) =? snd p)) l.
(* differentiateLogical: (raw, bits, suffix, implementation's answer) *)
Definition diff_mismatches (l : list (Z * Z * Z * Z)) : list (Z * Z * Z * Z) :=
  filter (fun q => let '(r, b, sf, got) := q in negb (differentiate r b sf =? got)) l.
