(* C09 — executable model of the operator lifecycle:
     server/schedule/operator/{operator.go,status.go,status_tracker.go}   (Operator, status tracker)
     server/schedule/operator_controller.go                                (OperatorController)
     server/schedule/waiting_operator.go                                   (one priority bucket, see below)
     server/schedule/hbstream/heartbeat_streams.go SendMsg                 (what is stamped on a command)
   closed with the store side of model/C08_Steps.v (apply_cmd), so that the life of an operator —
   commands sent, commands applied, heartbeats, foreign configuration changes — is one state machine.
   Definitions only; proofs in proof/C09_*.v.

   Time is abstracted by two per-operator flags set by environment events: `old` (created longer ago
   than OperatorExpireTime) and `slow` (started longer ago than its wait time).  The driver realises
   them by back-dating the status reach times (operator.SetOperatorStatusReachTime), never by sleeping.
   The status matrix is Gen_C09.valid_trans (regenerated from status.go).
   Not modelled: store limits (the driver configures them out of the way), merge operator pairs,
   the random choice between non-empty priority buckets (the driver only queues normal-priority
   operators; anything else is reported as BBad by the model). *)
From Coq Require Import String.
From PDV Require Import lib.Base gen.Gen_C08 gen.Gen_C09 model.C08_Steps.
Local Open Scope string_scope.
Local Open Scope list_scope.
Local Open Scope Z_scope.

(* ---------- status (status.go) ---------- *)
Inductive status := CREATED | STARTED | SUCCESS | CANCELED | REPLACED | EXPIRED | TIMEOUT.

Definition status_idx (s : status) : nat :=
  match s with CREATED => 0 | STARTED => 1 | SUCCESS => 2 | CANCELED => 3 | REPLACED => 4 | EXPIRED => 5 | TIMEOUT => 6 end%nat.
Definition all_status : list status := [CREATED; STARTED; SUCCESS; CANCELED; REPLACED; EXPIRED; TIMEOUT].
Definition status_eqb (a b : status) : bool := Nat.eqb (status_idx a) (status_idx b).

(* validTrans[a][b] of the regenerated matrix *)
Definition valid_trans (a b : status) : bool :=
  nth (status_idx b) (nth (status_idx a) Gen_C09.valid_trans []) false.

Definition is_end_status (s : status) : bool :=
  (Gen_C09.first_end_status <=? Z.of_nat (status_idx s)) && (Z.of_nat (status_idx s) <? Gen_C09.status_count).

(* OpStatusToPDPB: CREATED -> invalid(=RUNNING+1), EXPIRED -> TIMEOUT *)
Definition pdpb_status (s : status) : Z :=
  match s with CREATED => 5 | STARTED => 4 | SUCCESS => 0 | CANCELED => 2 | REPLACED => 3 | EXPIRED => 1 | TIMEOUT => 1 end.

(* ---------- operator (operator.go) ---------- *)
Record opr := Opr {
  o_id : Z;                (* identity given by the driver *)
  o_rid : Z;               (* regionID *)
  o_cv : Z; o_ver : Z;     (* regionEpoch recorded at creation *)
  o_steps : list step;
  o_cur : nat;             (* currentStep *)
  o_st : status;
  o_level : Z;             (* priority level: 0 low, 1 normal, 2 high *)
  o_kregion : bool;        (* kind & OpRegion: slow wait time *)
  o_desc : Z;              (* description (waiting operators are counted per description) *)
  o_old : bool;            (* CREATED reach time is older than OperatorExpireTime *)
  o_slow : bool            (* STARTED reach time is older than the wait time *)
}.

Definition with_st (o : opr) (s : status) (slow : bool) : opr :=
  Opr (o_id o) (o_rid o) (o_cv o) (o_ver o) (o_steps o) (o_cur o) s (o_level o) (o_kregion o) (o_desc o) (o_old o) slow.
Definition with_cur (o : opr) (c : nat) : opr :=
  Opr (o_id o) (o_rid o) (o_cv o) (o_ver o) (o_steps o) c (o_st o) (o_level o) (o_kregion o) (o_desc o) (o_old o) (o_slow o).
Definition with_flags (o : opr) (old slow : bool) : opr :=
  Opr (o_id o) (o_rid o) (o_cv o) (o_ver o) (o_steps o) (o_cur o) (o_st o) (o_level o) (o_kregion o) (o_desc o) old slow.

(* OpStatusTracker.To: returns the operator and whether the transition happened.
   Reaching STARTED stamps the start time with `now`. *)
Definition op_to (o : opr) (dst : status) : opr * bool :=
  if valid_trans (o_st o) dst
  then (with_st o dst (match dst with STARTED => false | _ => o_slow o end), true)
  else (o, false).

Definition op_is_end (o : opr) : bool := is_end_status (o_st o).

Definition check_success (o : opr) : opr * bool :=
  if (length (o_steps o) <=? o_cur o)%nat then
    let '(o', ok) := op_to o SUCCESS in (o', ok || status_eqb (o_st o') SUCCESS)
  else (o, false).

Definition check_expired (o : opr) : opr * bool :=
  match o_st o with
  | CREATED => if o_old o then (fst (op_to o EXPIRED), true) else (o, false)
  | s => (o, status_eqb s EXPIRED)
  end.

Definition check_timeout (o : opr) : opr * bool :=
  let '(o1, succ) := check_success o in
  if succ then (o1, false)
  else match o_st o1 with
       | STARTED => if o_slow o1 then (fst (op_to o1 TIMEOUT), true) else (o1, false)
       | s => (o1, status_eqb s TIMEOUT)
       end.

(* number of leading finished steps *)
Fixpoint finished_prefix (r : region) (ss : list step) : nat :=
  match ss with
  | s :: rest => if is_finish r s then S (finished_prefix r rest) else O
  | [] => O
  end.

(* Operator.Check: returns the updated operator and the step to act on *)
Definition op_check (o : opr) (r : region) : opr * option step :=
  if op_is_end o then (o, None)
  else
    let cur := (o_cur o + finished_prefix r (skipn (o_cur o) (o_steps o)))%nat in
    let o1 := with_cur o cur in
    (fst (check_timeout o1), nth_error (o_steps o) cur).

(* Operator.ConfVerChanged *)
Definition op_conf_ver_changed (o : opr) (r : region) : Z :=
  let n := length (o_steps o) in
  let upto := if Nat.eqb (o_cur o) n then o_cur o else S (o_cur o) in      (* steps[0 : current+1], current-- at the end *)
  fold_left (fun acc s => acc + conf_ver_changed r s) (firstn upto (o_steps o)) 0.

(* ---------- messages (hbstream SendMsg) ---------- *)
Record msg := Msg { m_rid : Z; m_cv : Z; m_ver : Z; m_target_store : Z; m_target_id : Z; m_cmd : cmd }.

Definition stamp (rid : Z) (r : region) (c : cmd) : list msg :=
  if leader r =? 0 then []                                                  (* region.GetLeader() == nil *)
  else [Msg rid (conf_ver r) (rng r) (leader r) (leader_id r) c].

Definition send_schedule_command (rid : Z) (r : region) (s : step) : list msg :=
  match cmd_of_step r s with Some c => stamp rid r c | None => [] end.

(* ---------- controller ---------- *)
Record ctl := Ctl {
  truth : list (Z * region);           (* the regions as the stores have them *)
  cache : list (Z * region);           (* the regions as PD last heard (cluster.GetRegion) *)
  ops : list opr;                      (* every operator ever created, by id *)
  running : list (Z * Z);              (* OperatorController.operators: region id -> operator id *)
  waiting : list Z;                    (* the normal-priority bucket, FIFO *)
  wcount : list (Z * Z);               (* wopStatus.ops: description -> count *)
  records : list (Z * (Z * status));   (* opRecords: region id -> (operator id, status when buried) *)
  inbox : list msg;                    (* commands on their way to the stores, oldest first *)
  max_waiting : Z;
  unbound : list Z                     (* stores whose heartbeat stream is broken: hbstream has nothing to push a command into *)
}.

Definition alist_get {A} (l : list (Z * A)) (k : Z) : option A :=
  match find (fun e => fst e =? k) l with Some e => Some (snd e) | None => None end.
Definition alist_del {A} (l : list (Z * A)) (k : Z) : list (Z * A) := filter (fun e => negb (fst e =? k)) l.
Definition alist_set {A} (l : list (Z * A)) (k : Z) (v : A) : list (Z * A) := (k, v) :: alist_del l k.

Definition get_op (c : ctl) (id : Z) : option opr := find (fun o => o_id o =? id) (ops c).
Definition put_op (l : list opr) (o : opr) : list opr := map (fun x => if o_id x =? o_id o then o else x) l.

Definition upd (c : ctl) truth' cache' ops' running' waiting' wcount' records' inbox' : ctl :=
  Ctl truth' cache' ops' running' waiting' wcount' records' inbox' (max_waiting c) (unbound c).
Definition set_ops (c : ctl) (l : list opr) : ctl :=
  upd c (truth c) (cache c) l (running c) (waiting c) (wcount c) (records c) (inbox c).
Definition set_op (c : ctl) (o : opr) : ctl := set_ops c (put_op (ops c) o).
Definition set_running (c : ctl) (l : list (Z * Z)) : ctl :=
  upd c (truth c) (cache c) (ops c) l (waiting c) (wcount c) (records c) (inbox c).
(* hbstream: a command for a store without a working stream is lost (the push fails and the stream is forgotten, or there
   is no stream); it is never kept for later *)
Definition send (c : ctl) (ms : list msg) : ctl :=
  upd c (truth c) (cache c) (ops c) (running c) (waiting c) (wcount c) (records c)
      (inbox c ++ filter (fun m => negb (existsb (Z.eqb (m_target_store m)) (unbound c))) ms).
Definition set_unbound (c : ctl) (l : list Z) : ctl :=
  Ctl (truth c) (cache c) (ops c) (running c) (waiting c) (wcount c) (records c) (inbox c) (max_waiting c) l.

Definition wcount_of (c : ctl) (d : Z) : Z := match alist_get (wcount c) d with Some n => n | None => 0 end.
Definition set_wcount (c : ctl) (d n : Z) : ctl :=
  upd c (truth c) (cache c) (ops c) (running c) (waiting c) (alist_set (wcount c) d n) (records c) (inbox c).

(* buryOperator: a non-end status is cancelled first; the record keeps the status at that moment *)
Definition bury (c : ctl) (id : Z) : ctl :=
  match get_op c id with
  | None => c
  | Some o =>
      let o' := if op_is_end o then o else fst (op_to o CANCELED) in
      let c1 := set_op c o' in
      upd c1 (truth c1) (cache c1) (ops c1) (running c1) (waiting c1) (wcount c1)
          (alist_set (records c1) (o_rid o') (o_id o', o_st o')) (inbox c1)
  end.

Definition cancel (c : ctl) (id : Z) : ctl :=
  match get_op c id with Some o => set_op c (fst (op_to o CANCELED)) | None => c end.

(* removeOperatorLocked: only if this very operator is the running one of its region *)
Definition remove_locked (c : ctl) (o : opr) : ctl * bool :=
  match alist_get (running c) (o_rid o) with
  | Some id => if id =? o_id o then (set_running c (alist_del (running c) (o_rid o)), true) else (c, false)
  | None => (c, false)
  end.

(* checkAddOperator for one operator, before the expiry pass *)
Definition check_add_one (c : ctl) (o : opr) : bool :=
  match alist_get (cache c) (o_rid o) with
  | None => false
  | Some r =>
      if Gen_C09.epoch_mismatch_GetVersion (rng r) (o_ver o) || Gen_C09.epoch_mismatch_GetConfVer (conf_ver r) (o_cv o) then false
      else if match alist_get (running c) (o_rid o) with
              | Some oid => match get_op c oid with
                            | Some old => negb (Gen_C09.higher_priority (o_level o) (o_level old))   (* !isHigherPriorityOperator(op, old) *)
                            | None => false
                            end
              | None => false
              end then false
      else if negb (status_eqb (o_st o) CREATED) then false
      else if Gen_C09.waiting_full (wcount_of c (o_desc o)) (max_waiting c) then false
      else true
  end.

(* checkAddOperator(ops...): the first loop stops at the first failure; only if all pass, every
   operator's expiry is evaluated (and recorded in its status) *)
Definition check_add (c : ctl) (ids : list Z) : ctl * bool :=
  let os := flat_map (fun id => match get_op c id with Some o => [o] | None => [] end) ids in
  if negb (forallb (check_add_one c) os) then (c, false)
  else
    fold_left (fun '(c', ok) id =>
                 match get_op c' id with
                 | Some o => let '(o', ex) := check_expired o in (set_op c' o', ok && negb ex)
                 | None => (c', ok)
                 end) ids (c, true).

(* addOperatorLocked *)
Definition add_locked (c : ctl) (id : Z) : ctl * bool :=
  match get_op c id with
  | None => (c, false)
  | Some o =>
      let c1 := match alist_get (running c) (o_rid o) with
                | Some oldid =>
                    match get_op c oldid with
                    | Some old =>
                        let c' := fst (remove_locked c old) in
                        let c'' := set_op c' (fst (op_to old REPLACED)) in
                        bury c'' oldid
                    | None => c
                    end
                | None => c
                end in
      (* the operator object is the same one the replacement above may have touched: read it again *)
      let '(o1, started) := op_to (match get_op c1 id with Some x => x | None => o end) STARTED in
      if negb started then (c1, false)
      else
        let c2 := set_running (set_op c1 o1) (alist_set (running c1) (o_rid o) id) in
        match alist_get (cache c2) (o_rid o) with
        | Some r =>
            let '(o2, st) := op_check o1 r in
            let c3 := set_op c2 o2 in
            (match st with Some s => send c3 (send_schedule_command (o_rid o) r s) | None => c3 end, true)
        | None => (c2, true)
        end
  end.

Fixpoint add_all_locked (c : ctl) (ids : list Z) : ctl * bool :=
  match ids with
  | [] => (c, true)
  | id :: rest => let '(c', ok) := add_locked c id in if ok then add_all_locked c' rest else (c', false)
  end.

(* AddOperator(ops...) *)
Definition add_operator (c : ctl) (ids : list Z) : ctl * bool :=
  let '(c1, ok) := check_add c ids in
  if negb ok then (fold_left (fun c' id => bury (cancel c' id) id) ids c1, false)
  else add_all_locked c1 ids.

(* PromoteWaitingOperator: pops until a candidate passes checkAddOperator; fuel = queue length *)
Fixpoint promote_loop (fuel : nat) (c : ctl) : ctl :=
  match fuel with
  | O => c
  | S f =>
      match waiting c with
      | [] => c
      | id :: rest =>
          let c0 := upd c (truth c) (cache c) (ops c) (running c) rest (wcount c) (records c) (inbox c) in
          let d := match get_op c0 id with Some o => o_desc o | None => 0 end in
          let '(c1, ok) := check_add c0 [id] in
          let c2 := set_wcount c1 d (wcount_of c1 d - 1) in
          if ok then fst (add_locked c2 id)
          else promote_loop f (bury (cancel c2 id) id)
      end
  end.
Definition promote (c : ctl) : ctl := promote_loop (length (waiting c)) c.

(* AddWaitingOperator(ops...) without merge pairs; returns the number put into the queue *)
Fixpoint add_waiting_loop (c : ctl) (ids : list Z) (added : Z) : ctl * Z * bool :=
  match ids with
  | [] => (c, added, true)
  | id :: rest =>
      match get_op c id with
      | None => (c, added, false)
      | Some o =>
          let '(c1, ok) := check_add c [id] in
          if negb ok then (bury (cancel c1 id) id, added, false)
          else
            let c2 := upd c1 (truth c1) (cache c1) (ops c1) (running c1) (waiting c1 ++ [id]) (wcount c1) (records c1) (inbox c1) in
            add_waiting_loop (set_wcount c2 (o_desc o) (wcount_of c2 (o_desc o) + 1)) rest (added + 1)
      end
  end.
Definition add_waiting (c : ctl) (ids : list Z) : ctl * Z :=
  let '(c1, n, complete) := add_waiting_loop c ids 0 in
  (if complete then promote c1 else c1, n).        (* the early `return added` paths do not promote *)

(* RemoveOperator *)
Definition remove_operator (c : ctl) (id : Z) : ctl * bool :=
  match get_op c id with
  | None => (c, false)
  | Some o =>
      let '(c1, removed) := remove_locked c o in
      if removed then (bury (cancel c1 id) id, true) else (c1, false)
  end.

Definition two64 : Z := 18446744073709551616.

(* checkStaleOperator; returns (controller, handled) *)
Definition check_stale (c : ctl) (o : opr) (s : step) (r : region) : ctl * bool :=
  let unsafe := is_some (check_safety r s) in
  let '(c1, done1) := if unsafe then
                        let '(c', removed) := remove_operator c (o_id o) in
                        if removed then (promote c', true) else (c', false)
                      else (c, false) in
  if done1 then (c1, true)
  else
    let changes := (conf_ver r - o_cv o) mod two64 in
    if Gen_C09.stale_cmp_gt changes (op_conf_ver_changed o r) then
      let '(c', removed) := remove_operator c1 (o_id o) in
      if removed then (promote c', true) else (c', false)
    else (c1, false).

(* Dispatch(region, source) *)
Definition dispatch (c : ctl) (rid : Z) (r : region) (from_heartbeat : bool) : ctl :=
  match alist_get (running c) rid with
  | None => c
  | Some id =>
      match get_op c id with
      | None => c
      | Some o0 =>
          let '(o, st) := op_check o0 r in
          let c1 := set_op c o in
          match o_st o with
          | STARTED =>
              match st with
              | None => c1                       (* unreachable: a started operator with no step left is SUCCESS *)
              | Some s =>
                  let '(c2, handled) := if from_heartbeat then check_stale c1 o s r else (c1, false) in
                  if handled then c2 else send c2 (send_schedule_command rid r s)
              end
          | SUCCESS | TIMEOUT =>
              let '(c2, removed) := remove_operator c1 id in
              if removed then promote c2 else c2
          | _ =>
              let '(c2, removed) := remove_locked c1 o in
              if removed then promote (bury (cancel c2 id) id) else c2
          end
      end
  end.

(* ---------- events ---------- *)
(* the exported methods of Operator that move its status: Start Cancel Replace CheckExpired CheckTimeout CheckSuccess Check *)
Inductive poke := PStart | PCancel | PReplace | PCheckExpired | PCheckTimeout | PCheckSuccess | PCheck.

Inductive ev :=
| ECreate (id rid cv ver : Z) (steps : list step) (level : Z) (kregion : bool) (desc : Z)
| EAdd (ids : list Z)
| EAddWaiting (ids : list Z)
| EPromote
| EHeartbeat (rid : Z)        (* the leader reports the region as it is; PD caches it and dispatches *)
| EPush (rid : Z)             (* Dispatch(cached region, active push) *)
| ERemove (id : Z)
| EDeliver (rid : Z)          (* the oldest command for rid reaches the store *)
| EDrop (rid : Z)             (* ... or is lost *)
| EForeign (rid : Z) (c : cmd) (* somebody else changes the region (also: leader moves, split) *)
| EAge (id : Z)               (* time passes: created long ago *)
| ESlow (id : Z)              (* time passes: started long ago *)
| ERegion (rid : Z) (r : region)    (* a region comes into existence (store side and PD cache) *)
| EPoke (id : Z) (k : poke)         (* somebody holding the *Operator calls one of its exported status methods *)
| EInfluence                        (* a scheduler calls GetOpInfluence: CheckTimeout / CheckSuccess on every running operator *)
| EVanish (rid : Z)                 (* the region is merged away: the stores and PD's cache no longer have it *)
| EPollGone (rid : Z)               (* PushOperators reaches the operator of a region PD no longer knows *)
| EBreak (st : Z)                   (* the heartbeat stream of a store breaks: pushes into it fail from now on *)
| ERebind (st : Z)                  (* the store binds a new stream; the observation lists what the new stream receives at once *)
| ERecordStore (n : Z)
| EEntryRace (n : Z)
| EStaleReport (rid : Z).           (* a delayed report of an OLDER state of the region (lower epoch than PD already knows) arrives:
                                       RaftCluster refuses it; it must not reach the operator controller *)               (* an exported method of the controller that the model does not know (found by reflection; none in
                                       the unchanged tree) is called again and again while n operators are being added: the result is
                                       the number of operators that are neither running nor ended-and-recorded afterwards *)             (* the TTL store behind opRecords (pkg/cache): n keys whose old entry has expired but is not
                                       collected yet are written again while the collector runs; the result is the number of
                                       fresh entries that are missing afterwards *)

Inductive dres := DAccepted | DStale | DRejected | DNone.

(* what is visible after an event *)
Record obs := Obs {
  b_res : Z;                              (* bool / count result of the call, -1 if none *)
  b_sent : list msg;                      (* commands PD sent during the event *)
  b_running : list (Z * Z);               (* region id -> operator id, sorted by region id *)
  b_status : list (Z * status);           (* every operator's status, by id *)
  b_query : list (Z * (Z * Z));           (* GetOperatorStatus per region: (operator id, pdpb status) *)
  b_region : option region;               (* store-side region after EDeliver / EForeign / EHeartbeat *)
  b_deliver : dres
}.

Fixpoint insert_sorted {A} (e : Z * A) (l : list (Z * A)) : list (Z * A) :=
  match l with
  | [] => [e]
  | x :: r => if fst e <=? fst x then e :: l else x :: insert_sorted e r
  end.
Definition sort_alist {A} (l : list (Z * A)) : list (Z * A) := fold_right insert_sorted [] l.

Fixpoint dedupZ (l : list Z) : list Z :=
  match l with [] => [] | x :: r => if existsb (Z.eqb x) r then dedupZ r else x :: dedupZ r end.

(* GetOperatorStatus answers for a region exactly if an operator runs on it or a record exists: the regions asked are
   those (also regions PD's cache no longer has) *)
Definition query (c : ctl) (rid : Z) : option (Z * Z) :=
  match alist_get (running c) rid with
  | Some id => match get_op c id with Some o => Some (id, pdpb_status (o_st o)) | None => None end
  | None => match alist_get (records c) rid with Some (id, st) => Some (id, pdpb_status st) | None => None end
  end.

Definition snapshot (c : ctl) (res : Z) (sent : list msg) (reg : option region) (d : dres) : obs :=
  Obs res sent (sort_alist (running c))
      (sort_alist (map (fun o => (o_id o, o_st o)) (ops c)))
      (sort_alist (flat_map (fun rid => match query c rid with Some q => [(rid, q)] | None => [] end)
                            (dedupZ (map fst (running c) ++ map fst (records c)))))
      reg d.

Definition b2z' (b : bool) : Z := if b then 1 else 0.

(* the store applies a command addressed to it: the epoch must be current for configuration
   changes / splits, the target must be the leader *)
Definition deliver (r : region) (m : msg) : region * dres :=
  let addressed := (m_target_store m =? leader r) && (m_target_id m =? leader_id r) in
  (* TiKV's epoch check per admin command: transfer leader none, configuration change conf_ver,
     split version, merge both *)
  let fresh := match m_cmd m with
               | CTransferLeader _ => true
               | CChangePeer _ _ | CChangePeerV2 _ => m_cv m =? conf_ver r
               | CSplit => m_ver m =? rng r
               | CMerge => (m_cv m =? conf_ver r) && (m_ver m =? rng r)
               end in
  if negb addressed || negb fresh then (r, DStale)
  else match apply_cmd r (m_cmd m) with Some r' => (r', DAccepted) | None => (r, DRejected) end.

Definition first_for (rid : Z) (l : list msg) : option msg := find (fun m => m_rid m =? rid) l.
Fixpoint remove_first_for (rid : Z) (l : list msg) : list msg :=
  match l with
  | [] => []
  | m :: r => if m_rid m =? rid then r else m :: remove_first_for rid r
  end.

Definition sent_since (c c' : ctl) : list msg := skipn (length (inbox c)) (inbox c').

(* GetOpInfluence: `if !op.CheckTimeout() && !op.CheckSuccess()` on every running operator (the influence itself is
   not modelled); the status moves while the operator stays in the running set *)
Definition influence_one (c : ctl) (id : Z) : ctl :=
  match get_op c id with
  | Some o => let '(o1, t) := check_timeout o in
              set_op c (if t then o1 else fst (check_success o1))
  | None => c
  end.
Definition influence (c : ctl) : ctl := fold_left influence_one (map snd (running c)) c.

(* pollNeedDispatchRegion, branch `r == nil`: removeOperatorLocked, Cancel, buryOperator - whatever the status is *)
Definition poll_gone (c : ctl) (rid : Z) : ctl :=
  match alist_get (cache c) rid, alist_get (running c) rid with
  | None, Some id =>
      match get_op c id with
      | Some o => let c1 := fst (remove_locked c o) in bury (cancel c1 id) id
      | None => c
      end
  | _, _ => c
  end.

(* result: the method's boolean (Check: whether a step is handed out), -1 if Check has no cached region to look at *)
Definition poke_op (c : ctl) (o : opr) (k : poke) : opr * Z :=
  match k with
  | PStart => let '(o', ok) := op_to o STARTED in (o', b2z' ok)
  | PCancel => let '(o', ok) := op_to o CANCELED in (o', b2z' ok)
  | PReplace => let '(o', ok) := op_to o REPLACED in (o', b2z' ok)
  | PCheckExpired => let '(o', b) := check_expired o in (o', b2z' b)
  | PCheckTimeout => let '(o', b) := check_timeout o in (o', b2z' b)
  | PCheckSuccess => let '(o', b) := check_success o in (o', b2z' b)
  | PCheck => match alist_get (cache c) (o_rid o) with
              | Some r => let '(o', st) := op_check o r in (o', b2z' (is_some st))
              | None => (o, -1)
              end
  end.

Definition ctl_step (c : ctl) (e : ev) : ctl * obs :=
  match e with
  | ERegion rid r =>
      let c' := upd c (alist_set (truth c) rid r) (alist_set (cache c) rid r) (ops c) (running c) (waiting c) (wcount c) (records c) (inbox c) in
      (c', snapshot c' (-1) [] (Some r) DNone)
  | ECreate id rid cv ver steps level kregion desc =>
      (* operator identities are unique: a second creation under the same id is ignored *)
      let c' := if is_some (get_op c id) then c
                else set_ops c (ops c ++ [Opr id rid cv ver steps 0 CREATED level kregion desc false false]) in
      (c', snapshot c' (-1) [] None DNone)
  | EAdd ids =>
      let '(c', ok) := add_operator c ids in (c', snapshot c' (b2z' ok) (sent_since c c') None DNone)
  | EAddWaiting ids =>
      let '(c', n) := add_waiting c ids in (c', snapshot c' n (sent_since c c') None DNone)
  | EPromote => let c' := promote c in (c', snapshot c' (-1) (sent_since c c') None DNone)
  | EHeartbeat rid =>
      match alist_get (truth c) rid with
      | None => (c, snapshot c (-1) [] None DNone)
      | Some r =>
          let c1 := upd c (truth c) (alist_set (cache c) rid r) (ops c) (running c) (waiting c) (wcount c) (records c) (inbox c) in
          let c' := dispatch c1 rid r true in
          (c', snapshot c' (-1) (sent_since c c') (Some r) DNone)
      end
  | EPush rid =>
      match alist_get (cache c) rid with
      | None => (c, snapshot c (-1) [] None DNone)
      | Some r => let c' := dispatch c rid r false in (c', snapshot c' (-1) (sent_since c c') None DNone)
      end
  | ERemove id =>
      let '(c', ok) := remove_operator c id in (c', snapshot c' (b2z' ok) [] None DNone)
  | EDeliver rid =>
      match first_for rid (inbox c), alist_get (truth c) rid with
      | Some m, Some r =>
          let '(r', d) := deliver r m in
          let c' := upd c (alist_set (truth c) rid r') (cache c) (ops c) (running c) (waiting c) (wcount c) (records c)
                        (remove_first_for rid (inbox c)) in
          (c', snapshot c' (-1) [] (Some r') d)
      | _, _ => (c, snapshot c (-1) [] None DNone)
      end
  | EDrop rid =>
      let c' := upd c (truth c) (cache c) (ops c) (running c) (waiting c) (wcount c) (records c) (remove_first_for rid (inbox c)) in
      (c', snapshot c' (-1) [] None DNone)
  | EForeign rid cm =>
      match alist_get (truth c) rid with
      | Some r =>
          match apply_cmd r cm with
          | Some r' =>
              let c' := upd c (alist_set (truth c) rid r') (cache c) (ops c) (running c) (waiting c) (wcount c) (records c) (inbox c) in
              (c', snapshot c' (-1) [] (Some r') DAccepted)
          | None => (c, snapshot c (-1) [] (Some r) DRejected)
          end
      | None => (c, snapshot c (-1) [] None DNone)
      end
  | EAge id =>
      let c' := match get_op c id with Some o => set_op c (with_flags o true (o_slow o)) | None => c end in
      (c', snapshot c' (-1) [] None DNone)
  | ESlow id =>
      let c' := match get_op c id with Some o => set_op c (with_flags o (o_old o) true) | None => c end in
      (c', snapshot c' (-1) [] None DNone)
  | EPoke id k =>
      match get_op c id with
      | Some o => let c' := set_op c (fst (poke_op c o k)) in (c', snapshot c' (snd (poke_op c o k)) [] None DNone)
      | None => (c, snapshot c (-1) [] None DNone)
      end
  | EInfluence => let c' := influence c in (c', snapshot c' (-1) [] None DNone)
  | EVanish rid =>
      let c' := upd c (alist_del (truth c) rid) (alist_del (cache c) rid) (ops c) (running c) (waiting c) (wcount c) (records c) (inbox c) in
      (c', snapshot c' (-1) [] None DNone)
  | EPollGone rid => let c' := poll_gone c rid in (c', snapshot c' (-1) [] None DNone)
  | EBreak st => let c' := set_unbound c (st :: unbound c) in (c', snapshot c' (-1) [] None DNone)
  | ERebind st => let c' := set_unbound c (filter (fun x => negb (x =? st)) (unbound c)) in (c', snapshot c' (-1) [] None DNone)
  | ERecordStore _ => (c, snapshot c 0 [] None DNone)     (* a record that has just been written stays until it expires *)
  | EEntryRace _ => (c, snapshot c 0 [] None DNone)       (* whatever the entry point does: nobody is lost *)
  | EStaleReport _ => (c, snapshot c (-1) [] None DNone)  (* refused: neither the cache nor any operator sees it *)
  end.

Definition init (maxw : Z) : ctl := Ctl [] [] [] [] [] [] [] [] maxw [].

Definition model_obs (maxw : Z) (es : list ev) : list obs := run ctl_step (init maxw) es.

(* =====================================================================================
   Correspondence and monitors
   ===================================================================================== *)
Definition msg_eqb (a b : msg) : bool :=
  (m_rid a =? m_rid b) && (m_cv a =? m_cv b) && (m_ver a =? m_ver b) && (m_target_store a =? m_target_store b)
  && (m_target_id a =? m_target_id b)
  && match m_cmd a, m_cmd b with
     | CTransferLeader p, CTransferLeader q => opt_eqb peer_eqb p q
     | CChangePeer t p, CChangePeer u q => change_type_eqb t u && opt_eqb peer_eqb p q
     | CChangePeerV2 l, CChangePeerV2 m =>
         list_eqb (fun x y => change_type_eqb (fst x) (fst y) && peer_eqb (snd x) (snd y)) l m
     | CMerge, CMerge | CSplit, CSplit => true
     | _, _ => false
     end.

Definition region_eqb (a b : region) : bool :=
  list_eqb peer_eqb (peers a) (peers b) && (leader a =? leader b) && (conf_ver a =? conf_ver b) && (rng a =? rng b).

Definition dres_eqb (a b : dres) : bool :=
  match a, b with DAccepted, DAccepted | DStale, DStale | DRejected, DRejected | DNone, DNone => true | _, _ => false end.

Definition obs_eqb (a b : obs) : bool :=
  (b_res a =? b_res b) && list_eqb msg_eqb (b_sent a) (b_sent b)
  && list_eqb (fun x y => (fst x =? fst y) && (snd x =? snd y)) (b_running a) (b_running b)
  && list_eqb (fun x y => (fst x =? fst y) && status_eqb (snd x) (snd y)) (b_status a) (b_status b)
  && list_eqb (fun x y => (fst x =? fst y) && (fst (snd x) =? fst (snd y)) && (snd (snd x) =? snd (snd y))) (b_query a) (b_query b)
  && opt_eqb region_eqb (b_region a) (b_region b) && dres_eqb (b_deliver a) (b_deliver b).

Definition ccase := (Z * list ev * list obs)%type.

Definition check_case (c : ccase) : list (nat * option obs * option obs) :=
  let '(maxw, es, os) := c in diff_at obs_eqb 0 (model_obs maxw es) os.

Fixpoint mismatches_from (n : nat) (cs : list ccase) :=
  match cs with
  | [] => []
  | c :: r => match check_case c with
              | [] => mismatches_from (S n) r
              | d => (n, d) :: mismatches_from (S n) r
              end
  end.
Definition mismatches := mismatches_from 0.

(* ---------- monitor: the clauses of C09 evaluated on the implementation's observations ----------
   The monitor follows the history with the model's state machine only for what the implementation
   does not show directly (which step is current, what the cached region is); every verdict is taken
   from the implementation's own observations. *)
(* what a step adds to conf_ver when it takes effect *)
Definition nominal (s : step) : Z :=
  match s with
  | TransferLeader _ _ | MergeRegion _ _ | SplitRegion _ => 0
  | ChangePeerV2Enter pl dv | ChangePeerV2Leave pl dv => Z.of_nat (length pl + length dv)
  | _ => 1
  end.

(* Reference accounting for the stale test.  A step the operator has passed was finished at that moment and
   accounts for its nominal change — unless it was already finished in the region the operator was created
   from, in which case it is unclear whether anything happened for it.  Two references bracket that:
   accounted_hi counts every passed step, accounted_lo only those not finished at creation; the current,
   unfinished step accounts for nothing in both. *)
Definition accounted (ss : list step) (n : nat) : Z :=
  fold_left (fun acc s => acc + nominal s) (firstn n ss) 0.
Definition accounted_lo (born : region) (ss : list step) (n : nat) : Z :=
  fold_left (fun acc s => acc + (if is_finish born s then 0 else nominal s)) (firstn n ss) 0.

(* a passed RemovePeer whose store was given a peer with the SAME id again by a later passed step:
   RemovePeer.ConfVerChanged then takes the removal for not done *)
Fixpoint readded_same_id (ss : list step) : bool :=
  match ss with
  | RemovePeer st id :: rest =>
      (negb (id =? 0) && existsb (fun s => match s with
                                           | AddLearner st' id' | AddLightLearner st' id' | AddPeer st' id' | AddLightPeer st' id' =>
                                               (st' =? st) && (id' =? id)
                                           | _ => false end) rest)
      || readded_same_id rest
  | _ :: rest => readded_same_id rest
  | [] => false
  end.

Record mon := Mon {
  mc : ctl;
  born : list (Z * region);     (* operator id -> the cached region it was created from (if the epochs agree) *)
  prev_running : list (Z * Z);
  prev_status : list (Z * status)
}.

Definition reach (a b : status) : bool :=
  status_eqb a b || valid_trans a b || existsb (fun m => valid_trans a m && valid_trans m b) all_status.

(* the transitions the PROPERTY allows (independent of the code's matrix): used by the monitor *)
Definition spec_trans (a b : status) : bool :=
  match a, b with
  | CREATED, STARTED | CREATED, CANCELED | CREATED, EXPIRED => true
  | STARTED, SUCCESS | STARTED, CANCELED | STARTED, REPLACED | STARTED, TIMEOUT => true
  | _, _ => false
  end.
Definition spec_reach (a b : status) : bool :=
  status_eqb a b || spec_trans a b || existsb (fun m => spec_trans a m && spec_trans m b) all_status.
Definition spec_end (s : status) : bool := match s with CREATED | STARTED => false | _ => true end.

Definition status_name (s : status) : string :=
  match s with CREATED => "CREATED" | STARTED => "STARTED" | SUCCESS => "SUCCESS" | CANCELED => "CANCELED"
             | REPLACED => "REPLACED" | EXPIRED => "EXPIRED" | TIMEOUT => "TIMEOUT" end.

Definition sapp (a b : string) : string := String.append a b.

Definition first_some {A} (l : list (option A)) : option A :=
  fold_right (fun x acc => match x with Some v => Some v | None => acc end) None l.

Definition monitor_step (m : mon) (e : ev) (o : obs) : mon * option string :=
  let c := mc m in
  let c' := fst (ctl_step c e) in
  let born' :=
    match e with
    | ECreate id rid cv ver _ _ _ _ =>
        match alist_get (cache c) rid with
        | Some r => if (conf_ver r =? cv) && (rng r =? ver) then alist_set (born m) id r else born m
        | None => born m
        end
    | _ => born m
    end in
  let m' := Mon c' born' (b_running o) (b_status o) in
  (* --- clauses --- *)
  let v_one :=
    if negb (nodupZ (map fst (b_running o))) then Some "C09:two-operators-on-one-region"
    else first_some (map (fun x => match get_op c' (snd x) with
                                   | Some op => if o_rid op =? fst x then None else Some "C09:operator-runs-under-foreign-region"
                                   | None => Some "C09:unknown-operator-running" end) (b_running o)) in
  let v_path :=
    first_some (map (fun x => match alist_get (b_status o) (fst x) with
                              | Some now => if spec_reach (snd x) now then None
                                            else Some (sapp "C09:status-path:" (sapp (status_name (snd x)) (sapp "->" (status_name now))))
                              | None => Some "C09:operator-vanished" end) (prev_status m)) in
  let v_left :=
    first_some (map (fun x =>
      match alist_get (b_running o) (fst x) with
      | Some id => if id =? snd x then None else
                     match alist_get (b_status o) (snd x) with
                     | Some st => if spec_end st then None else Some (sapp "C09:left-running-set-in-status:" (status_name st))
                     | None => None end
      | None =>
          match alist_get (b_status o) (snd x) with
          | Some st =>
              if negb (spec_end st) then Some (sapp "C09:left-running-set-in-status:" (status_name st))
              else match alist_get (b_query o) (fst x) with
                   | Some (qid, qst) =>
                       (* another operator of the region may have been buried later in the same event *)
                       if (qid =? snd x) && negb (qst =? pdpb_status st) then Some "C09:left-running-set-recorded-with-other-status"
                       else None
                   | None => Some "C09:left-running-set-not-recorded"
                   end
          | None => None
          end
      end) (prev_running m)) in
  let v_admit :=
    first_some (map (fun x =>
      if match alist_get (prev_running m) (fst x) with Some id => id =? snd x | None => false end then None
      else match get_op c' (snd x), alist_get (cache c') (fst x) with
           | Some op, Some r => if (o_cv op =? conf_ver r) && (o_ver op =? rng r) then None
                                else Some "C09:admitted-with-epoch-different-from-region"
           | _, _ => Some "C09:admitted-for-unknown-region"
           end) (b_running o)) in
  let v_stamp :=
    first_some (map (fun x =>
      match alist_get (cache c') (m_rid x) with
      | Some r => if (m_cv x =? conf_ver r) && (m_ver x =? rng r) && (m_target_store x =? leader r) && (m_target_id x =? leader_id r)
                  then None else Some "C09:command-not-stamped-with-cached-epoch-and-leader"
      | None => Some "C09:command-for-unknown-region"
      end) (b_sent o)) in
  (* whatever a store's stream receives, at whatever moment (also right after the store bound a new stream), is a command
     of an operator that is running at that moment (calls that add operators are judged by v_repl and v_stamp) *)
  let v_norun :=
    match e with
    | EAdd _ | EAddWaiting _ | EPromote => None   (* several operators may be added and replaced within one call *)
    | _ => first_some (map (fun x => if is_some (alist_get (b_running o) (m_rid x)) then None
                                     else Some "C09:command-delivered-without-running-operator") (b_sent o))
    end in
  let v_rec :=
    match e with
    | ERecordStore _ => if b_res o =? 0 then None else Some "C09:record-store-loses-fresh-entry"
    | EEntryRace _ => if b_res o =? 0 then None else Some "C09:unknown-entry-point-loses-operators"
    | EStaleReport _ =>
        if negb (Nat.eqb (length (b_sent o)) 0) then Some "C09:stale-report-reaches-operator:command-sent"
        else if negb (list_eqb (fun a b => (fst a =? fst b) && (snd a =? snd b)) (b_running o) (prev_running m))
        then Some "C09:stale-report-reaches-operator:running-set-changed"
        else None
    | _ => None
    end in
  let v_stale :=
    match e with
    | EHeartbeat rid =>
        match alist_get (prev_running m) rid, b_region o with
        | Some id, Some r =>
            match get_op c id, alist_get (b_status o) id with
            | Some op, Some after =>
                let '(o1, st) := op_check op r in
                match o_st o1, st with
                | STARTED, Some s =>
                    let unsafe := is_some (check_safety r s) in
                    let delta := conf_ver r - o_cv op in
                    (* certainly foreign: even if every passed step counts *)
                    let foreign_lo := delta - accounted (o_steps op) (o_cur o1) in
                    (* certainly own: even if steps that were finished at creation do not count *)
                    let foreign_hi := match alist_get (born m) id with
                                      | Some r0 => delta - accounted_lo r0 (o_steps op) (o_cur o1)
                                      | None => 1
                                      end in
                    if (unsafe || (0 <? foreign_lo)) && status_eqb after STARTED
                    then Some (sapp "C09:foreign-change-not-cancelled:" (step_name s))
                    else if negb unsafe && (foreign_hi <=? 0) && status_eqb after CANCELED
                    then Some (sapp "C09:own-steps-judged-stale:"
                                    (if readded_same_id (firstn (o_cur o1) (o_steps op)) then "peer-removed-and-re-added-with-same-id"
                                     else step_name s))
                    else None
                | _, _ => None
                end
            | _, _ => None
            end
        | _, _ => None
        end
    | _ => None
    end in
  (* a slow (started long ago) operator does not survive a dispatch of its region as STARTED *)
  let v_slow :=
    match e with
    | EHeartbeat rid | EPush rid =>
        match alist_get (prev_running m) rid, alist_get (cache c') rid with
        | Some id, Some _ =>
            match get_op c id, alist_get (b_status o) id with
            | Some op, Some after =>
                if o_slow op && status_eqb (o_st op) STARTED && status_eqb after STARTED
                then Some "C09:slow-operator-still-running" else None
            | _, _ => None
            end
        | _, _ => None
        end
    | _ => None
    end in
  (* REPLACED means: another operator, of strictly higher priority, took the region in the same call *)
  let v_repl :=
    match e with
    | EAdd [_] | EPromote | EAddWaiting _ =>     (* not: AddOperator(a, b, ...) - two operators of one call may replace each other *)
        first_some (map (fun x =>
          if status_eqb (snd x) REPLACED
             && negb (match alist_get (prev_status m) (fst x) with Some p => status_eqb p REPLACED | None => false end)
          then match get_op c' (fst x) with
               | Some old =>
                   match alist_get (b_running o) (o_rid old) with
                   | Some nid =>
                       if nid =? fst x then Some "C09:replaced-by-nothing"
                       else match get_op c' nid with
                            | Some nw => if o_level old <? o_level nw then None else Some "C09:replaced-by-not-higher-priority"
                            | None => None
                            end
                   | None => Some "C09:replaced-by-nothing"
                   end
               | None => None
               end
          else None) (b_status o))
    | _ => None
    end in
  (* a direct call of a status method makes at most one transition of the property's relation; an ended operator
     hands out no step *)
  let v_poke :=
    match e with
    | EPoke id k =>
        match alist_get (prev_status m) id, alist_get (b_status o) id with
        | Some before, Some after =>
            if negb (status_eqb before after || spec_trans before after)
            then Some (sapp "C09:status-path:" (sapp (status_name before) (sapp "->" (status_name after))))
            else match k with
                 | PCheck => if spec_end before && (0 <? b_res o) then Some "C09:ended-operator-hands-out-a-step" else None
                 | _ => None
                 end
        | _, _ => None
        end
    | _ => None
    end in
  (m', first_some [v_one; v_poke; v_path; v_left; v_admit; v_norun; v_stamp; v_rec; v_stale; v_slow; v_repl]).

Fixpoint monitor_run (m : mon) (es : list ev) (os : list obs) : option string :=
  match es, os with
  | e :: er, o :: or' => match monitor_step m e o with
                         | (_, Some v) => Some v
                         | (m', None) => monitor_run m' er or'
                         end
  | _, _ => None
  end.

Definition monitor (c : ccase) : option string :=
  let '(maxw, es, os) := c in monitor_run (Mon (init maxw) [] [] []) es os.

Fixpoint monitor_fails_from (n : nat) (cs : list ccase) : list (nat * string) :=
  match cs with
  | [] => []
  | c :: r => match monitor c with
              | None => monitor_fails_from (S n) r
              | Some sg => (n, sg) :: monitor_fails_from (S n) r
              end
  end.
Definition monitor_fails := monitor_fails_from 0.
