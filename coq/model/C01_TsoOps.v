(* C01/C02 — operation-level wrapper of model/C01_Tso.v for the correspondence check: each op is a call of
   the real API (complete, or parked at its etcd save) and expands to the labels the call executes. *)
From Coq Require Import ZArith List Bool String.
From PDV Require Import lib.Base gen.Gen_C01 model.C01_Tso.
Import ListNotations.
Local Open Scope Z_scope.

Inductive op :=
| OElect (m : nat)                                    (* CampaignLeader *)
| OSync (m : nat) (now : Z) (o : outcome)             (* Initialize to completion *)
| OSyncBegin (m : nat) | OSyncEnd (m : nat) (now : Z) (o : outcome)
| OUpd (m : nat) (now : Z) (o : outcome)              (* updateAllocator: Check; UpdateTSO; on error ResetAllocatorGroup *)
| OUpdBegin (m : nat) (now : Z) | OUpdEnd (m : nat) (o : outcome)
| OUpdRdFail (m : nat) (now : Z)                      (* updateAllocator while reads of the stored window fail (writes work) *)
| OUpdSaved (m : nat) (now : Z)                       (* UpdateTSO stopped right after its (successful) save *)
| OUpdFinish (m : nat)                                (* ... and continued: setTSOPhysical *)
| OUpdRead (m : nat) (now : Z)                        (* UpdateTSO stopped right after it read the memory and the clock *)
| OUpdRest (m : nat) (o : outcome)                    (* ... and continued: decide, save if due, setTSOPhysical *)
| OSet (m : nat) (ts : Z) (o : outcome)               (* SetTSO *)
| OSetBegin (m : nat) (ts : Z) | OSetEnd (m : nat) (o : outcome)
| OGen (m : nat) (count : Z) (retries : nat)          (* GenerateTSO with maxRetryCount = retries *)
| OResetMem (m : nat)                                 (* allocator.Reset() *)
| OResetGroup (m : nat)                               (* end of term: ResetAllocatorGroup (memory and leadership), loop exits *)
| ORead                                               (* the stored window *)
| OState (m : nat).                                   (* memory of the allocator (verif hook) *)

Inductive obs :=
| BOk | BConflict | BErr | BStarted | BDone | BSkip | BBad | BUnit
| BTs (P L : Z)
| BW (w : option Z)
| BMem (p : option Z) (l : Z) (sv : option Z).

Definition stepd (s : state) (l : label) : state := match step s l with Some s2 => s2 | None => s end.

(* what updateAllocator does after a failed UpdateTSO, and what ResetAllocatorGroup does *)
Definition reset_group_with (s : state) (m : nat) (l : label) : state :=
  let s1 := stepd s l in
  let s2 := stepd s1 (LValidOff m) in
  if is_owner s2 m then stepd s2 LOwnerGone else s2.
(* inside updateAllocator the leader loop is still in its term *)
Definition reset_group (s : state) (m : nat) : state := reset_group_with s m (LReset m).

Definition sync_end (s : state) (m : nat) (now : Z) (o : outcome) : state * obs :=
  match step s (LSyncSave m now o) with
  | Some s1 => match syn (mems s1 m) with
               | SPendSet _ => (stepd s1 (LSyncSet m), BOk)
               | _ => (s1, BErr)
               end
  | None => (s, BBad)
  end.

Definition upd_finish (s : state) (m : nat) : state * obs :=
  match upd (mems s m) with
  | UPendSet _ => (stepd s (LUpdSet m), BOk)
  | UIdle => (reset_group s m, BErr)                  (* the save failed: UpdateTSO returned an error *)
  | _ => (s, BBad)
  end.

Definition upd_end (s : state) (m : nat) (o : outcome) : state * obs :=
  match step s (LUpdSave m o) with
  | Some s1 => upd_finish s1 m
  | None => (s, BBad)
  end.

(* returns the state and whether the call is now waiting at its save *)
Definition upd_begin (s : state) (m : nat) (now : Z) : state * option obs :=
  if valid (mems s m) then
    match step s (LUpdRead m now) with
    | Some s1 =>
        match upd (mems s1 m) with
        | URead _ =>
            let s2 := stepd s1 (LUpdDecide m) in
            match upd (mems s2 m) with
            | UDecided _ => (s2, None)
            | UPendSet _ => (stepd s2 (LUpdSet m), Some BOk)
            | _ => (s2, Some BBad)
            end
        | _ => (s1, Some BOk)                           (* nothing to advance *)
        end
    | None => (s, Some BBad)
    end
  else (s, Some BSkip).

Definition set_end (s : state) (m : nat) (o : outcome) : state * obs :=
  match step s (LURSave m o) with
  | Some s1 => match ur (mems s1 m) with
               | RSaved _ _ => (stepd s1 (LUREnd m), BOk)
               | _ => (s1, BErr)
               end
  | None => (s, BBad)
  end.

Definition set_begin (s : state) (m : nat) (ts : Z) : state * option obs :=
  match step s (LURBegin m ts) with
  | Some s1 =>
      match ur (mems s1 m) with
      | RChecked _ _ =>
          let s2 := stepd s1 (LURDecide m) in
          match ur (mems s2 m) with
          | RDeciding _ _ => (s2, None)
          | RSaved _ _ => (stepd s2 (LUREnd m), Some BOk)
          | _ => (s2, Some BBad)
          end
      | _ => (s1, Some BErr)                            (* rejected: lease, smaller, equal, too far *)
      end
  | None => (s, Some BBad)
  end.

Fixpoint gen_loop (fuel : nat) (s : state) (m : nat) (count : Z) : state * obs :=
  match fuel with
  | O => (s, BErr)                                      (* maximum number of retries exceeded *)
  | S f =>
      match phys (mems s m) with
      | None => if valid (mems s m) then gen_loop f s m count else (s, BErr)
      | Some _ =>
          match step s (LGen m count) with
          | Some s1 =>
              match recs s1 with
              | r :: _ =>
                  let s2 := stepd s1 (LRespond m 0) in
                  if max_logical <=? gL r then gen_loop f s2 m count
                  else (s2, if valid (mems s m) then BTs (gP r) (gL r) else BErr)
              | [] => (s1, BBad)
              end
          | None => (s, BBad)
          end
      end
  end.

Definition run_op (s : state) (o : op) : state * obs :=
  match o with
  | OElect m =>
      match owner s with
      | None => match step s (LElect m) with Some s1 => (s1, BOk) | None => (s, BBad) end
      | Some _ => (stepd s (LValidOff m), BConflict)
      end
  | OSync m now o =>
      match step s (LSyncLoad m) with Some s1 => sync_end s1 m now o | None => (s, BBad) end
  | OSyncBegin m =>
      match step s (LSyncLoad m) with Some s1 => (s1, BStarted) | None => (s, BBad) end
  | OSyncEnd m now o => sync_end s m now o
  | OUpd m now o =>
      match upd_begin s m now with
      | (s1, Some b) => (s1, b)
      | (s1, None) => upd_end s1 m o
      end
  | OUpdBegin m now =>
      match upd_begin s m now with
      | (s1, Some b) => (s1, match b with BOk => BDone | _ => b end)
      | (s1, None) => (s1, BStarted)
      end
  | OUpdEnd m o => upd_end s m o
  | OUpdRdFail m now =>
      (* the read-back of refreshLastSavedTime happens only when the last save of this member is uncertain and there is
         something to advance; it fails, UpdateTSO returns the error, updateAllocator resets the group *)
      if valid (mems s m) then
        match step s (LUpdRead m now) with
        | Some s1 =>
            match upd (mems s1 m) with
            | URead _ =>
                if unsure (mems s1 m) then
                  match step s1 (LUpdAbort m) with
                  | Some s2 => upd_finish s2 m
                  | None => (s1, BBad)
                  end
                else match upd_begin s m now with
                     | (s2, Some b) => (s2, b)
                     | (s2, None) => upd_end s2 m Ok
                     end
            | _ => (s1, BOk)
            end
        | None => (s, BBad)
        end
      else (s, BSkip)
  | OUpdSaved m now =>
      match upd_begin s m now with
      | (s1, Some b) => (s1, match b with BOk => BDone | _ => b end)
      | (s1, None) => (stepd s1 (LUpdSave m Ok), BStarted)
      end
  | OUpdFinish m => upd_finish s m
  | OUpdRead m now =>
      if valid (mems s m) then
        match step s (LUpdRead m now) with
        | Some s1 => match upd (mems s1 m) with URead _ => (s1, BStarted) | _ => (s1, BBad) end
        | None => (s, BBad)
        end
      else (s, BBad)
  | OUpdRest m o =>
      match upd (mems s m) with
      | URead _ =>
          let s2 := stepd s (LUpdDecide m) in
          match upd (mems s2 m) with
          | UDecided _ => upd_end s2 m o
          | UPendSet _ => (stepd s2 (LUpdSet m), BOk)
          | _ => (s2, BBad)
          end
      | _ => (s, BBad)
      end
  | OSet m ts o =>
      match set_begin s m ts with
      | (s1, Some b) => (s1, b)
      | (s1, None) => set_end s1 m o
      end
  | OSetBegin m ts =>
      match set_begin s m ts with
      | (s1, Some b) => (s1, match b with BOk => BDone | _ => b end)
      | (s1, None) => (s1, BStarted)
      end
  | OSetEnd m o => set_end s m o
  | OGen m count retries =>
      if valid (mems s m) && (0 <? count) then gen_loop retries s m count else (s, BErr)
  | OResetMem m => (stepd s (LReset m), BUnit)
  | OResetGroup m => (reset_group_with s m (LTermEnd m), BUnit)   (* the driver uses it as the end of the term *)
  | ORead => (s, BW (W s))
  | OState m => (s, BMem (phys (mems s m)) (logical (mems s m)) (last_saved (mems s m)))
  end.

Definition optZ_eqb := opt_eqb Z.eqb.

Definition obs_eqb (a b : obs) : bool :=
  match a, b with
  | BOk, BOk | BConflict, BConflict | BErr, BErr | BStarted, BStarted | BDone, BDone | BSkip, BSkip
  | BBad, BBad | BUnit, BUnit => true
  | BTs p l, BTs p2 l2 => (p =? p2) && (l =? l2)
  | BW w, BW w2 => optZ_eqb w w2
  | BMem p l sv, BMem p2 l2 sv2 => optZ_eqb p p2 && (l =? l2) && optZ_eqb sv sv2
  | _, _ => false
  end.

(* a case: configuration (save interval ns, reset gap ms) and the (ops, observations) *)
Definition tcase := (Z * Z * list op * list obs)%type.

Definition model_obs (c : tcase) : list obs :=
  let '(iv, gap, ops, _) := c in run run_op (init iv gap) ops.

Definition check_case (c : tcase) := let '(_, _, _, got) := c in diff_at obs_eqb 0 (model_obs c) got.

Fixpoint mismatches_from (n : nat) (cs : list tcase) :=
  match cs with
  | [] => []
  | c :: r => match check_case c with
              | [] => mismatches_from (S n) r
              | d => (n, d) :: mismatches_from (S n) r
              end
  end.
Definition mismatches := mismatches_from 0.

(* ---------------- monitors on implementation traces ---------------- *)
Local Open Scope string_scope.
Local Open Scope Z_scope.

(* C01: the ranges answered (any member) are strictly increasing in the order they were answered — the
   driver issues requests one at a time, so answer order is real-time order — and fit 18 bits *)
Fixpoint mon_c01 (last : option (Z * Z)) (ops : list op) (obs_l : list obs) : option string :=
  match ops, obs_l with
  | OGen _ count _ :: r, BTs P L :: br =>
      if negb ((0 <? L - count + 1) && (L <? 262144)) then Some "C01:logical-outside-18-bits"
      else match last with
           | Some (P0, L0) =>
               if (P0 <? P) || ((P0 =? P) && (L0 <? L - count + 1)) then mon_c01 (Some (P, L)) r br
               else if (P0 =? P) && (L - count + 1 <=? L0) && (L0 - 0 <=? L + 0) then Some "C01:overlapping-ranges"
               else Some "C01:timestamp-went-back"
           | None => mon_c01 (Some (P, L)) r br
           end
  | _ :: r, _ :: br => mon_c01 last r br
  | _, _ => None
  end.

(* C02: whenever the store is read (the driver reads it after every op): the window did not decrease, every
   timestamp answered so far has its physical part below it, and every initialised memory shown by OState is below it *)
Definition unacked_op (o : op) : bool :=
  match o with
  | OSet _ _ ErrApplied | OSetEnd _ ErrApplied | OUpd _ _ ErrApplied | OUpdEnd _ ErrApplied => true
  | _ => false
  end.

Definition ts_gt (a b : Z * Z) : bool := (fst b <? fst a) || ((fst b =? fst a) && (snd b <? snd a)).

(* top = the largest timestamp answered so far and the member that answered last: the first answer of ANOTHER member (a
   take-over, also a member that leads again after somebody else) has to lie above everything granted before *)
Fixpoint mon_c02 (unacked : bool) (wprev : option Z) (maxP : option Z) (lastmem : option Z) (top : option (Z * Z * nat))
                 (ops : list op) (obs_l : list obs) : option string :=
  match ops, obs_l with
  | ORead :: r, BW w :: br =>
      let dec := match wprev, w with Some a, Some b => b <? a | Some _, None => true | _, _ => false end in
      let above := match maxP, w with Some P, Some b => b <=? P * 1000000 | Some _, None => true | _, _ => false end in
      let memab := match lastmem, w with Some p, Some b => b <=? p | Some _, None => true | _, _ => false end in
      if above then Some "C02:granted-timestamp-not-below-stored-window"
      else if memab then Some "C02:memory-not-below-stored-window"
      else if dec then Some (if unacked then "C02:stored-window-decreased:after-unacknowledged-applied-save"
                             else "C02:stored-window-decreased")
      else mon_c02 unacked w maxP None top r br
  | OGen m count _ :: r, BTs P L :: br =>
      let bad := match top with
                 | Some (tp, tl, tm) => negb (Nat.eqb tm m) && negb (ts_gt (P, L - count + 1) (tp, tl))
                 | None => false
                 end in
      if bad then Some "C02:first-timestamp-after-take-over-not-above-history"
      else
        let top' := match top with
                    | Some (tp, tl, _) => if ts_gt (P, L) (tp, tl) then Some (P, L, m) else Some (tp, tl, m)
                    | None => Some (P, L, m)
                    end in
        mon_c02 unacked wprev (match maxP with Some q => Some (Z.max q P) | None => Some P end) lastmem top' r br
  | OState _ :: r, BMem p _ _ :: br => mon_c02 unacked wprev maxP p top r br
  | o :: r, _ :: br => mon_c02 (unacked || unacked_op o) wprev maxP None top r br
  | _, _ => None
  end.

Definition monitor_c01 (c : tcase) : option string := let '(_, _, ops, got) := c in mon_c01 None ops got.
Definition monitor_c02 (c : tcase) : option string := let '(_, _, ops, got) := c in mon_c02 false None None None None ops got.

Fixpoint monitor_fails_from (mon : tcase -> option string) (n : nat) (cs : list tcase) : list (nat * string) :=
  match cs with
  | [] => []
  | c :: r => match mon c with
              | None => monitor_fails_from mon (S n) r
              | Some sg => (n, sg) :: monitor_fails_from mon (S n) r
              end
  end.
Definition monitor_fails_c01 := monitor_fails_from monitor_c01 0.
Definition monitor_fails_c02 := monitor_fails_from monitor_c02 0.
