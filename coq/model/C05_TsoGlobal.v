(* C05 — executable model of Global TSO generation with Local TSO allocators
   (server/tso/global_allocator.go GenerateTSO / SyncMaxTS, server/grpc_service.go SyncMaxTS handler,
   local_allocator.go WriteTSO / GenerateTSO, tso.go differentiateLogical, allocator_manager.go CalSuffixBits
   and getOrCreateLocalTSOSuffix).  Definitions only.

   Raw level: an allocator's memory is (physical ms, raw logical); a returned timestamp is
   (physical, raw << bits + suffix).  Windows and leadership are C01-C03's business: here every
   allocator stays initialised and led, time-window ticks are physical advances (arbitrary values).
   One Global request is in flight at a time (GlobalTSOAllocator.syncMu); local requests, physical
   ticks of any allocator and the reads / writes of the SyncMaxTS handler interleave freely, one
   allocator access per label (each access is one locked block of the real code). *)
From Coq Require Import ZArith List Bool.
From PDV Require Import lib.Base gen.Gen_C05.
Import ListNotations.
Local Open Scope Z_scope.

Definition ts := (Z * Z)%type.                      (* (physical ms, raw logical) *)
Definition ts_ltb (a b : ts) : bool := (fst a <? fst b) || ((fst a =? fst b) && (snd a <? snd b)).
Definition ts_leb (a b : ts) : bool := (fst a <? fst b) || ((fst a =? fst b) && (snd a <=? snd b)).
Definition ts_eqb (a b : ts) : bool := (fst a =? fst b) && (snd a =? snd b).
Definition ts_max (a b : ts) : ts := if ts_ltb a b then b else a.

Definition max_logical : Z := Gen_C05.maxLogical.
Definition sync_passes : nat := Z.to_nat Gen_C05.syncMaxRetryCount.    (* SyncMaxTS always runs all its rounds *)

Inductive phase :=
| PCheck (pass : nat) (todo : list nat) (acc : option ts)   (* handler, skipCheck = false: reading current local TSOs *)
| PCheckW (pass : nat) (todo : list nat)                    (* ... all were smaller: writing MaxTS to them *)
| PSet (pass : nat) (todo : list nat)                       (* skipCheck = true: writing MaxTS *)
| PPersist
| PDone.                                                     (* persisted: ready to answer *)

Record greq := GReq {
  cnt : Z;
  est : ts;            (* estimatedMaxTSO *)
  maxts : ts;          (* the MaxTS being synchronised (globalTSOResp) *)
  ph : phase;
  gbegin : nat
}.

Inductive who := WGlobal | WLocal (d : nat).
Record grant := Grant { gwho : who; gP : Z; gL : Z; gcount : Z; gtb : nat; gte : nat }.

Record state := State {
  nloc : nat;                       (* local allocators 0 .. nloc-1, suffix d+1 *)
  bits : Z;                         (* suffix bits every server uses *)
  gmem : ts;                        (* Global allocator memory *)
  lmem : nat -> ts;                 (* Local allocator memories *)
  req : option greq;
  grants : list grant;              (* ghost, newest first *)
  clock : nat
}.

Definition init (n : nat) (b : Z) (g0 : ts) (l0 : nat -> ts) : state := State n b g0 l0 None [] 0.

Definition locals (s : state) : list nat := seq 0 (nloc s).

Inductive label :=
| LLocalGen (d : nat) (c : Z)
| LLocalTick (d : nat) (p : Z)
| LGlobalTick (p : Z)
| LGBegin (c : Z) (delta : Z)
| LGRead | LGDecide | LGWrite | LGNextPass | LGPersist | LGRespond.

Definition upd_f {A} (f : nat -> A) (i : nat) (x : A) : nat -> A := fun j => if Nat.eqb j i then x else f j.

Definition tick (m : ts) (p : Z) : ts := if fst m <? p then (p, 0) else m.      (* setTSOPhysical: forward only, logical := 0 *)

(* WriteTSO: keeps a current TSO that is already >= maxTS *)
Definition write_ts (m v : ts) : ts := if ts_leb v m then m else v.

Definition overflow (s : state) (l : Z) : bool := max_logical <=? Z.shiftl l (bits s).

Definition set_req (s : state) (r : option greq) : state :=
  State (nloc s) (bits s) (gmem s) (lmem s) r (grants s) (clock s).

(* the caller's step after SyncMaxTS(skipCheck=false) returned: fall back to the collected maximum *)
Definition after_check (s : state) (r : greq) : greq :=
  if ts_ltb (est r) (maxts r) then
    let e1 := (fst (maxts r), snd (maxts r) + cnt r) in
    let e2 := if overflow s (snd e1) then (fst e1 + 1, cnt r) else e1 in
    GReq (cnt r) e2 e2 (PSet 0 (locals s)) (gbegin r)
  else GReq (cnt r) (est r) (maxts r) PPersist (gbegin r).

Definition step0 (s : state) (l : label) : option state :=
  match l with
  | LLocalGen d c =>
      if (Nat.ltb d (nloc s)) && (0 <? c) then
        let m := lmem s d in
        let m1 := (fst m, snd m + c) in
        Some (State (nloc s) (bits s) (gmem s) (upd_f (lmem s) d m1) (req s)
                    (Grant (WLocal d) (fst m1) (snd m1) c (clock s) (clock s) :: grants s) (clock s))
      else None
  | LLocalTick d p =>
      if Nat.ltb d (nloc s)
      then Some (State (nloc s) (bits s) (gmem s) (upd_f (lmem s) d (tick (lmem s d) p)) (req s) (grants s) (clock s))
      else None
  | LGlobalTick p =>
      Some (State (nloc s) (bits s) (tick (gmem s) p) (lmem s) (req s) (grants s) (clock s))
  | LGBegin c delta =>
      match req s with
      | Some _ => None                                     (* syncMu *)
      | None =>
          if (0 <? c) && (0 <=? delta) && negb (Nat.eqb (nloc s) 0) then
            let g1 := (fst (gmem s), snd (gmem s) + c) in
            let s1 := State (nloc s) (bits s) g1 (lmem s) None (grants s) (clock s) in
            if overflow s (snd g1) then Some s1             (* precheckLogical failed: retried later *)
            else
              let e := (fst g1 + delta, snd g1) in
              Some (set_req s1 (Some (GReq c e e (PCheck 0 (locals s) None) (clock s))))
          else None
      end
  | LGRead =>
      match req s with
      | Some r =>
          match ph r with
          | PCheck pass (d :: todo) acc =>
              let v := lmem s d in
              let acc1 := match acc with Some a => Some (ts_max a v) | None => Some v end in
              Some (set_req s (Some (GReq (cnt r) (est r) (maxts r) (PCheck pass todo acc1) (gbegin r))))
          | _ => None
          end
      | None => None
      end
  | LGDecide =>
      match req s with
      | Some r =>
          match ph r with
          | PCheck pass [] (Some m) =>
              if ts_leb (maxts r) m then
                (* found a bigger or equal MaxLocalTS: returned (+1 on equality); the caller adopts it *)
                let m1 := if ts_eqb m (maxts r) then (fst m, snd m + 1) else m in
                Some (set_req s (Some (GReq (cnt r) (est r) m1 (PCheckW pass []) (gbegin r))))
              else
                Some (set_req s (Some (GReq (cnt r) (est r) (maxts r) (PCheckW pass (locals s)) (gbegin r))))
          | _ => None
          end
      | None => None
      end
  | LGWrite =>
      match req s with
      | Some r =>
          match ph r with
          | PCheckW pass (d :: todo) =>
              Some (State (nloc s) (bits s) (gmem s) (upd_f (lmem s) d (write_ts (lmem s d) (maxts r)))
                          (Some (GReq (cnt r) (est r) (maxts r) (PCheckW pass todo) (gbegin r))) (grants s) (clock s))
          | PSet pass (d :: todo) =>
              Some (State (nloc s) (bits s) (gmem s) (upd_f (lmem s) d (write_ts (lmem s d) (maxts r)))
                          (Some (GReq (cnt r) (est r) (maxts r) (PSet pass todo) (gbegin r))) (grants s) (clock s))
          | _ => None
          end
      | None => None
      end
  | LGNextPass =>
      match req s with
      | Some r =>
          match ph r with
          | PCheckW pass [] =>
              if Nat.ltb (S pass) sync_passes
              then Some (set_req s (Some (GReq (cnt r) (est r) (maxts r) (PCheck (S pass) (locals s) None) (gbegin r))))
              else Some (set_req s (Some (after_check s r)))
          | PSet pass [] =>
              if Nat.ltb (S pass) sync_passes
              then Some (set_req s (Some (GReq (cnt r) (est r) (maxts r) (PSet (S pass) (locals s)) (gbegin r))))
              else Some (set_req s (Some (GReq (cnt r) (est r) (maxts r) PPersist (gbegin r))))
          | _ => None
          end
      | None => None
      end
  | LGPersist =>
      match req s with
      | Some r =>
          match ph r with
          | PPersist =>
              (* resetUserTimestamp(ignoreSmaller) when the memory is behind *)
              let g1 := if ts_ltb (gmem s) (maxts r) then maxts r else gmem s in
              Some (State (nloc s) (bits s) g1 (lmem s) (Some (GReq (cnt r) (est r) (maxts r) PDone (gbegin r)))
                          (grants s) (clock s))
          | _ => None
          end
      | None => None
      end
  | LGRespond =>
      match req s with
      | Some r =>
          match ph r with
          | PDone =>
              Some (State (nloc s) (bits s) (gmem s) (lmem s) None
                          (Grant WGlobal (fst (maxts r)) (snd (maxts r)) (cnt r) (gbegin r) (clock s) :: grants s) (clock s))
          | _ => None
          end
      | None => None
      end
  end.

Definition step (s : state) (l : label) : option state :=
  match step0 s l with
  | Some s1 => Some (State (nloc s1) (bits s1) (gmem s1) (lmem s1) (req s1) (grants s1) (S (clock s1)))
  | None => None
  end.

(* ---------- differentiation ---------- *)
Definition suffix_of (w : who) : Z := match w with WGlobal => 0 | WLocal d => Z.of_nat d + 1 end.
Definition differentiate (raw : Z) (b : Z) (sfx : Z) : Z := Z.shiftl raw b + sfx.

(* client/client.go addLogical: the client derives the values of a batch from the last one *)
Definition add_logical (logical count b : Z) : Z := logical + Z.shiftl count b.

(* CalSuffixBits: ceil(log2(maxSuffix + 1)) *)
Definition cal_suffix_bits (max_suffix : Z) : Z := Z.log2_up (max_suffix + 1).

(* ---------- suffix assignment (getOrCreateLocalTSOSuffix), one assigner at a time ---------- *)
Definition sfx_store := list (nat * Z).                                  (* dc -> suffix, as persisted *)
Definition sfx_lookup (st : sfx_store) (dc : nat) : option Z :=
  match find (fun p => Nat.eqb (fst p) dc) st with Some p => Some (snd p) | None => None end.
Definition sfx_max (st : sfx_store) : Z := fold_left (fun a p => Z.max a (snd p)) st 0.
Definition sfx_assign (st : sfx_store) (dc : nat) : sfx_store * Z :=
  match sfx_lookup st dc with
  | Some v => (st, v)
  | None => let v := sfx_max st + 1 in ((dc, v) :: st, v)           (* create-if-absent txn succeeds: nobody else writes *)
  end.
