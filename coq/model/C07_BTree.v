(* C07 / stage 2 — an executable Gallina transcription of pkg/btree/btree.go: a B-tree of arbitrary degree whose
   nodes carry `items`, `children` and the order-statistics array `indices`, with ReplaceOrInsert (split), Delete /
   DeleteMin / DeleteMax (steal from left, steal from right, merge), Get, GetWithIndex, GetAt, Min, Max,
   AscendGreaterOrEqual, DescendLessOrEqual written as the Go code writes them.  Definitions only; the refinement
   to the ordered-list specification L0 (model/C07_BTreeSpec.v) is proof/C07_BTreeRefine.v.

   Conventions: a Go slice is a list; an index that Go would dereference out of range makes the operation return
   None ("panic") instead of inventing a default; recursion that follows `children[i]` takes fuel (the callers
   pass the height of the tree, growChildAndRemove's retry on the same node consumes one unit as well).  The
   copy-on-write context and the free list only recycle memory and are not modelled (Clone is not used by PD). *)
From Coq Require Import List ZArith Bool.
From PDV Require Import model.C07_BTreeSpec.
Import ListNotations.
Local Open Scope Z_scope.

(* ---------------------------------------------------------------------------------------- *)
(* type indices []int — indices[i] = size(children[0]) + ... + size(children[i]) + i          *)
Fixpoint idx_from (acc : Z) (sizes : list Z) : list Z :=
  match sizes with
  | [] => []
  | s :: r => (acc + s) :: idx_from (acc + s + 1) r
  end.
Definition idx_of (sizes : list Z) : list Z := idx_from 0 sizes.

(* addAt(index, delta): every entry from index on grows by delta *)
Fixpoint ix_add_at (index : nat) (delta : Z) (s : list Z) : list Z :=
  match s, index with
  | [], _ => []
  | x :: r, O => (x + delta) :: ix_add_at O delta r
  | x :: r, S j => x :: ix_add_at j delta r
  end.

(* insertAt(index, sz) *)
Definition ix_insert_at (index : nat) (sz : Z) (s : list Z) : list Z :=
  firstn index s
  ++ (match index with O => sz | S p => nth p s 0 + sz + 1 end)
  :: map (fun v => v + sz + 1) (skipn index s).

(* push(sz) *)
Definition ix_push (sz : Z) (s : list Z) : list Z :=
  match s with [] => [sz] | _ => s ++ [last s 0 + 1 + sz] end.

Fixpoint upd_nth (i : nat) (f : Z -> Z) (l : list Z) : list Z :=
  match l, i with
  | [], _ => []
  | x :: r, O => f x :: r
  | x :: r, S j => x :: upd_nth j f r
  end.

(* split(index, nextSize): insertAt(index+1, -1); s[index] -= 1 + nextSize *)
Definition ix_split (index : nat) (next_size : Z) (s : list Z) : list Z :=
  upd_nth index (fun v => v - (1 + next_size)) (ix_insert_at (S index) (-1) s).

(* merge(index): entries index+1.. move one slot down, the last slot is dropped *)
Definition ix_merge (index : nat) (s : list Z) : list Z := firstn index s ++ skipn (S index) s.

(* removeAt(index) *)
Definition ix_remove_at (index : nat) (s : list Z) : Z * list Z :=
  let sz := match index with O => nth 0 s 0 | S p => nth index s 0 - nth p s 0 - 1 end in
  (sz, firstn index s ++ map (fun v => v - sz - 1) (skipn (S index) s)).

(* pop() *)
Definition ix_pop (s : list Z) : Z * list Z :=
  let l := length s in
  let out := nth (l - 1) s 0 in
  ((if Nat.eqb l 1 then out else out - (nth (l - 2) s 0 + 1)), removelast s).

(* sort.SearchInts(s, k) on an ascending slice: the smallest i with s[i] >= k *)
Fixpoint search_ints (s : list Z) (k : Z) : nat :=
  match s with [] => O | x :: r => if k <=? x then O else S (search_ints r k) end.

(* ---------------------------------------------------------------------------------------- *)
(* slices of items / children                                                                 *)
Definition insert_nth {X} (i : nat) (x : X) (l : list X) : list X := firstn i l ++ x :: skipn i l.
Definition remove_nth {X} (i : nat) (l : list X) : list X := firstn i l ++ skipn (S i) l.
Fixpoint replace_nth {X} (i : nat) (x : X) (l : list X) : list X :=
  match l, i with
  | [], _ => []
  | _ :: r, O => x :: r
  | y :: r, S j => y :: replace_nth j x r
  end.
Definition last_opt {X} (l : list X) : option X := match rev l with [] => None | x :: _ => Some x end.

Section BTree.
  Context {A : Type} (ltb : A -> A -> bool).       (* Item.Less *)

  Inductive node := Node (its : list A) (ch : list node) (idx : list Z).

  Definition n_its (n : node) : list A := match n with Node its _ _ => its end.
  Definition n_ch (n : node) : list node := match n with Node _ ch _ => ch end.
  Definition n_idx (n : node) : list Z := match n with Node _ _ idx => idx end.

  (* func (n *node) length() *)
  Definition nlen (n : node) : Z :=
    match n_idx n with [] => Z.of_nat (length (n_its n)) | _ => last (n_idx n) 0 end.

  (* func (n *node) initSize() *)
  Definition init_size (ch : list node) : list Z := idx_of (map nlen ch).

  (* func (s items) find(item): sort.Search for the first i with item < s[i], then the look at s[i-1] *)
  Fixpoint search_first (its : list A) (x : A) : nat :=
    match its with [] => O | y :: r => if ltb x y then O else S (search_first r x) end.
  Definition items_find (its : list A) (x : A) : nat * bool :=
    let i := search_first its x in
    match i with
    | O => (O, false)
    | S p => match nth_error its p with
             | Some y => if negb (ltb y x) then (p, true) else (i, false)
             | None => (i, false)
             end
    end.

  (* func (n *node) split(i) (Item, *node): (item i, what stays, the new right sibling) *)
  Definition node_split (n : node) (i : nat) : option (A * node * node) :=
    match nth_error (n_its n) i with
    | None => None
    | Some item =>
        let next_ch := skipn (S i) (n_ch n) in
        Some (item,
              Node (firstn i (n_its n)) (firstn (S i) (n_ch n)) (firstn (S i) (n_idx n)),
              Node (skipn (S i) (n_its n)) next_ch (init_size next_ch))
    end.

  (* func (n *node) maybeSplitChild(i, maxItems) bool *)
  Definition maybe_split_child (n : node) (i : nat) (max_items : nat) : option (node * bool) :=
    match nth_error (n_ch n) i with
    | None => None
    | Some c =>
        if Nat.ltb (length (n_its c)) max_items then Some (n, false)
        else match node_split c (Nat.div max_items 2) with
             | None => None
             | Some (item, first, second) =>
                 Some (Node (insert_nth i item (n_its n))
                            (insert_nth (S i) second (replace_nth i first (n_ch n)))
                            (ix_split i (nlen second) (n_idx n)), true)
             end
    end.

  (* func (n *node) insert(item, maxItems) Item *)
  Fixpoint insert (fuel : nat) (n : node) (x : A) (max_items : nat) : option (node * option A) :=
    match fuel with
    | O => None
    | S f =>
        let '(i, found) := items_find (n_its n) x in
        if found then Some (Node (replace_nth i x (n_its n)) (n_ch n) (n_idx n), nth_error (n_its n) i)
        else match n_ch n with
             | [] => Some (Node (insert_nth i x (n_its n)) [] (n_idx n), None)
             | _ =>
                 match maybe_split_child n i max_items with
                 | None => None
                 | Some (n1, splitted) =>
                     let down (j : nat) :=
                       match nth_error (n_ch n1) j with
                       | None => None
                       | Some c =>
                           match insert f c x max_items with
                           | None => None
                           | Some (c', out) =>
                               Some (Node (n_its n1) (replace_nth j c' (n_ch n1))
                                          (match out with None => ix_add_at j 1 (n_idx n1) | Some _ => n_idx n1 end), out)
                           end
                       end in
                     if splitted then
                       match nth_error (n_its n1) i with
                       | None => None
                       | Some in_tree =>
                           if ltb x in_tree then down i
                           else if ltb in_tree x then down (S i)
                           else Some (Node (replace_nth i x (n_its n1)) (n_ch n1) (n_idx n1), Some in_tree)
                       end
                     else down i
                 end
             end
    end.

  (* type BTree *)
  Record btree := BT { bt_degree : nat; bt_length : Z; bt_root : option node }.
  Definition bt_new (degree : nat) : btree := BT degree 0 None.
  Definition max_items (t : btree) : nat := bt_degree t * 2 - 1.
  Definition min_items (t : btree) : nat := bt_degree t - 1.

  Fixpoint height (n : node) : nat :=
    match n with Node _ ch _ => S (fold_right (fun c h => Nat.max (height c) h) O ch) end.

  (* func (t *BTree) ReplaceOrInsert(item) Item *)
  Definition replace_or_insert (t : btree) (x : A) : option (btree * option A) :=
    match bt_root t with
    | None => Some (BT (bt_degree t) (bt_length t + 1) (Some (Node [x] [] [])), None)
    | Some root =>
        let root1 :=
          if Nat.leb (max_items t) (length (n_its root)) then
            match node_split root (Nat.div (max_items t) 2) with
            | None => None
            | Some (item2, first, second) => Some (Node [item2] [first; second] (init_size [first; second]))
            end
          else Some root in
        match root1 with
        | None => None
        | Some r1 =>
            match insert (S (height r1)) r1 x (max_items t) with
            | None => None
            | Some (r2, out) =>
                Some (BT (bt_degree t) (match out with None => bt_length t + 1 | Some _ => bt_length t end) (Some r2), out)
            end
        end
    end.

  (* ---- removal ---- *)
  Inductive to_remove := RemoveItem (x : A) | RemoveMin | RemoveMax.

  (* func (n *node) growChildAndRemove(i, ...): the restructuring part (steal left | steal right | merge) *)
  Definition grow_child (n : node) (i : nat) (min_items : nat) : option node :=
    let its := n_its n in let ch := n_ch n in let idx := n_idx n in
    let left_big := match i with
                    | O => false
                    | S p => match nth_error ch p with Some l => Nat.ltb min_items (length (n_its l)) | None => false end
                    end in
    if left_big then
      (* steal from the left child *)
      match i with
      | O => None
      | S p =>
          match nth_error ch i, nth_error ch p, nth_error its p with
          | Some child, Some steal_from, Some sep =>
              match last_opt (n_its steal_from) with
              | None => None
              | Some stolen =>
                  let sf_its := removelast (n_its steal_from) in
                  let child_its := sep :: n_its child in
                  let idx1 := upd_nth p (fun v => v - 1) idx in
                  match n_ch steal_from with
                  | [] =>
                      Some (Node (replace_nth p stolen its)
                                 (replace_nth i (Node child_its (n_ch child) (n_idx child))
                                    (replace_nth p (Node sf_its [] (n_idx steal_from)) ch))
                                 idx1)
                  | _ =>
                      match last_opt (n_ch steal_from) with
                      | None => None
                      | Some moved =>
                          let '(steal_size, sf_idx) := ix_pop (n_idx steal_from) in
                          Some (Node (replace_nth p stolen its)
                                     (replace_nth i (Node child_its (moved :: n_ch child) (ix_insert_at 0 steal_size (n_idx child)))
                                        (replace_nth p (Node sf_its (removelast (n_ch steal_from)) sf_idx) ch))
                                     (upd_nth p (fun v => v - steal_size) idx1))
                      end
                  end
              end
          | _, _, _ => None
          end
      end
    else
      let right_big := Nat.ltb i (length its)
                       && match nth_error ch (S i) with Some r => Nat.ltb min_items (length (n_its r)) | None => false end in
      if right_big then
        (* steal from the right child *)
        match nth_error ch i, nth_error ch (S i), nth_error its i with
        | Some child, Some steal_from, Some sep =>
            match n_its steal_from with
            | [] => None
            | stolen :: sf_its =>
                let child_its := n_its child ++ [sep] in
                let idx1 := upd_nth i (fun v => v + 1) idx in
                match n_ch steal_from with
                | [] =>
                    Some (Node (replace_nth i stolen its)
                               (replace_nth (S i) (Node sf_its [] (n_idx steal_from))
                                  (replace_nth i (Node child_its (n_ch child) (n_idx child)) ch))
                               idx1)
                | moved :: sf_ch =>
                    let '(steal_size, sf_idx) := ix_remove_at 0 (n_idx steal_from) in
                    Some (Node (replace_nth i stolen its)
                               (replace_nth (S i) (Node sf_its sf_ch sf_idx)
                                  (replace_nth i (Node child_its (n_ch child ++ [moved]) (ix_push steal_size (n_idx child))) ch))
                               (upd_nth i (fun v => v + steal_size) idx1))
                end
            end
        | _, _, _ => None
        end
      else
        (* merge with the right sibling (after `if i >= len(n.items) { i-- }`) *)
        let i := if Nat.leb (length its) i then Nat.pred i else i in
        match nth_error ch i, nth_error ch (S i), nth_error its i with
        | Some child, Some merge_child, Some merge_item =>
            let merged := Node (n_its child ++ merge_item :: n_its merge_child)
                               (n_ch child ++ n_ch merge_child)
                               (fold_left (fun s nn => ix_push (nlen nn) s) (n_ch merge_child) (n_idx child)) in
            Some (Node (remove_nth i its) (remove_nth (S i) (replace_nth i merged ch)) (ix_merge i idx))
        | _, _, _ => None
        end.

  (* func (n *node) remove(item, minItems, typ) Item *)
  Fixpoint remove (fuel : nat) (n : node) (typ : to_remove) (min_items : nat) : option (node * option A) :=
    match fuel with
    | O => None
    | S f =>
        let its := n_its n in
        let leaf := match n_ch n with [] => true | _ => false end in
        let sel : option (option (node * option A) + nat * bool) :=   (* inl = return at once; inr (i, found) *)
          match typ with
          | RemoveMax =>
              if leaf then Some (inl (match last_opt its with
                                      | Some x => Some (Node (removelast its) [] (n_idx n), Some x)
                                      | None => None end))
              else Some (inr (length its, false))
          | RemoveMin =>
              if leaf then Some (inl (match its with
                                      | x :: r => Some (Node r [] (n_idx n), Some x)
                                      | [] => None end))
              else Some (inr (O, false))
          | RemoveItem x =>
              let '(i, found) := items_find its x in
              if leaf then
                Some (inl (if found then Some (Node (remove_nth i its) [] (n_idx n), nth_error its i)
                           else Some (n, None)))
              else Some (inr (i, found))
          end in
        match sel with
        | None => None
        | Some (inl r) => r
        | Some (inr (i, found)) =>
            match nth_error (n_ch n) i with
            | None => None
            | Some child =>
                if Nat.leb (length (n_its child)) min_items then
                  match grow_child n i min_items with
                  | None => None
                  | Some n' => remove f n' typ min_items
                  end
                else if found then
                  match nth_error its i, remove f child RemoveMax min_items with
                  | Some out, Some (child', Some pred) =>
                      Some (Node (replace_nth i pred its) (replace_nth i child' (n_ch n)) (ix_add_at i (-1) (n_idx n)), Some out)
                  | _, _ => None
                  end
                else
                  match remove f child typ min_items with
                  | None => None
                  | Some (child', out) =>
                      Some (Node its (replace_nth i child' (n_ch n))
                                 (match out with Some _ => ix_add_at i (-1) (n_idx n) | None => n_idx n end), out)
                  end
            end
        end
    end.

  (* func (t *BTree) deleteItem(item, typ) Item *)
  Definition delete_item (t : btree) (typ : to_remove) : option (btree * option A) :=
    match bt_root t with
    | None => Some (t, None)
    | Some root =>
        match n_its root with
        | [] => Some (t, None)
        | _ =>
            match remove (2 * S (height root)) root typ (min_items t) with
            | None => None
            | Some (r1, out) =>
                let r2 := match n_its r1, n_ch r1 with
                          | [], c0 :: _ => c0
                          | _, _ => r1
                          end in
                Some (BT (bt_degree t) (match out with Some _ => bt_length t - 1 | None => bt_length t end) (Some r2), out)
            end
        end
    end.

  (* ---- queries ---- *)
  (* func (n *node) get(key) Item *)
  Fixpoint get (fuel : nat) (n : node) (key : A) : option A :=
    match fuel with
    | O => None
    | S f =>
        let '(i, found) := items_find (n_its n) key in
        if found then nth_error (n_its n) i
        else match nth_error (n_ch n) i with
             | Some c => get f c key
             | None => None
             end
    end.

  (* func (n *node) getWithIndex(key) (Item, int) *)
  Fixpoint get_with_index (fuel : nat) (n : node) (key : A) : option A * Z :=
    match fuel with
    | O => (None, 0)
    | S f =>
        let '(i, found) := items_find (n_its n) key in
        if found then
          (nth_error (n_its n) i, match n_idx n with [] => Z.of_nat i | _ => nth i (n_idx n) 0 end)
        else match nth_error (n_ch n) i with
             | Some c =>
                 let '(out, rk) := get_with_index f c key in
                 (out, match i with O => rk | S p => rk + nth p (n_idx n) 0 + 1 end)
             | None => (None, Z.of_nat i)
             end
    end.

  (* func (n *node) getAt(k) Item *)
  Fixpoint get_at (fuel : nat) (n : node) (k : Z) : option A :=
    match fuel with
    | O => None
    | S f =>
        if (nlen n <=? k) || (k <? 0) then None
        else match n_ch n with
             | [] => nth_error (n_its n) (Z.to_nat k)
             | _ =>
                 let i := search_ints (n_idx n) k in
                 if nth i (n_idx n) 0 =? k then nth_error (n_its n) i
                 else match nth_error (n_ch n) i with
                      | Some c => get_at f c (match i with O => k | S p => k - nth p (n_idx n) 0 - 1 end)
                      | None => None
                      end
             end
    end.

  (* func min(n) / max(n) *)
  Fixpoint node_min (fuel : nat) (n : node) : option A :=
    match fuel with
    | O => None
    | S f => match n_ch n with [] => hd_error (n_its n) | c :: _ => node_min f c end
    end.
  Fixpoint node_max (fuel : nat) (n : node) : option A :=
    match fuel with
    | O => None
    | S f => match last_opt (n_ch n) with None => last_opt (n_its n) | Some c => node_max f c end
    end.

  (* func (n *node) iterate(ascend, start, nil, includeStart=true, hit, iter) with an iterator that never stops:
     the items the iterator is offered, in order.  `hit` does not influence this direction when includeStart.
     asc_loop is the `for i := index; i < len(n.items); i++` loop followed by the visit of the last child
     (k = number of remaining rounds, i = current index; rec = the recursive call on a child). *)
  Fixpoint asc_loop (rec : node -> list A) (its : list A) (ch : list node) (k i : nat) : list A :=
    match k with
    | O => match last_opt ch with Some c => rec c | None => [] end
    | S k' =>
        (match nth_error ch i with Some c => rec c | None => [] end)
        ++ match nth_error its i with Some x => x :: asc_loop rec its ch k' (S i) | None => [] end
    end.

  Fixpoint ascend_from (fuel : nat) (n : node) (start : option A) : list A :=
    match fuel with
    | O => []
    | S f =>
        let index := match start with Some s => fst (items_find (n_its n) s) | None => O end in
        asc_loop (fun c => ascend_from f c start) (n_its n) (n_ch n) (length (n_its n) - index) index
    end.

  (* iterate(descend, start, nil, includeStart=true, hit, iter): items <= start, descending; returns (items, hit).
     desc_loop is the `for i := index; i >= 0; i--` loop (k rounds left: current i = k - 1). *)
  Fixpoint desc_loop (rec : node -> bool -> list A * bool) (start : A) (its : list A) (ch : list node)
                     (k : nat) (hit0 : bool) : list A * bool :=
    match k with
    | O => ([], hit0)
    | S i =>
        match nth_error its i with
        | None => ([], hit0)
        | Some x =>
            if negb (ltb x start) && (hit0 || ltb start x) then desc_loop rec start its ch i hit0     (* continue *)
            else
              let '(sub, _) := match nth_error ch (S i) with
                               | Some c => rec c hit0
                               | None => ([], hit0) end in
              let '(rest, hit'') := desc_loop rec start its ch i true in
              (sub ++ x :: rest, hit'')
        end
    end.

  Fixpoint descend_from (fuel : nat) (n : node) (start : A) (hit : bool) : list A * bool :=
    match fuel with
    | O => ([], hit)
    | S f =>
        let its := n_its n in let ch := n_ch n in
        let '(fi, found) := items_find its start in
        (* index = found ? fi : fi - 1 ; the loop runs i = index .. 0 *)
        let rounds := if found then S fi else fi in
        let '(acc, hit1) := desc_loop (fun c h => descend_from f c start h) start its ch rounds hit in
        match ch with
        | [] => (acc, hit1)
        | c0 :: _ => let '(sub, hit2) := descend_from f c0 start hit1 in (acc ++ sub, hit2)
        end
    end.

  (* in-order walk (used by the shape comparison and by the abstraction function of the proofs) *)
  Fixpoint flatten (n : node) : list A :=
    let fix inter (its : list A) (cs : list node) {struct cs} : list A :=
        match cs with
        | [] => []
        | c :: cs' => match its with
                      | [] => flatten c
                      | i :: its' => flatten c ++ i :: inter its' cs'
                      end
        end in
    match n with
    | Node its ch idx => match ch with [] => its | _ => inter its ch end
    end.
End BTree.

Arguments Node {A}.
Arguments node : clear implicits.
Arguments btree : clear implicits.
Arguments BT {A}.

(* ---------------------------------------------------------------------------------------- *)
(* Correspondence with pkg/btree on Int items: the same operations as model/C07_BTreeSpec.v (bop / bobs), run on
   the Gallina B-tree; the driver also dumps the real tree's node structure, compared with `bt_root`. *)
Definition zt := btree Z.

Definition with_root {X} (t : zt) (dflt : X) (f : node Z -> nat -> X) : X :=
  match bt_root t with None => dflt | Some r => f r (S (height r)) end.

Definition bt2_step (t : zt) (o : bop) : option (zt * bobs) :=
  match o with
  | BIns x => match replace_or_insert Z.ltb t x with Some (t', r) => Some (t', BoItem r) | None => None end
  | BDel x => match delete_item Z.ltb t (RemoveItem x) with Some (t', r) => Some (t', BoItem r) | None => None end
  | BDelMin => match delete_item Z.ltb t RemoveMin with Some (t', r) => Some (t', BoItem r) | None => None end
  | BDelMax => match delete_item Z.ltb t RemoveMax with Some (t', r) => Some (t', BoItem r) | None => None end
  | BGet x => Some (t, BoItem (with_root t None (fun r h => get Z.ltb h r x)))
  | BGetIdx x => let '(r, i) := with_root t (None, 0%Z) (fun r h => get_with_index Z.ltb h r x) in Some (t, BoIdx r i)
  | BGetAt k => Some (t, BoItem (with_root t None (fun r h => get_at h r k)))
  | BAsc x lim => Some (t, BoList (firstn (Z.to_nat lim) (with_root t [] (fun r h => ascend_from Z.ltb h r (Some x)))))
  | BDesc x lim => Some (t, BoList (firstn (Z.to_nat lim) (with_root t [] (fun r h => fst (descend_from Z.ltb h r x false)))))
  | BLen => Some (t, BoNum (bt_length t))
  | BMin => Some (t, BoItem (with_root t None (fun r h => node_min h r)))
  | BMax => Some (t, BoItem (with_root t None (fun r h => node_max h r)))
  | BRanks =>
      let n := Z.to_nat (bt_length t) in
      let items := map (fun k => match with_root t None (fun r h => get_at h r (Z.of_nat k)) with
                                 | Some x => x | None => (-999999)%Z end) (seq 0 n) in
      let idx := map (fun x => snd (with_root t (None, 0%Z) (fun r h => get_with_index Z.ltb h r x))) items in
      Some (t, BoRanks items idx)
  end.

(* (observations, tree after each operation); None = the Go code would have panicked *)
Fixpoint bt2_run (t : zt) (ops : list bop) : list (option (bobs * option (node Z))) :=
  match ops with
  | [] => []
  | o :: r => match bt2_step t o with
              | Some (t', b) => Some (b, bt_root t') :: bt2_run t' r
              | None => [None]
              end
  end.

Fixpoint node_eqb (a b : node Z) : bool :=
  match a, b with
  | Node i1 c1 x1, Node i2 c2 x2 =>
      zlist_eqb i1 i2 && zlist_eqb x1 x2 &&
      (fix all2 (l1 l2 : list (node Z)) : bool :=
         match l1, l2 with
         | [], [] => true
         | a1 :: r1, a2 :: r2 => node_eqb a1 a2 && all2 r1 r2
         | _, _ => false
         end) c1 c2
  end.

Definition shape_eqb (a b : option (node Z)) : bool :=
  match a, b with Some x, Some y => node_eqb x y | None, None => true | _, _ => false end.

(* positions where the Gallina B-tree and the implementation differ: (op index, what differs) *)
Inductive bt2_diff := D2Obs (i : nat) (model impl : option bobs) | D2Shape (i : nat) | D2Panic (i : nat).

Fixpoint bt2_check (i : nat) (run : list (option (bobs * option (node Z)))) (obs : list bobs)
                   (shapes : list (nat * option (node Z))) : list bt2_diff :=
  match run, obs with
  | [], [] => []
  | Some (b, root) :: rr, g :: gr =>
      if bobs_eqb b g then
        match shapes with
        | (j, sh) :: sr =>
            if Nat.eqb j i then (if shape_eqb root sh then bt2_check (S i) rr gr sr else [D2Shape i])
            else bt2_check (S i) rr gr shapes
        | [] => bt2_check (S i) rr gr []
        end
      else [D2Obs i (Some b) (Some g)]
  | None :: _, _ => [D2Panic i]
  | Some (b, _) :: _, [] => [D2Obs i (Some b) None]
  | [], g :: _ => [D2Obs i None (Some g)]
  end.
