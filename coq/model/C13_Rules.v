(* C13 — executable model of placement.RuleManager (rule_manager.go, rule_list.go, config.go,
   rule.go) over core.Storage with per-write faults.  Definitions only.

   Keys and ids are byte strings (list N) ordered lexicographically like bytes.Compare / Go string
   comparison; "empty end key = +inf" is kept literally.
   Maps (ruleConfig.rules, ruleConfig.groups, the patch, the storage) are association lists kept
   sorted by key: Go's map iteration order is visible only in the order of the storage writes of
   savePatch, which the driver records and passes to the model (`worder`).
   Each rule carries the group object it currently points to (`r_group`): patch.adjust() rewrites
   that pointer on the *served* rules before the patch is validated (DESIGN.md section 7, S5); since
   the fix 4fc9a45 both error paths of tryCommitPatch re-adjust the served configuration, and since
   4f573f0 buildRuleList rejects a first split point that is not the empty key.
   Rule content other than the modelled fields (label constraints, location labels, isolation level)
   is one number `r_ver`; the driver gives every generated rule object its own number. *)
From Coq Require Import String.
From PDV Require Import lib.Base lib.C12_Order lib.C13_Map gen.Gen_C13.
Local Open Scope list_scope.
Local Open Scope Z_scope.

(* ---------- keys ---------- *)
Definition key := list N.
Definition key_cmp : key -> key -> comparison := lexlist N.compare.
Definition key_eqb (a b : key) : bool := match key_cmp a b with Eq => true | _ => false end.
Definition key_ltb (a b : key) : bool := match key_cmp a b with Lt => true | _ => false end.
Definition key_gtb (a b : key) : bool := match key_cmp a b with Gt => true | _ => false end.
Definition is_nil {A} (l : list A) : bool := match l with [] => true | _ => false end.
Fixpoint is_prefix (p s : key) : bool :=
  match p, s with
  | [], _ => true
  | x :: p', y :: s' => (x =? y)%N && is_prefix p' s'
  | _ :: _, [] => false
  end.

Definition id := key.
Definition pair_cmp (a b : id * id) : comparison := lexc (key_cmp (fst a) (fst b)) (key_cmp (snd a) (snd b)).
Definition pair_eqb (a b : id * id) : bool := match pair_cmp a b with Eq => true | _ => false end.

(* ---------- sorted association lists: lib/C13_Map.v (aget / aset / adel) ---------- *)
Notation mget := aget.
Notation mset := aset.
Notation mdel := adel.

(* ---------- rules and groups ---------- *)
Inductive role := Voter | Leader | Follower | Learner | BadRole.
Record group := Group { g_id : id; g_index : Z; g_override : bool }.
Record rule := Rule {
  r_gid : id; r_id : id; r_index : Z; r_override : bool;
  r_start : key; r_end : key; r_role : role; r_count : Z;
  r_ver : Z;                       (* stands for label constraints / location labels / isolation level *)
  r_wellformed : bool;             (* hex keys decode and every label-constraint operator is known *)
  r_group : option group           (* the runtime back-pointer; None = nil *)
}.
Definition rkey (r : rule) : id * id := (r_gid r, r_id r).
Definition set_group (r : rule) (g : option group) : rule :=
  Rule (r_gid r) (r_id r) (r_index r) (r_override r) (r_start r) (r_end r) (r_role r) (r_count r) (r_ver r)
       (r_wellformed r) g.
Definition set_gid (r : rule) (g : id) : rule :=
  Rule g (r_id r) (r_index r) (r_override r) (r_start r) (r_end r) (r_role r) (r_count r) (r_ver r)
       (r_wellformed r) (r_group r).

Definition role_eqb (a b : role) : bool :=
  match a, b with
  | Voter, Voter | Leader, Leader | Follower, Follower | Learner, Learner | BadRole, BadRole => true
  | _, _ => false
  end.
Definition group_eqb (a b : group) : bool :=
  key_eqb (g_id a) (g_id b) && (g_index a =? g_index b) && Bool.eqb (g_override a) (g_override b).
(* jsonEquals on rules: every marshalled field (the group pointer is not marshalled) *)
Definition rule_json_eqb (a b : rule) : bool :=
  key_eqb (r_gid a) (r_gid b) && key_eqb (r_id a) (r_id b) && (r_index a =? r_index b)
  && Bool.eqb (r_override a) (r_override b) && key_eqb (r_start a) (r_start b) && key_eqb (r_end a) (r_end b)
  && role_eqb (r_role a) (r_role b) && (r_count a =? r_count b) && (r_ver a =? r_ver b).

Definition default_group (gid : id) : group := Group gid 0 false.
Definition is_default (g : group) : bool := (g_index g =? 0) && negb (g_override g).

Definition group_index (r : rule) : Z := match r_group r with Some g => g_index g | None => 0 end.
(* compareRule: order of the tests = Gen_C13.compare_rule_cases *)
Definition compare_rule (a b : rule) : comparison :=
  lexc (Z.compare (group_index a) (group_index b))
       (lexc (key_cmp (r_gid a) (r_gid b))
             (lexc (Z.compare (r_index a) (r_index b)) (key_cmp (r_id a) (r_id b)))).

(* sortRules (sort.Slice on pairwise different rules) *)
Fixpoint insert_by {A} (cmp : A -> A -> comparison) (x : A) (l : list A) : list A :=
  match l with
  | [] => [x]
  | y :: r => match cmp x y with Lt => x :: l | _ => y :: insert_by cmp x r end
  end.
Definition sort_by {A} (cmp : A -> A -> comparison) (l : list A) : list A := fold_right (insert_by cmp) [] l.
Definition sort_rules := sort_by compare_rule.

(* ---------- prepareRulesForApply / checkApplyRules ---------- *)
Definition group_overrides (r : rule) : bool := match r_group r with Some g => g_override g | None => false end.

(* loop state: res, and seg = rules[j:i] (never empty inside the loop) *)
Fixpoint prepare_loop (res seg : list rule) (rest : list rule) : list rule :=
  match rest with
  | [] => res ++ seg
  | ri :: rest' =>
      let '(res1, seg1) :=
        match seg with
        | rj :: _ =>
            if negb (key_eqb (r_gid rj) (r_gid ri))
            then ((if group_overrides ri then [] else res ++ seg), [])
            else (res, seg)
        | [] => (res, seg)
        end in
      let seg2 := if r_override ri then [] else seg1 in
      prepare_loop res1 (seg2 ++ [ri]) rest'
  end.
Definition prepare_rules_for_apply (rules : list rule) : list rule :=
  match rules with
  | [] => []
  | r0 :: rest => prepare_loop [] [r0] rest
  end.

Inductive berr := ENoRuleLeft | ENoRuleForRange | EMultipleLeaders | ENoVoterOrLeader.
Fixpoint check_apply_loop (leaders voters : Z) (rules : list rule) : option berr :=
  match rules with
  | [] => if leaders + voters <? 1 then Some ENoVoterOrLeader else None
  | r :: rest =>
      let leaders' := match r_role r with Leader => leaders + r_count r | _ => leaders end in
      let voters' := match r_role r with Voter => voters + r_count r | _ => voters end in
      if leaders' >? 1 then Some EMultipleLeaders else check_apply_loop leaders' voters' rest
  end.
Definition check_apply_rules := check_apply_loop 0 0.

(* ---------- buildRuleList ---------- *)
Inductive ptype := TStart | TEnd.
Record point := Point { p_typ : ptype; p_key : key; p_rule : rule }.
Record range := Range { rg_start : key; rg_rules : list rule; rg_apply : list rule }.

Definition points_of (rules : list rule) : list point :=
  flat_map (fun r => Point TStart (r_start r) r ::
                     (if is_nil (r_end r) then [] else [Point TEnd (r_end r) r])) rules.
(* sort.Slice by key only; which of several points with the same key comes first does not matter
   (proof/C13: sweep_order_irrelevant) *)
Definition sort_points := sort_by (fun a b => key_cmp (p_key a) (p_key b)).

(* sortedRules.insertRule: before the first element that compares greater *)
Fixpoint insert_rule (r : rule) (sr : list rule) : list rule :=
  match sr with
  | [] => [r]
  | x :: rest => match compare_rule x r with Gt => r :: sr | _ => x :: insert_rule r rest end
  end.
(* sortedRules.deleteRule: the first element with the same Key() *)
Fixpoint delete_rule (r : rule) (sr : list rule) : list rule :=
  match sr with
  | [] => []
  | x :: rest => if pair_eqb (rkey x) (rkey r) then rest else x :: delete_rule r rest
  end.
Definition apply_point (p : point) (sr : list rule) : list rule :=
  match p_typ p with TStart => insert_rule (p_rule p) sr | TEnd => delete_rule (p_rule p) sr end.

Fixpoint sweep (pts : list point) (sr : list rule) : berr + list range :=
  match pts with
  | [] => inr []
  | p :: rest =>
      let sr' := apply_point p sr in
      let emit := match rest with [] => true | q :: _ => negb (key_eqb (p_key p) (p_key q)) end in
      if emit then
        match sr' with
        | [] => inl ENoRuleForRange
        | _ =>
            let arr := prepare_rules_for_apply sr' in
            match check_apply_rules arr with
            | Some e => inl e
            | None => match sweep rest sr' with
                      | inl e => inl e
                      | inr l => inr (Range (p_key p) sr' arr :: l)
                      end
            end
        end
      else sweep rest sr'
  end.

Definition build_rule_list (rules : list rule) : berr + list range :=
  match points_of rules with
  | [] => inl ENoRuleLeft
  | pts =>
      let sp := sort_points pts in
      match sp with
      | p :: _ => if is_nil (p_key p) then sweep sp []
                  else inl ENoRuleForRange          (* keys before the first start key would have no rule *)
      | [] => inl ENoRuleLeft
      end
  end.

(* sort.Search(len(ranges), startKey > k): ranges are strictly ascending (proof/C13), so the first
   index with a greater start key; returned as (ranges before it reversed, ranges from it on) *)
Fixpoint search_gt (k : key) (before : list range) (rl : list range) : list range * list range :=
  match rl with
  | [] => (before, [])
  | g :: rest => if key_gtb (rg_start g) k then (before, rl) else search_gt k (g :: before) rest
  end.

Definition get_rules_by_key (rl : list range) (k : key) : list rule :=
  match fst (search_gt k [] rl) with
  | [] => []                         (* i == 0: nil *)
  | g :: _ => rg_rules g
  end.

Definition get_rules_for_apply_region (rl : list range) (s e : key) : option (list rule) :=
  let '(before, from) := search_gt s [] rl in
  match before with
  | [] => None
  | g :: _ =>
      match from with
      | [] => Some (rg_apply g)
      | nxt :: _ => if is_nil e || key_gtb e (rg_start nxt) then None else Some (rg_apply g)
      end
  end.

Fixpoint take_split (e : key) (rl : list range) : list key :=
  match rl with
  | [] => []
  | g :: rest => if is_nil e || key_ltb (rg_start g) e then rg_start g :: take_split e rest else []
  end.
Definition get_split_keys (rl : list range) (s e : key) : list key :=
  take_split e (snd (search_gt s [] rl)).

(* ---------- configuration, patch ---------- *)
Definition rmap := list ((id * id) * rule).
Definition gmap := list (id * group).
Record config := Config { c_rules : rmap; c_groups : gmap }.

Definition rget (k : id * id) (m : rmap) := mget pair_cmp k m.
Definition gget (k : id) (m : gmap) := mget key_cmp k m.

(* ruleConfig.adjust: drop default groups, create default groups for the rules, set r.group *)
Definition config_adjust (c : config) : config :=
  let groups0 := filter (fun kg => negb (is_default (snd kg))) (c_groups c) in
  let groups1 := fold_left (fun gs kr => match gget (r_gid (snd kr)) gs with
                                         | Some _ => gs
                                         | None => mset key_cmp (r_gid (snd kr)) (default_group (r_gid (snd kr))) gs
                                         end) (c_rules c) groups0 in
  Config (map (fun kr => (fst kr, set_group (snd kr) (gget (r_gid (snd kr)) groups1))) (c_rules c)) groups1.

Record patch := Patch { m_rules : list ((id * id) * option rule); m_groups : gmap }.
Definition empty_patch := Patch [] [].
Definition p_set_rule (r : rule) (p : patch) : patch := Patch (mset pair_cmp (rkey r) (Some r) (m_rules p)) (m_groups p).
Definition p_delete_rule (g i : id) (p : patch) : patch := Patch (mset pair_cmp (g, i) None (m_rules p)) (m_groups p).
Definition p_set_group (g : group) (p : patch) : patch := Patch (m_rules p) (mset key_cmp (g_id g) g (m_groups p)).
Definition p_delete_group (gid : id) (p : patch) : patch := p_set_group (default_group gid) p.

Definition p_get_group (c : config) (p : patch) (gid : id) : group :=
  match gget gid (m_groups p) with
  | Some g => g
  | None => match gget gid (c_groups c) with Some g => g | None => default_group gid end
  end.

(* patch.adjust(): every rule visible through the patch is re-pointed — the served ones in place *)
Definition patch_adjust (c : config) (p : patch) : config * patch :=
  let repoint r := set_group r (Some (p_get_group c p (r_gid r))) in
  (Config (map (fun kr => match mget pair_cmp (fst kr) (m_rules p) with
                          | Some _ => kr                                     (* overwritten: not iterated *)
                          | None => (fst kr, repoint (snd kr))
                          end) (c_rules c)) (c_groups c),
   Patch (map (fun kr => (fst kr, option_map repoint (snd kr))) (m_rules p)) (m_groups p)).

(* patch.iterateRules *)
Definition patch_view (c : config) (p : patch) : list rule :=
  flat_map (fun kr => match snd kr with Some r => [r] | None => [] end) (m_rules p) ++
  flat_map (fun kr => match mget pair_cmp (fst kr) (m_rules p) with Some _ => [] | None => [snd kr] end) (c_rules c).

Definition opt_rule_json_eqb (a b : option rule) : bool :=
  match a, b with Some x, Some y => rule_json_eqb x y | None, None => true | _, _ => false end.
Definition c_get_group (c : config) (gid : id) : group :=
  match gget gid (c_groups c) with Some g => g | None => default_group gid end.
Definition patch_trim (c : config) (p : patch) : patch :=
  Patch (filter (fun kr => negb (opt_rule_json_eqb (snd kr) (rget (fst kr) (c_rules c)))) (m_rules p))
        (filter (fun kg => negb (group_eqb (snd kg) (c_get_group c (fst kg)))) (m_groups p)).

Definition patch_commit (c : config) (p : patch) : config :=
  let rules' := fold_left (fun m kr => match snd kr with
                                       | None => mdel pair_cmp (fst kr) m
                                       | Some r => mset pair_cmp (fst kr) r m
                                       end) (m_rules p) (c_rules c) in
  let groups' := fold_left (fun m kg => mset key_cmp (fst kg) (snd kg) m) (m_groups p) (c_groups c) in
  config_adjust (Config rules' groups').

(* ---------- storage ---------- *)
Inductive sval := SVRule (r : rule) | SVGarbage.
Record storage := Storage { s_rules : list ((id * id) * sval); s_groups : gmap }.

Inductive wref := WRule (g i : id) | WGroup (g : id).
Definition wref_eqb (a b : wref) : bool :=
  match a, b with
  | WRule g i, WRule g' i' => pair_eqb (g, i) (g', i')
  | WGroup g, WGroup g' => key_eqb g g'
  | _, _ => false
  end.

(* one write of savePatch, as (reference, effect on the storage) *)
Definition apply_rule_write (kr : (id * id) * option rule) (s : storage) : storage :=
  match snd kr with
  | None => Storage (mdel pair_cmp (fst kr) (s_rules s)) (s_groups s)
  | Some r => Storage (mset pair_cmp (fst kr) (SVRule (set_group r None)) (s_rules s)) (s_groups s)
  end.
Definition apply_group_write (kg : id * group) (s : storage) : storage :=
  if is_default (snd kg) then Storage (s_rules s) (mdel key_cmp (fst kg) (s_groups s))
  else Storage (s_rules s) (mset key_cmp (fst kg) (snd kg) (s_groups s)).

Inductive fmode := FailBefore | FailAfter.
Definition fault := option (nat * fmode).       (* the n-th write (1-based) of the operation fails *)

(* savePatch, following the write order the implementation used (map iteration order).
   Result: storage, failed?, and whether the recorded order is one savePatch can produce. *)
Fixpoint save_writes (p : patch) (order : list wref) (n : nat) (f : fault) (s : storage) (seen : list wref)
  : storage * bool * bool :=
  match order with
  | [] => (s, false, true)
  | w :: rest =>
      if existsb (wref_eqb w) seen then (s, false, false) else
      let eff := match w with
                 | WRule g i => option_map (fun v => apply_rule_write ((g, i), v)) (mget pair_cmp (g, i) (m_rules p))
                 | WGroup g => option_map (fun v => apply_group_write (g, v)) (mget key_cmp g (m_groups p))
                 end in
      match eff with
      | None => (s, false, false)
      | Some ap =>
          match f with
          | Some (k, FailBefore) => if Nat.eqb k n then (s, true, is_nil rest) else
                                      save_writes p rest (S n) f (ap s) (w :: seen)
          | Some (k, FailAfter) => if Nat.eqb k n then (ap s, true, is_nil rest) else
                                     save_writes p rest (S n) f (ap s) (w :: seen)
          | None => save_writes p rest (S n) f (ap s) (w :: seen)
          end
      end
  end.

Definition is_wrule (w : wref) : bool := match w with WRule _ _ => true | _ => false end.
(* rules first, then groups *)
Fixpoint rules_then_groups (order : list wref) (in_groups : bool) : bool :=
  match order with
  | [] => true
  | w :: rest => if is_wrule w then negb in_groups && rules_then_groups rest false else rules_then_groups rest true
  end.

(* every write of the (trimmed) patch, rules first; the keys are pairwise different, so the storage a
   complete savePatch leaves does not depend on the order Go's map iteration picked *)
Definition save_all (p : patch) (s : storage) : storage :=
  fold_left (fun s kg => apply_group_write kg s) (m_groups p)
            (fold_left (fun s kr => apply_rule_write kr s) (m_rules p) s).

Definition save_patch (p : patch) (order : list wref) (f : fault) (s : storage) : storage * bool * bool :=
  let '(s_along, failed, ok) := save_writes p order 1 f s [] in
  let total := (length (m_rules p) + length (m_groups p))%nat in
  let nrules := length (filter is_wrule order) in
  let complete := if failed then (* everything before the failing write was issued; rules all before groups *)
                    (nrules =? length (m_rules p))%nat || (nrules =? length order)%nat
                  else (length order =? total)%nat in
  ((if failed then s_along else save_all p s), failed, ok && complete && rules_then_groups order false).

(* ---------- the manager ---------- *)
Record manager := Manager { m_conf : config; m_list : list range }.

Inductive err := EContent | EBuild | EStorage | ENotInit | EOther (* an error code the model never produces *).

(* adjustRule (keyType "", no store set informer): content checks only *)
Definition adjust_rule (r : rule) (bundle_gid : option id) : option rule :=
  if negb (r_wellformed r) then None else
  if negb (is_nil (r_end r)) && negb (key_gtb (r_end r) (r_start r)) then None else
  let r1 := match bundle_gid with
            | Some g => if is_nil g then Some r
                        else if is_nil (r_gid r) then Some (set_gid r g)
                        else if key_eqb g (r_gid r) then Some r else None
            | None => Some r
            end in
  match r1 with
  | None => None
  | Some r =>
      if is_nil (r_gid r) || is_nil (r_id r) then None else
      match r_role r with BadRole => None | _ =>
        if r_count r <=? 0 then None else
        match r_role r with
        | Leader => if r_count r >? 1 then None else Some r
        | _ => Some r
        end
      end
  end.

Definition berr_to_err (e : berr) : err := EBuild.

(* checkGroupID (fix 37320b1): the ID must survive path.Join("rule_group", id): not empty, no empty, "." or ".."
   element (so no leading, trailing or doubled slash) *)
Fixpoint split_slash (cur : list N) (s : list N) : list (list N) :=
  match s with
  | [] => [rev cur]
  | c :: r => if (c =? 47)%N then rev cur :: split_slash [] r else split_slash (c :: cur) r
  end.
Definition seg_ok (seg : list N) : bool :=
  negb (is_nil seg) && negb (key_eqb seg [46%N]) && negb (key_eqb seg [46%N; 46%N]).
Definition gid_ok (g : id) : bool := forallb seg_ok (split_slash [] g).

(* tryCommitPatch.  Returns the new manager and storage, and the outcome. *)
Definition try_commit (m : manager) (s : storage) (p : patch) (order : list wref) (f : fault)
  : manager * storage * (option err) * bool (* recorded write order admissible *) :=
  let '(c1, p1) := patch_adjust (m_conf m) p in
  match build_rule_list (patch_view c1 p1) with
  | inl e => (Manager (config_adjust c1) (m_list m), s, Some (berr_to_err e), is_nil order)   (* m.ruleConfig.adjust() *)
  | inr rl =>
      let p2 := patch_trim c1 p1 in
      let '(s', failed, ok) := save_patch p2 order f s in
      if failed then (Manager (config_adjust c1) (m_list m), s', Some EStorage, ok)       (* m.ruleConfig.adjust() *)
      else (Manager (patch_commit c1 p2) rl, s', None, ok)
  end.

(* ---------- updates ---------- *)
Inductive bop := BAdd (r : rule) | BDel (g i : id) (by_prefix : bool).
Record bundle := Bundle { b_id : id; b_index : Z; b_override : bool; b_rules : list rule }.
Inductive update :=
| USetRule (r : rule) | UDeleteRule (g i : id) | USetRules (rs : list rule) | UBatch (ops : list bop)
| USetGroup (g : group) | UDeleteGroup (gid : id)
| USetBundle (b : bundle) | USetAllBundles (bs : list bundle) (override : bool) | UDeleteBundle (gid : id)
(* the update is issued while the store set is such that the rules with these version numbers match no store
   (RuleManager has a StoreSetInformer with at least one store): adjustRule refuses such a rule from a client.
   Only clients are checked: loadRules does not look at the stores (fix of the load path), so what a leader
   accepted is served by every later leader whatever became of the stores. *)
| UWithStores (unmatched : list Z) (u : update).

Fixpoint adjust_all (rs : list rule) (bundle_gid : option id) : option (list rule) :=
  match rs with
  | [] => Some []
  | r :: rest => match adjust_rule r bundle_gid with
                 | None => None
                 | Some r' => match adjust_all rest bundle_gid with Some l => Some (r' :: l) | None => None end
                 end
  end.

Definition bundle_patch (b : bundle) (p : patch) : option patch :=
  match adjust_all (b_rules b) (Some (b_id b)) with
  | None => None
  | Some rs => Some (fold_left (fun p r => p_set_rule r p) rs (p_set_group (Group (b_id b) (b_index b) (b_override b)) p))
  end.

(* the patch an update builds from the served configuration; None = rejected by adjustRule *)
Definition added_rules (u : update) : list rule :=
  match u with
  | USetRule r => [r]
  | USetRules rs => rs
  | UBatch ops => flat_map (fun o => match o with BAdd r => [r] | _ => [] end) ops
  | USetBundle b => b_rules b
  | USetAllBundles bs _ => flat_map b_rules bs
  | _ => []
  end.

Fixpoint make_patch (c : config) (u : update) {struct u} : option patch :=
  match u with
  | UWithStores unmatched u' =>
      if existsb (fun r => existsb (Z.eqb (r_ver r)) unmatched) (added_rules u') then None else make_patch c u'
  | USetRule r => option_map (fun r' => p_set_rule r' empty_patch) (adjust_rule r None)
  | UDeleteRule g i => Some (p_delete_rule g i empty_patch)
  | USetRules rs => option_map (fun rs' => fold_left (fun p r => p_set_rule r p) rs' empty_patch) (adjust_all rs None)
  | UBatch ops =>
      let adds := flat_map (fun o => match o with BAdd r => [r] | _ => [] end) ops in
      match adjust_all adds None with
      | None => None
      | Some _ =>
          Some (fold_left (fun p o =>
                  match o with
                  | BAdd r => match adjust_rule r None with Some r' => p_set_rule r' p | None => p end
                  | BDel g i false => p_delete_rule g i p
                  | BDel g i true =>
                      fold_left (fun p kr => if key_eqb (r_gid (snd kr)) g && is_prefix i (r_id (snd kr))
                                             then p_delete_rule (r_gid (snd kr)) (r_id (snd kr)) p else p)
                                (c_rules c) p
                  end) ops empty_patch)
      end
  | USetGroup g => if gid_ok (g_id g) then Some (p_set_group g empty_patch) else None
  | UDeleteGroup gid => Some (p_delete_group gid empty_patch)
  | USetBundle b =>
      if negb (gid_ok (b_id b)) then None else
      let p0 := match gget (b_id b) (c_groups c) with
                | Some _ => fold_left (fun p kr => if key_eqb (fst (fst kr)) (b_id b)
                                                   then p_delete_rule (fst (fst kr)) (snd (fst kr)) p else p)
                                      (c_rules c) empty_patch
                | None => empty_patch
                end in
      bundle_patch b p0
  | USetAllBundles bs override =>
      if negb (forallb (fun b => gid_ok (b_id b)) bs) then None else
      let matches g := existsb (fun b => key_eqb (b_id b) g) bs in
      let p0 := fold_left (fun p kr => if override || matches (fst (fst kr))
                                       then p_delete_rule (fst (fst kr)) (snd (fst kr)) p else p) (c_rules c) empty_patch in
      let p1 := fold_left (fun p kg => if override || matches (fst kg) then p_delete_group (fst kg) p else p) (c_groups c) p0 in
      fold_left (fun op b => match op with Some p => bundle_patch b p | None => None end) bs (Some p1)
  | UDeleteBundle gid =>
      let p0 := fold_left (fun p kr => if key_eqb (fst (fst kr)) gid
                                       then p_delete_rule (fst (fst kr)) (snd (fst kr)) p else p) (c_rules c) empty_patch in
      Some (fold_left (fun p kg => if key_eqb (fst kg) gid then p_delete_group (fst kg) p else p) (c_groups c) p0)
  end.

(* ---------- Initialize (loadRules with the key-repair path, loadGroups, default rule) ---------- *)
Definition default_rule (max_replicas : Z) : rule :=
  Rule Gen_C13.default_group_id Gen_C13.default_rule_id 0 false [] [] Voter max_replicas 0 true None.

Record loadacc := LoadAcc { la_rules : rmap; la_save : list rule; la_delete : list (id * id) }.
Definition load_rules (s : storage) : loadacc :=
  fold_left (fun acc kv =>
    match snd kv with
    | SVGarbage => LoadAcc (la_rules acc) (la_save acc) (la_delete acc ++ [fst kv])
    | SVRule r0 =>
        match adjust_rule r0 None with
        | None => LoadAcc (la_rules acc) (la_save acc) (la_delete acc ++ [fst kv])
        | Some r =>
            match rget (rkey r) (la_rules acc) with
            | Some _ => LoadAcc (la_rules acc) (la_save acc) (la_delete acc ++ [fst kv])
            | None =>
                if pair_eqb (fst kv) (rkey r)
                then LoadAcc (mset pair_cmp (rkey r) r (la_rules acc)) (la_save acc) (la_delete acc)
                else LoadAcc (mset pair_cmp (rkey r) r (la_rules acc)) (la_save acc ++ [r]) (la_delete acc ++ [fst kv])
            end
        end
    end) (s_rules s) (LoadAcc [] [] []).

(* loadRules: what it serves, and the storage after its repairs (saves first, then the deletions that do not
   hit a key just rewritten) *)
Definition load_repairs (s : storage) : loadacc * storage :=
  let acc := load_rules s in
  let s1 := fold_left (fun s r => apply_rule_write (rkey r, Some r) s) (la_save acc) s in
  (* a key that was just rewritten with the rule served under it is not deleted (fix of the repair path) *)
  let s2 := fold_left (fun s k => apply_rule_write (k, None) s)
                      (filter (fun k => negb (existsb (fun r => pair_eqb k (rkey r)) (la_save acc))) (la_delete acc)) s1 in
  (acc, s2).

(* Initialize starts from an empty configuration (fix 7c6ce3c: also when an earlier attempt on the same
   manager failed half-way) *)
Definition initialize (s : storage) (max_replicas : Z) : (manager + err) * storage :=
  let '(acc, s2) := load_repairs s in
  let groups := s_groups s2 in
  let '(rules, s3) :=
    match la_rules acc with
    | [] => let d := default_rule max_replicas in
            ([(rkey d, d)], apply_rule_write (rkey d, Some d) s2)
    | rs => (rs, s2)
    end in
  let c := config_adjust (Config rules groups) in
  match build_rule_list (map snd (c_rules c)) with
  | inl e => (inr EBuild, s3)
  | inr rl => (inl (Manager c rl), s3)
  end.

(* ================= the state machine the driver runs ================= *)
Record state := State { st_live : option manager; st_store : storage }.
Definition init_state := State None (Storage [] []).

Inductive op :=
| ORestart (max_replicas : Z)                              (* a fresh RuleManager, Initialize from the storage *)
| OUpdate (u : update) (f : fault) (worder : list wref)    (* worder = the storage writes the implementation issued *)
| ORetry (u : update) (worder : list wref)                 (* the client repeats the update that just failed with a storage error *)
| OInitFail (in_groups : bool)                             (* a fresh manager's Initialize hits a storage read error: in loadRules' scan
                                                              (nothing happened yet) or in loadGroups' (loadRules' repairs are done) *)
| OInitAgain (max_replicas : Z)                            (* Initialize is called again on that same manager *)
| OCorruptRule (k : id * id) (v : sval)                    (* somebody else writes into rules/<k> *)
| OCorruptDrop (k : id * id).

(* observers *)
Definition r3 := Z.                                        (* a rule is reported by its version number (unique per rule object) *)
Definition rule3 (r : rule) : r3 := r_ver r.
Record dump := Dump {
  d_all : list r3;                                         (* GetAllRules *)
  d_groups : list (id * Z * bool);                         (* GetRuleGroups *)
  d_by_key : list (list r3);                               (* GetRulesByKey for the probe keys *)
  d_apply : list (option (list r3));                       (* GetRulesForApplyRegion for the probe regions *)
  d_split : list (list key)                                (* GetSplitKeys for the probe regions *)
}.

(* fixed probes (the driver uses the same lists): the boundary pool "", 10, 20, 2010, 30, 40, 50 (hex)
   and keys between / beyond them *)
Definition probe_keys : list key :=
  [[]; [5]; [16]; [24]; [32]; [32;5]; [32;16]; [40]; [48]; [56]; [64]; [72]; [80]; [96]]%N.
Definition probe_regions : list (key * key) :=
  [([], [16]); ([16], [32]); ([32], [32;16]); ([32;16], [48]); ([48], [64]); ([64], [80]); ([80], []);
   ([], []); ([16], [48]); ([24], [28]); ([32], [48]); ([56], []); ([5], [16]); ([16], [24])]%N.

Definition group_order (a b : id * group) : comparison :=
  lexc (Z.compare (g_index (snd a)) (g_index (snd b))) (key_cmp (g_id (snd a)) (g_id (snd b))).

Definition dump_of (m : manager) : dump :=
  Dump (map rule3 (sort_rules (map snd (c_rules (m_conf m)))))
       (map (fun kg => (g_id (snd kg), g_index (snd kg), g_override (snd kg))) (sort_by group_order (c_groups (m_conf m))))
       (map (fun k => map rule3 (get_rules_by_key (m_list m) k)) probe_keys)
       (map (fun se => option_map (map rule3) (get_rules_for_apply_region (m_list m) (fst se) (snd se))) probe_regions)
       (map (fun se => get_split_keys (m_list m) (fst se) (snd se)) probe_regions).

Inductive res := ROk | RErr (e : err) | RBadOrder.
(* after every operation: its result, the dump of the live manager, and the dump of a second manager
   initialised from a copy of the storage (None = that Initialize failed) *)
Record obs := Obs { o_res : res; o_live : option dump; o_reload : option dump }.
(* what the driver prints: a dump that is textually equal to the previous live dump (for the live
   manager) / to this step's live dump (for the reloaded manager) is printed as DSame *)
(* DSkip: not observable (the state between two overlapping updates, before the second one runs on):
   the model's own value stands in for it *)
Inductive dref := DSame | DNone | DVal (d : dump) | DSkip.
Record pobs := PObs { p_res : res; p_live : dref; p_reload : dref }.
Definition deref (same skip : option dump) (r : dref) : option dump :=
  match r with DSame => same | DNone => None | DVal d => Some d | DSkip => skip end.
Fixpoint expand (prev : option dump) (l : list pobs) (ms : list obs) : list obs :=
  match l with
  | [] => []
  | p :: rest =>
      let m := hd_error ms in
      let live := deref prev (match m with Some x => o_live x | None => None end) (p_live p) in
      Obs (p_res p) live (deref live (match m with Some x => o_reload x | None => None end) (p_reload p))
      :: expand live rest (tl ms)
  end.

Definition reload_dump (s : storage) : option dump :=
  match fst (initialize s 3) with inl m => Some (dump_of m) | inr _ => None end.

Definition observe (r : res) (st : state) : obs :=
  Obs r (option_map dump_of (st_live st)) (reload_dump (st_store st)).

Definition step_update (st : state) (u : update) (f : fault) (worder : list wref) : state * obs :=
  match st_live st with
  | None => (st, observe (RErr ENotInit) st)
  | Some m =>
      match make_patch (m_conf m) u with
      | None => (st, observe (if is_nil worder then RErr EContent else RBadOrder) st)
      | Some p =>
          let '(m', s', e, ok) := try_commit m (st_store st) p worder f in
          let st' := State (Some m') s' in
          (st', observe (if ok then match e with Some e => RErr e | None => ROk end else RBadOrder) st')
      end
  end.

Definition step (st : state) (o : op) : state * obs :=
  match o with
  | ORestart mr =>
      let '(r, s') := initialize (st_store st) mr in
      match r with
      | inl m => let st' := State (Some m) s' in (st', observe ROk st')
      | inr e => let st' := State None s' in (st', observe (RErr e) st')
      end
  | OUpdate u f worder => step_update st u f worder
  | ORetry u worder => step_update st u None worder
  | OInitFail in_groups =>
      let st' := State None (if in_groups then snd (load_repairs (st_store st)) else st_store st) in
      (st', observe (RErr EStorage) st')
  | OInitAgain mr =>
      let '(r, s') := initialize (st_store st) mr in
      match r with
      | inl m => let st' := State (Some m) s' in (st', observe ROk st')
      | inr e => let st' := State None s' in (st', observe (RErr e) st')
      end
  | OCorruptRule k v =>
      let v' := match v with SVRule r => SVRule (set_group r None) | SVGarbage => SVGarbage end in
      let st' := State (st_live st) (Storage (mset pair_cmp k v' (s_rules (st_store st))) (s_groups (st_store st))) in
      (st', observe ROk st')
  | OCorruptDrop k =>
      let st' := State (st_live st) (Storage (mdel pair_cmp k (s_rules (st_store st))) (s_groups (st_store st))) in
      (st', observe ROk st')
  end.

(* ================= correspondence ================= *)
Definition model_obs (ops : list op) : list obs := run step init_state ops.

Definition keyl_eqb := list_eqb key_eqb.
Definition r3_eqb (a b : r3) : bool := (a =? b).
Definition r3l_eqb := list_eqb r3_eqb.
Definition g3_eqb (a b : id * Z * bool) : bool :=
  let '(g1, i1, o1) := a in let '(g2, i2, o2) := b in key_eqb g1 g2 && (i1 =? i2) && Bool.eqb o1 o2.
Definition dump_eqb (a b : dump) : bool :=
  r3l_eqb (d_all a) (d_all b) && list_eqb g3_eqb (d_groups a) (d_groups b)
  && list_eqb r3l_eqb (d_by_key a) (d_by_key b)
  && list_eqb (opt_eqb r3l_eqb) (d_apply a) (d_apply b)
  && list_eqb keyl_eqb (d_split a) (d_split b).
Definition err_eqb (a b : err) : bool :=
  match a, b with EContent, EContent | EBuild, EBuild | EStorage, EStorage | ENotInit, ENotInit | EOther, EOther => true | _, _ => false end.
Definition res_eqb (a b : res) : bool :=
  match a, b with ROk, ROk | RBadOrder, RBadOrder => true | RErr x, RErr y => err_eqb x y | _, _ => false end.
Definition obs_eqb (a b : obs) : bool :=
  res_eqb (o_res a) (o_res b) && opt_eqb dump_eqb (o_live a) (o_live b) && opt_eqb dump_eqb (o_reload a) (o_reload b).

Definition check_case (c : list op * list pobs) :=
  let ms := model_obs (fst c) in diff_at obs_eqb 0 ms (expand None (snd c) ms).
Fixpoint mismatches_from (n : nat) (cs : list (list op * list pobs)) :=
  match cs with
  | [] => []
  | c :: r => match check_case c with
              | [] => mismatches_from (S n) r
              | d => (n, d) :: mismatches_from (S n) r
              end
  end.
Definition mismatches := mismatches_from 0.

(* ================= monitor: the property on the implementation's own trace ================= *)
Local Open Scope string_scope.
Local Open Scope list_scope.

(* every rule content that occurs in the operations of a case (plus the default rule) *)
Definition rules_of_update (u : update) : list rule :=
  match u with
  | USetRule r => [r]
  | USetRules rs => rs
  | UBatch ops => flat_map (fun o => match o with BAdd r => [r] | _ => [] end) ops
  | USetBundle b => map (fun r => if is_nil (r_gid r) then set_gid r (b_id b) else r) (b_rules b)
  | USetAllBundles bs _ => flat_map (fun b => map (fun r => if is_nil (r_gid r) then set_gid r (b_id b) else r) (b_rules b)) bs
  | UWithStores _ u' => (fix go (u : update) : list rule :=
                           match u with
                           | USetRule r => [r]
                           | USetRules rs => rs
                           | UBatch ops => flat_map (fun o => match o with BAdd r => [r] | _ => [] end) ops
                           | USetBundle b => map (fun r => if is_nil (r_gid r) then set_gid r (b_id b) else r) (b_rules b)
                           | USetAllBundles bs _ => flat_map (fun b => map (fun r => if is_nil (r_gid r) then set_gid r (b_id b) else r) (b_rules b)) bs
                           | UWithStores _ u'' => go u''
                           | _ => []
                           end) u'
  | _ => []
  end.
Definition rules_of_op (o : op) : list rule :=
  match o with
  | ORestart mr => [default_rule mr]
  | OInitAgain mr => [default_rule mr]
  | OUpdate u _ _ => rules_of_update u
  | ORetry u _ => rules_of_update u
  | OCorruptRule _ (SVRule r) => [r]
  | _ => []
  end.

Definition find_rule (known : list rule) (x : r3) : option rule :=
  find (fun r => r3_eqb (rule3 r) x) known.

(* the served configuration as the implementation reports it: GetAllRules resolved to contents, each
   rule given the group GetRuleGroups reports for it (a group that is not listed is the default group) *)
Definition resolve_config (known : list rule) (d : dump) : option (list rule) :=
  let groups := map (fun g => let '(i, x, o) := g in (i, Group i x o)) (d_groups d) in
  let fix go (l : list r3) : option (list rule) :=
      match l with
      | [] => Some []
      | x :: rest =>
          match find_rule known x, go rest with
          | Some r, Some rs =>
              let g := match find (fun kg => key_eqb (fst kg) (r_gid r)) groups with
                       | Some kg => snd kg | None => default_group (r_gid r) end in
              Some (set_group r (Some g) :: rs)
          | _, _ => None
          end
      end in
  go (d_all d).

Definition covers (r : rule) (k : key) : bool :=
  negb (key_gtb (r_start r) k) && (is_nil (r_end r) || key_ltb k (r_end r)).

(* boundaries = start keys and non-empty end keys *)
Definition boundaries (rules : list rule) : list key :=
  flat_map (fun r => r_start r :: (if is_nil (r_end r) then [] else [r_end r])) rules.

Definition expected_by_key (rules : list rule) (k : key) : list rule :=
  sort_rules (filter (fun r => covers r k) rules).

Definition valid_rule_set (rs : list rule) : bool :=
  match rs with
  | [] => false
  | _ => match check_apply_rules (prepare_rules_for_apply rs) with None => true | Some _ => false end
  end.

Definition inside_one_segment (rules : list rule) (s e : key) : bool :=
  negb (existsb (fun b => key_gtb b s && (is_nil e || key_ltb b e)) (boundaries rules)).

Definition expected_split (rules : list rule) (s e : key) : list key :=
  let bs := filter (fun b => key_gtb b s && (is_nil e || key_ltb b e)) (boundaries rules) in
  (* sorted, without duplicates *)
  fold_right (fun b acc => match acc with
                           | x :: _ => if key_eqb b x then acc else b :: acc
                           | [] => [b]
                           end) [] (sort_by key_cmp bs).

Fixpoint zip_check {A B} (f : A -> B -> bool) (l1 : list A) (l2 : list B) : bool :=
  match l1, l2 with
  | [], [] => true
  | a :: r1, b :: r2 => f a b && zip_check f r1 r2
  | _, _ => false
  end.

(* the index clauses on one dump *)
Definition monitor_index (known : list rule) (d : dump) : list string :=
  match resolve_config known d with
  | None => ["C13:served-rule-of-unknown-content"]
  | Some rules =>
      (if zip_check (fun k got => r3l_eqb (map rule3 (expected_by_key rules k)) got) probe_keys (d_by_key d)
       then [] else ["C13:GetRulesByKey-not-the-rules-containing-the-key"]) ++
      (if zip_check (fun se got =>
                       let exp := if inside_one_segment rules (fst se) (snd se)
                                  then match expected_by_key rules (fst se) with
                                       | [] => None
                                       | rs => Some (map rule3 (prepare_rules_for_apply rs))
                                       end
                                  else None in
                       opt_eqb r3l_eqb exp got) probe_regions (d_apply d)
       then [] else ["C13:GetRulesForApplyRegion-not-the-segment-rules"]) ++
      (if zip_check (fun se got => keyl_eqb (expected_split rules (fst se) (snd se)) got) probe_regions (d_split d)
       then [] else ["C13:GetSplitKeys-not-the-boundaries-inside"])
  end.

Definition monitor_coverage (known : list rule) (d : dump) : list string :=
  match resolve_config known d with
  | None => []
  | Some rules =>
      if forallb (fun k => valid_rule_set (expected_by_key rules k)) probe_keys then []
      else if forallb (fun k => negb (is_nil (expected_by_key rules k))) probe_keys
           then ["C13:accepted-update-leaves-key-without-voter-or-with-several-leaders"]
           else ["C13:accepted-update-leaves-key-without-rule"]
  end.

Definition dump_diff (tag : string) (a b : dump) : list string :=
  (if r3l_eqb (d_all a) (d_all b) then [] else [(tag ++ "GetAllRules")%string]) ++
  (if list_eqb g3_eqb (d_groups a) (d_groups b) then [] else [(tag ++ "GetRuleGroups")%string]) ++
  (if list_eqb r3l_eqb (d_by_key a) (d_by_key b) then [] else [(tag ++ "GetRulesByKey")%string]) ++
  (if list_eqb (opt_eqb r3l_eqb) (d_apply a) (d_apply b) then [] else [(tag ++ "GetRulesForApplyRegion")%string]) ++
  (if list_eqb keyl_eqb (d_split a) (d_split b) then [] else [(tag ++ "GetSplitKeys")%string]).

(* ---------- frame: an accepted update removes, replaces and adds only what it names ----------
   Judged on the implementation's own answers (GetAllRules / GetRuleGroups before and after), without the
   model: a rule that is no longer served must have the key of a rule the update carries, or be named by a
   deletion (its key; its group and a prefix of its id; its group, for the bundle operations; "all" for a
   full replacement); group ids are compared for EQUALITY (a plain id is not a pattern). A rule that appears
   must be one the update carries. A group configuration other than the default one is changed or dropped
   only for a group the update names. *)
Definition names_group (u : update) (g : id) : bool :=
  (fix go (u : update) : bool :=
     match u with
     | USetGroup x => key_eqb (g_id x) g
     | UDeleteGroup x => key_eqb x g
     | USetBundle b => key_eqb (b_id b) g
     | USetAllBundles bs ov => ov || existsb (fun b => key_eqb (b_id b) g) bs
     | UDeleteBundle x => key_eqb x g
     | UWithStores _ u' => go u'
     | _ => false
     end) u.

Definition names_key (u : update) (g i : id) : bool :=
  existsb (fun x => key_eqb (r_gid x) g && key_eqb (r_id x) i) (rules_of_update u) ||
  (fix go (u : update) : bool :=
     match u with
     | UDeleteRule g' i' => key_eqb g' g && key_eqb i' i
     | UBatch ops => existsb (fun o => match o with
                                       | BDel g' i' false => key_eqb g' g && key_eqb i' i
                                       | BDel g' i' true => key_eqb g' g && is_prefix i' i
                                       | BAdd _ => false
                                       end) ops
     | USetBundle b => key_eqb (b_id b) g
     | USetAllBundles bs ov => ov || existsb (fun b => key_eqb (b_id b) g) bs
     | UDeleteBundle g' => key_eqb g' g
     | UWithStores _ u' => go u'
     | _ => false
     end) u.
Definition names_rule (u : update) (r : rule) : bool := names_key u (r_gid r) (r_id r).

Definition g3_default (g : id * Z * bool) : bool := let '(_, x, o) := g in (x =? 0)%Z && negb o.

Definition monitor_frame (known : list rule) (u : update) (p l : dump) : list string :=
  let gone := filter (fun x => negb (existsb (r3_eqb x) (d_all l))) (d_all p) in
  let come := filter (fun x => negb (existsb (r3_eqb x) (d_all p))) (d_all l) in
  (if forallb (fun x => match find_rule known x with Some r => names_rule u r | None => true end) gone
   then [] else ["C13:accepted-update-removed-a-rule-it-does-not-name"]) ++
  (if forallb (fun x => existsb (fun r => r3_eqb (rule3 r) x) (rules_of_update u)) come
   then [] else ["C13:accepted-update-added-a-rule-it-does-not-carry"]) ++
  (let changed a b := filter (fun g => negb (g3_default g) && negb (existsb (g3_eqb g) b)) a in
   if forallb (fun g => names_group u (fst (fst g))) (changed (d_groups p) (d_groups l) ++ changed (d_groups l) (d_groups p))
   then [] else ["C13:accepted-update-changed-a-group-it-does-not-name"]).

Definition is_fault_free (o : op) : bool :=
  match o with
  | OUpdate _ None _ => true
  | ORestart _ => true
  | _ => false
  end.

(* walk the trace: prev = live dump before the step; clean = storage and served state are expected to
   agree (no storage fault / foreign write since the last point where they did); retryable = the previous
   step was a storage failure of an update issued from a clean state *)
(* records that a restart must serve, whoever wrote them (a member of a previous version, an operator): a rule
   with acceptable content stored under its own key, while every other record is under its own key too
   (`repaired`: true on the empty storage and after a successful Initialize, false once a rule is stored under
   a foreign key - such a record may claim the key first).  Updates in between reset the list (they may
   replace or delete the record). *)
Definition content_acceptable (r : rule) : bool := match adjust_rule r None with Some _ => true | None => false end.
Definition without_key (k : id * id) (l : list rule) : list rule := filter (fun x => negb (pair_eqb (rkey x) k)) l.
Definition pending_step (o : op) (ok_res repaired : bool) (pending : list rule) : bool * list rule :=
  match o with
  | OCorruptRule k (SVRule r) =>
      if pair_eqb k (rkey r)
      then (repaired, if repaired && content_acceptable r then r :: without_key k pending else without_key k pending)
      else (false, [])
  | OCorruptRule k SVGarbage => (repaired, without_key k pending)
  | OCorruptDrop k => (repaired, without_key k pending)
  | ORestart _ | OInitAgain _ => (ok_res, [])
  | _ => (repaired, [])
  end.

Fixpoint monitor_walk (known : list rule) (prev : option dump) (clean retryable repaired : bool) (pending : list rule) (ops : list op) (obs_l : list obs) : list string :=
  match ops, obs_l with
  | o :: ops', b :: obs' =>
      let ok_res := match o_res b with ROk => true | _ => false end in
      (* the planned fault was hit: the implementation issued at least n writes *)
      let fault_hit := match o with
                       | OUpdate _ (Some (n, _)) w => (n <=? length w)%nat
                       | _ => false
                       end in
      let clean' := match o with
                    | ORestart _ | OInitAgain _ => ok_res           (* Initialize re-synchronises storage and served state *)
                    | ORetry _ _ => retryable && ok_res
                    | OUpdate _ (Some _) _ => clean && ok_res     (* acknowledged: must be durable, fault or not *)
                    | _ => clean && is_fault_free o
                    end in
      let retryable' := match o, o_res b with
                        | OUpdate _ (Some _) _, RErr EStorage => clean
                        | ORetry _ _, RErr EStorage => retryable
                        | _, _ => false
                        end in
      let here :=
        match o, o_res b, prev, o_live b with
        | OUpdate _ _ _, RErr EStorage, Some p, Some l => dump_diff "C13:failed-save-changed-" p l
        | OUpdate _ _ _, RErr _, Some p, Some l => dump_diff "C13:rejected-update-changed-" p l
        | ORetry _ _, RErr _, Some p, Some l => dump_diff "C13:rejected-update-changed-" p l
        | OUpdate u _ _, ROk, pv, Some l =>
            (if fault_hit then ["C13:acknowledged-with-failed-write"] else []) ++
            (match pv with Some p => monitor_frame known u p l | None => [] end) ++
            monitor_index known l ++ monitor_coverage known l ++
            (if clean' then match o_reload b with
                            | Some r => dump_diff "C13:restart-loads-different-" l r
                            | None => ["C13:restart-fails-after-accepted-update"]
                            end else [])
        | ORetry u _, ROk, pv, Some l =>
            (match pv with Some p => monitor_frame known u p l | None => [] end) ++
            monitor_index known l ++ monitor_coverage known l ++
            (if clean' then match o_reload b with
                            | Some r => dump_diff "C13:retry-does-not-converge-" l r
                            | None => ["C13:restart-fails-after-retried-update"]
                            end else [])
        | OInitAgain _, ROk, _, Some l =>
            monitor_index known l ++
            (match o_reload b with
             | Some r => dump_diff "C13:retried-initialize-leaves-storage-different-" l r
             | None => ["C13:restart-fails-after-retried-initialize"]
             end)
        | ORestart _, ROk, pv, Some l =>
            monitor_index known l ++
            (match pv with Some p => if clean then dump_diff "C13:restart-changed-" p l else [] | None => [] end) ++
            (* whatever was in the storage: after Initialize it holds what is served *)
            (match o_reload b with
             | Some r => dump_diff "C13:restart-leaves-storage-different-" l r
             | None => ["C13:second-restart-fails"]
             end)
        | ORestart _, RErr _, _, _ => if clean' then ["C13:initialize-fails-on-own-storage"] else []
        | _, _, _, _ => []
        end in
      let served_pending :=
        match o, o_res b, o_live b with
        | ORestart _, ROk, Some l | OInitAgain _, ROk, Some l =>
            if forallb (fun r => existsb (r3_eqb (rule3 r)) (d_all l)) pending then []
            else ["C13:restart-drops-a-valid-stored-rule"]
        | _, _, _ => []
        end in
      let '(repaired', pending') := pending_step o ok_res repaired pending in
      here ++ served_pending ++ monitor_walk known (o_live b) clean' retryable' repaired' pending' ops' obs'
  | _, _ => []
  end.

Fixpoint dedup (l : list string) : list string :=
  match l with
  | [] => []
  | x :: r => if existsb (String.eqb x) r then dedup r else x :: dedup r
  end.

Definition monitor (c : list op * list pobs) : list string :=
  dedup (monitor_walk (flat_map rules_of_op (fst c)) None true false true [] (fst c) (expand None (snd c) (model_obs (fst c)))).

Fixpoint monitor_fails_from (n : nat) (cs : list (list op * list pobs)) : list (nat * string) :=
  match cs with
  | [] => []
  | c :: r => map (fun s => (n, s)) (monitor c) ++ monitor_fails_from (S n) r
  end.
Definition monitor_fails := monitor_fails_from 0.
