(* C01 / C02 — executable model of server/tso/tso.go (timestampOracle) as used by the Global TSO
   allocator, for any number of members sharing one etcd.  Definitions only.

   Every label is one atomic section of the real code (a mutex-protected block or one etcd
   request); the decomposition is the one the translator extracts (proof/C01_Skel.v).
   Wall-clock readings are *inputs* of the labels that read the clock (arbitrary, not monotone).
   Leadership is abstracted to what C03 proves about it (see props/C01.v, hypotheses E2-E4):
     owner   : the member whose value is the stored leader record (LeaderTxn succeeds only for it)
     valid m : Leadership.Check() of member m
   Times are nanoseconds (Z); timestamps carry a physical part in milliseconds. *)
From Coq Require Import ZArith List Bool.
From PDV Require Import lib.Base gen.Gen_C01.
Import ListNotations.
Local Open Scope Z_scope.

Definition guard : Z := Gen_C01.UpdateTimestampGuard.      (* ns *)
Definition max_logical : Z := Gen_C01.maxLogical.
Definition ns_per_ms : Z := 1000000.
Definition ms (t : Z) : Z := t / ns_per_ms.

Inductive outcome := Ok | ErrNotApplied | ErrApplied.

Inductive syn_st := SIdle | SLoaded (last : option Z) | SPendSet (next : Z).
Inductive upd_st := UIdle | URead (next : Z) | UDecided (next : Z) | UPendSet (next : Z).
Inductive ur_st  := RIdle | RChecked (p l : Z) | RDeciding (p l : Z) | RSaved (p l : Z).
Inductive ctl_st := CIdle | CElected | CIniting | CServing | CFailed.

Record mem := Mem {
  phys : option Z;            (* tsoMux.physical, None = ZeroTime *)
  logical : Z;
  last_saved : option Z;      (* lastSavedTime, None = never stored *)
  valid : bool;               (* Leadership.Check() *)
  ctl : ctl_st;               (* ghost: where the member's leader loop is *)
  syn : syn_st;               (* SyncTimestamp in flight *)
  upd : upd_st;               (* UpdateTimestamp in flight *)
  ur  : ur_st;                (* resetUserTimestamp in flight; it holds tsoMux while not RIdle *)
  unsure : bool               (* saveUncertain: a window save returned an error, it may have been applied *)
}.
Definition mem0 : mem := Mem None 0 None false CIdle SIdle UIdle RIdle false.

Inductive status := Pending | Granted (te : nat) | Dropped.
Record rec := Rec { gm : nat; gP : Z; gL : Z; gcount : Z; gtb : nat; glegit : bool; gst : status }.

Record state := State {
  W : option Z;               (* etcd: <root>/timestamp, ns *)
  owner : option nat;         (* etcd: whose value is the leader record *)
  mems : nat -> mem;
  recs : list rec;            (* ghost: every generated range, newest first *)
  clock : nat;                (* ghost: number of labels executed *)
  interval : Z;               (* config: TSOSaveInterval, ns *)
  gap_ms : Z                  (* config: MaxResetTSGap, ms *)
}.

Definition init (iv gap : Z) : state := State None None (fun _ => mem0) [] 0 iv gap.

Inductive label :=
| LElect (m : nat) | LValidOff (m : nat) | LValidOn (m : nat) | LOwnerGone
| LSyncLoad (m : nat) | LSyncSave (m : nat) (now : Z) (o : outcome) | LSyncSet (m : nat)
| LUpdRead (m : nat) (now : Z) | LUpdDecide (m : nat) | LUpdSave (m : nat) (o : outcome) | LUpdSet (m : nat)
| LURBegin (m : nat) (ts : Z) | LURDecide (m : nat) | LURSave (m : nat) (o : outcome) | LUREnd (m : nat)
| LGen (m : nat) (count : Z) | LRespond (m : nat) (i : nat)
| LReset (m : nat)         (* ResetTimestamp alone (updateAllocator's error path, ctx done) *)
| LTermEnd (m : nat)       (* campaignLeader returns: its deferred ResetAllocatorGroup has reset the memory *)
| LUpdAbort (m : nat)      (* UpdateTimestamp: refreshLastSavedTime failed (etcd read error): the call returns the error *)
| LURAbort (m : nat).      (* resetUserTimestamp: the same *)

Definition upd_f {A} (f : nat -> A) (i : nat) (x : A) : nat -> A := fun j => if Nat.eqb j i then x else f j.

Definition set_mem (s : state) (m : nat) (x : mem) : state :=
  State (W s) (owner s) (upd_f (mems s) m x) (recs s) (clock s) (interval s) (gap_ms s).
Definition set_W (s : state) (w : option Z) : state :=
  State w (owner s) (mems s) (recs s) (clock s) (interval s) (gap_ms s).

Definition is_pending (r : rec) : bool := match gst r with Pending => true | _ => false end.
Definition has_pending (s : state) (m : nat) : bool :=
  existsb (fun r => Nat.eqb (gm r) m && is_pending r) (recs s).

Definition save_busy (x : mem) : bool :=       (* saveMu is held *)
  match syn x, upd x, ur x with
  | SLoaded _, _, _ => true | _, UDecided _, _ => true | _, _, RDeciding _ _ => true | _, _, _ => false
  end.
Definition locked (x : mem) : bool := match ur x with RIdle => false | _ => true end.   (* tsoMux held by a reset *)

Definition idle_ctl (c : ctl_st) : bool := match c with CIdle => true | _ => false end.
Definition idle_syn (c : syn_st) : bool := match c with SIdle => true | _ => false end.
Definition idle_upd (c : upd_st) : bool := match c with UIdle => true | _ => false end.
Definition idle_ur (c : ur_st) : bool := match c with RIdle => true | _ => false end.
(* something of member m is in flight, or its leader loop is inside a term *)
Definition busy (s : state) (m : nat) : bool :=
  let x := mems s m in
  negb (idle_ctl (ctl x) && idle_syn (syn x) && idle_upd (upd x) && idle_ur (ur x)) || has_pending s m.

Definition is_owner (s : state) (m : nat) : bool := match owner s with Some o => Nat.eqb o m | None => false end.

(* lastSavedTime - target <= guard  (a never-stored lastSavedTime cannot be reached with memory
   initialised; the real code would panic on the nil interface: modelled as "save") *)
Definition need_save (x : mem) (target : Z) : bool :=
  match last_saved x with Some s => s - target <=? guard | None => true end.

(* LeaderTxn put of the window: (new store, acknowledged?) *)
Definition save_txn (s : state) (m : nat) (o : outcome) (target : Z) : state * bool :=
  let cmp := is_owner s m in
  let applied := match o with ErrNotApplied => false | _ => cmp end in
  let acked := match o with Ok => cmp | _ => false end in
  (if applied then set_W s (Some target) else s, acked).

(* setTSOPhysical(next, force) *)
Definition set_physical (x : mem) (next : Z) (force : bool) : mem :=
  match phys x with
  | None => if force then Mem (Some next) 0 (last_saved x) (valid x) (ctl x) (syn x) (upd x) (ur x) (unsure x) else x
  | Some p => if 0 <? ms next - ms p
              then Mem (Some next) 0 (last_saved x) (valid x) (ctl x) (syn x) (upd x) (ur x) (unsure x) else x
  end.

Definition with_ctl (x : mem) (c : ctl_st) := Mem (phys x) (logical x) (last_saved x) (valid x) c (syn x) (upd x) (ur x) (unsure x).
Definition with_syn (x : mem) (c : syn_st) := Mem (phys x) (logical x) (last_saved x) (valid x) (ctl x) c (upd x) (ur x) (unsure x).
Definition with_upd (x : mem) (c : upd_st) := Mem (phys x) (logical x) (last_saved x) (valid x) (ctl x) (syn x) c (ur x) (unsure x).
Definition with_ur (x : mem) (c : ur_st) := Mem (phys x) (logical x) (last_saved x) (valid x) (ctl x) (syn x) (upd x) c (unsure x).
Definition with_valid (x : mem) (v : bool) := Mem (phys x) (logical x) (last_saved x) v (ctl x) (syn x) (upd x) (ur x) (unsure x).
(* a successful save: lastSavedTime := what was written, and the uncertainty is gone *)
Definition with_saved (x : mem) (sv : Z) := Mem (phys x) (logical x) (Some sv) (valid x) (ctl x) (syn x) (upd x) (ur x) false.
Definition with_unsure (x : mem) (b : bool) := Mem (phys x) (logical x) (last_saved x) (valid x) (ctl x) (syn x) (upd x) (ur x) b.
(* a save whose commit returned an error (before or after it was applied) leaves the uncertainty mark *)
Definition after_failed_save (x : mem) (o : outcome) : mem :=
  with_unsure x (match o with Ok => unsure x | _ => true end).
(* refreshLastSavedTime: read the own window back when the last save is uncertain *)
Definition refreshed_saved (x : mem) (w : option Z) : option Z :=
  if unsure x then
    match w, last_saved x with
    | Some wv, Some sv => Some (Z.max sv wv)
    | Some wv, None => Some wv
    | None, sv => sv
    end
  else last_saved x.
Definition refreshed (x : mem) (w : option Z) : mem :=
  Mem (phys x) (logical x) (refreshed_saved x w) (valid x) (ctl x) (syn x) (upd x) (ur x) false.

Definition set_status (r : rec) (st : status) : rec := Rec (gm r) (gP r) (gL r) (gcount r) (gtb r) (glegit r) st.
Fixpoint set_nth (l : list rec) (i : nat) (st : status) : list rec :=
  match l, i with
  | [], _ => []
  | r :: t, O => set_status r st :: t
  | r :: t, S j => r :: set_nth t j st
  end.

Definition step0 (s : state) (l : label) : option state :=
  match l with
  (* ---------------- environment: leadership as C03 constrains it ---------------- *)
  | LElect m =>
      match owner s with
      | None => if busy s m then None
                else Some (State (W s) (Some m) (upd_f (mems s) m (with_ctl (with_valid (mems s m) true) CElected))
                                 (recs s) (clock s) (interval s) (gap_ms s))
      | Some _ => None
      end
  | LValidOff m => Some (set_mem s m (with_valid (mems s m) false))
  | LValidOn m =>
      if is_owner s m || negb (busy s m) then Some (set_mem s m (with_valid (mems s m) true)) else None
  | LOwnerGone =>
      match owner s with
      | Some m => if valid (mems s m) then None
                  else Some (State (W s) None (mems s) (recs s) (clock s) (interval s) (gap_ms s))
      | None => None
      end
  (* ---------------- SyncTimestamp (Initialize) ---------------- *)
  | LSyncLoad m =>
      let x := mems s m in
      match ctl x, syn x with
      | CElected, SIdle => if save_busy x then None
                           else Some (set_mem s m (with_ctl (with_syn x (SLoaded (W s))) CIniting))
      | _, _ => None
      end
  | LSyncSave m now o =>
      let x := mems s m in
      match syn x with
      | SLoaded last =>
          let next := match last with
                      | Some l0 => if now - l0 <? guard then l0 + guard else now
                      | None => now
                      end in
          let target := next + interval s in
          let '(s1, acked) := save_txn s m o target in
          if acked then Some (set_mem s1 m (with_syn (with_saved x target) (SPendSet next)))
          else Some (set_mem s1 m (with_ctl (with_syn (after_failed_save x o) SIdle) CFailed))
      | _ => None
      end
  | LSyncSet m =>
      let x := mems s m in
      match syn x with
      | SPendSet next => if locked x then None
                         else Some (set_mem s m (with_ctl (with_syn (set_physical x next true) SIdle) CServing))
      | _ => None
      end
  (* ---------------- UpdateTimestamp ---------------- *)
  | LUpdRead m now =>
      let x := mems s m in
      match upd x with
      | UIdle =>
          if valid x && negb (locked x) then
            match phys x with
            | None => Some s                                         (* memory reset: nothing to advance *)
            | Some p =>
                if guard <? now - p then Some (set_mem s m (with_upd x (URead now)))
                else if max_logical / 2 <? logical x then Some (set_mem s m (with_upd x (URead (p + ns_per_ms))))
                else Some s
            end
          else None
      | _ => None
      end
  | LUpdDecide m =>
      let x := mems s m in
      match upd x with
      | URead next => if save_busy x then None
                      else let y := refreshed x (W s) in
                           if need_save y next then Some (set_mem s m (with_upd y (UDecided next)))
                           else Some (set_mem s m (with_upd y (UPendSet next)))
      | _ => None
      end
  | LUpdSave m o =>
      let x := mems s m in
      match upd x with
      | UDecided next =>
          let target := next + interval s in
          let '(s1, acked) := save_txn s m o target in
          if acked then Some (set_mem s1 m (with_upd (with_saved x target) (UPendSet next)))
          else Some (set_mem s1 m (with_upd (after_failed_save x o) UIdle))
      | _ => None
      end
  | LUpdSet m =>
      let x := mems s m in
      match upd x with
      | UPendSet next => if locked x then None else Some (set_mem s m (with_upd (set_physical x next false) UIdle))
      | _ => None
      end
  (* ---------------- resetUserTimestamp (SetTSO / SyncMaxTS write) ---------------- *)
  | LURBegin m ts =>
      let x := mems s m in
      match ur x with
      | RIdle =>
          if valid x then
            match phys x with
            | None => Some s                                         (* difference to the zero time >= gap: rejected *)
            | Some p =>
                let np_ms := Z.shiftr ts 18 in
                let nl := Z.land ts (Z.ones 18) in
                let pd := np_ms - ms p in
                if pd <? 0 then Some s
                else if (pd =? 0) && (nl - logical x <=? 0) then Some s
                else if gap_ms s <=? pd then Some s
                else Some (set_mem s m (with_ur x (RChecked (np_ms * ns_per_ms) nl)))
            end
          else Some s                                                (* lease expired *)
      | _ => None
      end
  | LURDecide m =>
      let x := mems s m in
      match ur x with
      | RChecked p l0 => if save_busy x then None
                         else let y := refreshed x (W s) in
                              if need_save y p then Some (set_mem s m (with_ur y (RDeciding p l0)))
                              else Some (set_mem s m (with_ur y (RSaved p l0)))
      | _ => None
      end
  | LURSave m o =>
      let x := mems s m in
      match ur x with
      | RDeciding p l0 =>
          let target := p + interval s in
          let '(s1, acked) := save_txn s m o target in
          if acked then Some (set_mem s1 m (with_ur (with_saved x target) (RSaved p l0)))
          else Some (set_mem s1 m (with_ur (after_failed_save x o) RIdle))
      | _ => None
      end
  | LUREnd m =>
      let x := mems s m in
      match ur x with
      | RSaved p l0 => Some (set_mem s m (Mem (Some p) l0 (last_saved x) (valid x) (ctl x) (syn x) (upd x) RIdle (unsure x)))
      | _ => None
      end
  (* ---------------- getTS: generateTSO, then the overflow test and the second Check() ---------------- *)
  | LGen m count =>
      let x := mems s m in
      match phys x with
      | Some p =>
          if negb (locked x) && (0 <? count) then
            let l1 := logical x + count in
            Some (State (W s) (owner s)
                        (upd_f (mems s) m (Mem (Some p) l1 (last_saved x) (valid x) (ctl x) (syn x) (upd x) (ur x) (unsure x)))
                        (Rec m (ms p) l1 count (clock s) (is_owner s m) Pending :: recs s)
                        (clock s) (interval s) (gap_ms s))
          else None
      | None => None
      end
  | LRespond m i =>
      match nth_error (recs s) i with
      | Some r =>
          if Nat.eqb (gm r) m && is_pending r then
            let st := if max_logical <=? gL r then Dropped
                      else if valid (mems s m) then Granted (clock s) else Dropped in
            Some (State (W s) (owner s) (mems s) (set_nth (recs s) i st) (clock s) (interval s) (gap_ms s))
          else None
      | None => None
      end
  (* ---------------- ResetTimestamp ---------------- *)
  | LReset m =>
      let x := mems s m in
      if locked x then None
      else Some (set_mem s m (Mem None 0 (last_saved x) (valid x) (ctl x) (syn x) (upd x) (ur x) (unsure x)))
  | LTermEnd m =>
      let x := mems s m in
      if locked x then None
      else match ctl x with
           | CIniting => None                      (* Initialize is a call of the same goroutine *)
           | _ => Some (set_mem s m (Mem None 0 (last_saved x) (valid x) CIdle (syn x) (upd x) (ur x) (unsure x)))
           end
  | LUpdAbort m =>
      let x := mems s m in
      match upd x with
      | URead _ => if save_busy x then None else if unsure x then Some (set_mem s m (with_upd x UIdle)) else None
      | _ => None
      end
  | LURAbort m =>
      let x := mems s m in
      match ur x with
      | RChecked _ _ => if save_busy x then None else if unsure x then Some (set_mem s m (with_ur x RIdle)) else None
      | _ => None
      end
  end.

(* every executed label advances the ghost clock *)
Definition step (s : state) (l : label) : option state :=
  match step0 s l with
  | Some s1 => Some (State (W s1) (owner s1) (mems s1) (recs s1) (S (clock s1)) (interval s1) (gap_ms s1))
  | None => None
  end.

(* Every storage outcome is covered: since the repair of the window-save uncertainty (saveUncertain /
   refreshLastSavedTime) a save that is applied although the client saw an error is absorbed too.  step_r is kept
   as the name the statements use. *)
Definition step_r (s : state) (l : label) : option state := step s l.

(* ---------- tsoutil ---------- *)
Definition compose_ts (physical logical : Z) : Z :=
  Z.lor (Z.shiftl physical 18 mod 2 ^ 64) (Z.land logical (Z.ones 18)).
