(* C11 — the builder's multi-peer scatter plans: every operator the real Scatter returns is pushed through C08's
   VERIFIED plan checker (model/C08_Builder.v `plan_ok`, sound by proof/C08_PlanProof.v) against the goal the
   scatter MODEL computed: the target placement of an admissible outcome, its leader, min(voters origin, voters target).
   By C08_plan_ok_sound the steps then execute, on the region, with every step safe and finished, the leader never removed or
   demoted, one peer per store, the voter floor kept, and end in EXACTLY the model's target placement and leader.
   The region and the steps are printed a second time by the driver in the vocabulary of model/C08_Steps.v. *)
From Coq Require Import String.
From PDV Require Import lib.C10_Cluster gen.Gen_C11 model.C11_Scatter.
From PDV Require model.C08_Steps model.C08_Builder.
Local Open Scope list_scope.
Local Open Scope Z_scope.

Definition role08 (r : role) : C08_Steps.role :=
  match r with Voter => C08_Steps.Voter | Learner => C08_Steps.Learner | Incoming => C08_Steps.Incoming | Demoting => C08_Steps.Demoting end.

Definition voters_in (l : list (Z * role)) : Z :=
  Z.of_nat (List.length (filter (fun x => match snd x with Learner => false | _ => true end) l)).

(* the goal handed to C08's checker for outcome o of the scatter model *)
Definition goal_of_outcome (r : region) (o : outcome) : C08_Builder.goal :=
  C08_Builder.Goal (map (fun x => (fst x, role08 (snd x))) (o_targets o)) (o_leader o)
                   (Z.min (voters_in (placement (peers r))) (voters_in (o_targets o))).

Record case08 := Case08 {
  c_base : case;
  c_region08 : C08_Steps.region;           (* the same region, C08 vocabulary *)
  c_steps08 : list C08_Steps.step          (* the same steps, C08 vocabulary (RemovePeer carries the peer id) *)
}.

Fixpoint list_eqb2 {A B} (eqb : A -> B -> bool) (a : list A) (b : list B) : bool :=
  match a, b with
  | [], [] => true
  | x :: xs, y :: ys => eqb x y && list_eqb2 eqb xs ys
  | _, _ => false
  end.

(* the two printings of the region agree *)
Definition same_region (r : region) (r8 : C08_Steps.region) : bool :=
  list_eqb2 (fun (p : peer) (q : C08_Steps.peer) =>
              (p_store p =? C08_Steps.pstore q) && (p_id p =? C08_Steps.pid q)
              && C08_Steps.role_eqb (role08 (p_role p)) (C08_Steps.prole q))
           (peers r) (C08_Steps.peers r8)
  && (leader_store r =? C08_Steps.leader r8).

Definition pairs_eqb (a b : list (Z * Z)) : bool := list_eqb (fun x y : Z * Z => (fst x =? fst y) && (snd x =? snd y)) a b.

(* ... and so do the two printings of the steps *)
Definition same_step (x : step) (y : C08_Steps.step) : bool :=
  match x, y with
  | TransferLeaderS f t, C08_Steps.TransferLeader f' t' => (f =? f') && (t =? t')
  | AddPeerS s i, C08_Steps.AddPeer s' i' | AddPeerS s i, C08_Steps.AddLightPeer s' i'
  | AddLearnerS s i, C08_Steps.AddLearner s' i' | AddLearnerS s i, C08_Steps.AddLightLearner s' i'
  | PromoteLearnerS s i, C08_Steps.PromoteLearner s' i' | DemoteFollowerS s i, C08_Steps.DemoteFollower s' i' => (s =? s') && (i =? i')
  | RemovePeerS s, C08_Steps.RemovePeer s' _ => s =? s'
  | EnterJointS p d, C08_Steps.ChangePeerV2Enter p' d' | LeaveJointS p d, C08_Steps.ChangePeerV2Leave p' d' => pairs_eqb p p' && pairs_eqb d d'
  | _, _ => false
  end.

Local Open Scope string_scope.
Local Open Scope Z_scope.

(* a scatter case: the sequential correspondence of C11_Scatter plus, for a returned operator, some admissible outcome whose
   goal C08's checker accepts for the real steps *)
Definition check_case08 (c8 : case08) : verdict :=
  let c := c_base c8 in
  match check_case c with
  | VBad w => VBad w
  | VOk =>
      match c_scatter c, c_op c with
      | Some so, Some io =>
          let r := c_region c in
          if negb (same_region r (c_region08 c8)) then VBad "the two printings of the region differ"
          else if negb (list_eqb2 same_step (io_steps io) (c_steps08 c8)) then VBad "the two printings of the steps differ"
          else
            let g := if so_exact_guard so then model_guard (c_stores c) (c_labels c) r else guard_of (so_guard so) in
            let outs := scatter_outcomes (c_stores c) (so_before so) (so_group so) g (fun x => memZ x (c_rule_ok c)) r in
            if existsb (fun o => targets_eqb (o_targets o) (placement (rs_peers (io_final io)))
                                 && ((o_leader o =? 0) || (o_leader o =? rs_leader (io_final io)))
                                 && C08_Builder.plan_ok (goal_of_outcome r o) (c_region08 c8) (c_steps08 c8)) outs
            then VOk else VBad "C08's plan checker rejects the operator for every admissible scatter outcome"
      | _, _ => VOk
      end
  end.

Fixpoint mismatches08_from (n : nat) (cs : list case08) : list (nat * string) :=
  match cs with
  | [] => []
  | c :: r => match check_case08 c with VOk => mismatches08_from (S n) r | VBad w => (n, w) :: mismatches08_from (S n) r end
  end.
Definition mismatches08 := mismatches08_from 0.
Definition monitor_fails08 (cs : list case08) := monitor_fails (map c_base cs).
