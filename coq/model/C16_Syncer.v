(* C16 — executable model of server/region_syncer: the history ring buffer (history_buffer.go), the
   leader side of the sync stream (syncHistoryRegion in server.go) and the follower side
   (the receive loop of StartSyncWithLeader in client.go).  Definitions only.

   Integers: the next index is an unbounded Z (assumption `index < 2^64`, DESIGN.md section 3); ring
   positions are Z with Z.modulo standing for Go's % on non-negative ints.
   Keys: a region key is a Z, 0 = the empty key (least as a start key, +infinity as an end key);
   non-empty keys are positive and ordered as bytes.Compare orders the fixed-width keys the driver uses. *)
From Coq Require Import String.
From PDV Require Import lib.Base gen.Gen_C16.
Local Open Scope Z_scope.
Local Open Scope list_scope.

(* ------------------------------------------------------------------------------------------ *)
(* 1. history buffer                                                                          *)
(* ------------------------------------------------------------------------------------------ *)
Section Buffer.
  Context {A : Type}.

  Record hbuf := HB {
    recs : Z -> option A;     (* h.records, None = nil slot *)
    head : Z; tail : Z; size : Z;
    index : Z;                (* h.index, the next index *)
    flushc : Z                (* h.flushCount *)
  }.
  (* the buffer plus the one storage key it owns ("historyIndex"; None = key absent) *)
  Record bstate := BS { buf : hbuf; kvv : option Z }.

  Definition flush_every : Z := Gen_C16.defaultFlushCount.

  (* newHistoryBuffer: size++ ; if size < 2 { size = 2 } *)
  Definition new_size (cap : Z) : Z := let s := cap + 1 in if s <? 2 then 2 else s.

  (* reload: a failed Load leaves v = "" and the index at 0 *)
  Definition reload_index (load_ok : bool) (kv : option Z) : Z :=
    if load_ok then match kv with Some v => v | None => 0 end else 0.

  Definition new_buf (cap : Z) (load_ok : bool) (kv : option Z) : hbuf :=
    HB (fun _ => None) 0 0 (new_size cap) (reload_index load_ok kv) flush_every.

  Definition distance_to_tail (h : hbuf) (pos : Z) : Z :=
    if tail h <? pos then tail h + size h - pos else tail h - pos.
  Definition blen (h : hbuf) : Z := distance_to_tail h (head h).
  Definition next_index (h : hbuf) : Z := index h.
  Definition first_index (h : hbuf) : Z := index h - blen h.

  Definition upd (f : Z -> option A) (k : Z) (v : option A) : Z -> option A :=
    fun j => if j =? k then v else f j.

  (* Record; `save_ok` is the outcome of kv.Save if this call persists (a failure is only logged) *)
  Definition record (s : bstate) (r : A) (save_ok : bool) : bstate :=
    let h := buf s in
    let recs1 := upd (recs h) (tail h) (Some r) in
    let tail1 := (tail h + 1) mod size h in
    let head1 := if tail1 =? head h then (head h + 1) mod size h else head h in
    let index1 := index h + 1 in
    let fl1 := flushc h - 1 in
    if fl1 <=? 0
    then BS (HB recs1 head1 tail1 (size h) index1 flush_every) (if save_ok then Some index1 else kvv s)
    else BS (HB recs1 head1 tail1 (size h) index1 fl1) (kvv s).

  (* the copy loop `for i := pos; i != h.tail; i = (i+1) % h.size`; None = it did not stop within
     `fuel` iterations (never the case on a well-formed buffer with fuel = size: lemma collect_total) *)
  Fixpoint collect (fuel : nat) (h : hbuf) (i : Z) : option (list (option A)) :=
    if i =? tail h then Some []
    else match fuel with
         | O => None
         | S f => match collect f h ((i + 1) mod size h) with
                  | Some l => Some (recs h i :: l)
                  | None => None
                  end
         end.

  Definition records_from (h : hbuf) (i : Z) : option (list (option A)) :=
    if (i <? next_index h) && (first_index h <=? i)
    then collect (Z.to_nat (size h)) h ((head h + (i - first_index h)) mod size h)
    else Some [].

  (* ResetWithIndex; it persists the new index (`save_ok` = outcome of that kv.Save, a failure is only logged) *)
  Definition reset_with_index (s : bstate) (i : Z) (save_ok : bool) : bstate :=
    let h := buf s in BS (HB (recs h) 0 0 (size h) i flush_every) (if save_ok then Some i else kvv s).

  Definition restart (s : bstate) (cap : Z) (load_ok : bool) : bstate :=
    BS (new_buf cap load_ok (kvv s)) (kvv s).

  Inductive bop :=
  | ORecord (r : A) (save_ok : bool)
  | OFrom (i : Z)
  | OReset (i : Z) (save_ok : bool)
  | ONext
  | OFirst
  | ORestart (cap : Z) (load_ok : bool).   (* process restart: a new buffer over the same storage *)

  Inductive bobs :=
  | BUnit | BIdx (z : Z) | BRecs (l : list (option A)) | BDiverge.

  Definition brun_op (s : bstate) (o : bop) : bstate * bobs :=
    match o with
    | ORecord r ok => (record s r ok, BUnit)
    | OFrom i => (s, match records_from (buf s) i with Some l => BRecs l | None => BDiverge end)
    | OReset i ok => (reset_with_index s i ok, BUnit)
    | ONext => (s, BIdx (next_index (buf s)))
    | OFirst => (s, BIdx (first_index (buf s)))
    | ORestart cap ok => let s' := restart s cap ok in (s', BIdx (next_index (buf s')))
    end.

  Definition binit (cap : Z) : bstate := BS (new_buf cap true None) None.

  (* ---------- the specification: a log of everything recorded since the last reset/restart ---------- *)
  Record aspec := AS {
    a_base : Z;             (* index of the first element of a_log *)
    a_log : list A;         (* oldest first *)
    a_cap : Z;              (* size - 1: how many records the buffer can hold *)
    a_flush : Z; a_kv : option Z
  }.
  Definition a_next (a : aspec) : Z := a_base a + Z.of_nat (length (a_log a)).
  (* the window: the last min(cap, |log|) indexes *)
  Definition a_first (a : aspec) : Z := Z.max (a_base a) (a_next a - a_cap a).
  Definition a_records_from (a : aspec) (i : Z) : list (option A) :=
    if (a_first a <=? i) && (i <? a_next a)
    then map Some (skipn (Z.to_nat (i - a_base a)) (a_log a))
    else [].
  Definition new_cap (cap : Z) : Z := new_size cap - 1.
  Definition arun_op (a : aspec) (o : bop) : aspec * bobs :=
    match o with
    | ORecord r ok =>
        let n1 := a_next a + 1 in
        if a_flush a - 1 <=? 0
        then (AS (a_base a) (a_log a ++ [r]) (a_cap a) flush_every (if ok then Some n1 else a_kv a), BUnit)
        else (AS (a_base a) (a_log a ++ [r]) (a_cap a) (a_flush a - 1) (a_kv a), BUnit)
    | OFrom i => (a, BRecs (a_records_from a i))
    | OReset i ok => (AS i [] (a_cap a) flush_every (if ok then Some i else a_kv a), BUnit)
    | ONext => (a, BIdx (a_next a))
    | OFirst => (a, BIdx (a_first a))
    | ORestart cap ok =>
        let i := reload_index ok (a_kv a) in (AS i [] (new_cap cap) flush_every (a_kv a), BIdx i)
    end.
  Definition ainit (cap : Z) : aspec := AS 0 [] (new_cap cap) flush_every None.
End Buffer.
Arguments hbuf : clear implicits.
Arguments bstate : clear implicits.
Arguments bop : clear implicits.
Arguments bobs : clear implicits.
Arguments aspec : clear implicits.

(* ------------------------------------------------------------------------------------------ *)
(* 2. regions, messages, leader side                                                          *)
(* ------------------------------------------------------------------------------------------ *)
Record peer := Peer { p_id : Z; p_store : Z; p_learner : bool }.
Record rmeta := Meta {
  m_id : Z; m_start : Z; m_end : Z; m_confver : Z; m_version : Z; m_peers : list peer }.
(* RegionStat as GetStat builds it: BytesWritten, BytesRead, KeysWritten, KeysRead *)
Record rstat := Stat { bytes_written : Z; bytes_read : Z; keys_written : Z; keys_read : Z }.
Record rinfo := RI { meta : rmeta; leader : option peer; stat : rstat }.

Definition zero_peer : peer := Peer 0 0 false.       (* &metapb.Peer{} *)
Definition zero_stat : rstat := Stat 0 0 0 0.

Record msg := Msg { g_start : Z; g_regions : list rmeta; g_stats : list rstat; g_leaders : list peer }.

Definition leader_or_zero (r : rinfo) : peer := match leader r with Some p => p | None => zero_peer end.

Definition mem_str (x : string) (l : list string) : bool := existsb (String.eqb x) l.

(* the full-synchronisation loop of syncHistoryRegion, parameterised by the set of accumulators that
   are reset after a batch has been sent (Gen_C16.full_sync_truncated) and by the batch size *)
Section FullSync.
  Variable trunc : list string.
  Variable batch : Z.
  Definition keep {X} (name : string) (l : list X) : list X := if mem_str name trunc then [] else l.
  Fixpoint fs_loop (rs : list rinfo) (metas : list rmeta) (stats : list rstat) (leaders : list peer) (last : Z) : list msg :=
    match rs with
    | [] => []
    | r :: rest =>
        let metas1 := metas ++ [meta r] in
        let stats1 := stats ++ [stat r] in
        let leaders1 := leaders ++ [leader_or_zero r] in
        (* if len(metas) < maxSyncRegionBatchSize && syncedIndex < len(regions)-1 { continue } *)
        if (Z.of_nat (length metas1) <? batch) && negb (match rest with [] => true | _ => false end)
        then fs_loop rest metas1 stats1 leaders1 last
        else Msg last metas1 stats1 leaders1
             :: fs_loop rest (keep "Regions" metas1) (keep "RegionStats" stats1) (keep "RegionLeaders" leaders1)
                        (last + Z.of_nat (length metas1))
    end.
  Definition full_sync (rs : list rinfo) : list msg := fs_loop rs [] [] [] 0.
End FullSync.

(* the code as it is *)
Definition full_sync_impl : list rinfo -> list msg :=
  full_sync Gen_C16.full_sync_truncated Gen_C16.maxSyncRegionBatchSize.

(* the incremental answer: one message with everything from startIndex *)
Definition incr_msg (start : Z) (records : list rinfo) : msg :=
  Msg start (map meta records) (map stat records) (map leader_or_zero records).

Fixpoint somes {X} (l : list (option X)) : list X :=
  match l with [] => [] | Some x :: r => x :: somes r | None :: r => somes r end.

Inductive sync_kind := KIncr | KInSync | KFull | KNoHistory | KDiverge.

(* syncHistoryRegion: leader history `h`, leader region set `regions` (GetRegions()), request index *)
Definition sync_history (h : hbuf rinfo) (regions : list rinfo) (start : Z) : sync_kind * list msg :=
  match records_from h start with
  | None => (KDiverge, [])
  | Some l =>
      match l with
      | _ :: _ => (KIncr, [incr_msg start (somes l)])
      | [] =>
          if next_index h =? start then (KInSync, [])
          else if start =? 0 then (KFull, full_sync_impl regions)
          else (KNoHistory, [])
      end
  end.

(* RunServer on a pre-filled notifier channel: first + min(pending, maxSyncRegionBatchSize) more *)
Fixpoint run_server_batches (fuel : nat) (next : Z) (pending : list rinfo) : list msg :=
  match fuel, pending with
  | _, [] => []
  | O, _ => []
  | S f, first :: rest =>
      let k := Z.to_nat (Z.min (Z.of_nat (length rest)) Gen_C16.maxSyncRegionBatchSize) in
      let batch := first :: firstn k rest in
      Msg next (map meta batch) (map stat batch) (map (fun r => match leader r with Some p => p | None => zero_peer end) batch)
      :: run_server_batches f (next + Z.of_nat (length batch)) (skipn k rest)
  end.

(* ------------------------------------------------------------------------------------------ *)
(* 3. follower side                                                                           *)
(* ------------------------------------------------------------------------------------------ *)
(* what the receive loop hands to CheckAndPutRegion for position i of a message *)
Definition decode_at (m : msg) (i : nat) (r : rmeta) : rinfo :=
  let ld := match nth_error (g_leaders m) i with
            | Some p => if p_id p =? 0 then None else Some p    (* len(regionLeaders) > i && regionLeaders[i].Id != 0 *)
            | None => None
            end in
  let has_stats := Nat.eqb (length (g_stats m)) (length (g_regions m)) in
  let st := if has_stats then nth i (g_stats m) zero_stat else zero_stat in
  RI r ld st.

Fixpoint decode_from (m : msg) (i : nat) (rs : list rmeta) : list rinfo :=
  match rs with [] => [] | r :: rest => decode_at m i r :: decode_from m (S i) rest end.
Definition decode (m : msg) : list rinfo := decode_from m 0 (g_regions m).

(* --- the follower's region cache: BasicCluster.CheckAndPutRegion on a set of regions --- *)
Definition intersects (a b : rmeta) : bool :=
  ((m_end a =? 0) || (m_start b <? m_end a)) && ((m_end b =? 0) || (m_start a <? m_end b)).
Definition same_range (a b : rmeta) : bool := (m_start a =? m_start b) && (m_end a =? m_end b).
Definition find_id (c : list rinfo) (id : Z) : option rinfo := find (fun o => m_id (meta o) =? id) c.

(* PreCheckPutRegion (terms are 0 on this path: NewRegionInfo sets none) *)
Definition accepts (c : list rinfo) (r : rinfo) : bool :=
  let origin := find_id c (m_id (meta r)) in
  let ovl := match origin with
             | Some o => if same_range (meta o) (meta r) then [] else filter (fun o => intersects (meta o) (meta r)) c
             | None => filter (fun o => intersects (meta o) (meta r)) c
             end in
  if existsb (fun o => m_version (meta r) <? m_version (meta o)) ovl then false
  else match origin with
       | None => true
       | Some o => negb ((m_version (meta r) <? m_version (meta o)) || (m_confver (meta r) <? m_confver (meta o)))
       end.
(* RegionsInfo.SetRegion: replaces the entry of this id, evicts everything whose range intersects *)
Definition put (c : list rinfo) (r : rinfo) : list rinfo :=
  r :: filter (fun o => negb (m_id (meta o) =? m_id (meta r)) && negb (intersects (meta o) (meta r))) c.
Definition check_and_put (c : list rinfo) (r : rinfo) : list rinfo := if accepts c r then put c r else c.

Record fstate := FS {
  f_cache : list rinfo;              (* BasicCluster *)
  f_saved : list rmeta;              (* region storage, newest first (SaveRegion by id) *)
  f_hist : bstate rinfo              (* the follower's own history buffer *)
}.

Definition apply_region (f : fstate) (r : rinfo) : fstate :=
  FS (check_and_put (f_cache f) r) (meta r :: f_saved f) (record (f_hist f) r true).

Definition apply_msg (f : fstate) (m : msg) : fstate :=
  let f1 := if next_index (buf (f_hist f)) =? g_start m then f
            else FS (f_cache f) (f_saved f) (reset_with_index (f_hist f) (g_start m) true) in
  fold_left apply_region (decode m) f1.

(* the same with the outcome of the follower's own SaveRegion per region: the cache is updated first in any case;
   the history records the region only when the save succeeded (`if err == nil { s.history.Record(region) }`) *)
Definition apply_region_ok (f : fstate) (ro : rinfo * bool) : fstate :=
  let '(r, ok) := ro in
  if ok then apply_region f r
  else FS (check_and_put (f_cache f) r) (f_saved f) (f_hist f).
Fixpoint with_oks (rs : list rinfo) (oks : list bool) : list (rinfo * bool) :=
  match rs with
  | [] => []
  | r :: rest => (r, match oks with [] => true | o :: _ => o end) :: with_oks rest (match oks with [] => [] | _ :: t => t end)
  end.
Definition apply_msg_ok (f : fstate) (m : msg) (oks : list bool) : fstate :=
  let f1 := if next_index (buf (f_hist f)) =? g_start m then f
            else FS (f_cache f) (f_saved f) (reset_with_index (f_hist f) (g_start m) true) in
  fold_left apply_region_ok (with_oks (decode m) oks) f1.

(* a sync session: what the leader would send, how many of its messages were delivered before the stream broke,
   and which of the follower's saves failed *)
Record session := Sess { s_msgs : list msg; s_delivered : nat; s_fails : Z -> bool (* by region id *) }.
Definition oks_of (fails : Z -> bool) (m : msg) : list bool := map (fun r => negb (fails (m_id r))) (g_regions m).
Definition run_session (f : fstate) (s : session) : fstate :=
  fold_left (fun f m => apply_msg_ok f m (oks_of (s_fails s) m)) (firstn (s_delivered s) (s_msgs s)) f.

Definition finit (cap : Z) (kv : option Z) : fstate := FS [] [] (BS (new_buf cap true kv) kv).

(* ------------------------------------------------------------------------------------------ *)
(* 4. canonical observations and the correspondence cases                                      *)
(* ------------------------------------------------------------------------------------------ *)
Definition peer_eqb (a b : peer) : bool :=
  (p_id a =? p_id b) && (p_store a =? p_store b) && Bool.eqb (p_learner a) (p_learner b).
Definition meta_eqb (a b : rmeta) : bool :=
  (m_id a =? m_id b) && (m_start a =? m_start b) && (m_end a =? m_end b) && (m_confver a =? m_confver b) &&
  (m_version a =? m_version b) && list_eqb peer_eqb (m_peers a) (m_peers b).
Definition stat_eqb (a b : rstat) : bool :=
  (bytes_written a =? bytes_written b) && (bytes_read a =? bytes_read b) &&
  (keys_written a =? keys_written b) && (keys_read a =? keys_read b).
Definition rinfo_eqb (a b : rinfo) : bool :=
  meta_eqb (meta a) (meta b) && opt_eqb peer_eqb (leader a) (leader b) && stat_eqb (stat a) (stat b).
Definition msg_eqb (a b : msg) : bool :=
  (g_start a =? g_start b) && list_eqb meta_eqb (g_regions a) (g_regions b) &&
  list_eqb stat_eqb (g_stats a) (g_stats b) && list_eqb peer_eqb (g_leaders a) (g_leaders b).

(* insertion sort by region id: the canonical order of a cache dump *)
Fixpoint ins_by_id (r : rinfo) (l : list rinfo) : list rinfo :=
  match l with
  | [] => [r]
  | x :: t => if m_id (meta r) <=? m_id (meta x) then r :: l else x :: ins_by_id r t
  end.
Definition sort_by_id (l : list rinfo) : list rinfo := fold_right ins_by_id [] l.

(* --- buffer cases: A := Z (the id of the recorded region) --- *)
Definition bobs_eqb (a b : bobs Z) : bool :=
  match a, b with
  | BUnit, BUnit | BDiverge, BDiverge => true
  | BIdx x, BIdx y => x =? y
  | BRecs x, BRecs y => list_eqb (opt_eqb Z.eqb) x y
  | _, _ => false
  end.

Inductive case :=
| CBuf (cap : Z) (ops : list (bop Z)) (obs : list (bobs Z))
    (* a buffer of capacity cap over an empty storage, the ops run, what the implementation showed *)
| CSync (leader_persisted : option Z) (leader_records : list rinfo) (regions : list rinfo)
        (follower_persisted : option Z)
        (msgs : list msg) (fcache : list rinfo) (fnext : Z) (fsaved : list Z)
    (* leader: history restarted over `leader_persisted`, then `leader_records` recorded; region set
       `regions` (in GetRegions order). follower: empty, history restarted over `follower_persisted`.
       Observed: the messages on the stream, the follower's cache (sorted by id), its next index and the
       ids in its region storage (sorted, distinct) *)
| CBcast (leader_persisted : option Z) (pending : list rinfo)
         (msgs : list msg) (fcache : list rinfo) (fnext : Z)
| CCut (leader_persisted : option Z) (regions : list rinfo) (cut : nat) (fail_ids : list Z) (pending : list rinfo)
       (msgs : list msg) (fcache : list rinfo) (fnext : Z)
    (* an empty follower whose full synchronisation is cut after `cut` batches (the connection drops, the leader's
       syncer restarts over the same storage), which reconnects with the index it has reached, gets whatever the
       leader answers to that index, and then receives the broadcasts of `pending`; its own SaveRegion fails for the
       regions in `fail_ids`.  `msgs` = the messages actually delivered, in order. *)
| CChain (leader_persisted : option Z) (leader_records regions : list rinfo)
         (follower_persisted : option Z) (follower_stored : list rinfo) (pending : list rinfo)
         (msgs : list msg) (fcache : list rinfo) (fnext : Z).
    (* a follower that starts with `follower_stored` in its cache — loaded from its own region storage by
       LoadRegionsOnce (in id order, no leader, no statistics), or cached with terms > 0 while it was the leader
       itself (the regions the sync client builds carry no term) — synchronises with the leader as in CSync, and then receives the broadcasts of
       `pending` as in CBcast (its index no longer matches the leader's: it resets) *)
    (* a follower in sync with the leader at `leader_persisted`; `pending` is queued on the notifier
       channel before RunServer starts; observed: the broadcast messages and the follower *)

Definition leader_hist (persisted : option Z) (records : list rinfo) : bstate rinfo :=
  fold_left (fun s r => record s r true) records
            (BS (new_buf Gen_C16.defaultHistoryBufferSize true persisted) persisted).

Fixpoint dedup_sorted (l : list Z) : list Z :=
  match l with
  | x :: ((y :: _) as r) => if x =? y then dedup_sorted r else x :: dedup_sorted r
  | _ => l
  end.
Fixpoint insZ (x : Z) (l : list Z) : list Z :=
  match l with [] => [x] | y :: t => if x <=? y then x :: l else y :: insZ x t end.
Definition sortZ (l : list Z) : list Z := fold_right insZ [] l.

Record sync_out := SO { so_msgs : list msg; so_cache : list rinfo; so_next : Z; so_saved : list Z }.

Definition model_sync (lp : option Z) (lrecs regions : list rinfo) (fp : option Z) : sync_out :=
  let lh := leader_hist lp lrecs in
  let f0 := finit Gen_C16.defaultHistoryBufferSize fp in
  let '(_, ms) := sync_history (buf lh) regions (next_index (buf (f_hist f0))) in
  let f := fold_left apply_msg ms f0 in
  SO ms (sort_by_id (f_cache f)) (next_index (buf (f_hist f))) (dedup_sorted (sortZ (map m_id (f_saved f)))).

Definition model_chain (lp : option Z) (lrecs regions : list rinfo) (fp : option Z) (stored : list rinfo)
                       (pending : list rinfo) : sync_out :=
  let lh := leader_hist lp lrecs in
  let f0 := finit Gen_C16.defaultHistoryBufferSize fp in
  let cache0 := fold_left check_and_put stored [] in
  let f1 := FS cache0 (map meta (rev stored)) (f_hist f0) in
  let '(_, ms1) := sync_history (buf lh) regions (next_index (buf (f_hist f0))) in
  let ms2 := run_server_batches (S (length pending)) (next_index (buf lh)) pending in
  let f := fold_left apply_msg (ms1 ++ ms2) f1 in
  SO (ms1 ++ ms2) (sort_by_id (f_cache f)) (next_index (buf (f_hist f))) [].

Definition model_cut (lp : option Z) (regions : list rinfo) (cut : nat) (fail_ids : list Z) (pending : list rinfo) : sync_out :=
  let lh := leader_hist lp [] in
  let fails := fun id => memZ id fail_ids in
  let f0 := finit Gen_C16.defaultHistoryBufferSize None in
  let s1 := Sess (full_sync_impl regions) cut fails in
  let f1 := run_session f0 s1 in
  let '(_, ms2) := sync_history (buf lh) regions (next_index (buf (f_hist f1))) in
  let ms3 := run_server_batches (S (length pending)) (next_index (buf lh)) pending in
  let s2 := Sess (ms2 ++ ms3) (length (ms2 ++ ms3)) fails in
  let f := run_session f1 s2 in
  SO (firstn cut (full_sync_impl regions) ++ ms2 ++ ms3) (sort_by_id (f_cache f)) (next_index (buf (f_hist f))) [].

Definition model_bcast (lp : option Z) (pending : list rinfo) : sync_out :=
  let start := reload_index true lp in
  let f0 := finit Gen_C16.defaultHistoryBufferSize lp in
  let ms := run_server_batches (S (length pending)) start pending in
  let f := fold_left apply_msg ms f0 in
  SO ms (sort_by_id (f_cache f)) (next_index (buf (f_hist f))) [].

Inductive detail :=
| DBuf (d : list (nat * option (bobs Z) * option (bobs Z)))
| DMsgs (expected got : nat)       (* number of messages, or index of the first differing one in `got` *)
| DMsgAt (i : nat)
| DCache | DNext (expected got : Z) | DSaved.

Fixpoint first_diff {X} (eqb : X -> X -> bool) (n : nat) (a b : list X) : option nat :=
  match a, b with
  | [], [] => None
  | x :: xs, y :: ys => if eqb x y then first_diff eqb (S n) xs ys else Some n
  | _, _ => Some n
  end.

Definition check_sync (o : sync_out) (msgs : list msg) (fcache : list rinfo) (fnext : Z) (fsaved : option (list Z)) : option detail :=
  if negb (Nat.eqb (length (so_msgs o)) (length msgs)) then Some (DMsgs (length (so_msgs o)) (length msgs))
  else match first_diff msg_eqb 0 (so_msgs o) msgs with
       | Some i => Some (DMsgAt i)
       | None =>
           if negb (list_eqb rinfo_eqb (so_cache o) fcache) then Some DCache
           else if negb (so_next o =? fnext) then Some (DNext (so_next o) fnext)
           else match fsaved with
                | Some sv => if list_eqb Z.eqb (so_saved o) sv then None else Some DSaved
                | None => None
                end
       end.

Definition check_case (c : case) : option detail :=
  match c with
  | CBuf cap ops obs =>
      match diff_at bobs_eqb 0 (run brun_op (binit cap) ops) obs with
      | [] => None
      | d => Some (DBuf d)
      end
  | CSync lp lrecs regions fp msgs fcache fnext fsaved =>
      check_sync (model_sync lp lrecs regions fp) msgs fcache fnext (Some fsaved)
  | CBcast lp pending msgs fcache fnext =>
      check_sync (model_bcast lp pending) msgs fcache fnext None
  | CChain lp lrecs regions fp stored pending msgs fcache fnext =>
      check_sync (model_chain lp lrecs regions fp stored pending) msgs fcache fnext None
  | CCut lp regions cut fail_ids pending msgs fcache fnext =>
      check_sync (model_cut lp regions cut fail_ids pending) msgs fcache fnext None
  end.

Fixpoint mismatches_from (n : nat) (cs : list case) : list (nat * detail) :=
  match cs with
  | [] => []
  | c :: r => match check_case c with
              | None => mismatches_from (S n) r
              | Some d => (n, d) :: mismatches_from (S n) r
              end
  end.
Definition mismatches := mismatches_from 0.

(* ------------------------------------------------------------------------------------------ *)
(* 5. monitors: the property evaluated on the implementation's own trace (no ring, no batching) *)
(* ------------------------------------------------------------------------------------------ *)
Local Open Scope string_scope.

(* buffer: replay the log specification next to the observations.  `clean` = no storage fault and
   `noreset` = no ResetWithIndex since the buffer was created over an empty storage. *)
Fixpoint mon_buf (a : aspec Z) (clean noreset : bool) (ops : list (bop Z)) (obs : list (bobs Z)) : option string :=
  match ops, obs with
  | o :: r, b :: br =>
      let '(a', expect) := arun_op a o in
      match o, b with
      | OFrom _, BRecs l =>
          if bobs_eqb expect b then mon_buf a' clean noreset r br
          else Some (if (length l <? length (match expect with BRecs e => e | _ => [] end))%nat
                     then "C16:records-from:missing-records" else "C16:records-from:wrong-records")
      | OFrom _, _ => Some "C16:records-from:no-answer"
      | ORestart _ lok, BIdx z =>
          let before := a_next a in
          if clean && lok && (z <? before - 100)%Z
          then Some (if noreset then "C16:restart-index-lag:record-only-history"
                     else "C16:restart-index-lag:reset-not-persisted")
          else mon_buf (AS z [] (a_cap a') (a_flush a') (a_kv a')) (clean && lok) noreset r br
      | ONext, BIdx z =>
          if (z =? a_next a)%Z then mon_buf a' clean noreset r br else Some "C16:next-index-wrong"
      | OFirst, BIdx z =>
          if (z =? a_first a)%Z then mon_buf a' clean noreset r br else Some "C16:first-index-wrong"
      | ORecord _ ok, BUnit => mon_buf a' (clean && ok) noreset r br
      | OReset _ ok, BUnit => mon_buf a' (clean && ok) false r br
      | _, _ => Some "C16:history-buffer:unexpected-answer"
      end
  | _, _ => None
  end.

(* sync: every region the leader sent must sit in the follower's cache with the leader's meta, leader
   and statistics.  `sent` pairs each region with the number of the batch that carried it. *)
Fixpoint number_batches (n : nat) (ms : list msg) : list (nat * Z) :=
  match ms with [] => [] | m :: r => map (fun x => (n, m_id x)) (g_regions m) ++ number_batches (S n) r end.

Definition leader_view (regions : list rinfo) (id : Z) : option rinfo :=
  find (fun o => m_id (meta o) =? id)%Z (rev regions).    (* the newest entry of this id *)

Definition norm_leader (r : rinfo) : option peer :=
  match leader r with Some p => if (p_id p =? 0)%Z then None else Some p | None => None end.

Fixpoint mon_sent (phase : string) (held : list rinfo) (fcache : list rinfo) (sent : list (nat * Z)) : option string :=
  match sent with
  | [] => None
  | (b, id) :: r =>
      match leader_view held id, find_id fcache id with
      | Some l, Some f =>
          if negb (meta_eqb (meta l) (meta f)) then Some ("C16:" ++ phase ++ ":meta-differs")
          else if negb (opt_eqb peer_eqb (norm_leader l) (leader f))
               then Some ("C16:" ++ phase ++ (if Nat.eqb b 0 then ":leader-differs" else ":leaders-misaligned-after-first-batch"))
          else if negb (stat_eqb (stat l) (stat f))
               then Some ("C16:" ++ phase ++ (if Nat.eqb b 0 then ":stats-differ" else ":stats-differ-after-first-batch"))
          else mon_sent phase held fcache r
      | Some _, None => Some ("C16:" ++ phase ++ ":sent-region-missing-on-follower")
      | None, _ => Some ("C16:" ++ phase ++ ":sent-region-unknown-to-leader")
      end
  end.

Definition msgs_aligned (ms : list msg) : bool :=
  forallb (fun m => Nat.eqb (length (g_leaders m)) (length (g_regions m)) &&
                    Nat.eqb (length (g_stats m)) (length (g_regions m))) ms.

Definition monitor (c : case) : option string :=
  match c with
  | CBuf cap ops obs => mon_buf (ainit cap) true true ops obs
  | CSync lp lrecs regions fp msgs fcache fnext fsaved =>
      let lh := leader_hist lp lrecs in
      let start := reload_index true fp in
      let kind := fst (sync_history (buf lh) regions start) in
      match kind with
      | KFull =>
          (* everything the leader holds must have been sent, then held by the follower *)
          if negb (list_eqb Z.eqb (map snd (number_batches 0 msgs)) (map (fun r => m_id (meta r)) regions))
          then Some "C16:full-sync:sent-set-differs-from-leader-set"
          else mon_sent "full-sync" regions fcache (number_batches 0 msgs)
      | KIncr => mon_sent "incr-sync" lrecs fcache (map (fun p => (O, snd p)) (number_batches 0 msgs))
      | _ => match msgs with [] => None | _ => Some "C16:sync:unexpected-messages" end
      end
  | CBcast lp pending msgs fcache fnext =>
      if negb (list_eqb Z.eqb (map snd (number_batches 0 msgs)) (map (fun r => m_id (meta r)) pending))
      then Some "C16:broadcast:sent-set-differs-from-notified-set"
      else mon_sent "broadcast" pending fcache (map (fun p => (O, snd p)) (number_batches 0 msgs))
  | CChain lp lrecs regions fp stored pending msgs fcache fnext =>
      (* whatever was sent, in either phase, must be held with the leader's newest version *)
      mon_sent "sync+broadcast" (regions ++ pending) fcache (map (fun p => (O, snd p)) (number_batches 0 msgs))
  | CCut lp regions cut fail_ids pending msgs fcache fnext =>
      (* whatever was delivered, before or after the cut, must be held with the leader's newest version *)
      mon_sent "cut+reconnect" (regions ++ pending) fcache (map (fun p => (O, snd p)) (number_batches 0 msgs))
  end.

Fixpoint monitor_fails_from (n : nat) (cs : list case) : list (nat * string) :=
  match cs with
  | [] => []
  | c :: r => match monitor c with
              | None => monitor_fails_from (S n) r
              | Some sg => (n, sg) :: monitor_fails_from (S n) r
              end
  end.
Definition monitor_fails := monitor_fails_from 0.
