(* C04 — executable model of server/id/id.go (allocatorImpl) over one etcd store.
   Definitions only; proofs live in proof/C04_IdAllocProof.v.
   Labels are the atomic sections of the real code: the in-memory fast path of Alloc,
   the etcd Get of rebaseLocked, the etcd Txn of rebaseLocked (with its outcome).
   The instance mutex is held across Get..Txn, which is why an instance with a
   pending rebase accepts no other label. *)
From Coq Require Import String.
From PDV Require Import lib.Base gen.Gen_C04.
Local Open Scope Z_scope.

Definition step_sz : Z := Gen_C04.allocStep.

Inductive outcome := Ok | ErrNotApplied | ErrApplied.
Inductive kind := FromAlloc | FromRebase.

Record inst := Inst { mem : Z; base : Z; endv : Z; pending : option (option Z * kind) }.

Record issue := Issue { by_inst : nat; id_of : Z; stored_then : Z }.

Record state := State {
  alloc_id : option Z;            (* etcd value of <root>/alloc_id, None = key absent *)
  leader   : option Z;            (* etcd value of <root>/leader *)
  insts    : nat -> option inst;
  nexti    : nat;
  issued   : list issue           (* ghost: newest first *)
}.

Definition init : state := State None None (fun _ => None) 0 [].

Inductive label :=
| LAllocFast (i : nat)
| LGet (i : nat) (k : kind)
| LTxn (i : nat) (o : outcome)
| LNew (m : Z)
| LSetLeader (o : option Z).

Definition stored (s : state) : Z := match alloc_id s with Some e => e | None => 0 end.

Definition set_inst (s : state) (i : nat) (x : inst) : state :=
  State (alloc_id s) (leader s) (fun j => if Nat.eqb j i then Some x else insts s j) (nexti s) (issued s).

Definition optZ_eqb := opt_eqb Z.eqb.

(* The two comparisons of rebaseLocked (Gen_C04.rebase_cmps): the value (or absence) of
   alloc_id seen by the Get, and the leader record equal to this member. *)
Definition cmp_ok (s : state) (x : inst) (snap : option Z) : bool :=
  optZ_eqb (alloc_id s) snap && optZ_eqb (leader s) (Some (mem x)).

Definition step (s : state) (l : label) : option state :=
  match l with
  | LNew m =>
      Some (State (alloc_id s) (leader s)
                  (fun j => if Nat.eqb j (nexti s) then Some (Inst m 0 0 None) else insts s j)
                  (S (nexti s)) (issued s))
  | LSetLeader o => Some (State (alloc_id s) o (insts s) (nexti s) (issued s))
  | LAllocFast i =>
      match insts s i with
      | Some x =>
          match pending x with
          | None =>
              if base x =? endv x then None
              else
                let b := base x + 1 in
                let s1 := set_inst s i (Inst (mem x) b (endv x) None) in
                Some (State (alloc_id s1) (leader s1) (insts s1) (nexti s1)
                            (Issue i b (stored s) :: issued s))
          | Some _ => None
          end
      | None => None
      end
  | LGet i k =>
      match insts s i with
      | Some x =>
          match pending x with
          | None =>
              match k with
              | FromAlloc => if base x =? endv x
                             then Some (set_inst s i (Inst (mem x) (base x) (endv x) (Some (alloc_id s, k))))
                             else None
              | FromRebase => Some (set_inst s i (Inst (mem x) (base x) (endv x) (Some (alloc_id s, k))))
              end
          | Some _ => None
          end
      | None => None
      end
  | LTxn i o =>
      match insts s i with
      | Some x =>
          match pending x with
          | Some (snap, k) =>
              let ok := cmp_ok s x snap in
              let e := (match snap with Some v => v | None => 0 end) + step_sz in
              let applied := match o with ErrNotApplied => false | _ => ok end in
              let acked := match o with Ok => ok | _ => false end in
              let aid := if applied then Some e else alloc_id s in
              if acked then
                match k with
                | FromRebase =>
                    Some (State aid (leader s)
                                (fun j => if Nat.eqb j i then Some (Inst (mem x) (e - step_sz) e None) else insts s j)
                                (nexti s) (issued s))
                | FromAlloc =>
                    Some (State aid (leader s)
                                (fun j => if Nat.eqb j i then Some (Inst (mem x) (e - step_sz + 1) e None) else insts s j)
                                (nexti s) (Issue i (e - step_sz + 1) e :: issued s))
                end
              else
                Some (State aid (leader s)
                            (fun j => if Nat.eqb j i then Some (Inst (mem x) (base x) (endv x) None) else insts s j)
                            (nexti s) (issued s))
          | None => None
          end
      | None => None
      end
  end.

(* ---------- operation-level wrapper used by the correspondence check ---------- *)
Inductive op :=
| OAlloc (i : nat)                 (* complete, un-parked Alloc call *)
| ORebase (i : nat)                (* complete, un-parked Rebase call *)
| OBegin (i : nat) (k : kind)      (* start a call; its Txn is parked after the Get *)
| OFinish (i : nat) (o : outcome)  (* release the parked Txn with this outcome; obs = result of the call *)
| ONew (m : Z)
| OSetLeader (o : option Z)
| ORead.                           (* read alloc_id and leader from etcd *)

Inductive obs :=
| BId (z : Z) | BErrConflict | BErrEtcd | BUnit | BStarted | BFast (z : Z)
| BStored (a : option Z) (l : option Z) | BBad.

Definition last_issue (s : state) : Z := match issued s with x :: _ => id_of x | [] => -1 end.

Definition finish (s : state) (i : nat) (o : outcome) : state * obs :=
  match insts s i with
  | Some x =>
      match pending x with
      | Some (snap, k) =>
          match step s (LTxn i o) with
          | Some s' =>
              match o with
              | Ok => if cmp_ok s x snap
                      then (s', match k with FromAlloc => BId (last_issue s') | FromRebase => BUnit end)
                      else (s', BErrConflict)
              | _ => (s', BErrEtcd)
              end
          | None => (s, BBad)
          end
      | None => (s, BBad)
      end
  | None => (s, BBad)
  end.

Definition run_op (s : state) (o : op) : state * obs :=
  match o with
  | ONew m => match step s (LNew m) with Some s' => (s', BUnit) | None => (s, BBad) end
  | OSetLeader l => match step s (LSetLeader l) with Some s' => (s', BUnit) | None => (s, BBad) end
  | ORead => (s, BStored (alloc_id s) (leader s))
  | OAlloc i =>
      match step s (LAllocFast i) with
      | Some s' => (s', BId (last_issue s'))
      | None => match step s (LGet i FromAlloc) with
                | Some s1 => finish s1 i Ok
                | None => (s, BBad)
                end
      end
  | ORebase i =>
      match step s (LGet i FromRebase) with
      | Some s1 => finish s1 i Ok
      | None => (s, BBad)
      end
  | OBegin i k =>
      match k with
      | FromAlloc =>
          match step s (LAllocFast i) with
          | Some s' => (s', BFast (last_issue s'))   (* no etcd access: the call returned at once *)
          | None => match step s (LGet i FromAlloc) with
                    | Some s1 => (s1, BStarted) | None => (s, BBad) end
          end
      | FromRebase =>
          match step s (LGet i FromRebase) with Some s1 => (s1, BStarted) | None => (s, BBad) end
      end
  | OFinish i o => finish s i o
  end.

Definition obs_eqb (a b : obs) : bool :=
  match a, b with
  | BId x, BId y => x =? y
  | BFast x, BFast y => x =? y
  | BErrConflict, BErrConflict | BErrEtcd, BErrEtcd | BUnit, BUnit | BStarted, BStarted | BBad, BBad => true
  | BStored a l, BStored a' l' => optZ_eqb a a' && optZ_eqb l l'
  | _, _ => false
  end.

Definition model_obs (ops : list op) : list obs := run run_op init ops.

(* one case = the ops the harness ran and what the implementation showed *)
Definition check_case (c : list op * list obs) : list (nat * option obs * option obs) :=
  diff_at obs_eqb 0 (model_obs (fst c)) (snd c).

Fixpoint mismatches_from (n : nat) (cs : list (list op * list obs)) :=
  match cs with
  | [] => []
  | c :: r => match check_case c with
              | [] => mismatches_from (S n) r
              | d => (n, d) :: mismatches_from (S n) r
              end
  end.
Definition mismatches := mismatches_from 0.

(* Monitor: the property evaluated directly on an implementation trace.
   ids returned are pairwise distinct; per instance increasing; each id <= the stored
   bound read at the closest following ORead is checked by le_stored below. *)
Fixpoint ids_of (ops : list op) (obs_l : list obs) : list (nat * Z) :=
  match ops, obs_l with
  | o :: r, b :: br =>
      let rest := ids_of r br in
      match o, b with
      | OAlloc i, BId z => (i, z) :: rest
      | OBegin i _, BFast z => (i, z) :: rest
      | OFinish i _, BId z => (i, z) :: rest
      | _, _ => rest
      end
  | _, _ => []
  end.

Fixpoint incr_per_inst (l : list (nat * Z)) : bool :=
  match l with
  | [] => true
  | (i, z) :: r => forallb (fun p => negb (Nat.eqb (fst p) i) || (z <? snd p)) r && incr_per_inst r
  end.

(* every id returned so far is <= the stored end whenever the store is read *)
Fixpoint le_stored (seen : list Z) (ops : list op) (obs_l : list obs) : bool :=
  match ops, obs_l with
  | o :: r, b :: br =>
      match o, b with
      | OAlloc _, BId z | OBegin _ _, BFast z | OFinish _ _, BId z => le_stored (z :: seen) r br
      | ORead, BStored a _ =>
          forallb (fun z => z <=? match a with Some e => e | None => 0 end) seen && le_stored seen r br
      | _, _ => le_stored seen r br
      end
  | _, _ => true
  end.

(* a window extension acknowledged to a member that is not the recorded leader *)
Fixpoint leader_guard (ld : option Z) (mems : list Z) (ops : list op) (obs_l : list obs) : bool :=
  match ops, obs_l with
  | o :: r, b :: br =>
      match o, b with
      | ONew m, _ => leader_guard ld (mems ++ [m]) r br
      | OSetLeader l, _ => leader_guard l mems r br
      | ORebase i, BUnit | OFinish i Ok, BUnit | OFinish i Ok, BId _ =>
          optZ_eqb ld (nth_error mems i) && leader_guard ld mems r br
      | _, _ => leader_guard ld mems r br
      end
  | _, _ => true
  end.

Local Open Scope string_scope.
Definition monitor (c : list op * list obs) : option string :=
  let ids := ids_of (fst c) (snd c) in
  if negb (nodupZ (map snd ids)) then Some "C04:duplicate-id"
  else if negb (incr_per_inst ids) then Some "C04:not-increasing-within-allocator"
  else if negb (le_stored [] (fst c) (snd c)) then Some "C04:id-above-stored-bound"
  else if negb (leader_guard None [] (fst c) (snd c)) then Some "C04:non-leader-extended-window"
  else None.

Fixpoint monitor_fails_from (n : nat) (cs : list (list op * list obs)) : list (nat * string) :=
  match cs with
  | [] => []
  | c :: r => match monitor c with
              | None => monitor_fails_from (S n) r
              | Some sg => (n, sg) :: monitor_fails_from (S n) r
              end
  end.
Definition monitor_fails := monitor_fails_from 0.
