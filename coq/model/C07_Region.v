(* C07 — executable model of server/core/region_tree.go (L1) and of RegionsInfo in
   server/core/region.go (L2), written over the ordered-list specification L0 of pkg/btree
   exactly as the Go code is written over the btree.  Definitions only.

   Sharing of *regionItem between the main tree, the id map and the per-store sub-trees is
   modelled by `assign`: the Go statement `item.region = region` makes the new RegionInfo
   visible in every container that holds the item, so the model replaces the entry with that
   region id in the id map, in the main tree and in every sub-tree at that point of SetRegion.

   Corner cases kept literally: empty end key = +infinity (`is_nil e || ...`), empty start key is
   the least key (it simply is the least byte string), a nil leader has peer id 0, TotalSize() of
   an empty tree is 0 whatever the counter says, GetAverageRegionSize divides with truncation. *)
From Coq Require Import String.
From PDV Require Import lib.Base lib.C07_Key gen.Gen_C07 model.C07_BTreeSpec model.C07_BTree.
Local Open Scope Z_scope.

(* ---------------------------------------------------------------------------------------- *)
(* RegionInfo, projected to what RegionsInfo / PreCheckPutRegion read.                        *)
Record peer := Peer { p_id : Z; p_store : Z; p_learner : bool }.

Record region := Region {
  r_id : Z; r_start : key; r_end : key;
  r_peers : list peer;            (* meta.Peers, in the order given *)
  r_leader : Z;                   (* leader.GetId(); 0 when the leader is nil *)
  r_pending : list peer;          (* pendingPeers as stored in the RegionInfo *)
  r_size : Z;                     (* approximateSize *)
  r_ver : Z; r_confver : Z; r_term : Z;   (* used by C06 *)
  r_stamp : Z                     (* approximateKeys: the driver gives every RegionInfo object a unique stamp *)
}.

(* case files write keys as lists of Z byte codes *)
Definition K (l : list Z) : key := map Z.to_N l.

Definition tmp (k : key) : region := Region 0 k [] [] 0 [] 0 0 0 0 0.
(* &RegionInfo{meta: &metapb.Region{StartKey: k}} *)

(* sort.Sort(peerSlice): insertion sort for fewer than 12 elements, i.e. stable *)
Fixpoint ins_peer (p : peer) (l : list peer) : list peer :=
  match l with
  | [] => [p]
  | x :: r => if p_id p <? p_id x then p :: x :: r else x :: ins_peer p r
  end.
Definition sort_peers (l : list peer) : list peer := fold_left (fun acc p => ins_peer p acc) l [].

Definition voters (r : region) : list peer := sort_peers (filter (fun p => negb (p_learner p)) (r_peers r)).
Definition learners_of (r : region) : list peer := sort_peers (filter p_learner (r_peers r)).

Fixpoint sorted_peers_equal (a b : list peer) : bool :=
  match a, b with
  | [], [] => true
  | x :: a', y :: b' => (p_store x =? p_store y) && (p_id x =? p_id y) && sorted_peers_equal a' b'
  | _, _ => false
  end.

(* shouldRemoveFromSubTree *)
Definition should_remove (r origin : region) : bool :=
  negb (r_leader origin =? r_leader r)
  || negb (sorted_peers_equal (voters origin) (voters r))
  || negb (sorted_peers_equal (learners_of origin) (learners_of r))
  || negb (sorted_peers_equal (r_pending origin) (r_pending r)).

(* ---------------------------------------------------------------------------------------- *)
(* L1: regionTree                                                                             *)
Definition rlt (a b : region) : bool := key_ltb (r_start a) (r_start b).       (* regionItem.Less *)

Definition contains (r : region) (k : key) : bool :=                           (* regionItem.Contains *)
  key_leb (r_start r) k && (is_nil (r_end r) || key_ltb k (r_end r)).

Record rtree := RT { items : list region; total : Z }.
Definition rt_empty : rtree := RT [] 0.
Definition rt_len (t : rtree) : Z := Z.of_nat (length (items t)).

Definition find (t : rtree) (r : region) : option region :=
  match l0_descend_le rlt r (items t) with
  | x :: _ => if contains x (r_start r) then Some x else None
  | [] => None
  end.

Fixpoint take_while {A} (f : A -> bool) (l : list A) : list A :=
  match l with [] => [] | x :: r => if f x then x :: take_while f r else [] end.

(* the iterator of getOverlaps keeps going while this holds *)
Definition before_end (r over : region) : bool :=
  negb (negb (is_nil (r_end r)) && key_leb (r_end r) (r_start over)).

Definition get_overlaps (t : rtree) (r : region) : list region :=
  let start := match find t r with Some x => x | None => r end in
  take_while (before_end r) (l0_ascend_ge rlt start (items t)).

Definition update (t : rtree) (r : region) : rtree * list region :=
  let ov := get_overlaps (RT (items t) (total t + r_size r)) r in
  let t1 := fold_left (fun acc old => RT (fst (l0_delete rlt old (items acc))) (total acc - r_size old))
                      ov (RT (items t) (total t + r_size r)) in
  (RT (fst (l0_insert rlt r (items t1))) (total t1), ov).

Definition update_stat (t : rtree) (origin r : region) : rtree :=
  RT (items t) (total t + r_size r - r_size origin).

Definition remove (t : rtree) (r : region) : rtree :=
  if rt_len t =? 0 then t
  else match find t r with
       | None => t
       | Some x => if r_id x =? r_id r
                   then RT (fst (l0_delete rlt x (items t))) (total t - r_size r)
                   else t
       end.

Definition search (t : rtree) (k : key) : option region := find t (tmp k).

Definition get_adjacent (t : rtree) (r : region) : option region * option region :=
  let p := tmp (r_start r) in
  let other := fun i : region => negb (key_eqb (r_start p) (r_start i)) in
  (List.find other (l0_descend_le rlt p (items t)), List.find other (l0_ascend_ge rlt p (items t))).

Definition search_prev (t : rtree) (k : key) : option region :=
  match find t (tmp k) with
  | None => None
  | Some cur =>
      match fst (get_adjacent t cur) with
      | None => None
      | Some p => if key_eqb (r_end p) (r_start cur) then Some p else None
      end
  end.

(* everything the iterator of scanRange would be offered, in order *)
Definition scan_range (t : rtree) (k : key) : list region :=
  let start := match find t (tmp k) with Some x => x | None => tmp k end in
  l0_ascend_ge rlt start (items t).

Definition scan_ranges (t : rtree) : list region :=
  if rt_len t =? 0 then [] else scan_range t [].

Definition total_size (t : rtree) : Z := if rt_len t =? 0 then 0 else total t.

(* isInvolved *)
Definition involved (r : region) (s e : key) : bool :=
  key_leb s (r_start r) && (is_nil e || (negb (is_nil (r_end r)) && key_leb (r_end r) e)).

(* the index interval [startIndex, endIndex) RandomRegion samples from, for one key range *)
Definition rand_interval (t : rtree) (s e : key) : Z * Z :=
  let '(sr, si) := l0_get_with_index rlt (tmp s) (items t) in
  let si := Z.of_nat si in
  let ei := if is_nil e then rt_len t else Z.of_nat (snd (l0_get_with_index rlt (tmp e) (items t))) in
  let si' := if negb (si =? 0)
                && (match sr with None => true | Some _ => false end)
                && (match l0_get_at (si - 1) (items t) with Some x => contains x s | None => false end)
             then si - 1 else si in
  (si', ei).

(* candidates of one range: the regions at the sampled indices that pass isInvolved *)
Fixpoint range_Z (from : Z) (n : nat) : list Z :=
  match n with O => [] | S m => from :: range_Z (from + 1) m end.

Definition rand_cands (t : rtree) (s e : key) : list (Z * region * bool) :=   (* (index, region, involved) *)
  let '(si, ei) := rand_interval t s e in
  if ei <=? si then []
  else flat_map (fun i => match l0_get_at i (items t) with
                          | Some x => [(i, x, involved x s e)]
                          | None => [] end)
                (range_Z si (Z.to_nat (ei - si))).

(* ---------------------------------------------------------------------------------------- *)
(* L2: RegionsInfo                                                                            *)
Definition fam := Z -> rtree.                      (* storeID -> sub regionTree; a missing tree is the empty one *)
Definition fam_empty : fam := fun _ => rt_empty.
Definition fam_set (f : fam) (s : Z) (t : rtree) : fam := fun x => if x =? s then t else f x.

Record rinfo := RI {
  regs : list (Z * region);        (* regionMap: id -> item (its current RegionInfo) *)
  tree : rtree;
  leaders : fam; followers : fam; learners : fam; pendings : fam;
  bad : bool                       (* the Go code would have dereferenced nil *)
}.

Definition ri_empty : rinfo := RI [] rt_empty fam_empty fam_empty fam_empty fam_empty false.

Fixpoint regs_get (l : list (Z * region)) (id : Z) : option region :=
  match l with
  | [] => None
  | (k, v) :: r => if k =? id then Some v else regs_get r id
  end.
Fixpoint regs_put (l : list (Z * region)) (id : Z) (v : region) : list (Z * region) :=
  match l with
  | [] => [(id, v)]
  | (k, w) :: r => if k =? id then (k, v) :: r else (k, w) :: regs_put r id v
  end.
Fixpoint regs_del (l : list (Z * region)) (id : Z) : list (Z * region) :=
  match l with
  | [] => []
  | (k, w) :: r => if k =? id then r else (k, w) :: regs_del r id
  end.

Definition get_region (st : rinfo) (id : Z) : option region := regs_get (regs st) id.

Definition set_tree (st : rinfo) (t : rtree) : rinfo :=
  RI (regs st) t (leaders st) (followers st) (learners st) (pendings st) (bad st).

(* item.region = region *)
Definition repl (id : Z) (r : region) (t : rtree) : rtree :=
  RT (map (fun x => if r_id x =? id then r else x) (items t)) (total t).
Definition assign (st : rinfo) (r : region) : rinfo :=
  let id := r_id r in
  RI (regs_put (regs st) id r) (repl id r (tree st))
     (fun s => repl id r (leaders st s)) (fun s => repl id r (followers st s))
     (fun s => repl id r (learners st s)) (fun s => repl id r (pendings st s)) (bad st).

(* The loops of removeRegionFromSubTree / SetRegion / updateSubTreeStat walk over a peer list and
   touch, per peer, the tree of that peer's store in one or several of the four independent maps.
   Updates of different maps commute, so each loop is written as one fold per map: `fam_fold g c ps fm`
   applies g to the tree of p's store for every p in ps (in order) that satisfies c. *)
Definition fam_fold (g : rtree -> rtree) (c : peer -> bool) (ps : list peer) (fm : fam) : fam :=
  fold_left (fun f p => if c p then fam_set f (p_store p) (g (f (p_store p))) else f) ps fm.

Definition all_peers (_ : peer) : bool := true.
Definition is_leader (r : region) (p : peer) : bool := p_id p =? r_leader r.
Definition not_leader (r : region) (p : peer) : bool := negb (is_leader r p).

(* removeRegionFromSubTree *)
Definition remove_from_subtrees (st : rinfo) (r : region) : rinfo :=
  let g := fun t => remove t r in
  RI (regs st) (tree st)
     (fam_fold g all_peers (r_peers r) (leaders st)) (fam_fold g all_peers (r_peers r) (followers st))
     (fam_fold g all_peers (r_peers r) (learners st)) (fam_fold g all_peers (r_peers r) (pendings st)) (bad st).

(* RemoveRegion *)
Definition remove_region (st : rinfo) (r : region) : rinfo :=
  let st1 := set_tree st (remove (tree st) r) in
  let st2 := RI (regs_del (regs st1) (r_id r)) (tree st1) (leaders st1) (followers st1) (learners st1) (pendings st1) (bad st1) in
  remove_from_subtrees st2 r.

Definition mark_bad (st : rinfo) : rinfo :=
  RI (regs st) (tree st) (leaders st) (followers st) (learners st) (pendings st) true.

(* the four loops at the end of SetRegion *)
Definition add_to_subtrees (st : rinfo) (r : region) : rinfo :=
  let g := fun t => fst (update t r) in
  RI (regs st) (tree st)
     (fam_fold g (is_leader r) (voters r) (leaders st)) (fam_fold g (not_leader r) (voters r) (followers st))
     (fam_fold g all_peers (learners_of r) (learners st)) (fam_fold g all_peers (r_pending r) (pendings st)) (bad st).

(* updateSubTreeStat (a store without a tree is skipped: `if tree, ok := ...`; an empty model tree
   stands for both "no tree" and "empty tree", and updateStat on it is unobservable because
   TotalSize() of an empty tree is 0 — but the counter is kept faithfully for the non-empty case) *)
Definition stat_if_present (origin r : region) (t : rtree) : rtree :=
  if rt_len t =? 0 then t else update_stat t origin r.
Definition update_subtree_stat (st : rinfo) (origin r : region) : rinfo :=
  let g := stat_if_present origin r in
  RI (regs st) (tree st)
     (fam_fold g (is_leader r) (voters r) (leaders st)) (fam_fold g (not_leader r) (voters r) (followers st))
     (fam_fold g all_peers (learners_of r) (learners st)) (fam_fold g all_peers (r_pending r) (pendings st)) (bad st).

(* the part of SetRegion after the item has been fixed *)
Definition remove_overlapped (st : rinfo) (ov : list region) : rinfo :=
  fold_left (fun acc old => match get_region acc (r_id old) with
                            | Some cur => remove_region acc cur
                            | None => mark_bad acc          (* RemoveRegion(nil) *)
                            end) ov st.

Definition set_region (st : rinfo) (r : region) : rinfo * list region :=
  match get_region st (r_id r) with
  | Some origin =>
      let range_changed := negb (key_eqb (r_start origin) (r_start r)) || negb (key_eqb (r_end origin) (r_end r)) in
      let st1 := if range_changed then set_tree st (remove (tree st) origin) else st in
      let peers_changed := if range_changed then true else should_remove r origin in
      let st2 := if peers_changed then remove_from_subtrees st1 origin else st1 in
      let st3 := assign st2 r in
      let '(st4, ov) :=
        if negb range_changed then (set_tree st3 (update_stat (tree st3) origin r), [])
        else let '(t', ov) := update (tree st3) r in (remove_overlapped (set_tree st3 t') ov, ov) in
      let st5 := if negb peers_changed then update_subtree_stat st4 origin r else add_to_subtrees st4 r in
      (st5, ov)
  | None =>
      let st3 := RI (regs_put (regs st) (r_id r) r) (tree st) (leaders st) (followers st) (learners st) (pendings st) (bad st) in
      let '(t', ov) := update (tree st3) r in
      let st4 := remove_overlapped (set_tree st3 t') ov in
      (add_to_subtrees st4 r, ov)
  end.

(* ---- queries ---- *)
Definition back (st : rinfo) (o : option region) : option region :=      (* r.GetRegion(region.GetID()) *)
  match o with Some x => get_region st (r_id x) | None => None end.

Definition search_region (st : rinfo) (k : key) : option region := back st (search (tree st) k).
Definition search_prev_region (st : rinfo) (k : key) : option region := back st (search_prev (tree st) k).

Fixpoint scan_take (st : rinfo) (e : key) (limit : Z) (n : Z) (l : list region) : list (option region) :=
  match l with
  | [] => []
  | x :: r =>
      if negb (is_nil e) && key_leb e (r_start x) then []
      else if (0 <? limit) && (limit <=? n) then []
      else get_region st (r_id x) :: scan_take st e limit (n + 1) r
  end.
Definition scan (st : rinfo) (s e : key) (limit : Z) : list (option region) :=
  scan_take st e limit 0 (scan_range (tree st) s).

Definition adjacent (st : rinfo) (r : region) : option region * option region :=
  let '(p, n) := get_adjacent (tree st) r in
  (match p with Some x => if key_eqb (r_end x) (r_start r) then get_region st (r_id x) else None | None => None end,
   match n with Some x => if key_eqb (r_end r) (r_start x) then get_region st (r_id x) else None | None => None end).

Definition avg_size (st : rinfo) : Z :=
  if rt_len (tree st) =? 0 then 0 else Z.quot (total_size (tree st)) (rt_len (tree st)).

Definition store_regions (st : rinfo) (s : Z) : list region :=
  scan_ranges (leaders st s) ++ scan_ranges (followers st s) ++ scan_ranges (learners st s).

Inductive famk := FLeader | FFollower | FLearner | FPending.
Definition fam_of (st : rinfo) (f : famk) : fam :=
  match f with FLeader => leaders st | FFollower => followers st | FLearner => learners st | FPending => pendings st end.

(* RandomRegion for one range with the random index drawn as `draw k` = the value rand.Intn(k) returned *)
Definition random_one (t : rtree) (s e : key) (draws : list Z) : option (option region) :=
  if rt_len t =? 0 then Some None
  else
    let '(si, ei) := rand_interval t s e in
    if ei <=? si then Some None
    else match nth_error draws (Z.to_nat (ei - si - 1)) with
         | None => None                                  (* the driver did not supply that draw *)
         | Some d => match l0_get_at (si + d) (items t) with
                     | Some x => Some (if involved x s e then Some x else None)
                     | None => None
                     end
         end.

(* RandomRegion for several ranges: the set of admissible results (any permutation, any index) *)
Definition random_many (t : rtree) (ranges : list (key * key)) : bool * list region :=   (* (nil admissible, candidates) *)
  if rt_len t =? 0 then (true, [])
  else
    let per := map (fun se => rand_cands t (fst se) (snd se)) ranges in
    (forallb (fun c : list (Z * region * bool) =>
                match c with [] => true | _ => existsb (fun x : Z * region * bool => negb (snd x)) c end) per,
     flat_map (fun c : list (Z * region * bool) =>
                 flat_map (fun x : Z * region * bool => if snd x then [snd (fst x)] else []) c) per).

(* ---------------------------------------------------------------------------------------- *)
(* operations and observations of the correspondence check                                    *)
Inductive rop :=
| OSet (r : region)
| ORemove (id : Z)                       (* if region := GetRegion(id); region != nil { RemoveRegion(region) } *)
| OGet (id : Z)
| OSearch (k : key) | OSearchPrev (k : key)
| OScan (s e : key) (limit : Z)
| OOverlaps (r : region)
| OAdjacent (r : region)
| OCounts (store : Z)
| OGlobal
| OStoreRegions (store : Z)
| OAll
| ORand1 (f : famk) (store : Z) (s e : key) (draws : list Z)
| ORandN (f : famk) (store : Z) (ranges : list (key * key)).

Definition rref := (Z * Z)%type.          (* (region id, stamp) identifies one RegionInfo object *)
Definition ref_of (r : region) : rref := (r_id r, r_stamp r).
Definition oref (o : option region) : option rref := option_map ref_of o.

Inductive robs :=
| RoUnit
| RoReg (o : option rref)
| RoRegs (l : list rref)
| RoPair (a b : option rref)
| RoNums (l : list Z)
| RoRandSet (nil_ok : bool) (c : list rref)     (* model side only: admissible results of ORandN *)
| RoBad (why : string).

Fixpoint ins_ref (p : rref) (l : list rref) : list rref :=
  match l with
  | [] => [p]
  | x :: r => if fst p <? fst x then p :: x :: r else x :: ins_ref p r
  end.
Definition sort_refs (l : list rref) : list rref := fold_left (fun acc p => ins_ref p acc) l [].

Fixpoint all_some {A} (l : list (option A)) : option (list A) :=
  match l with
  | [] => Some []
  | Some x :: r => match all_some r with Some r' => Some (x :: r') | None => None end
  | None :: _ => None
  end.

Local Open Scope string_scope.

Definition ri_step (st : rinfo) (o : rop) : rinfo * robs :=
  match o with
  | OSet r => let '(st', ov) := set_region st r in
              if bad st' then (st', RoBad "nil-deref") else (st', RoRegs (map ref_of ov))
  | ORemove id => match get_region st id with
                  | Some r => (remove_region st r, RoUnit)
                  | None => (st, RoUnit)
                  end
  | OGet id => (st, RoReg (oref (get_region st id)))
  | OSearch k => (st, RoReg (oref (search_region st k)))
  | OSearchPrev k => (st, RoReg (oref (search_prev_region st k)))
  | OScan s e lim => match all_some (scan st s e lim) with
                     | Some l => (st, RoRegs (map ref_of l))
                     | None => (st, RoBad "scan-nil")      (* a nil element in the result slice *)
                     end
  | OOverlaps r => (st, RoRegs (map ref_of (get_overlaps (tree st) r)))
  | OAdjacent r => let '(p, n) := adjacent st r in (st, RoPair (oref p) (oref n))
  | OCounts s =>
      (st, RoNums [rt_len (leaders st s); rt_len (followers st s); rt_len (learners st s); rt_len (pendings st s);
                   total_size (leaders st s); total_size (followers st s); total_size (learners st s)])
  | OGlobal => (st, RoNums [Z.of_nat (length (regs st)); rt_len (tree st); total_size (tree st); avg_size st])
  | OStoreRegions s => (st, RoRegs (map ref_of (store_regions st s)))
  | OAll => (st, RoRegs (sort_refs (map (fun kv => ref_of (snd kv)) (regs st))))
  | ORand1 f s ks ke draws =>
      match random_one (fam_of st f s) ks ke draws with
      | Some o => (st, RoReg (oref o))
      | None => (st, RoBad "draw-missing")
      end
  | ORandN f s ranges =>
      let '(n, c) := random_many (fam_of st f s) ranges in (st, RoRandSet n (map ref_of c))
  end.

Fixpoint ri_run (st : rinfo) (ops : list rop) : list robs :=
  match ops with
  | [] => []
  | o :: r => let '(st', b) := ri_step st o in b :: ri_run st' r
  end.
Fixpoint ri_state (st : rinfo) (ops : list rop) : rinfo :=
  match ops with [] => st | o :: r => ri_state (fst (ri_step st o)) r end.

Definition ref_eqb (a b : rref) : bool := (fst a =? fst b)%Z && (snd a =? snd b)%Z.
Definition oref_eqb := opt_eqb ref_eqb.
Definition refs_eqb := list_eqb ref_eqb.

(* first argument: model, second: implementation *)
Definition robs_eqb (a b : robs) : bool :=
  match a, b with
  | RoUnit, RoUnit => true
  | RoReg x, RoReg y => oref_eqb x y
  | RoRegs x, RoRegs y => refs_eqb x y
  | RoPair x1 x2, RoPair y1 y2 => oref_eqb x1 y1 && oref_eqb x2 y2
  | RoNums x, RoNums y => zlist_eqb x y
  | RoRandSet n c, RoReg None => n
  | RoRandSet n c, RoReg (Some y) => existsb (ref_eqb y) c
  | RoBad x, RoBad y => String.eqb x y      (* model and code agree on the anomaly (malformed stream only) *)
  | _, _ => false
  end.

(* ---------------------------------------------------------------------------------------- *)
(* The specification the property talks about: a plain list of the current regions and linear
   scans over it.  The theorems of props/C07.v say the model above equals this specification;
   the monitor below evaluates the specification on the implementation's own trace.           *)
Definition valid_range (r : region) : bool := is_nil (r_end r) || key_ltb (r_start r) (r_end r).
Definition pending_in_peers (r : region) : bool :=
  forallb (fun p => existsb (fun q => p_store q =? p_store p)%Z (r_peers r)) (r_pending r).
Fixpoint nodup_stores (l : list peer) : bool :=
  match l with
  | [] => true
  | p :: t => negb (existsb (fun q => p_store q =? p_store p)%Z t) && nodup_stores t
  end.
Definition wf_peers (r : region) : bool :=
  pending_in_peers r && nodup_stores (r_peers r) && nodup_stores (r_pending r).
Definition wf_region (r : region) : bool := valid_range r && wf_peers r.

Definition overlaps (a b : region) : bool :=
  (is_nil (r_end a) || key_ltb (r_start b) (r_end a)) && (is_nil (r_end b) || key_ltb (r_start a) (r_end b)).

Definition spec := list region.
Definition spec_set (l : spec) (r : region) : spec :=
  r :: filter (fun x => negb (r_id x =? r_id r)%Z && negb (overlaps x r)) l.
Definition spec_remove (l : spec) (id : Z) : spec := filter (fun x => negb (r_id x =? id)%Z) l.

(* insertion sort by start key: "in key order" *)
Fixpoint ins_region (r : region) (l : list region) : list region :=
  match l with
  | [] => [r]
  | x :: t => if rlt r x then r :: x :: t else x :: ins_region r t
  end.
Definition sort_regions (l : list region) : list region := fold_right ins_region [] l.

Definition has_role (f : famk) (s : Z) (r : region) : bool :=
  match f with
  | FLeader => existsb (fun p => negb (p_learner p) && (p_store p =? s)%Z && (p_id p =? r_leader r)%Z) (r_peers r)
  | FFollower => existsb (fun p => negb (p_learner p) && (p_store p =? s)%Z && negb (p_id p =? r_leader r)%Z) (r_peers r)
  | FLearner => existsb (fun p => p_learner p && (p_store p =? s)%Z) (r_peers r)
  | FPending => existsb (fun p => (p_store p =? s)%Z) (r_pending r)
  end.

Definition sum_size (l : list region) : Z := fold_right (fun r a => r_size r + a)%Z 0%Z l.

Definition spec_search (l : spec) (k : key) : option region := List.find (fun r => contains r k) l.
Definition spec_overlaps (l : spec) (r : region) : list region := sort_regions (filter (fun x => overlaps x r) l).
Definition scan_pred (s e : key) (r : region) : bool :=
  (is_nil e || key_ltb (r_start r) e) && (is_nil (r_end r) || key_ltb s (r_end r)).
Definition spec_scan (l : spec) (s e : key) (limit : Z) : list region :=
  let all := sort_regions (filter (scan_pred s e) l) in
  if (0 <? limit)%Z then firstn (Z.to_nat limit) all else all.
Definition spec_prev (l : spec) (k : key) : option region :=
  match spec_search l k with
  | None => None
  | Some cur => List.find (fun p => negb (is_nil (r_end p)) && key_eqb (r_end p) (r_start cur)) l
  end.
Definition spec_adjacent (l : spec) (r : region) : option region * option region :=
  (List.find (fun p => negb (is_nil (r_end p)) && key_eqb (r_end p) (r_start r) && key_ltb (r_start p) (r_start r)) l,
   List.find (fun n => key_eqb (r_end r) (r_start n) && key_ltb (r_start r) (r_start n)
                       && negb (existsb (fun x => key_ltb (r_start r) (r_start x) && key_ltb (r_start x) (r_start n)) l)) l).
Definition spec_fam (l : spec) (f : famk) (s : Z) : list region := sort_regions (filter (has_role f s) l).
Definition spec_rand_cands (l : spec) (f : famk) (st : Z) (s e : key) : list region :=
  filter (fun r => involved r s e) (spec_fam l f st).

Definition spec_step (l : spec) (o : rop) : spec :=
  match o with
  | OSet r => spec_set l r
  | ORemove id => spec_remove l id
  | _ => l
  end.

(* what the specification says an implementation observation must be; None = no opinion
   (operation outside the domain of the property, or a random pick checked as a set) *)
Definition spec_expect (l : spec) (o : rop) : option robs :=
  match o with
  | OSet r => Some (RoRegs (map ref_of (sort_regions (filter (fun x => negb (r_id x =? r_id r)%Z && overlaps x r) l))))
  | ORemove _ => Some RoUnit
  | OGet id => Some (RoReg (oref (List.find (fun r => (r_id r =? id)%Z) l)))
  | OSearch k => Some (RoReg (oref (spec_search l k)))
  | OSearchPrev k => Some (RoReg (oref (spec_prev l k)))
  | OScan s e lim => Some (RoRegs (map ref_of (spec_scan l s e lim)))
  | OOverlaps r => if valid_range r then Some (RoRegs (map ref_of (spec_overlaps l r))) else None
  | OAdjacent r => let '(p, n) := spec_adjacent l r in Some (RoPair (oref p) (oref n))
  | OCounts s =>
      Some (RoNums [Z.of_nat (length (spec_fam l FLeader s)); Z.of_nat (length (spec_fam l FFollower s));
                    Z.of_nat (length (spec_fam l FLearner s)); Z.of_nat (length (spec_fam l FPending s));
                    sum_size (spec_fam l FLeader s); sum_size (spec_fam l FFollower s); sum_size (spec_fam l FLearner s)])
  | OGlobal => Some (RoNums [Z.of_nat (length l); Z.of_nat (length l); sum_size l;
                             if (Z.of_nat (length l) =? 0)%Z then 0%Z else Z.quot (sum_size l) (Z.of_nat (length l))])
  | OStoreRegions s => Some (RoRegs (map ref_of (spec_fam l FLeader s ++ spec_fam l FFollower s ++ spec_fam l FLearner s)))
  | OAll => Some (RoRegs (sort_refs (map ref_of l)))
  | ORand1 f st s e dr =>
      (* the pick implied by the current regions and the drawn index: RandomRegion's sampling (proved sound and
         complete for the candidates, see the random-pick theorems of props C07) applied to the key-ordered list of the regions
         that have role f on store st *)
      match random_one (RT (spec_fam l f st) 0) s e dr with
      | Some o => Some (RoReg (oref o))
      | None => None
      end
  | ORandN f st ranges =>
      (* the candidates implied by the current regions; a nil answer is admissible only if every range of the list has no
         candidate interval or an index in its interval whose region is not involved (RandomRegion tries every range of the
         list, in random order, and gives up on a range only for these two reasons) *)
      let '(n, c) := random_many (RT (spec_fam l f st) 0) ranges in Some (RoRandSet n (map ref_of c))
  end.

Definition sig_of (o : rop) : string :=
  match o with
  | OSet _ => "C07:set-region-overlaps-differ-from-linear-scan"
  | ORemove _ => "C07:remove"
  | OGet _ => "C07:get-region-differs-from-cached-set"
  | OSearch _ => "C07:search-differs-from-linear-scan"
  | OSearchPrev _ => "C07:search-prev-differs-from-linear-scan"
  | OScan _ _ _ => "C07:scan-range-differs-from-linear-scan"
  | OOverlaps _ => "C07:overlaps-differ-from-linear-scan"
  | OAdjacent _ => "C07:adjacent-differs-from-linear-scan"
  | OCounts _ => "C07:store-count-or-size-differs-from-current-regions"
  | OGlobal => "C07:indexed-count-or-total-size-differs-from-cached-regions"
  | OStoreRegions _ => "C07:store-regions-differ-from-current-regions"
  | OAll => "C07:cached-set-differs"
  | ORand1 _ _ _ _ _ | ORandN _ _ _ => "C07:random-pick-differs-from-the-candidates-of-the-current-regions"
  end.

Definition op_in_domain (o : rop) : bool :=
  match o with OSet r => wf_region r | _ => true end.

Fixpoint ri_monitor_from (l : spec) (ops : list rop) (obs : list robs) : option string :=
  match ops, obs with
  | o :: ro, b :: rb =>
      match spec_expect l o with
      | Some e => if robs_eqb e b then ri_monitor_from (spec_step l o) ro rb else Some (sig_of o)
      | None => ri_monitor_from (spec_step l o) ro rb
      end
  | _, _ => None
  end.

(* The monitor speaks only about histories inside the domain of the property: every put region has a valid key
   range and a well-formed peer list (wf_region).  Histories of the malformed stream are compared with the model
   (M) but never judged. *)
Definition ri_monitor (ops : list rop) (obs : list robs) : option string :=
  if forallb op_in_domain ops then ri_monitor_from [] ops obs else None.

(* ---------------------------------------------------------------------------------------- *)
(* case files                                                                                 *)
Inductive ccase :=
| CaseBT (degree : Z) (ops : list bop) (obs : list bobs)
         (shapes : list (nat * option (node Z)))       (* node structure of the real tree after some operations *)
| CaseRI (ops : list rop) (obs : list robs).

Definition bt_monitor (ops : list bop) (obs : list bobs) : option string :=
  if forallb (fun b => match b with BoRanks it ix => strictly_incr it && iota_from 0 ix | _ => true end) obs
  then None else Some "C07:btree-rank-or-order-broken".

Inductive cdiff :=
| DiffBT (d : list (nat * option bobs * option bobs))       (* L0 against pkg/btree *)
| DiffBT2 (d : list bt2_diff)                                (* the Gallina B-tree against pkg/btree, shape included *)
| DiffRI (d : list (nat * option robs * option robs)).

Definition check_case (c : ccase) : option cdiff :=
  match c with
  | CaseBT deg ops obs shapes =>
      match diff_at bobs_eqb 0 (bt_run [] ops) obs with
      | [] => match bt2_check 0 (bt2_run (bt_new (Z.to_nat deg)) ops) obs shapes with
              | [] => None
              | d => Some (DiffBT2 d)
              end
      | d => Some (DiffBT d)
      end
  | CaseRI ops obs => match diff_at robs_eqb 0 (ri_run ri_empty ops) obs with [] => None | d => Some (DiffRI d) end
  end.

Fixpoint mismatches_from (n : nat) (cs : list ccase) : list (nat * cdiff) :=
  match cs with
  | [] => []
  | c :: r => match check_case c with
              | None => mismatches_from (S n) r
              | Some d => (n, d) :: mismatches_from (S n) r
              end
  end.
Definition mismatches := mismatches_from 0.

Definition monitor (c : ccase) : option string :=
  match c with
  | CaseBT _ ops obs _ => bt_monitor ops obs
  | CaseRI ops obs => ri_monitor ops obs
  end.

Fixpoint monitor_fails_from (n : nat) (cs : list ccase) : list (nat * string) :=
  match cs with
  | [] => []
  | c :: r => match monitor c with
              | None => monitor_fails_from (S n) r
              | Some sg => (n, sg) :: monitor_fails_from (S n) r
              end
  end.
Definition monitor_fails := monitor_fails_from 0.

(* degree of the trees RegionsInfo builds (regenerated): must be a legal btree degree *)
Definition tree_degree : Z := Gen_C07.defaultBTreeDegree.
