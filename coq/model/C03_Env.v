(* C03/C01 interface — the leadership environment the timestamp model (model/C01_Tso.v) assumes, as a
   labelled transition system of its own: who owns the leader record, and for which members
   "I am the leader and my lease has not expired" currently evaluates to true.
   proof/C03_EnvRefine.v shows that every run of the election model (model/C03_Leader.v) is a run of this
   system; proof/C01_EnvTie.v shows that the timestamp model accepts every label of this system (given
   its bounded-pause hypothesis E4 at elections).  Together: hypothesis E2 of DESIGN.md section 3 is a theorem
   about the election model, not an assumption.  Definitions only. *)
From Coq Require Import Bool Arith.
From PDV Require Import lib.Base.

Record env := Env { eowner : option nat; evalid : nat -> bool }.

Definition env0 : env := Env None (fun _ => false).

Inductive elabel :=
| EElect (m : nat)        (* the campaign transaction of m was applied: the record is m's *)
| EValidOff (m : nat)     (* m stops believing it leads (lease expired locally, closed, crashed) *)
| EValidOn (m : nat)      (* m believes again (keep-alive response extended the local expiry) *)
| EOwnerGone.             (* the record disappears (lease expired on etcd / revoked / guarded delete) *)

Definition eupd (f : nat -> bool) (i : nat) (x : bool) : nat -> bool := fun j => if Nat.eqb j i then x else f j.

Definition estep (e : env) (l : elabel) : option env :=
  match l with
  | EElect m => match eowner e with
                | None => Some (Env (Some m) (eupd (evalid e) m true))
                | Some _ => None                                   (* never over an existing record *)
                end
  | EValidOff m => Some (Env (eowner e) (eupd (evalid e) m false))
  | EValidOn m => match eowner e with
                  | Some o => if Nat.eqb o m then Some (Env (eowner e) (eupd (evalid e) m true)) else None
                  | None => None                                   (* only the owner of the record *)
                  end
  | EOwnerGone => match eowner e with
                  | Some o => if evalid e o then None              (* never under a member that still believes *)
                              else Some (Env None (evalid e))
                  | None => None
                  end
  end.

(* strict execution: every label must be enabled *)
Fixpoint eexec (e : env) (ls : list elabel) : option env :=
  match ls with
  | [] => Some e
  | l :: r => match estep e l with Some e' => eexec e' r | None => None end
  end.

Definition env_eq (a b : env) : Prop := eowner a = eowner b /\ forall m, evalid a m = evalid b m.
